/-
An independent, grammar-level reader of the Prometheus text exposition format (version 0.0.4), written
from the format description, NOT from the repo's writer.  It is the "what Prometheus would see" side of
C08: the round-trip theorems say that what the writer emits is read back as exactly one sample / HELP /
TYPE line with the intended name, labels and value, whatever the user strings were.

All functions are structurally recursive on the input (one character per step), import-free.
-/
namespace MetricsVerif.Expo

def nameStart (c : Char) : Bool := c.isAlpha || c == '_' || c == ':'
def nameChar (c : Char) : Bool := c.isAlphanum || c == '_' || c == ':'
def labelStart (c : Char) : Bool := c.isAlpha || c == '_'
def labelChar (c : Char) : Bool := c.isAlphanum || c == '_'

/-- `[a-zA-Z_:][a-zA-Z0-9_:]*` -/
def IsMetricName : List Char → Bool
  | [] => false
  | c :: cs => nameStart c && cs.all nameChar

/-- `[a-zA-Z_][a-zA-Z0-9_]*` -/
def IsLabelName : List Char → Bool
  | [] => false
  | c :: cs => labelStart c && cs.all labelChar

/-- a sample value / float token: non-empty, no blank, no newline (the number syntax itself is checked
    on the implementation side by parsing it back to bits) -/
def IsToken (v : List Char) : Bool := !v.isEmpty && v.all (fun c => c != ' ' && c != '\n')

structure Sample where
  name : List Char
  labels : List (List Char × List Char)   -- (label name, raw escaped value text between the quotes)
  value : List Char
  deriving DecidableEq, Repr

/-- reader state inside `{ … }` -/
inductive LSt
  | key (acc : List Char)                      -- reading a label name
  | quote (k : List Char)                      -- saw `=`, expecting `"`
  | val (k acc : List Char)                    -- inside the quoted value
  | esc (k acc : List Char)                    -- inside the value, just after a backslash
  | after                                       -- after a closing quote: `,` or `}`

/-- Reads the label block after `{`. Returns the labels and the rest after `}`.
    Escapes allowed inside a value: `\\`, `\"`, `\n`; a raw newline inside a value is an error. -/
def labelsGo : LSt → List (List Char × List Char) → List Char → Option (List (List Char × List Char) × List Char)
  | _, _, [] => none
  | .key acc, ls, c :: cs =>
    if c = '=' then (if IsLabelName acc then labelsGo (.quote acc) ls cs else none)
    else if c = '}' then (if acc.isEmpty then some (ls, cs) else none)   -- `{}` or trailing comma
    else if labelChar c then labelsGo (.key (acc ++ [c])) ls cs
    else none
  | .quote k, ls, c :: cs => if c = '"' then labelsGo (.val k []) ls cs else none
  | .val k acc, ls, c :: cs =>
    if c = '"' then labelsGo .after (ls ++ [(k, acc)]) cs
    else if c = '\\' then labelsGo (.esc k acc) ls cs
    else if c = '\n' then none
    else labelsGo (.val k (acc ++ [c])) ls cs
  | .esc k acc, ls, c :: cs =>
    if c = '\\' ∨ c = '"' ∨ c = 'n' then labelsGo (.val k (acc ++ ['\\', c])) ls cs else none
  | .after, ls, c :: cs =>
    if c = ',' then labelsGo (.key []) ls cs
    else if c = '}' then some (ls, cs)
    else none

/-- split off the longest prefix of metric-name characters -/
def spanName : List Char → List Char × List Char
  | [] => ([], [])
  | c :: cs => if nameChar c then let r := spanName cs; (c :: r.1, r.2) else ([], c :: cs)

/-- the tail of a sample line after name and labels: ` value\n`, nothing after the newline
    (an optional timestamp is not produced by this exporter and is rejected) -/
def parseValue (l : List Char) : Option (List Char) :=
  match l with
  | ' ' :: rest =>
    match rest.reverse with
    | '\n' :: rv => let v := rv.reverse; if IsToken v then some v else none
    | _ => none
  | _ => none

/-- one sample line, including its terminating newline -/
def parseSample (l : List Char) : Option Sample :=
  let (n, rest) := spanName l
  if IsMetricName n then
    match rest with
    | '{' :: r =>
      match labelsGo (.key []) [] r with
      | some (ls, r') => (parseValue r').map (fun v => ⟨n, ls, v⟩)
      | none => none
    | _ => (parseValue rest).map (fun v => ⟨n, [], v⟩)
  else none

/-- docstring of a HELP line: `\\` and `\n` are the escapes; a raw newline ends the line.
    `esc` = the previous character was an unconsumed backslash. -/
def docGo : Bool → List Char → Bool
  | esc, [] => !esc
  | true, c :: cs => (c == '\\' || c == 'n') && docGo false cs
  | false, c :: cs => if c = '\\' then docGo true cs else c != '\n' && docGo false cs

def docOk (l : List Char) : Bool := docGo false l

/-- `# HELP <name> <doc>\n` → (name, raw doc) -/
def parseHelp (l : List Char) : Option (List Char × List Char) :=
  match l with
  | '#' :: ' ' :: 'H' :: 'E' :: 'L' :: 'P' :: ' ' :: r =>
    let (n, rest) := spanName r
    if IsMetricName n then
      match rest with
      | ' ' :: d =>
        match d.reverse with
        | '\n' :: rd => let doc := rd.reverse; if docOk doc then some (n, doc) else none
        | _ => none
      | _ => none
    else none
  | _ => none

def isType (t : List Char) : Bool :=
  t == "counter".toList || t == "gauge".toList || t == "histogram".toList || t == "summary".toList
  || t == "untyped".toList

/-- `# TYPE <name> <type>\n` -/
def parseType (l : List Char) : Option (List Char × List Char) :=
  match l with
  | '#' :: ' ' :: 'T' :: 'Y' :: 'P' :: 'E' :: ' ' :: r =>
    let (n, rest) := spanName r
    if IsMetricName n then
      match rest with
      | ' ' :: d =>
        match d.reverse with
        | '\n' :: rd => let t := rd.reverse; if isType t then some (n, t) else none
        | _ => none
      | _ => none
    else none
  | _ => none

/-- split a text into lines, each keeping its terminating `\n`; a trailing fragment without newline is
    kept as a (malformed) last element -/
def splitLines : List Char → List (List Char)
  | [] => []
  | c :: cs =>
    if c = '\n' then [c] :: splitLines cs
    else match splitLines cs with
      | [] => [[c]]
      | l :: ls => (c :: l) :: ls

end MetricsVerif.Expo
