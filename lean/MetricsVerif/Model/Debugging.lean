/-
Model of `metrics-util/src/debugging.rs` (`DebuggingRecorder`, `Snapshotter::snapshot`) on top of
`Registry<Key, AtomicStorage>` (three maps key ↦ cell) as a sequential state machine:
describe / register / update / snapshot.

Keys.  `Key: Eq/Hash` compares the name and the labels *up to permutation* (metrics/src/key.rs).  The model
identifies a key by its canonical form `canonKey` (labels sorted by label name, stable); this agrees with
`Key::eq` on label lists with pairwise distinct label names — the only ones the correspondence generator
produces (equality of keys with repeated label names is C03's subject).  `seen` remembers, as the
`IndexMap` does, the key *instance* given at the first registration (its label order is what a snapshot
shows).

Numbers.  Counters are `Nat` modulo 2^64 (`fetch_add` wraps, `fetch_max` for absolute).  Gauge and
histogram values are `Prom.Val`: exact dyadics `n/1024` or an opaque bit pattern (never used
arithmetically).  IEEE rounding is outside the model (DESIGN §2).

Histograms.  An `AtomicBucket<f64>` is a chain of blocks of `blockSize = 64` values, newest block first;
`clear_with` hands the blocks over newest first, each in push order, and leaves the bucket empty.
-/
import MetricsVerif.Model.Prom

namespace MetricsVerif.Debugging
open MetricsVerif.Prom MetricsVerif.PromFmt

/-- `MetricKind` -/
inductive Kind
  | counter | gauge | histogram
  deriving DecidableEq, Repr, Inhabited

/-- `CompositeKey` up to `Key::eq`: kind and canonical key -/
abbrev Id := Kind × MKey

/-- insertion of a label into a list sorted by label name (stable: after equal names) -/
def insertLabel (x : Str × Str) : List (Str × Str) → List (Str × Str)
  | [] => [x]
  | y :: ys => if strLt x.1 y.1 then x :: y :: ys else y :: insertLabel x ys

/-- labels sorted by label name (the `sort_by_key(|i| labels[i].key())` of `Key::eq` / `Key::hash`) -/
def canonLabels (ls : List (Str × Str)) : List (Str × Str) := ls.foldr insertLabel []

/-- representative of the `Key::eq` class of a key (label names pairwise distinct) -/
def canonKey (k : MKey) : MKey := ⟨k.name, canonLabels k.labels⟩

/-- `DebugValue` -/
inductive DValue
  | counter (n : Nat)
  | gauge (v : Val)
  | histogram (vs : List Val)
  deriving DecidableEq, Repr

def blockSize : Nat := 64

/-- `AtomicBucket::push` (sequential): blocks newest first; a full newest block gets a new block in front -/
def pushBlock (blocks : List (List Val)) (v : Val) : List (List Val) :=
  match blocks with
  | [] => [[v]]
  | b :: rest => if b.length < blockSize then (b ++ [v]) :: rest else [v] :: b :: rest

/-- the order in which `clear_with` / `data_with` hand the values over -/
def blockOrder (blocks : List (List Val)) : List Val := blocks.flatten

structure St where
  /-- `Inner::seen`: `(kind, key)` in first-registration order, with the key instance given then -/
  seen : List (Id × MKey) := []
  /-- `Inner::metadata`: `(kind, name) ↦ (unit?, description)` -/
  metadata : List ((Kind × Str) × (Option MUnit × Str)) := []
  /-- `Registry` with `AtomicStorage` -/
  counters : List (MKey × Nat) := []
  gauges : List (MKey × Val) := []
  hists : List (MKey × List (List Val)) := []
  deriving Repr

def init : St := {}

inductive Op
  | describe (kind : Kind) (name : Str) (unit : Option MUnit) (desc : Str)
  | register (kind : Kind) (k : MKey)
  | cinc (k : MKey) (n : Nat)
  | cabs (k : MKey) (n : Nat)
  | gset (k : MKey) (v : Val)
  | gadd (k : MKey) (n : Int)          -- increment by n/1024 (decrement = negative)
  | hrec (k : MKey) (v : Val)
  | snapshot
  deriving Repr

/-- the update of `describe_metric`: `entry(rkey).or_insert((None, desc))`, the unit replaced only when one
    is given, the description always -/
def describeUpd (unit : Option MUnit) (desc : Str) (old : Option MUnit × Str) : Option MUnit × Str :=
  (if unit.isSome then unit else old.1, desc)

/-- `DebuggingRecorder::describe_metric` -/
def describeMetric (s : St) (kind : Kind) (name : Str) (unit : Option MUnit) (desc : Str) : St :=
  { s with metadata := upsert s.metadata (kind, name) (none, desc) (describeUpd unit desc) }

/-- `DebuggingRecorder::track_metric`: `IndexMap::insert` keeps position and key of an existing entry -/
def track (s : St) (kind : Kind) (k : MKey) : St :=
  { s with seen := upsert s.seen (kind, canonKey k) k id }

/-- `register_counter` / `register_gauge` / `register_histogram`: `track_metric`, then
    `Registry::get_or_create_*` (a fresh cell is 0 / 0.0 / an empty bucket) -/
def register (s : St) (kind : Kind) (k : MKey) : St :=
  let s := track s kind k
  match kind with
  | .counter => { s with counters := upsert s.counters (canonKey k) 0 id }
  | .gauge => { s with gauges := upsert s.gauges (canonKey k) (.dy 0) id }
  | .histogram => { s with hists := upsert s.hists (canonKey k) [] id }

/-- the value shown for a seen `(kind, key)`; `none` = no handle in the registry -/
def valueOf (s : St) (i : Id) : Option DValue :=
  match i.1 with
  | .counter => (lookup s.counters i.2).map .counter
  | .gauge => (lookup s.gauges i.2).map .gauge
  | .histogram => (lookup s.hists i.2).map (fun bs => .histogram (blockOrder bs))

/-- `metadata.get(&ckn).map(|(u, d)| (u, Some(d))).unwrap_or((None, None))` -/
def metaShown : Option (Option MUnit × Str) → Option MUnit × Option Str
  | some (u, d) => (u, some d)
  | none => (none, none)

/-- unit and description shown for a `(kind, key)`: those stored for `(kind, key.name)` -/
def metaOf (s : St) (i : Id) : Option MUnit × Option Str :=
  metaShown (lookup s.metadata (i.1, i.2.name))

/-- one element of `Snapshot`: `(CompositeKey, Option<Unit>, Option<SharedString>, DebugValue)`;
    `key` is the canonical key, `shown` the instance stored in `seen` -/
structure Entry where
  kind : Kind
  key : MKey
  shown : MKey
  unit : Option MUnit
  desc : Option Str
  value : DValue
  deriving DecidableEq, Repr

/-- body of the loop in `Snapshotter::snapshot` for one element of `seen` -/
def entryOf (s : St) (e : Id × MKey) : Option Entry :=
  (valueOf s e.1).map (fun v => ⟨e.1.1, e.1.2, e.2, (metaOf s e.1).1, (metaOf s e.1).2, v⟩)

def seenHas (s : St) (i : Id) : Bool := (lookup s.seen i).isSome

/-- what `clear_with` leaves of a bucket during a snapshot: only buckets reached through `seen` are drained -/
def drainIf (s : St) (k : MKey) (bs : List (List Val)) : List (List Val) :=
  if seenHas s (.histogram, k) then [] else bs

/-- `Snapshotter::snapshot`: walk `seen` in order, load counters and gauges, drain histograms -/
def snapshot (s : St) : St × List Entry :=
  ({ s with hists := s.hists.map (fun kh => (kh.1, drainIf s kh.1 kh.2)) },
   s.seen.filterMap (entryOf s))

/-- state after one call.  Update ops are "register, then update through the handle"
    (`counter!(…).increment(n)`); re-registering is idempotent (`register_idem`), so an update through a
    handle obtained earlier is the same step. -/
def step (s : St) : Op → St
  | .describe kind name unit desc => describeMetric s kind name unit desc
  | .register kind k => register s kind k
  | .cinc k n =>
    let s := register s .counter k
    { s with counters := upsert s.counters (canonKey k) 0 (fun c => (c + n) % two64) }
  | .cabs k n =>
    let s := register s .counter k
    { s with counters := upsert s.counters (canonKey k) 0 (fun c => max c n) }
  | .gset k v =>
    let s := register s .gauge k
    { s with gauges := upsert s.gauges (canonKey k) (.dy 0) (fun _ => v) }
  | .gadd k n =>
    let s := register s .gauge k
    { s with gauges := upsert s.gauges (canonKey k) (.dy 0) (fun g => g.add n) }
  | .hrec k v =>
    let s := register s .histogram k
    { s with hists := upsert s.hists (canonKey k) [] (fun bs => pushBlock bs v) }
  | .snapshot => (snapshot s).1

/-- what the call returns: a snapshot's entries, nothing for the other calls -/
def output (s : St) : Op → List Entry
  | .snapshot => (snapshot s).2
  | _ => []

def run (s : St) (ops : List Op) : St := ops.foldl step s

/-! ### several recorders: each has its own `Inner` -/

/-- recorders by id -/
abbrev Sys := Nat → St

def sysInit : Sys := fun _ => init

/-- a call addressed to recorder `r` (whatever thread issues it) -/
def sysStep (sys : Sys) (a : Nat × Op) : Sys :=
  fun r => if r = a.1 then step (sys r) a.2 else sys r

def sysOutput (sys : Sys) (a : Nat × Op) : List Entry := output (sys a.1) a.2

def sysRun (sys : Sys) (aops : List (Nat × Op)) : Sys := aops.foldl sysStep sys


/-! ### which recorder a call reaches: `with_recorder` under `with_local_recorder` scopes and a global recorder

`metrics/src/recorder/mod.rs`.  `LOCAL_RECORDER` is a thread-local `Cell<Option<NonNull<dyn Recorder>>>`;
`LocalRecorderGuard::new` replaces it and remembers what was there (`prev_recorder`); `Drop for
LocalRecorderGuard` puts `prev_recorder` back — the destructor runs when the closure of `with_local_recorder`
returns AND when a panic unwinds through it (the flag of `SOp.exit` is therefore not looked at: the model
follows the code).  `with_recorder` (all macros go through it): local, else global, else the no-op recorder.
`DebuggingRecorder::install` = `set_global_recorder(self)`: the first installation wins. -/

abbrev Tid := Nat
abbrev Rid := Nat

/-- function update -/
def upd {α : Type} (f : Nat → α) (t : Nat) (v : α) : Nat → α := fun x => if x = t then v else f x

structure Scopes where
  /-- `LOCAL_RECORDER` of each thread -/
  loc : Tid → Option Rid := fun _ => none
  /-- `prev_recorder` of the guards owned by the running `with_local_recorder` frames (and of guards of
      `set_default_local_recorder` dropped in LIFO order) of each thread, innermost first -/
  frames : Tid → List (Option Rid) := fun _ => []
  /-- `GLOBAL_RECORDER` -/
  global : Option Rid := none

/-- `with_recorder`: the thread's local recorder, else the global one, else `none` = `NOOP_RECORDER` -/
def target (sc : Scopes) (t : Tid) : Option Rid :=
  match sc.loc t with
  | some r => some r
  | none => sc.global

inductive SOp
  /-- `with_local_recorder(&rec_r, || {`  /  `let g = set_default_local_recorder(&rec_r)` -/
  | enter (r : Rid)
  /-- `})` / `drop(g)`: by return (`false`) or by a panic that unwinds through the frame and is caught further
      up on the same thread (`true`) -/
  | exit (unwinding : Bool)
  /-- a call that goes through `with_recorder` (every macro does): it reaches whatever `target` finds -/
  | cur (op : Op)
  /-- a call on the recorder value itself, through a handle obtained earlier, or through its `Snapshotter` -/
  | direct (r : Rid) (op : Op)
  /-- `rec_r.install()` (`set_global_recorder`) -/
  | install (r : Rid)
  deriving Repr

structure SSt where
  sys : Sys := sysInit
  sc : Scopes := {}

def sInit : SSt := {}

/-- `LocalRecorderGuard::new` -/
def scEnter (sc : Scopes) (t : Tid) (r : Rid) : Scopes :=
  { sc with loc := upd sc.loc t (some r), frames := upd sc.frames t (sc.loc t :: sc.frames t) }

/-- `Drop for LocalRecorderGuard` of the innermost frame (no frame: nothing to drop) -/
def scExit (sc : Scopes) (t : Tid) : Scopes :=
  match sc.frames t with
  | [] => sc
  | p :: rest => { sc with loc := upd sc.loc t p, frames := upd sc.frames t rest }

/-- `set_global_recorder`: only the first call installs -/
def scInstall (sc : Scopes) (r : Rid) : Scopes :=
  match sc.global with
  | none => { sc with global := some r }
  | some _ => sc

/-- one call made by thread `t` -/
def sStep (s : SSt) (a : Tid × SOp) : SSt :=
  match a.2 with
  | .enter r => { s with sc := scEnter s.sc a.1 r }
  | .exit _ => { s with sc := scExit s.sc a.1 }
  | .cur op =>
    match target s.sc a.1 with
    | some r => { s with sys := sysStep s.sys (r, op) }
    | none => s
  | .direct r op => { s with sys := sysStep s.sys (r, op) }
  | .install r => { s with sc := scInstall s.sc r }

def sRun (s : SSt) (prog : List (Tid × SOp)) : SSt := prog.foldl sStep s

end MetricsVerif.Debugging
