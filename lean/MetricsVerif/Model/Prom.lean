/-
Model of the Prometheus recorder (metrics-exporter-prometheus/src/recorder.rs, distribution.rs,
metrics-util/src/storage/histogram.rs) as a sequential state machine:
register/update/describe/upkeep/render.

Numbers.  Counter values are `Nat` modulo 2^64 (`fetch_add` wraps, `fetch_max` for absolute).
Gauge / histogram values are exact dyadic rationals `n / 1024` (`Val.dy n`) — the correspondence
generator only produces values whose partial sums are exactly representable in f64, so exact arithmetic
and IEEE arithmetic agree — or an opaque bit pattern (`Val.bits`, for NaN/±∞/extreme `set` values, never
used arithmetically).  IEEE rounding is outside the model (DESIGN §2).

Idle-timeout handling (Recency) is modelled separately (C12); here no timeout is configured.
-/
import MetricsVerif.Model.PromFmt
import MetricsVerif.Model.PromRender

namespace MetricsVerif.Prom
open MetricsVerif.PromFmt MetricsVerif.PromRender

abbrev Str := List Char

inductive Val
  | dy (n : Int)
  | bits (b : Nat)
  deriving DecidableEq, Repr, Inhabited

structure MKey where
  name : Str
  labels : List (Str × Str)
  deriving DecidableEq, Repr

/-- `Matcher`, in the derive(Ord) variant order Full < Prefix < Suffix -/
inductive Matcher
  | full (s : Str)
  | pfx (s : Str)
  | sfx (s : Str)
  deriving DecidableEq, Repr

def Matcher.rank : Matcher → Nat
  | .full _ => 0 | .pfx _ => 1 | .sfx _ => 2
def Matcher.str : Matcher → Str
  | .full s => s | .pfx s => s | .sfx s => s

/-- lexicographic `<` on strings by code point (= byte order of their UTF-8 encodings) -/
def strLt : Str → Str → Bool
  | [], [] => false
  | [], _ :: _ => true
  | _ :: _, [] => false
  | a :: as, b :: bs => if a.toNat < b.toNat then true else if b.toNat < a.toNat then false else strLt as bs

/-- derived `Ord` on `Matcher` -/
def Matcher.lt (a b : Matcher) : Bool :=
  a.rank < b.rank || (a.rank == b.rank && strLt a.str b.str)

def Matcher.isPrefixOf : Str → Str → Bool
  | [], _ => true
  | _ :: _, [] => false
  | a :: as, b :: bs => a == b && Matcher.isPrefixOf as bs

/-- `Matcher::matches` -/
def Matcher.matches (m : Matcher) (name : Str) : Bool :=
  match m with
  | .full s => name == s
  | .pfx s => Matcher.isPrefixOf s name
  | .sfx s => Matcher.isPrefixOf s.reverse name.reverse

/-- `Matcher::sanitized` -/
def Matcher.sanitized : Matcher → Matcher
  | .full s => .full (sanitizeMetricName s)
  | .pfx s => .pfx (sanitizeMetricName s)
  | .sfx s => .sfx (sanitizeMetricName s)

/-- insertion into a list sorted by `Matcher.lt` (the `sort_by` in `DistributionBuilder::new`; keys of a
    HashMap are distinct, so the sorted order is unique) -/
def insertMatcher (x : Matcher × List Int) : List (Matcher × List Int) → List (Matcher × List Int)
  | [] => [x]
  | y :: ys => if Matcher.lt x.1 y.1 then x :: y :: ys else y :: insertMatcher x ys

def sortMatchers (l : List (Matcher × List Int)) : List (Matcher × List Int) :=
  l.foldr insertMatcher []

/-- `PrometheusBuilder::add_global_label` called once per element, in order: `IndexMap::insert` — a repeated
    name keeps its first position and takes the last value -/
def buildGlobals (raw : List (Str × Str)) : List (Str × Str) :=
  raw.foldl (fun m kv => imInsert m kv.1 kv.2) []

/-- `HashMap::insert` of `set_buckets_for_metric` (the matcher is sanitised by the caller): the same matcher given
    again replaces the earlier bounds -/
def insertOverride (m : List (Matcher × List Int)) (x : Matcher × List Int) : List (Matcher × List Int) :=
  match m with
  | [] => [x]
  | y :: ys => if y.1 = x.1 then x :: ys else y :: insertOverride ys x

/-- `PrometheusBuilder::set_buckets_for_metric` called once per element, in order, then `DistributionBuilder::new` -/
def buildOverrides (raw : List (Matcher × List Int)) : List (Matcher × List Int) :=
  sortMatchers ((raw.map (fun mb => (mb.1.sanitized, mb.2))).foldl insertOverride [])

structure Cfg where
  unitSuffix : Bool
  globals : List (Str × Str)
  buckets : Option (List Int)                    -- global bucket bounds
  overrides : List (Matcher × List Int)          -- sanitised and sorted (`DistributionBuilder::new`)
  quantiles : List Str                           -- Display texts of the configured quantiles
  deriving Repr

inductive Dist
  | hist (bounds : List Int) (counts : List Nat) (count : Nat) (sum : Int)
  | summ (count : Nat) (sum : Int)
  deriving DecidableEq, Repr

/-- `Histogram::record` for one sample: sum, count, every bucket whose bound is ≥ the sample -/
def Dist.record (d : Dist) (v : Int) : Dist :=
  match d with
  | .hist bounds counts count sum =>
    .hist bounds ((bounds.zip counts).map (fun bc => if v ≤ bc.1 then bc.2 + 1 else bc.2)) (count + 1) (sum + v)
  | .summ count sum => .summ (count + 1) (sum + v)

def Dist.recordMany (d : Dist) (vs : List Int) : Dist := vs.foldl Dist.record d

/-- `DistributionBuilder::get_distribution` -/
def newDist (cfg : Cfg) (name : Str) : Dist :=
  match cfg.overrides.find? (fun mb => mb.1.matches name) with
  | some (_, bs) => .hist bs (bs.map (fun _ => 0)) 0 0
  | none =>
    match cfg.buckets with
    | some bs => .hist bs (bs.map (fun _ => 0)) 0 0
    | none => .summ 0 0

/-- `DistributionBuilder::get_distribution_type` -/
def distType (cfg : Cfg) (name : Str) : Str :=
  if cfg.buckets.isSome then "histogram".toList
  else if cfg.overrides.any (fun mb => mb.1.matches name) then "histogram".toList
  else "summary".toList

structure St where
  cfg : Cfg
  descs : List (Str × (Str × Option MUnit)) := []        -- sanitised name ↦ first (description, unit)
  counters : List (MKey × Nat) := []
  gauges : List (MKey × Val) := []
  hists : List (MKey × List Int) := []                    -- samples recorded and not yet drained
  dists : List (Str × List (List Str × Dist)) := []       -- name ↦ (formatted labels ↦ distribution)
  deriving Repr

def two64 : Nat := 18446744073709551616

def upsert [DecidableEq κ] (m : List (κ × α)) (k : κ) (dflt : α) (f : α → α) : List (κ × α) :=
  match m with
  | [] => [(k, f dflt)]
  | (k', a) :: rest => if k' = k then (k', f a) :: rest else (k', a) :: upsert rest k dflt f

def lookup [DecidableEq κ] (m : List (κ × α)) (k : κ) : Option α :=
  match m with
  | [] => none
  | (k', a) :: rest => if k' = k then some a else lookup rest k

inductive Op
  | describe (name : Str) (unit : Option MUnit) (desc : Str)
  | cinc (k : MKey) (n : Nat)
  | cabs (k : MKey) (n : Nat)
  | gset (k : MKey) (v : Val)
  | gadd (k : MKey) (n : Int)          -- increment by n/1024 (decrement = negative)
  | hrec (k : MKey) (v : Int)
  | hrecMany (k : MKey) (v : Int) (n : Nat)   -- `Histogram::record_many(v, n)` (default `HistogramFn::record_many`: n × `record`)
  | upkeep
  deriving Repr

def Val.add : Val → Int → Val
  | .dy a, n => .dy (a + n)
  | .bits b, _ => .bits b      -- never exercised: the generator only increments dyadic gauges

/-- `drain_histograms_to_distributions` -/
def drain (s : St) : St :=
  let dists := s.hists.foldl (fun ds (kh : MKey × List Int) =>
      let (name, labels) := keyToParts kh.1.name kh.1.labels s.cfg.globals
      upsert ds name [] (fun byLabels => upsert byLabels labels (newDist s.cfg name) (fun d => d.recordMany kh.2)))
    s.dists
  { s with dists := dists, hists := s.hists.map (fun kh => (kh.1, [])) }

def step (s : St) : Op → St
  | .describe name unit desc =>
    let n := sanitizeMetricName name
    match lookup s.descs n with
    | some _ => s
    | none => { s with descs := s.descs ++ [(n, (desc, unit))] }
  | .cinc k n => { s with counters := upsert s.counters k 0 (fun c => (c + n) % two64) }
  | .cabs k n => { s with counters := upsert s.counters k 0 (fun c => max c n) }
  | .gset k v => { s with gauges := upsert s.gauges k (.dy 0) (fun _ => v) }
  | .gadd k n => { s with gauges := upsert s.gauges k (.dy 0) (fun g => g.add n) }
  | .hrec k v => { s with hists := upsert s.hists k [] (fun p => p ++ [v]) }
  | .hrecMany k v n => { s with hists := upsert s.hists k [] (fun p => p ++ List.replicate n v) }
  | .upkeep => drain s

/-! ### rendering -/

def natText (n : Nat) : Str := (toString n).toList
def intTok (n : Int) : Str := 'd' :: (toString n).toList
def Val.tok : Val → Str
  | .dy n => intTok n
  | .bits b => 'b' :: (toString b).toList

/-- group `(key ↦ value)` entries into families by sanitised name, keeping first-seen order -/
def groupFamilies (entries : List (MKey × Str)) (globals : List (Str × Str)) : List (Str × List Series) :=
  entries.foldl (fun fams kv =>
      let (name, labels) := keyToParts kv.1.name kv.1.labels globals
      upsert fams name [] (fun ss => ss ++ [⟨labels, .scalar kv.2⟩]))
    []

def distSeries (quantiles : List Str) (labels : List Str) : Dist → Series
  | .hist bounds counts count sum =>
    ⟨labels, .hist ((bounds.zip counts).map (fun bc => (intTok bc.1, natText bc.2))) (natText count) (intTok sum)⟩
  | .summ count sum =>
    ⟨labels, .summ (quantiles.map (fun q => (q, ['q']))) (intTok sum) (natText count)⟩

/-- `Inner::render` (after `get_recent_metrics`, i.e. on the drained state): the families in the order
    counters, gauges, distributions -/
def renderLines (s0 : St) : St × List (List Line) :=
  let s := drain s0
  let desc (name : Str) := lookup s.descs name
  let cf := groupFamilies (s.counters.map (fun kv => (kv.1, natText kv.2))) s.cfg.globals
  let gf := groupFamilies (s.gauges.map (fun kv => (kv.1, kv.2.tok))) s.cfg.globals
  let fams :=
    cf.map (fun f => renderFamily s.cfg.unitSuffix f.1 (desc f.1) "counter".toList f.2)
    ++ gf.map (fun f => renderFamily s.cfg.unitSuffix f.1 (desc f.1) "gauge".toList f.2)
    ++ s.dists.map (fun f => renderFamily s.cfg.unitSuffix f.1 (desc f.1) (distType s.cfg f.1)
          (f.2.map (fun ld => distSeries s.cfg.quantiles ld.1 ld.2)))
  (s, fams)

end MetricsVerif.Prom
