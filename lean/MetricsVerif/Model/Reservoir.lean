/-
Model of `metrics-util/src/storage/reservoir.rs` (`Reservoir`, `Drain`, `AtomicSamplingReservoir`) as a
sequential state machine.

Values are the `u64` bit patterns the code stores (`f64::to_bits`), as `Nat`; the control flow of the code never
looks at them.  The random choice of `fastrand(upper)` is an input of `push`: the caller passes a raw number `c`,
the choice is `c % upper` (any value of `0..upper` can be scripted that way).  `fastrand(0)` panics in the code
(`random_range(0..0)`: "cannot sample empty range"); the model records that in the sticky flag `panicked`
(the `fetch_add` on `count` has already happened at that point, as in the code).

`pushWith arg` is `Reservoir::push` with the argument handed to `fastrand` left open: the repaired code asks
for `fastrandArg idx = idx + 1` (`push`), the code before the repair asked for `idx` (`pushOld`, kept only for
the defect witnesses in `Props/C16.lean`).

Concurrency (a push overlapping `consume`) is not part of this model; see the known finding K-C16-straddle.
-/
namespace MetricsVerif.Reservoir

/-- `struct Reservoir { values: Box<[AtomicU64]>, count: AtomicUsize }` (+ the panic flag of the model) -/
structure Res where
  slots : List Nat
  count : Nat
  panicked : Bool := false
  deriving DecidableEq, Repr

/-- `Reservoir::with_capacity`: `capacity` zeroed slots, count 0 -/
def Res.new (cap : Nat) : Res := { slots := List.replicate cap 0, count := 0 }

/-- the argument `Reservoir::push` hands to `fastrand` for the push that claimed index `idx`
    (repaired code: `fastrand(idx + 1)`, i.e. a choice from `0..=idx`) -/
def fastrandArg (idx : Nat) : Nat := idx + 1

/-- `Reservoir::push`, with the `fastrand` argument as a parameter. `c` is the raw scripted random number. -/
def Res.pushWith (arg : Nat → Nat) (r : Res) (v c : Nat) : Res :=
  let idx := r.count                                   -- count.fetch_add(1)
  if idx < r.slots.length then
    { r with slots := r.slots.set idx v, count := idx + 1 }
  else
    let upper := arg idx
    if upper = 0 then
      { r with count := idx + 1, panicked := true }    -- random_range(0..0) panics
    else
      let j := c % upper                               -- fastrand(upper)
      if j < r.slots.length then
        { r with slots := r.slots.set j v, count := idx + 1 }
      else
        { r with count := idx + 1 }

/-- `Reservoir::push` of the current (repaired) code -/
def Res.push (r : Res) (v c : Nat) : Res := r.pushWith fastrandArg v c

/-- `Reservoir::push` as it was before the repair: `fastrand(idx)` -/
def Res.pushOld (r : Res) (v c : Nat) : Res := r.pushWith (fun idx => idx) v c

/-- what the code asks the generator for on the next push: `none` when `fastrand` is not called -/
def Res.nextUpper (r : Res) : Option Nat :=
  if r.count < r.slots.length then none else some (fastrandArg r.count)

/-- `Drain` after `Reservoir::drain`: the values the iterator yields, `unsampled_len`, `len` -/
structure DrainOut where
  values : List Nat
  unsampled : Nat
  len : Nat
  deriving DecidableEq, Repr

/-- `Reservoir::drain` + the whole iteration of `Drain` -/
def Res.drain (r : Res) : DrainOut :=
  let unsampled := r.count
  let len := if unsampled > r.slots.length then r.slots.length else unsampled
  { values := r.slots.take len, unsampled, len }

/-- `Drain::sample_rate` as an exact fraction `(numerator, denominator)`; the code computes
    `1.0` resp. `len as f64 / unsampled_len as f64` -/
def DrainOut.rate (d : DrainOut) : Nat × Nat :=
  if d.unsampled = d.len then (1, 1) else (d.len, d.unsampled)

/-- `Drain::drop`: `count.store(0)`; the slots keep their stale contents -/
def Res.reset (r : Res) : Res := { r with count := 0 }

/-- `struct AtomicSamplingReservoir { primary, secondary, use_primary, swap }` -/
structure ASR where
  primary : Res
  secondary : Res
  usePrimary : Bool
  deriving DecidableEq, Repr

/-- `AtomicSamplingReservoir::new` -/
def ASR.new (cap : Nat) : ASR := { primary := Res.new cap, secondary := Res.new cap, usePrimary := true }

/-- the reservoir pushes currently go to -/
def ASR.active (a : ASR) : Res := if a.usePrimary then a.primary else a.secondary
/-- the other one -/
def ASR.inactive (a : ASR) : Res := if a.usePrimary then a.secondary else a.primary

/-- `AtomicSamplingReservoir::is_empty` -/
def ASR.isEmpty (a : ASR) : Bool := a.active.count == 0

/-- `AtomicSamplingReservoir::push` -/
def ASR.push (a : ASR) (v c : Nat) : ASR :=
  if a.usePrimary then { a with primary := a.primary.push v c }
  else { a with secondary := a.secondary.push v c }

/-- `AtomicSamplingReservoir::consume` with a closure that lets the `Drain` run its course and drops it:
    flip `use_primary`, drain the previously active reservoir, reset its count (`Drain::drop`). -/
def ASR.consume (a : ASR) : ASR × DrainOut :=
  if a.usePrimary then
    ({ a with usePrimary := false, primary := a.primary.reset }, a.primary.drain)
  else
    ({ a with usePrimary := true, secondary := a.secondary.reset }, a.secondary.drain)

/-- `AtomicSamplingReservoir::consume` with a closure that leaks the `Drain` (`mem::forget`): the sides are swapped and
    the retired side is read, but `Drain::drop` never runs, so its count is NOT reset -/
def ASR.consumeForget (a : ASR) : ASR × DrainOut :=
  ({ a with usePrimary := !a.usePrimary }, a.active.drain)

/-- operations of a sequential history -/
inductive Op
  | push (v c : Nat)
  | consume
  deriving DecidableEq, Repr

def step (a : ASR) : Op → ASR
  | .push v c => a.push v c
  | .consume => a.consume.1

def run (a : ASR) (ops : List Op) : ASR := ops.foldl step a

/-- values pushed since the last `consume` of a history (the specification-side ghost) -/
def pendStep (p : List Nat) : Op → List Nat
  | .push v _ => p ++ [v]
  | .consume => []

def pendOf (ops : List Op) : List Nat := ops.foldl pendStep []

/-! ### stream positions and choice vectors (used by the uniformity theorem and the `enum` driver op) -/

/-- a reservoir of capacity `cap` after the first `cap` pushes of a stream whose values are their own stream
    positions `0, 1, …` (no random choice is consulted for these) -/
def filled (cap : Nat) : Res :=
  (List.range cap).foldl (fun r _ => r.push r.count 0) (Res.new cap)

/-- … and after the further pushes `cap, cap+1, …`, one per entry of the choice vector `cs` -/
def runChoices (cap : Nat) (cs : List Nat) : Res :=
  cs.foldl (fun r c => r.push r.count c) (filled cap)

/-- stream positions a drain yields after `cap + cs.length` pushes made with the choices `cs` -/
def retained (cap : Nat) (cs : List Nat) : List Nat := (runChoices cap cs).drain.values

/-- all choice vectors for the pushes `cap, …, cap + extra - 1`: the choice for the push that claims index
    `m` ranges over exactly what the code asks the generator for, `0 .. fastrandArg m` -/
def vectors (cap : Nat) : Nat → List (List Nat)
  | 0 => [[]]
  | e + 1 => (vectors cap e).flatMap (fun cs => (List.range (fastrandArg (cap + e))).map (fun j => cs ++ [j]))

/-- number of choice vectors under which stream position `i` is retained -/
def retainCount (cap extra i : Nat) : Nat :=
  (vectors cap extra).countP (fun cs => decide (i ∈ retained cap cs))

end MetricsVerif.Reservoir
