/-
Model of `metrics-util/src/storage/reservoir.rs` (`Reservoir`, `Drain`, `AtomicSamplingReservoir`) as a
sequential state machine.

Values are the `u64` bit patterns the code stores (`f64::to_bits`), as `Nat`; the control flow of the code never
looks at them.  The random choice of `fastrand(upper)` is an input of `push`: the caller passes a raw number `c`,
the choice is `c % upper` (any value of `0..upper` can be scripted that way).  `fastrand(0)` panics in the code
(`random_range(0..0)`: "cannot sample empty range"); the model records that in the sticky flag `panicked`
(the `fetch_add` on `count` has already happened at that point, as in the code).

`pushWith arg` is `Reservoir::push` with the argument handed to `fastrand` left open: the repaired code asks
for `fastrandArg idx = idx + 1` (`push`), the code before the repair asked for `idx` (`pushOld`, kept only for
the defect witnesses in `Props/C16.lean`).

Concurrency (a push overlapping `consume`) is not part of this model; see the known finding K-C16-straddle.
-/
namespace MetricsVerif.Reservoir

/-- `struct Reservoir { values: Box<[AtomicU64]>, count: AtomicUsize }` (+ the panic flag of the model) -/
structure Res where
  slots : List Nat
  count : Nat
  panicked : Bool := false
  deriving DecidableEq, Repr

/-- `Reservoir::with_capacity`: `capacity` zeroed slots, count 0 -/
def Res.new (cap : Nat) : Res := { slots := List.replicate cap 0, count := 0 }

/-- the argument `Reservoir::push` hands to `fastrand` for the push that claimed index `idx`
    (repaired code: `fastrand(idx + 1)`, i.e. a choice from `0..=idx`) -/
def fastrandArg (idx : Nat) : Nat := idx + 1

/-- `Reservoir::push`, with the `fastrand` argument as a parameter. `c` is the raw scripted random number. -/
def Res.pushWith (arg : Nat → Nat) (r : Res) (v c : Nat) : Res :=
  let idx := r.count                                   -- count.fetch_add(1)
  if idx < r.slots.length then
    { r with slots := r.slots.set idx v, count := idx + 1 }
  else
    let upper := arg idx
    if upper = 0 then
      { r with count := idx + 1, panicked := true }    -- random_range(0..0) panics
    else
      let j := c % upper                               -- fastrand(upper)
      if j < r.slots.length then
        { r with slots := r.slots.set j v, count := idx + 1 }
      else
        { r with count := idx + 1 }

/-- `Reservoir::push` of the current (repaired) code -/
def Res.push (r : Res) (v c : Nat) : Res := r.pushWith fastrandArg v c

/-- `Reservoir::push` as it was before the repair: `fastrand(idx)` -/
def Res.pushOld (r : Res) (v c : Nat) : Res := r.pushWith (fun idx => idx) v c

/-- what the code asks the generator for on the next push: `none` when `fastrand` is not called -/
def Res.nextUpper (r : Res) : Option Nat :=
  if r.count < r.slots.length then none else some (fastrandArg r.count)

/-- `Drain` after `Reservoir::drain`: the values the iterator yields, `unsampled_len`, `len` -/
structure DrainOut where
  values : List Nat
  unsampled : Nat
  len : Nat
  deriving DecidableEq, Repr

/-- `Reservoir::drain` + the whole iteration of `Drain` -/
def Res.drain (r : Res) : DrainOut :=
  let unsampled := r.count
  let len := if unsampled > r.slots.length then r.slots.length else unsampled
  { values := r.slots.take len, unsampled, len }

/-- `Drain::sample_rate` as an exact fraction `(numerator, denominator)`; the code computes
    `1.0` resp. `len as f64 / unsampled_len as f64` -/
def DrainOut.rate (d : DrainOut) : Nat × Nat :=
  if d.unsampled = d.len then (1, 1) else (d.len, d.unsampled)

/-- `Drain::drop`: `count.store(0)`; the slots keep their stale contents -/
def Res.reset (r : Res) : Res := { r with count := 0 }

/-- `struct AtomicSamplingReservoir { primary, secondary, use_primary, swap }` -/
structure ASR where
  primary : Res
  secondary : Res
  usePrimary : Bool
  deriving DecidableEq, Repr

/-- `AtomicSamplingReservoir::new` -/
def ASR.new (cap : Nat) : ASR := { primary := Res.new cap, secondary := Res.new cap, usePrimary := true }

/-- the reservoir pushes currently go to -/
def ASR.active (a : ASR) : Res := if a.usePrimary then a.primary else a.secondary
/-- the other one -/
def ASR.inactive (a : ASR) : Res := if a.usePrimary then a.secondary else a.primary

/-- `AtomicSamplingReservoir::is_empty` -/
def ASR.isEmpty (a : ASR) : Bool := a.active.count == 0

/-- `AtomicSamplingReservoir::push` -/
def ASR.push (a : ASR) (v c : Nat) : ASR :=
  if a.usePrimary then { a with primary := a.primary.push v c }
  else { a with secondary := a.secondary.push v c }

/-- `AtomicSamplingReservoir::consume` with a closure that lets the `Drain` run its course and drops it:
    flip `use_primary`, drain the previously active reservoir, reset its count (`Drain::drop`). -/
def ASR.consume (a : ASR) : ASR × DrainOut :=
  if a.usePrimary then
    ({ a with usePrimary := false, primary := a.primary.reset }, a.primary.drain)
  else
    ({ a with usePrimary := true, secondary := a.secondary.reset }, a.secondary.drain)

/-- `AtomicSamplingReservoir::consume` with a closure that leaks the `Drain` (`mem::forget`): the sides are swapped and
    the retired side is read, but `Drain::drop` never runs, so its count is NOT reset -/
def ASR.consumeForget (a : ASR) : ASR × DrainOut :=
  ({ a with usePrimary := !a.usePrimary }, a.active.drain)

/-- operations of a sequential history -/
inductive Op
  | push (v c : Nat)
  | consume
  deriving DecidableEq, Repr

def step (a : ASR) : Op → ASR
  | .push v c => a.push v c
  | .consume => a.consume.1

def run (a : ASR) (ops : List Op) : ASR := ops.foldl step a

/-- values pushed since the last `consume` of a history (the specification-side ghost) -/
def pendStep (p : List Nat) : Op → List Nat
  | .push v _ => p ++ [v]
  | .consume => []

def pendOf (ops : List Op) : List Nat := ops.foldl pendStep []

/-! ### stream positions and choice vectors (used by the uniformity theorem and the `enum` driver op) -/

/-- a reservoir of capacity `cap` after the first `cap` pushes of a stream whose values are their own stream
    positions `0, 1, …` (no random choice is consulted for these) -/
def filled (cap : Nat) : Res :=
  (List.range cap).foldl (fun r _ => r.push r.count 0) (Res.new cap)

/-- … and after the further pushes `cap, cap+1, …`, one per entry of the choice vector `cs` -/
def runChoices (cap : Nat) (cs : List Nat) : Res :=
  cs.foldl (fun r c => r.push r.count c) (filled cap)

/-- stream positions a drain yields after `cap + cs.length` pushes made with the choices `cs` -/
def retained (cap : Nat) (cs : List Nat) : List Nat := (runChoices cap cs).drain.values

/-- all choice vectors for the pushes `cap, …, cap + extra - 1`: the choice for the push that claims index
    `m` ranges over exactly what the code asks the generator for, `0 .. fastrandArg m` -/
def vectors (cap : Nat) : Nat → List (List Nat)
  | 0 => [[]]
  | e + 1 => (vectors cap e).flatMap (fun cs => (List.range (fastrandArg (cap + e))).map (fun j => cs ++ [j]))

/-- number of choice vectors under which stream position `i` is retained -/
def retainCount (cap extra i : Nat) : Nat :=
  (vectors cap extra).countP (fun cs => decide (i ∈ retained cap cs))

/-! ### `Drain` as an iterator OBJECT (round 6): `next`, `ExactSizeIterator::len`, and the `Iterator` default methods

`impl Iterator for Drain` defines `next` only (pinned by `src_drain_iterator_inventory`), so `nth`, `count`, `last`,
`fold`/`sum`, `collect`, `size_hint` are the trait's DEFAULT methods: loops over `next`.  They are modelled as such. -/

/-- `struct Drain { reservoir, unsampled_len, len, idx }` (the slots it reads are those of the retired side) -/
structure DrainIt where
  slots : List Nat
  unsampled : Nat
  len : Nat
  idx : Nat
  deriving DecidableEq, Repr

/-- `Reservoir::drain`: the `Drain` object before anything was read -/
def Res.drainIt (r : Res) : DrainIt :=
  { slots := r.slots, unsampled := r.count,
    len := if r.count > r.slots.length then r.slots.length else r.count, idx := 0 }

/-- `Drain::next`: `if self.idx < self.len { load slot idx; idx += 1; Some } else { None }` — no rewind -/
def DrainIt.next (d : DrainIt) : DrainIt × Option Nat :=
  if d.idx < d.len then ({ d with idx := d.idx + 1 }, some (d.slots.getD d.idx 0)) else (d, none)

/-- `ExactSizeIterator::len` of `Drain`: `self.len - self.idx` -/
def DrainIt.remaining (d : DrainIt) : Nat := d.len - d.idx

/-- `Drain::sample_rate` of the object (does not depend on `idx`) -/
def DrainIt.rate (d : DrainIt) : Nat × Nat :=
  if d.unsampled = d.len then (1, 1) else (d.len, d.unsampled)

/-- `Iterator::advance_by(k)` (default): up to `k` calls of `next`, stopping at the first `None` -/
def DrainIt.advance : Nat → DrainIt → DrainIt
  | 0, d => d
  | k + 1, d =>
    match d.next with
    | (d', some _) => DrainIt.advance k d'
    | (d', none) => d'

/-- `Iterator::nth(k)` (default): `advance_by(k)`, then `next()` -/
def DrainIt.nth (d : DrainIt) (k : Nat) : DrainIt × Option Nat := (d.advance k).next

/-- the loop `while let Some(v) = it.next()` with `fuel` iterations at most: the values seen and the iterator left -/
def DrainIt.pull : Nat → DrainIt → DrainIt × List Nat
  | 0, d => (d, [])
  | f + 1, d =>
    match d.next with
    | (d', some v) => let (d'', vs) := DrainIt.pull f d'; (d'', v :: vs)
    | (d', none) => (d', [])

/-- `collect()` / `fold` / `for v in drain` (defaults): every value `next` still yields.  `remaining + 1` iterations
    are enough for the loop to see its `None` (`pullAll_exhausts`). -/
def DrainIt.pullAll (d : DrainIt) : DrainIt × List Nat := DrainIt.pull (d.remaining + 1) d

/-- what a consume closure may do with the `Drain` before it drops it -/
inductive ItOp
  | next
  | nth (k : Nat)
  | len
  | rate
  | collect          -- `by_ref().collect()`, `by_ref().count()`, `by_ref().last()`, `by_ref().sum()`, `for v in &mut drain`
  deriving DecidableEq, Repr

/-- one closure step: the iterator afterwards and the values handed to the closure by this step -/
def DrainIt.stepIt (d : DrainIt) : ItOp → DrainIt × List Nat
  | .next => match d.next with | (d', some v) => (d', [v]) | (d', none) => (d', [])
  | .nth k => match d.nth k with | (d', some v) => (d', [v]) | (d', none) => (d', [])
  | .len => (d, [])
  | .rate => (d, [])
  | .collect => d.pullAll

/-- a whole closure script: all values handed out, in order -/
def DrainIt.runIt : DrainIt → List ItOp → DrainIt × List Nat
  | d, [] => (d, [])
  | d, op :: ops =>
    let (d', vs) := d.stepIt op
    let (d'', ws) := DrainIt.runIt d' ops
    (d'', vs ++ ws)

/-! ### the DogStatsD builder's sampling configuration (metrics-exporter-dogstatsd/src/builder.rs → state.rs → storage.rs) -/

/-- `const DEFAULT_HISTOGRAM_RESERVOIR_SIZE: usize = 1024` -/
def defaultReservoirSize : Nat := 1024

/-- the two fields of `DogStatsDBuilder` that decide the histogram storage -/
structure Builder where
  sampling : Bool
  size : Nat
  deriving DecidableEq, Repr

/-- `impl Default for DogStatsDBuilder`: `histogram_sampling: false` (the CODE; the setter's doc comment says
    "Defaults to `true`"), `histogram_reservoir_size: DEFAULT_HISTOGRAM_RESERVOIR_SIZE` -/
def Builder.default : Builder := { sampling := false, size := defaultReservoirSize }

/-- builder calls that touch the sampling configuration -/
inductive BOp
  | sampling (b : Bool)      -- `with_histogram_sampling(b)`
  | size (n : Nat)           -- `with_histogram_reservoir_size(n)`
  deriving DecidableEq, Repr

def Builder.apply (b : Builder) : BOp → Builder
  | .sampling x => { b with sampling := x }
  | .size n => { b with size := n }

def Builder.configure (ops : List BOp) : Builder := ops.foldl Builder.apply Builder.default

/-- `enum AtomicHistogram { Raw(AtomicBucket), Sampled(AtomicSamplingReservoir) }` (the raw bucket is C05/C07's) -/
inductive Hist
  | raw
  | sampled (a : ASR)
  deriving DecidableEq, Repr

/-- `build()` copies both fields into `StateConfiguration`, `State::new` hands them to
    `ClientSideAggregatedStorage::new`, whose `histogram()` calls `AtomicHistogram::new(sampling, reservoir_size)` -/
def Builder.histogram (b : Builder) : Hist := if b.sampling then .sampled (ASR.new b.size) else .raw

/-- the last `with_histogram_sampling` argument of a call chain (`none`: never called) -/
def lastSampling : List BOp → Option Bool
  | [] => none
  | .sampling x :: ops => (lastSampling ops).or (some x)
  | .size _ :: ops => lastSampling ops

/-- the last `with_histogram_reservoir_size` argument of a call chain -/
def lastSize : List BOp → Option Nat
  | [] => none
  | .size n :: ops => (lastSize ops).or (some n)
  | .sampling _ :: ops => lastSize ops

end MetricsVerif.Reservoir
