import MetricsVerif.Model.Sched
/-
Model of the client-side aggregation of the DogStatsD exporter for ONE counter key
(metrics-exporter-dogstatsd/src/storage.rs: `AtomicCounter::{increment, absolute, flush}`; state.rs: the idle
logic of `State::flush` with its `FlushState`), as a step machine at the granularity of one atomic operation;
PC names = the `metrics::verif::point` ids in storage.rs.

  increment(n): agg.cinc.store_abs → agg.cinc.add_current → agg.cinc.add_updates
  absolute(v):  agg.cabs.swap_abs → [agg.cabs.store_last] → agg.cabs.store_current → agg.cabs.add_updates
  flush:        agg.cflush.load_current → agg.cflush.swap_last → agg.cflush.swap_updates (+ the send decision,
                which is local to the flusher: `FlushState` is `&mut`, there is exactly one flusher)

The send decision is the one of the `fix:` commit "decide counter idleness on the flushed delta": a zero
delta is sent once and then skipped until a non-zero delta is seen; a non-zero delta is always sent.
`legacy := true` gives the decision of the code before that commit (idleness decided on the `updates`
count), kept for the witness theorem.

Ghost state: `applied` (sum of increments whose `fetch_add` on `current` has executed), `marks` (value of
`applied` at each flush's load of `current`, newest first), `outcomes` (the delta every flush computed and
whether it was written to the payload writer, newest first).
-/
namespace MetricsVerif.StatsdAgg

def M : Nat := 18446744073709551616      -- 2^64

inductive Call
  | inc (n : Nat)
  | abs (v : Nat)
  | flush
  deriving Repr, DecidableEq

inductive PC
  | start
  | iStoreAbs | iAddCurrent | iAddUpdates
  | aSwapAbs | aStoreLast | aStoreCurrent | aAddUpdates
  | fLoadCurrent | fSwapLast | fSwapUpdates
  | done
  deriving Repr, DecidableEq

structure Thread where
  calls : List Call
  pc : PC
  tmpC : Nat := 0          -- flusher: value of `current` it loaded
  tmpDelta : Nat := 0      -- flusher: delta it computed
  deriving Repr, DecidableEq

structure Sys where
  legacy : Bool
  isAbs : Bool
  last : Nat
  current : Nat
  updates : Nat
  idle : Bool                -- FlushState::idle_counters contains the key
  applied : Nat              -- ghost
  marks : List Nat           -- ghost
  outcomes : List (Nat × Bool)   -- ghost: (delta computed by a flush, was it written?), newest first
  threads : List Thread
  deriving Repr, DecidableEq

def pcOfCall : Call → PC
  | .inc _ => .iStoreAbs
  | .abs _ => .aSwapAbs
  | .flush => .fLoadCurrent

def startPC : List Call → PC
  | [] => .done
  | c :: _ => pcOfCall c

def Thread.advance (t : Thread) : Thread := { t with calls := t.calls.tail, pc := startPC t.calls.tail }

def mkThread (calls : List Call) : Thread := { calls, pc := .start }

def init (legacy : Bool) (progs : List (List Call)) : Sys :=
  { legacy, isAbs := false, last := 0, current := 0, updates := 0, idle := false, applied := 0, marks := [],
    outcomes := [], threads := progs.map mkThread }

def curArg (t : Thread) : Nat := match t.calls with | .inc n :: _ => n | .abs v :: _ => v | _ => 0

/-- the send decision of `State::flush` for a counter with flushed `(delta, updates)` -/
def decide (legacy : Bool) (idle : Bool) (delta updates : Nat) : Bool × Bool :=   -- (send?, new idle)
  let quiet := if legacy then updates == 0 else delta == 0
  if quiet then (if idle then (false, true) else (true, true)) else (true, false)

def stepThread (s : Sys) (t : Thread) : Sys × Thread :=
  match t.pc with
  | .start => (s, { t with pc := startPC t.calls })
  | .done => (s, t)
  | .iStoreAbs => ({ s with isAbs := false }, { t with pc := .iAddCurrent })
  | .iAddCurrent =>
    ({ s with current := (s.current + curArg t) % M, applied := s.applied + curArg t }, { t with pc := .iAddUpdates })
  | .iAddUpdates => ({ s with updates := (s.updates + 1) % M }, t.advance)
  | .aSwapAbs =>
    if s.isAbs then (s, { t with pc := .aStoreCurrent })
    else ({ s with isAbs := true }, { t with pc := .aStoreLast })
  | .aStoreLast => ({ s with last := curArg t % M }, { t with pc := .aStoreCurrent })
  | .aStoreCurrent => ({ s with current := curArg t % M }, { t with pc := .aAddUpdates })
  | .aAddUpdates => ({ s with updates := (s.updates + 1) % M }, t.advance)
  | .fLoadCurrent => ({ s with marks := s.applied :: s.marks }, { t with tmpC := s.current, pc := .fSwapLast })
  | .fSwapLast =>
    ({ s with last := t.tmpC }, { t with tmpDelta := (t.tmpC + M - s.last) % M, pc := .fSwapUpdates })
  | .fSwapUpdates =>
    let (send, idle') := decide s.legacy s.idle t.tmpDelta s.updates
    ({ s with updates := 0, idle := idle', outcomes := (t.tmpDelta, send) :: s.outcomes }, t.advance)

def step (s : Sys) (tid : Nat) : Sys :=
  match s.threads[tid]? with
  | none => s
  | some t =>
    let (s', t') := stepThread s t
    { s' with threads := setAt s'.threads tid t' }

def run (s : Sys) (sched : List Nat) : Sys := sched.foldl step s

/-- deltas actually written, oldest first -/
def sent (s : Sys) : List Nat := (s.outcomes.reverse.filter (·.2)).map (·.1)
def sentSum (s : Sys) : Nat := ((s.outcomes.filter (·.2)).map (·.1)).sum

def PC.label : PC → String
  | .start => "start" | .done => "done"
  | .iStoreAbs => "agg.cinc.store_abs" | .iAddCurrent => "agg.cinc.add_current" | .iAddUpdates => "agg.cinc.add_updates"
  | .aSwapAbs => "agg.cabs.swap_abs" | .aStoreLast => "agg.cabs.store_last"
  | .aStoreCurrent => "agg.cabs.store_current" | .aAddUpdates => "agg.cabs.add_updates"
  | .fLoadCurrent => "agg.cflush.load_current" | .fSwapLast => "agg.cflush.swap_last"
  | .fSwapUpdates => "agg.cflush.swap_updates"

/-! ### the K-C10-abs-race window, as a predicate on the schedule

The `absolute` that switches the counter into absolute mode stores `last := v` (`agg.cabs.store_last`) and then
`current := v` (`agg.cabs.store_current`).  A flush is IN THE WINDOW when its pair (load of `current`, swap of `last`)
overlaps that pair of stores: the load is taken before the `current` store and the swap after the `last` store.  The
overlap begins either with the `last` store (a flusher sits between its load and its swap) or with a load (taken while
the updater sits between the two stores, `mid`); `absRaceStep` flags these steps, `absRaceCount` counts them along a
schedule (ghost flag `mid` threaded next to `run`; ONE updater thread). -/

/-- the step thread `tid` is about to take (`done` for a thread that does not exist) -/
def pcOf (s : Sys) (tid : Nat) : PC :=
  match s.threads[tid]? with
  | some t => t.pc
  | none => .done

/-- is some thread between a flush's load of `current` and its swap of `last`? -/
def flushMid (s : Sys) : Bool := s.threads.any (fun t => t.pc == PC.fSwapLast)

/-- **window step**: the step about to be taken makes a flush overlap the two stores of the mode-switching
    `absolute` -/
def absRaceStep (s : Sys) (mid : Bool) (tid : Nat) : Bool :=
  match pcOf s tid with
  | .aStoreLast => flushMid s
  | .fLoadCurrent => mid
  | _ => false

/-- the ghost flag after the step: set by the `last` store, cleared by the next `current` store -/
def midAfter (s : Sys) (mid : Bool) (tid : Nat) : Bool :=
  match pcOf s tid with
  | .aStoreLast => true
  | .aStoreCurrent => false
  | _ => mid

/-- number of window steps along a schedule -/
def absRaceCount : Sys → Bool → List Nat → Nat
  | _, _, [] => 0
  | s, mid, tid :: rest =>
    (if absRaceStep s mid tid then 1 else 0) + absRaceCount (step s tid) (midAfter s mid tid) rest

/-! ### gauges: `set` = store + updates bump; `flush` = load + swap(updates); every flush sends what it loaded -/

inductive GCall
  | set (bits : Nat)
  | flush
  deriving Repr, DecidableEq

/-- sequentially consistent interleaving of gauge calls at operation granularity: the list is the
    linearization order of the `inner.store` / `inner.load` operations -/
def gaugeRun : List GCall → Nat → List Nat
  | [], _ => []
  | .set b :: rest, _ => gaugeRun rest b
  | .flush :: rest, cur => cur :: gaugeRun rest cur

/-! ### gauges with all three update operations

`set` = `inner.store`; `increment`/`decrement` = ONE `inner.fetch_update` (a single read-modify-write: no update is
lost against a concurrent `set` or another increment), each followed by the `updates` bump; `flush` = `inner.load`.
A sequentially consistent interleaving is therefore a list of these operations.  `add`/`sub` stand for f64
addition/subtraction on bit patterns (the driver instantiates them with IEEE-754 double arithmetic). -/

inductive GOp
  | set (bits : Nat)
  | incr (bits : Nat)
  | decr (bits : Nat)
  | flush
  deriving Repr, DecidableEq

/-- the gauge's value after a linearized sequence of operations -/
def gaugeVal (add sub : Nat → Nat → Nat) : List GOp → Nat → Nat
  | [], cur => cur
  | .set b :: r, _ => gaugeVal add sub r b
  | .incr b :: r, cur => gaugeVal add sub r (add cur b)
  | .decr b :: r, cur => gaugeVal add sub r (sub cur b)
  | .flush :: r, cur => gaugeVal add sub r cur

/-- what the flushes of the sequence send -/
def gaugeOps (add sub : Nat → Nat → Nat) : List GOp → Nat → List Nat
  | [], _ => []
  | .set b :: r, _ => gaugeOps add sub r b
  | .incr b :: r, cur => gaugeOps add sub r (add cur b)
  | .decr b :: r, cur => gaugeOps add sub r (sub cur b)
  | .flush :: r, cur => cur :: gaugeOps add sub r cur

/-! ### `FlushState::idle_counters` over MANY keys, with a `write_counter` that may be rejected

state.rs, the counter loop of `State::flush`: for every `(key, counter)` of the snapshot — `counter.flush()` (which has
already swapped `last`), then `is_counter_idle` / `mark_counter_as_idle` / `clear_counter_idle` on the `HashSet<Key>`,
and only THEN `writer.write_counter`, whose failure (`result.any_failures()`: the line does not fit into a payload of
`max_payload_len`) is logged and counted but changes neither the idle set nor the counter.  Keys are `Nat` ids of whole
`Key`s (name AND labels: two keys sharing a name are two ids). -/

/-- one visit: key, flushed delta, did the payload writer accept the line -/
structure Visit where
  k : Nat
  delta : Nat
  ok : Bool
  deriving Repr, DecidableEq

/-- (new idle set, decision "write" (false = `continue`), a message went out) -/
def visit (idle : List Nat) (k delta : Nat) (ok : Bool) : List Nat × Bool × Bool :=
  if delta == 0 then
    (if idle.contains k then (idle, false, false) else (k :: idle, true, ok))
  else (idle.filter (· != k), true, ok)

/-- the visits of any number of flushes in the order `State::flush` makes them: (key, delta, decided, written) -/
def visits : List Nat → List Visit → List (Nat × Nat × Bool × Bool)
  | _, [] => []
  | idle, v :: r =>
    ((v.k, v.delta, (visit idle v.k v.delta v.ok).2.1, (visit idle v.k v.delta v.ok).2.2))
      :: visits (visit idle v.k v.delta v.ok).1 r

/-- the ONE-key reference: the send decision `decide` (non-legacy) folded over one key's own deltas:
    (delta, decided, written) -/
def oneKey : Bool → List (Nat × Bool) → List (Nat × Bool × Bool)
  | _, [] => []
  | idle, (d, ok) :: r => (d, (decide false idle d 0).1, ((decide false idle d 0).1 && ok)) :: oneKey (decide false idle d 0).2 r

/-! ### the timestamp decision -/

inductive Mode | conservative | aggressive
  deriving Repr, DecidableEq

end MetricsVerif.StatsdAgg
