/-
Model/MsgPass — the publish/consume idiom of the lock-free bucket under a release/acquire fragment.

`Block::push` writes a slot (a plain, non-atomic write) and then sets the slot's bit in the `read` bitmap with
an RMW (`fetch_or`); a reader loads the bitmap (`len`) and then reads every slot whose bit it saw (plain reads).
The same idiom publishes a freshly initialised block through the `tail` CAS.  Under the C11 model the plain
read is a data race unless the writer's RMW is (at least) Release and the reader's load is (at least) Acquire;
RMWs on one atomic continue each other's release sequences, so an acquire load that reads the value produced by
a later RMW synchronises with EVERY earlier release RMW on that word.

Step machine: thread `i` is a writer (owns slot `i`: write payload, then publish bit `i`) or a reader (load the
bitmap, then read the slots it saw).  A reader's plain read of slot `w` without having synchronised with writer
`w` sets `raced`.  The orderings are parameters; Props/C05 instantiates them from the translator's facts.
-/
namespace MetricsVerif.MsgPass

structure Ords where
  pubRelease : Bool     -- the publishing RMW is Release / AcqRel / SeqCst
  obsAcquire : Bool     -- the observing load is Acquire / AcqRel / SeqCst
  deriving DecidableEq, Repr

inductive PC where
  | wWrite                      -- writer: about to write its slot
  | wPublish                    -- writer: slot written, about to set its bit
  | rObserve                    -- reader: about to load the bitmap
  | rRead (seen : List Nat)     -- reader: about to read the slots it saw
  | done
  deriving DecidableEq, Repr

structure Sys where
  ords      : Ords
  written   : List Nat := []    -- writers whose slot write happened
  published : List Nat := []    -- bits set so far (modification order, newest first)
  pcs       : List PC
  readSlots : List Nat := []    -- ghost: every slot some reader read
  raced     : Bool := false     -- a plain read that was not ordered after the slot's write
  uninit    : Bool := false     -- a read of a slot whose write has not happened at all
  deriving Repr

def setPc (pcs : List PC) (t : Nat) (pc : PC) : List PC := pcs.set t pc

def step (s : Sys) (t : Nat) : Sys :=
  match s.pcs[t]? with
  | some .wWrite   => { s with written := t :: s.written, pcs := setPc s.pcs t .wPublish }
  | some .wPublish => { s with published := t :: s.published, pcs := setPc s.pcs t .done }
  | some .rObserve => { s with pcs := setPc s.pcs t (.rRead s.published) }
  | some (.rRead seen) =>
      -- happens-before exists for exactly the writers seen, provided both sides of the idiom are ordered
      let synced := s.ords.pubRelease && s.ords.obsAcquire
      { s with readSlots := seen ++ s.readSlots,
               raced := s.raced || (!synced && !seen.isEmpty),
               uninit := s.uninit || seen.any (fun w => !s.written.contains w),
               pcs := setPc s.pcs t .done }
  | _ => s

def run (s : Sys) (sched : List Nat) : Sys := sched.foldl step s

/-- `roles[i] = true` → thread `i` is a writer, else a reader -/
def init (o : Ords) (roles : List Bool) : Sys :=
  { ords := o, pcs := roles.map (fun w => if w then .wWrite else .rObserve) }

end MetricsVerif.MsgPass
