/-
Model of `metrics_util::registry::Registry<K, S>` (metrics-util/src/registry/mod.rs).

Per metric kind the registry owns a vector of shards (`Vec<RwLock<HashMap<K, V>>>`), `shard_mask =
shard_count - 1`; a key's shard is `hash as usize & shard_mask` where `hash = key.hashable()`; inside a
shard every access goes through hashbrown's raw-entry API `from_key_hashed_nocheck(hash, key)`, i.e.
"the entry that was inserted with this hash and whose key is equal" (hashbrown is modelled, not verified:
DESIGN.md §2).  A shard is an association list of `(key, hash, storage id)` in insertion order (the order
is not observable through the API; the driver sorts whatever it prints).

Keys are abstract: a carrier with a boolean equivalence `eqv` (Rust: `Key::eq`) and a hash (`Hashable::
hashable`).  The model runs for ANY `KeyOps`, coherent or not; the laws (`KeyLaws`: equivalence +
`eqv a b → hash a = hash b`, which C03 is about) are hypotheses of the theorems only.

Storages are identified by the order of their creation: `Storage::counter/gauge/histogram(key)` is called
only inside `or_insert_with` of a vacant entry; the model hands out `next` and increments it, so `next` is
also the number of storages ever created.

Second half: the concurrent step machine.  Threads run programs of `get_or_create_* / get_* / delete_*`
calls; one step = one lock section; PC names = the `metrics::verif::point` ids placed before each section
(`reg.goc.read`, `reg.goc.write`, `reg.get`, `reg.delete`).  `Sys.log` is ghost state (the order in which
calls took effect); nothing reads it.

`delete_*_with_gen` does not exist in this tree (generations are `Recency`'s business, C12).
-/
import MetricsVerif.Model.Sched

namespace MetricsVerif.Registry

/-- what the registry needs from a key type: `Eq` and `Hashable` -/
structure KeyOps (K : Type) where
  eqv : K → K → Bool
  hash : K → Nat

inductive Kind
  | counter | gauge | histogram
  deriving Repr, DecidableEq

/-- one hash-map entry: the stored key (a clone of the first key that created it), the hash it was inserted
    with, and the storage -/
structure Entry (K : Type) where
  key : K
  hash : Nat
  id : Nat
  deriving Repr, DecidableEq

abbrev Shard (K : Type) := List (Entry K)

/-- `struct Registry { counters, gauges, histograms, shard_mask, storage }`; `next` models the state of the
    `Storage` factory (number of storages created so far) -/
structure Reg (K : Type) where
  counters : List (Shard K)
  gauges : List (Shard K)
  histograms : List (Shard K)
  mask : Nat
  next : Nat

def Reg.get {K : Type} (r : Reg K) : Kind → List (Shard K)
  | .counter => r.counters
  | .gauge => r.gauges
  | .histogram => r.histograms

def Reg.set {K : Type} (r : Reg K) (kd : Kind) (v : List (Shard K)) : Reg K :=
  match kd with
  | .counter => { r with counters := v }
  | .gauge => { r with gauges := v }
  | .histogram => { r with histograms := v }

/-- `Registry::new` / `Registry::atomic` with `shard_count() = count` (the code takes
    `available_parallelism().next_power_of_two()`; the model accepts any count, the mask is `count - 1` as in
    the code) -/
def Reg.new {K : Type} (count : Nat) : Reg K :=
  { counters := List.replicate count [], gauges := List.replicate count [], histograms := List.replicate count [],
    mask := count - 1, next := 0 }

/-- `hash as usize & self.shard_mask` -/
def shardOf {K : Type} (r : Reg K) (h : Nat) : Nat := h &&& r.mask

/-- the shard a hash selects (`get_hash_and_shard_for_*`; the code uses `get_unchecked`, the model answers the
    empty shard out of range, which `WF` excludes) -/
def Reg.shard {K : Type} (r : Reg K) (kd : Kind) (h : Nat) : Shard K := (r.get kd).getD (shardOf r h) []

def Reg.setShard {K : Type} (r : Reg K) (kd : Kind) (h : Nat) (sh : Shard K) : Reg K :=
  r.set kd (setAt (r.get kd) (shardOf r h) sh)

/-- the storage factory made one more storage -/
def Reg.bump {K : Type} (r : Reg K) : Reg K := { r with next := r.next + 1 }

/-- hashbrown's match: same hash, equal key -/
def hit {K : Type} (ko : KeyOps K) (h : Nat) (k : K) (e : Entry K) : Bool := e.hash == h && ko.eqv k e.key

/-- `raw_entry().from_key_hashed_nocheck(hash, key)` -/
def lookup {K : Type} (ko : KeyOps K) (sh : Shard K) (h : Nat) (k : K) : Option (Entry K) := sh.find? (hit ko h k)

/-- the read-lock section of `get_or_create_*` and the whole of `get_*`: the storage under `key`, if any -/
def readSection {K : Type} (ko : KeyOps K) (r : Reg K) (kd : Kind) (k : K) : Option Nat :=
  (lookup ko (r.shard kd (ko.hash k)) (ko.hash k) k).map (·.id)

/-- the write-lock section of `get_or_create_*`: look the key up AGAIN under the write lock; only if it is
    still absent insert `(key.clone(), storage.counter(key))` -/
def writeSection {K : Type} (ko : KeyOps K) (r : Reg K) (kd : Kind) (k : K) : Reg K × Nat :=
  let h := ko.hash k
  match lookup ko (r.shard kd h) h k with
  | some e => (r, e.id)
  | none => ((r.setShard kd h (r.shard kd h ++ [{ key := k, hash := h, id := r.next }])).bump, r.next)

/-- `get_or_create_counter / _gauge / _histogram`: read section, and on a miss the write section -/
def getOrCreate {K : Type} (ko : KeyOps K) (r : Reg K) (kd : Kind) (k : K) : Reg K × Nat :=
  match readSection ko r kd k with
  | some i => (r, i)
  | none => writeSection ko r kd k

/-- `get_counter / _gauge / _histogram` -/
def getExisting {K : Type} (ko : KeyOps K) (r : Reg K) (kd : Kind) (k : K) : Option Nat := readSection ko r kd k

/-- `delete_counter / _gauge / _histogram`: remove the matching entry of the key's shard, report whether there
    was one -/
def delete {K : Type} (ko : KeyOps K) (r : Reg K) (kd : Kind) (k : K) : Reg K × Bool :=
  let h := ko.hash k
  match lookup ko (r.shard kd h) h k with
  | some _ => (r.setShard kd h ((r.shard kd h).eraseP (hit ko h k)), true)
  | none => (r, false)

/-- `retain_counters / _gauges / _histograms`: every shard in turn keeps the entries for which `f key storage`
    holds.  Also returns the arguments `f` was called with, in call order. -/
def retain {K : Type} (r : Reg K) (kd : Kind) (f : K → Nat → Bool) : Reg K × List (K × Nat) :=
  (r.set kd ((r.get kd).map (fun sh => sh.filter (fun e => f e.key e.id))),
   (r.get kd).flatten.map (fun e => (e.key, e.id)))

/-- `clear`: every shard of every kind is emptied -/
def clear {K : Type} (r : Reg K) : Reg K :=
  { r with counters := r.counters.map (fun _ => []), gauges := r.gauges.map (fun _ => []),
           histograms := r.histograms.map (fun _ => []) }

/-- `visit_counters / _gauges / _histograms`: shard by shard, per shard the contents (grouping kept) -/
def visitShards {K : Type} (r : Reg K) (kd : Kind) : List (List (K × Nat)) :=
  (r.get kd).map (fun sh => sh.map (fun e => (e.key, e.id)))

def visit {K : Type} (r : Reg K) (kd : Kind) : List (K × Nat) := (visitShards r kd).flatten

/-- `std::collections::HashMap::insert` on the snapshot map: an equal key keeps the old key and takes the new
    value -/
def handleInsert {K : Type} (ko : KeyOps K) : List (K × Nat) → K × Nat → List (K × Nat)
  | [], p => [p]
  | q :: rest, p => if ko.eqv p.1 q.1 then (q.1, p.2) :: rest else q :: handleInsert ko rest p

/-- `get_counter_handles / _gauge_handles / _histogram_handles`: a fresh map filled by a visit -/
def handles {K : Type} (ko : KeyOps K) (r : Reg K) (kd : Kind) : List (K × Nat) :=
  (visit r kd).foldl (handleInsert ko) []

/-! ### sequential interface -/

inductive Op (K : Type)
  | goc (kd : Kind) (k : K)
  | get (kd : Kind) (k : K)
  | delete (kd : Kind) (k : K)
  | retain (kd : Kind) (f : K → Nat → Bool)
  | clear
  | visit (kd : Kind)
  | handles (kd : Kind)

inductive Out (K : Type)
  | id (i : Nat)
  | opt (o : Option Nat)
  | bool (b : Bool)
  | unit
  | listing (l : List (K × Nat))
  deriving Repr, DecidableEq

def step {K : Type} (ko : KeyOps K) (r : Reg K) : Op K → Reg K × Out K
  | .goc kd k => let (r', i) := getOrCreate ko r kd k; (r', .id i)
  | .get kd k => (r, .opt (getExisting ko r kd k))
  | .delete kd k => let (r', b) := delete ko r kd k; (r', .bool b)
  | .retain kd f => ((retain r kd f).1, .unit)
  | .clear => (clear r, .unit)
  | .visit kd => (r, .listing (visit r kd))
  | .handles kd => (r, .listing (handles ko r kd))

def runOps {K : Type} (ko : KeyOps K) (r : Reg K) : List (Op K) → Reg K × List (Out K)
  | [] => (r, [])
  | op :: ops =>
    let (r', o) := step ko r op
    let (r'', os) := runOps ko r' ops
    (r'', o :: os)

/-! ### the abstract map the registry is meant to be -/

/-- per kind a partial map from keys to storages, plus the storage factory's counter -/
structure Spec (K : Type) where
  map : Kind → K → Option Nat
  next : Nat

def Spec.empty {K : Type} : Spec K := { map := fun _ _ => none, next := 0 }

/-- what `step` should do, said on the abstract map (listings have no functional answer here; see
    `Props/C06.lean: OutOK`) -/
def specStep {K : Type} (ko : KeyOps K) (s : Spec K) : Op K → Spec K × Out K
  | .goc kd k =>
    match s.map kd k with
    | some i => (s, .id i)
    | none => ({ map := fun kd' k' => if kd' = kd ∧ ko.eqv k k' = true then some s.next else s.map kd' k',
                 next := s.next + 1 }, .id s.next)
  | .get kd k => (s, .opt (s.map kd k))
  | .delete kd k =>
    ({ s with map := fun kd' k' => if kd' = kd ∧ ko.eqv k k' = true then none else s.map kd' k' },
     .bool (s.map kd k).isSome)
  | .retain kd f =>
    ({ s with map := fun kd' k' => if kd' = kd then (s.map kd' k').filter (f k') else s.map kd' k' }, .unit)
  | .clear => ({ s with map := fun _ _ => none }, .unit)
  | .visit _ => (s, .unit)
  | .handles _ => (s, .unit)

def runSpec {K : Type} (ko : KeyOps K) (s : Spec K) : List (Op K) → Spec K
  | [] => s
  | op :: ops => runSpec ko (specStep ko s op).1 ops

/-- the abstraction function: a key's storage is whatever a lookup finds -/
def abs {K : Type} (ko : KeyOps K) (r : Reg K) : Spec K :=
  { map := fun kd k => readSection ko r kd k, next := r.next }

/-! ### concurrent step machine -/

inductive Call (K : Type)
  | goc (kd : Kind) (k : K)
  | get (kd : Kind) (k : K)
  | delete (kd : Kind) (k : K)

def Call.toOp {K : Type} : Call K → Op K
  | .goc kd k => .goc kd k
  | .get kd k => .get kd k
  | .delete kd k => .delete kd k

inductive Res
  | id (i : Nat) | opt (o : Option Nat) | bool (b : Bool)
  deriving Repr, DecidableEq

def Res.toOut {K : Type} : Res → Out K
  | .id i => .id i
  | .opt o => .opt o
  | .bool b => .bool b

inductive PC
  | start                 -- before the first call
  | gocRead | gocWrite    -- inside `get_or_create_*`
  | get                   -- inside `get_*`
  | delete                -- inside `delete_*`
  | done
  deriving Repr, DecidableEq

structure Thread (K : Type) where
  calls : List (Call K)   -- remaining calls, head = current
  pc : PC
  results : List Res      -- oldest first

/-- ghost: one record per completed call, appended by the step in which the call took effect -/
structure LogEntry (K : Type) where
  tid : Nat
  call : Call K
  res : Res

structure Sys (K : Type) where
  reg : Reg K
  threads : List (Thread K)
  log : List (LogEntry K)

def pcOfCall {K : Type} : Call K → PC
  | .goc _ _ => .gocRead
  | .get _ _ => .get
  | .delete _ _ => .delete

/-- the call returns `r`; on to the next call (or `done`) -/
def Thread.advance {K : Type} (t : Thread K) (r : Res) : Thread K :=
  let rest := t.calls.tail
  { calls := rest, results := t.results ++ [r], pc := match rest with | [] => .done | c :: _ => pcOfCall c }

def mkThread {K : Type} (calls : List (Call K)) : Thread K := { calls, pc := .start, results := [] }

def Sys.init {K : Type} (count : Nat) (progs : List (List (Call K))) : Sys K :=
  { reg := Reg.new count, threads := progs.map mkThread, log := [] }

/-- what thread `t` does between two consecutive yield points: new registry, new thread state, and the result
    if a call completed in this step -/
def stepThread {K : Type} (ko : KeyOps K) (r : Reg K) (t : Thread K) : Reg K × Thread K × Option Res :=
  match t.pc, t.calls with
  | .start, [] => (r, { t with pc := .done }, none)
  | .start, c :: _ => (r, { t with pc := pcOfCall c }, none)
  | .gocRead, .goc kd k :: _ =>
    match readSection ko r kd k with
    | some i => (r, t.advance (.id i), some (.id i))
    | none => (r, { t with pc := .gocWrite }, none)
  | .gocWrite, .goc kd k :: _ =>
    let (r', i) := writeSection ko r kd k
    (r', t.advance (.id i), some (.id i))
  | .get, .get kd k :: _ => (r, t.advance (.opt (getExisting ko r kd k)), some (.opt (getExisting ko r kd k)))
  | .delete, .delete kd k :: _ =>
    let (r', b) := delete ko r kd k
    (r', t.advance (.bool b), some (.bool b))
  | _, _ => (r, t, none)      -- `done`, or a pc that does not fit the call: no step

def step1 {K : Type} (ko : KeyOps K) (s : Sys K) (tid : Nat) : Sys K :=
  match s.threads[tid]? with
  | none => s
  | some t =>
    match stepThread ko s.reg t with
    | (r', t', res) =>
      { reg := r', threads := setAt s.threads tid t',
        log := match res, t.calls with
               | some x, c :: _ => s.log ++ [{ tid, call := c, res := x }]
               | _, _ => s.log }

def run {K : Type} (ko : KeyOps K) (s : Sys K) (sched : List Nat) : Sys K := sched.foldl (step1 ko) s

/-- the label of the step a thread would take next (= the point id the implementation is parked at) -/
def PC.label : PC → String
  | .start => "start" | .gocRead => "reg.goc.read" | .gocWrite => "reg.goc.write"
  | .get => "reg.get" | .delete => "reg.delete" | .done => "done"


/-! ### lock-aware machine: calls that hold a shard lock across a callback, and sweeps over all shards

`clear`, `visit_*`, `retain_*` walk the shards of a kind (clear: of all three kinds) in index order and take each
shard's `RwLock` in turn (`write` for clear / retain, `read` for visit); `get_or_create_*` runs the caller's `op`
closure while it still holds the shard lock (read lock after a hit, write lock after the write section), and
`visit_*` / `retain_*` run their callback under the shard lock.  A thread that is parked INSIDE such a callback
holds the lock; every other thread that wants a conflicting lock on the same shard WAITS (`RwLock::read/write`
block; nothing in the code skips a shard).

One token of the schedule = what a thread does until it next parks: a single lock section for
`get_or_create / get / delete` (as in the machine above), and for a sweep the maximal run of sections up to the
first shard whose lock another thread holds in a conflicting mode (there it stays, to be resumed by a later
token), up to its own callback park, or to its end.  Point ids: `reg.goc.op` (inside `op`), `reg.sweep` (before
a sweep call / a sweep waiting for a lock), `reg.visit.cb`, `reg.retain.cb` (inside the callback). -/

inductive LCall (K : Type)
  | goc (kd : Kind) (k : K)
  | get (kd : Kind) (k : K)
  | delete (kd : Kind) (k : K)
  | clear
  /-- `hold`: the callback parks once, in the last non-empty shard -/
  | visit (kd : Kind) (hold : Bool)
  | retain (kd : Kind) (f : K → Nat → Bool) (hold : Bool)

inductive LRes (K : Type)
  | id (i : Nat) | opt (o : Option Nat) | bool (b : Bool) | unit
  | listing (l : List (K × Nat))

/-- a shard lock held by a parked thread -/
structure Lock where
  kd : Kind
  idx : Nat
  write : Bool
  deriving Repr, DecidableEq

/-- `RwLock`: readers share, a writer excludes everybody -/
def Lock.conflicts (a b : Lock) : Bool := decide (a.kd = b.kd) && a.idx == b.idx && (a.write || b.write)

inductive LPC
  | start
  | gocRead | gocWrite
  | gocOp (i : Nat)                 -- inside `op`, shard lock held
  | get | delete
  | sweep (kd : Kind) (idx : Nat)   -- about to take the lock of shard `idx` of kind `kd`
  | held (kd : Kind) (idx : Nat)    -- inside the visit / retain callback of that shard, lock held
  | done
  deriving Repr, DecidableEq

structure LThread (K : Type) where
  calls : List (LCall K)
  pc : LPC
  results : List (LRes K)
  holds : Option Lock
  /-- what the running visit / retain has handed to its callback so far -/
  acc : List (K × Nat)

structure LSys (K : Type) where
  reg : Reg K
  threads : List (LThread K)

def lpcOfCall {K : Type} : LCall K → LPC
  | .goc _ _ => .gocRead
  | .get _ _ => .get
  | .delete _ _ => .delete
  | .clear => .sweep .counter 0
  | .visit kd _ => .sweep kd 0
  | .retain kd _ _ => .sweep kd 0

def LThread.advance {K : Type} (t : LThread K) (r : LRes K) : LThread K :=
  let rest := t.calls.tail
  { calls := rest, results := t.results ++ [r], holds := none, acc := [],
    pc := match rest with | [] => .done | c :: _ => lpcOfCall c }

def mkLThread {K : Type} (calls : List (LCall K)) : LThread K :=
  { calls, pc := .start, results := [], holds := none, acc := [] }

def LSys.init {K : Type} (count : Nat) (progs : List (List (LCall K))) : LSys K :=
  { reg := Reg.new count, threads := progs.map mkLThread }

/-- the locks held by a list of threads -/
def heldLocks {K : Type} (ts : List (LThread K)) : List Lock := ts.flatMap (fun t => t.holds.toList)

/-- the locks held by the threads other than `tid` -/
def otherLocks {K : Type} (ts : List (LThread K)) (tid : Nat) : List Lock :=
  heldLocks (ts.take tid) ++ heldLocks (ts.drop (tid + 1))

/-- would `RwLock::read/write` on this shard have to wait? -/
def mustWait (others : List Lock) (want : Lock) : Bool := others.any (fun l => l.conflicts want)

/-- replace shard `idx` of kind `kd` -/
def Reg.setIdx {K : Type} (r : Reg K) (kd : Kind) (idx : Nat) (sh : Shard K) : Reg K :=
  r.set kd (setAt (r.get kd) idx sh)

/-- the lock mode a sweep takes on every shard -/
def LCall.sweepWrite {K : Type} : LCall K → Bool
  | .visit _ _ => false
  | _ => true

def LCall.sweepHold {K : Type} : LCall K → Bool
  | .visit _ h => h
  | .retain _ _ h => h
  | _ => false

/-- one lock section of a sweep on shard `idx` of kind `kd` whose content is `sh`: clear empties it, retain
    filters it (showing the predicate every entry), visit shows the callback every entry -/
def sweepSection {K : Type} (c : LCall K) (r : Reg K) (kd : Kind) (idx : Nat) (sh : Shard K) (acc : List (K × Nat)) :
    Reg K × List (K × Nat) :=
  match c with
  | .clear => (r.setIdx kd idx [], acc)
  | .retain _ f _ => (r.setIdx kd idx (sh.filter (fun e => f e.key e.id)), acc ++ sh.map (fun e => (e.key, e.id)))
  | .visit _ _ => (r, acc ++ sh.map (fun e => (e.key, e.id)))
  | _ => (r, acc)

/-- the shard after `idx` in the walk: the next index, and for `clear` the next kind after the last index -/
def nextSlot (count : Nat) (all : Bool) (kd : Kind) (idx : Nat) : Option (Kind × Nat) :=
  if idx + 1 < count then some (kd, idx + 1)
  else if all then
    match kd with
    | .counter => some (.gauge, 0)
    | .gauge => some (.histogram, 0)
    | .histogram => none
  else none

def LCall.sweepAll {K : Type} : LCall K → Bool
  | .clear => true
  | _ => false

/-- all shards of kind `kd` after `idx` are empty -/
def laterEmpty {K : Type} (r : Reg K) (kd : Kind) (idx : Nat) : Bool := ((r.get kd).drop (idx + 1)).all (·.isEmpty)

inductive SweepStop
  | waiting (kd : Kind) (idx : Nat)   -- the lock of this shard is held by another thread: wait
  | parked (kd : Kind) (idx : Nat)    -- own callback parked in this shard
  | finished
  deriving Repr, DecidableEq

/-- the sections of a sweep from shard `(kd, idx)` on, until it has to wait, parks, or ends (`fuel` ≥ number of
    remaining shards) -/
def sweepRun {K : Type} (c : LCall K) (hold : Bool) (others : List Lock) :
    Nat → Reg K → List (K × Nat) → Kind → Nat → Reg K × List (K × Nat) × SweepStop
  | 0, r, acc, kd, idx => (r, acc, .waiting kd idx)
  | fuel + 1, r, acc, kd, idx =>
    if mustWait others { kd, idx, write := c.sweepWrite } then (r, acc, .waiting kd idx) else
    let sh := (r.get kd).getD idx []
    let ra := sweepSection c r kd idx sh acc
    if hold && !sh.isEmpty && laterEmpty r kd idx then (ra.1, ra.2, .parked kd idx) else
    match nextSlot (r.mask + 1) c.sweepAll kd idx with
    | none => (ra.1, ra.2, .finished)
    | some (kd', idx') => sweepRun c hold others fuel ra.1 ra.2 kd' idx'

/-- what a finished sweep returns -/
def sweepResult {K : Type} (c : LCall K) (acc : List (K × Nat)) : LRes K :=
  match c with
  | .clear => .unit
  | _ => .listing acc

def sweepFuel {K : Type} (r : Reg K) : Nat := 3 * (r.mask + 1) + 1

/-- thread state after a run of sections -/
def afterSweep {K : Type} (c : LCall K) (t : LThread K) (out : Reg K × List (K × Nat) × SweepStop) : LThread K :=
  match out.2.2 with
  | .waiting kd idx => { t with pc := .sweep kd idx, acc := out.2.1, holds := none }
  | .parked kd idx => { t with pc := .held kd idx, acc := out.2.1, holds := some { kd, idx, write := c.sweepWrite } }
  | .finished => t.advance (sweepResult c out.2.1)

def isSweep {K : Type} : LCall K → Bool
  | .clear => true | .visit _ _ => true | .retain _ _ _ => true | _ => false

/-- one token for thread `t`, the other threads holding `others` -/
def lstepThread {K : Type} (ko : KeyOps K) (r : Reg K) (others : List Lock) (t : LThread K) : Reg K × LThread K :=
  match t.pc, t.calls with
  | .start, [] => (r, { t with pc := .done })
  | .start, c :: _ => (r, { t with pc := lpcOfCall c })
  | .gocRead, .goc kd k :: _ =>
    if mustWait others { kd, idx := shardOf r (ko.hash k), write := false } then (r, t) else
    match readSection ko r kd k with
    | some i => (r, { t with pc := .gocOp i, holds := some { kd, idx := shardOf r (ko.hash k), write := false } })
    | none => (r, { t with pc := .gocWrite })
  | .gocWrite, .goc kd k :: _ =>
    if mustWait others { kd, idx := shardOf r (ko.hash k), write := true } then (r, t) else
    let ri := writeSection ko r kd k
    (ri.1, { t with pc := .gocOp ri.2, holds := some { kd, idx := shardOf r (ko.hash k), write := true } })
  | .gocOp i, .goc _ _ :: _ => (r, t.advance (.id i))
  | .get, .get kd k :: _ =>
    if mustWait others { kd, idx := shardOf r (ko.hash k), write := false } then (r, t) else
    (r, t.advance (.opt (getExisting ko r kd k)))
  | .delete, .delete kd k :: _ =>
    if mustWait others { kd, idx := shardOf r (ko.hash k), write := true } then (r, t) else
    let rb := delete ko r kd k
    (rb.1, t.advance (.bool rb.2))
  | .sweep kd idx, c :: _ =>
    if isSweep c then
      let out := sweepRun c c.sweepHold others (sweepFuel r) r t.acc kd idx
      (out.1, afterSweep c t out)
    else (r, t)
  | .held kd idx, c :: _ =>
    if isSweep c then
      match nextSlot (r.mask + 1) c.sweepAll kd idx with
      | none => (r, t.advance (sweepResult c t.acc))
      | some (kd', idx') =>
        let out := sweepRun c false others (sweepFuel r) r t.acc kd' idx'
        (out.1, afterSweep c { t with holds := none } out)
    else (r, t)
  | _, _ => (r, t)

def lstep {K : Type} (ko : KeyOps K) (s : LSys K) (tid : Nat) : LSys K :=
  match s.threads[tid]? with
  | none => s
  | some t =>
    let o := lstepThread ko s.reg (otherLocks s.threads tid) t
    { reg := o.1, threads := setAt s.threads tid o.2 }

def lrun {K : Type} (ko : KeyOps K) (s : LSys K) (sched : List Nat) : LSys K := sched.foldl (lstep ko) s

def LPC.label (c : Option Bool) : LPC → String
  | .start => "start" | .gocRead => "reg.goc.read" | .gocWrite => "reg.goc.write" | .gocOp _ => "reg.goc.op"
  | .get => "reg.get" | .delete => "reg.delete" | .sweep _ _ => "reg.sweep"
  | .held _ _ => if c == some false then "reg.visit.cb" else "reg.retain.cb"
  | .done => "done"

end MetricsVerif.Registry
