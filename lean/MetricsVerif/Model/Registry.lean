/-
Model of `metrics_util::registry::Registry<K, S>` (metrics-util/src/registry/mod.rs).

Per metric kind the registry owns a vector of shards (`Vec<RwLock<HashMap<K, V>>>`), `shard_mask =
shard_count - 1`; a key's shard is `hash as usize & shard_mask` where `hash = key.hashable()`; inside a
shard every access goes through hashbrown's raw-entry API `from_key_hashed_nocheck(hash, key)`, i.e.
"the entry that was inserted with this hash and whose key is equal" (hashbrown is modelled, not verified:
DESIGN.md §2).  A shard is an association list of `(key, hash, storage id)` in insertion order (the order
is not observable through the API; the driver sorts whatever it prints).

Keys are abstract: a carrier with a boolean equivalence `eqv` (Rust: `Key::eq`) and a hash (`Hashable::
hashable`).  The model runs for ANY `KeyOps`, coherent or not; the laws (`KeyLaws`: equivalence +
`eqv a b → hash a = hash b`, which C03 is about) are hypotheses of the theorems only.

Storages are identified by the order of their creation: `Storage::counter/gauge/histogram(key)` is called
only inside `or_insert_with` of a vacant entry; the model hands out `next` and increments it, so `next` is
also the number of storages ever created.

Second half: the concurrent step machine.  Threads run programs of `get_or_create_* / get_* / delete_*`
calls; one step = one lock section; PC names = the `metrics::verif::point` ids placed before each section
(`reg.goc.read`, `reg.goc.write`, `reg.get`, `reg.delete`).  `Sys.log` is ghost state (the order in which
calls took effect); nothing reads it.

`delete_*_with_gen` does not exist in this tree (generations are `Recency`'s business, C12).
-/
import MetricsVerif.Model.Sched

namespace MetricsVerif.Registry

/-- what the registry needs from a key type: `Eq` and `Hashable` -/
structure KeyOps (K : Type) where
  eqv : K → K → Bool
  hash : K → Nat

inductive Kind
  | counter | gauge | histogram
  deriving Repr, DecidableEq

/-- one hash-map entry: the stored key (a clone of the first key that created it), the hash it was inserted
    with, and the storage -/
structure Entry (K : Type) where
  key : K
  hash : Nat
  id : Nat
  deriving Repr, DecidableEq

abbrev Shard (K : Type) := List (Entry K)

/-- `struct Registry { counters, gauges, histograms, shard_mask, storage }`; `next` models the state of the
    `Storage` factory (number of storages created so far) -/
structure Reg (K : Type) where
  counters : List (Shard K)
  gauges : List (Shard K)
  histograms : List (Shard K)
  mask : Nat
  next : Nat

def Reg.get {K : Type} (r : Reg K) : Kind → List (Shard K)
  | .counter => r.counters
  | .gauge => r.gauges
  | .histogram => r.histograms

def Reg.set {K : Type} (r : Reg K) (kd : Kind) (v : List (Shard K)) : Reg K :=
  match kd with
  | .counter => { r with counters := v }
  | .gauge => { r with gauges := v }
  | .histogram => { r with histograms := v }

/-- `Registry::new` / `Registry::atomic` with `shard_count() = count` (the code takes
    `available_parallelism().next_power_of_two()`; the model accepts any count, the mask is `count - 1` as in
    the code) -/
def Reg.new {K : Type} (count : Nat) : Reg K :=
  { counters := List.replicate count [], gauges := List.replicate count [], histograms := List.replicate count [],
    mask := count - 1, next := 0 }

/-- `hash as usize & self.shard_mask` -/
def shardOf {K : Type} (r : Reg K) (h : Nat) : Nat := h &&& r.mask

/-- the shard a hash selects (`get_hash_and_shard_for_*`; the code uses `get_unchecked`, the model answers the
    empty shard out of range, which `WF` excludes) -/
def Reg.shard {K : Type} (r : Reg K) (kd : Kind) (h : Nat) : Shard K := (r.get kd).getD (shardOf r h) []

def Reg.setShard {K : Type} (r : Reg K) (kd : Kind) (h : Nat) (sh : Shard K) : Reg K :=
  r.set kd (setAt (r.get kd) (shardOf r h) sh)

/-- the storage factory made one more storage -/
def Reg.bump {K : Type} (r : Reg K) : Reg K := { r with next := r.next + 1 }

/-- hashbrown's match: same hash, equal key -/
def hit {K : Type} (ko : KeyOps K) (h : Nat) (k : K) (e : Entry K) : Bool := e.hash == h && ko.eqv k e.key

/-- `raw_entry().from_key_hashed_nocheck(hash, key)` -/
def lookup {K : Type} (ko : KeyOps K) (sh : Shard K) (h : Nat) (k : K) : Option (Entry K) := sh.find? (hit ko h k)

/-- the read-lock section of `get_or_create_*` and the whole of `get_*`: the storage under `key`, if any -/
def readSection {K : Type} (ko : KeyOps K) (r : Reg K) (kd : Kind) (k : K) : Option Nat :=
  (lookup ko (r.shard kd (ko.hash k)) (ko.hash k) k).map (·.id)

/-- the write-lock section of `get_or_create_*`: look the key up AGAIN under the write lock; only if it is
    still absent insert `(key.clone(), storage.counter(key))` -/
def writeSection {K : Type} (ko : KeyOps K) (r : Reg K) (kd : Kind) (k : K) : Reg K × Nat :=
  let h := ko.hash k
  match lookup ko (r.shard kd h) h k with
  | some e => (r, e.id)
  | none => ((r.setShard kd h (r.shard kd h ++ [{ key := k, hash := h, id := r.next }])).bump, r.next)

/-- `get_or_create_counter / _gauge / _histogram`: read section, and on a miss the write section -/
def getOrCreate {K : Type} (ko : KeyOps K) (r : Reg K) (kd : Kind) (k : K) : Reg K × Nat :=
  match readSection ko r kd k with
  | some i => (r, i)
  | none => writeSection ko r kd k

/-- `get_counter / _gauge / _histogram` -/
def getExisting {K : Type} (ko : KeyOps K) (r : Reg K) (kd : Kind) (k : K) : Option Nat := readSection ko r kd k

/-- `delete_counter / _gauge / _histogram`: remove the matching entry of the key's shard, report whether there
    was one -/
def delete {K : Type} (ko : KeyOps K) (r : Reg K) (kd : Kind) (k : K) : Reg K × Bool :=
  let h := ko.hash k
  match lookup ko (r.shard kd h) h k with
  | some _ => (r.setShard kd h ((r.shard kd h).eraseP (hit ko h k)), true)
  | none => (r, false)

/-- `retain_counters / _gauges / _histograms`: every shard in turn keeps the entries for which `f key storage`
    holds.  Also returns the arguments `f` was called with, in call order. -/
def retain {K : Type} (r : Reg K) (kd : Kind) (f : K → Nat → Bool) : Reg K × List (K × Nat) :=
  (r.set kd ((r.get kd).map (fun sh => sh.filter (fun e => f e.key e.id))),
   (r.get kd).flatten.map (fun e => (e.key, e.id)))

/-- `clear`: every shard of every kind is emptied -/
def clear {K : Type} (r : Reg K) : Reg K :=
  { r with counters := r.counters.map (fun _ => []), gauges := r.gauges.map (fun _ => []),
           histograms := r.histograms.map (fun _ => []) }

/-- `visit_counters / _gauges / _histograms`: shard by shard, per shard the contents (grouping kept) -/
def visitShards {K : Type} (r : Reg K) (kd : Kind) : List (List (K × Nat)) :=
  (r.get kd).map (fun sh => sh.map (fun e => (e.key, e.id)))

def visit {K : Type} (r : Reg K) (kd : Kind) : List (K × Nat) := (visitShards r kd).flatten

/-- `std::collections::HashMap::insert` on the snapshot map: an equal key keeps the old key and takes the new
    value -/
def handleInsert {K : Type} (ko : KeyOps K) : List (K × Nat) → K × Nat → List (K × Nat)
  | [], p => [p]
  | q :: rest, p => if ko.eqv p.1 q.1 then (q.1, p.2) :: rest else q :: handleInsert ko rest p

/-- `get_counter_handles / _gauge_handles / _histogram_handles`: a fresh map filled by a visit -/
def handles {K : Type} (ko : KeyOps K) (r : Reg K) (kd : Kind) : List (K × Nat) :=
  (visit r kd).foldl (handleInsert ko) []

/-! ### sequential interface -/

inductive Op (K : Type)
  | goc (kd : Kind) (k : K)
  | get (kd : Kind) (k : K)
  | delete (kd : Kind) (k : K)
  | retain (kd : Kind) (f : K → Nat → Bool)
  | clear
  | visit (kd : Kind)
  | handles (kd : Kind)

inductive Out (K : Type)
  | id (i : Nat)
  | opt (o : Option Nat)
  | bool (b : Bool)
  | unit
  | listing (l : List (K × Nat))
  deriving Repr, DecidableEq

def step {K : Type} (ko : KeyOps K) (r : Reg K) : Op K → Reg K × Out K
  | .goc kd k => let (r', i) := getOrCreate ko r kd k; (r', .id i)
  | .get kd k => (r, .opt (getExisting ko r kd k))
  | .delete kd k => let (r', b) := delete ko r kd k; (r', .bool b)
  | .retain kd f => ((retain r kd f).1, .unit)
  | .clear => (clear r, .unit)
  | .visit kd => (r, .listing (visit r kd))
  | .handles kd => (r, .listing (handles ko r kd))

def runOps {K : Type} (ko : KeyOps K) (r : Reg K) : List (Op K) → Reg K × List (Out K)
  | [] => (r, [])
  | op :: ops =>
    let (r', o) := step ko r op
    let (r'', os) := runOps ko r' ops
    (r'', o :: os)

/-! ### the abstract map the registry is meant to be -/

/-- per kind a partial map from keys to storages, plus the storage factory's counter -/
structure Spec (K : Type) where
  map : Kind → K → Option Nat
  next : Nat

def Spec.empty {K : Type} : Spec K := { map := fun _ _ => none, next := 0 }

/-- what `step` should do, said on the abstract map (listings have no functional answer here; see
    `Props/C06.lean: OutOK`) -/
def specStep {K : Type} (ko : KeyOps K) (s : Spec K) : Op K → Spec K × Out K
  | .goc kd k =>
    match s.map kd k with
    | some i => (s, .id i)
    | none => ({ map := fun kd' k' => if kd' = kd ∧ ko.eqv k k' = true then some s.next else s.map kd' k',
                 next := s.next + 1 }, .id s.next)
  | .get kd k => (s, .opt (s.map kd k))
  | .delete kd k =>
    ({ s with map := fun kd' k' => if kd' = kd ∧ ko.eqv k k' = true then none else s.map kd' k' },
     .bool (s.map kd k).isSome)
  | .retain kd f =>
    ({ s with map := fun kd' k' => if kd' = kd then (s.map kd' k').filter (f k') else s.map kd' k' }, .unit)
  | .clear => ({ s with map := fun _ _ => none }, .unit)
  | .visit _ => (s, .unit)
  | .handles _ => (s, .unit)

def runSpec {K : Type} (ko : KeyOps K) (s : Spec K) : List (Op K) → Spec K
  | [] => s
  | op :: ops => runSpec ko (specStep ko s op).1 ops

/-- the abstraction function: a key's storage is whatever a lookup finds -/
def abs {K : Type} (ko : KeyOps K) (r : Reg K) : Spec K :=
  { map := fun kd k => readSection ko r kd k, next := r.next }

/-! ### concurrent step machine -/

inductive Call (K : Type)
  | goc (kd : Kind) (k : K)
  | get (kd : Kind) (k : K)
  | delete (kd : Kind) (k : K)

def Call.toOp {K : Type} : Call K → Op K
  | .goc kd k => .goc kd k
  | .get kd k => .get kd k
  | .delete kd k => .delete kd k

inductive Res
  | id (i : Nat) | opt (o : Option Nat) | bool (b : Bool)
  deriving Repr, DecidableEq

def Res.toOut {K : Type} : Res → Out K
  | .id i => .id i
  | .opt o => .opt o
  | .bool b => .bool b

inductive PC
  | start                 -- before the first call
  | gocRead | gocWrite    -- inside `get_or_create_*`
  | get                   -- inside `get_*`
  | delete                -- inside `delete_*`
  | done
  deriving Repr, DecidableEq

structure Thread (K : Type) where
  calls : List (Call K)   -- remaining calls, head = current
  pc : PC
  results : List Res      -- oldest first

/-- ghost: one record per completed call, appended by the step in which the call took effect -/
structure LogEntry (K : Type) where
  tid : Nat
  call : Call K
  res : Res

structure Sys (K : Type) where
  reg : Reg K
  threads : List (Thread K)
  log : List (LogEntry K)

def pcOfCall {K : Type} : Call K → PC
  | .goc _ _ => .gocRead
  | .get _ _ => .get
  | .delete _ _ => .delete

/-- the call returns `r`; on to the next call (or `done`) -/
def Thread.advance {K : Type} (t : Thread K) (r : Res) : Thread K :=
  let rest := t.calls.tail
  { calls := rest, results := t.results ++ [r], pc := match rest with | [] => .done | c :: _ => pcOfCall c }

def mkThread {K : Type} (calls : List (Call K)) : Thread K := { calls, pc := .start, results := [] }

def Sys.init {K : Type} (count : Nat) (progs : List (List (Call K))) : Sys K :=
  { reg := Reg.new count, threads := progs.map mkThread, log := [] }

/-- what thread `t` does between two consecutive yield points: new registry, new thread state, and the result
    if a call completed in this step -/
def stepThread {K : Type} (ko : KeyOps K) (r : Reg K) (t : Thread K) : Reg K × Thread K × Option Res :=
  match t.pc, t.calls with
  | .start, [] => (r, { t with pc := .done }, none)
  | .start, c :: _ => (r, { t with pc := pcOfCall c }, none)
  | .gocRead, .goc kd k :: _ =>
    match readSection ko r kd k with
    | some i => (r, t.advance (.id i), some (.id i))
    | none => (r, { t with pc := .gocWrite }, none)
  | .gocWrite, .goc kd k :: _ =>
    let (r', i) := writeSection ko r kd k
    (r', t.advance (.id i), some (.id i))
  | .get, .get kd k :: _ => (r, t.advance (.opt (getExisting ko r kd k)), some (.opt (getExisting ko r kd k)))
  | .delete, .delete kd k :: _ =>
    let (r', b) := delete ko r kd k
    (r', t.advance (.bool b), some (.bool b))
  | _, _ => (r, t, none)      -- `done`, or a pc that does not fit the call: no step

def step1 {K : Type} (ko : KeyOps K) (s : Sys K) (tid : Nat) : Sys K :=
  match s.threads[tid]? with
  | none => s
  | some t =>
    match stepThread ko s.reg t with
    | (r', t', res) =>
      { reg := r', threads := setAt s.threads tid t',
        log := match res, t.calls with
               | some x, c :: _ => s.log ++ [{ tid, call := c, res := x }]
               | _, _ => s.log }

def run {K : Type} (ko : KeyOps K) (s : Sys K) (sched : List Nat) : Sys K := sched.foldl (step1 ko) s

/-- the label of the step a thread would take next (= the point id the implementation is parked at) -/
def PC.label : PC → String
  | .start => "start" | .gocRead => "reg.goc.read" | .gocWrite => "reg.goc.write"
  | .get => "reg.get" | .delete => "reg.delete" | .done => "done"

end MetricsVerif.Registry
