/-
Model of the bucket configuration of `PrometheusBuilder` (metrics-exporter-prometheus/src/exporter/builder.rs:
`set_buckets`, `set_buckets_for_metric`) and of the hand-over to `DistributionBuilder::new`
(distribution.rs).  `Matcher`, its derived order, `sortMatchers`, `newDist` (= `get_distribution`) and
`distType` (= `get_distribution_type`) are the ones of `Model/Prom.lean`.
-/
import MetricsVerif.Model.Prom

namespace MetricsVerif.DistBuilder
open MetricsVerif.Prom MetricsVerif.PromFmt

/-- `set_buckets_for_metric(matcher, values)`: `bucket_overrides.insert(matcher.sanitized(), values.to_vec())` on a
    `HashMap<Matcher, Vec<f64>>` — an equal (sanitised) key gets its value replaced, a new key is added.
    (Empty `values` are rejected with an error before that; callers of the model pass non-empty bounds.) -/
def setBucketsForMetric (ovs : List (Matcher × List Int)) (m : Matcher) (bs : List Int) : List (Matcher × List Int) :=
  upsert ovs m.sanitized [] (fun _ => bs)

/-- the override map after a sequence of `set_buckets_for_metric` calls -/
def overridesOf (calls : List (Matcher × List Int)) : List (Matcher × List Int) :=
  calls.foldl (fun ovs c => setBucketsForMetric ovs c.1 c.2) []

/-- the configuration `build_recorder` hands to `DistributionBuilder::new`, which sorts the overrides -/
def cfgOf (global : Option (List Int)) (calls : List (Matcher × List Int)) : Cfg :=
  { unitSuffix := false, globals := [], buckets := global, overrides := sortMatchers (overridesOf calls), quantiles := [] }

/-- the distribution a histogram registered under the raw name `name` gets: the recorder asks
    `get_distribution` with the SANITISED name (`key_to_parts`), the patterns were sanitised by the builder -/
def distributionFor (global : Option (List Int)) (calls : List (Matcher × List Int)) (name : Str) : Dist :=
  newDist (cfgOf global calls) (sanitizeMetricName name)

/-- the `# TYPE` the recorder prints for it -/
def typeFor (global : Option (List Int)) (calls : List (Matcher × List Int)) (name : Str) : Str :=
  distType (cfgOf global calls) (sanitizeMetricName name)

/-! ### the rolling window of a summary

`PrometheusBuilder::{set_bucket_duration, set_bucket_count}` store `Some(value)`; `build_recorder` hands both options to
`DistributionBuilder::new`; `get_distribution` resolves each one ON ITS OWN against its default
(`self.bucket_duration.map_or(DEFAULT_SUMMARY_BUCKET_DURATION, |d| d)`, likewise the count). -/

/-- `DEFAULT_SUMMARY_BUCKET_COUNT` -/
def defaultBucketCount : Nat := 3

/-- `DEFAULT_SUMMARY_BUCKET_DURATION` = `Duration::from_secs(20)`, in nanoseconds -/
def defaultBucketDurationNs : Nat := 20 * 1000000000

/-- `(b_count, b_duration)` of `get_distribution`: what `Distribution::new_summary` → `RollingSummary::new` receives -/
def windowOf (count : Option Nat) (duration : Option Nat) : Nat × Nat :=
  (match count with | some c => c | none => defaultBucketCount,
   match duration with | some d => d | none => defaultBucketDurationNs)

/-! ### the guards of the builder

`set_buckets`, `set_buckets_for_metric` and `set_quantiles` begin with `if values.is_empty() { return
Err(BuildError::EmptyBucketsOrQuantiles) }`, `set_bucket_duration` with `if value.is_zero() { return
Err(BuildError::ZeroBucketDuration) }`; a rejected call yields no builder (`Result<Self, _>` consumes `self`). -/

/-- the emptiness guard, on the length of the slice handed in -/
def guardNonEmpty (len : Nat) : Bool := len != 0

/-- the guard of `set_bucket_duration`, on the duration in nanoseconds -/
def guardDuration (ns : Nat) : Bool := ns != 0

/-- `set_buckets(values)`: `Ok` with the bounds stored, or `Err` -/
def setBucketsChecked (bs : List Int) : Option (List Int) :=
  if guardNonEmpty bs.length then some bs else none

/-- `set_buckets_for_metric(matcher, values)`: `Err` for empty `values`, else the insertion -/
def setBucketsForMetricChecked (ovs : List (Matcher × List Int)) (m : Matcher) (bs : List Int) :
    Option (List (Matcher × List Int)) :=
  if guardNonEmpty bs.length then some (setBucketsForMetric ovs m bs) else none

/-- a chain of `set_buckets_for_metric(..)?` calls: the override map if every call was accepted -/
def overridesOfChecked (calls : List (Matcher × List Int)) : Option (List (Matcher × List Int)) :=
  calls.foldlM (fun ovs c => setBucketsForMetricChecked ovs c.1 c.2) []

/-! ### how a histogram name is exposed

`Inner::render`, distributions loop: `describe_family(name)` gives the description and — only if
`enable_unit_suffix` — the unit; `get_distribution_type(name)` is asked with the PLAIN sanitised name; then
`family_name(name, unit)` appends the unit suffix.  The distribution itself was created by the drain with
`get_distribution(<plain sanitised name>)`. -/

/-- the configuration with the unit-suffix switch -/
def cfgOfU (unitSuffix : Bool) (global : Option (List Int)) (calls : List (Matcher × List Int)) : Cfg :=
  { cfgOf global calls with unitSuffix := unitSuffix }

/-- `(family name, # TYPE, distribution)` under which a histogram registered as `name` and described (first) with
    `unit` is exposed -/
def exposedFor (unitSuffix : Bool) (global : Option (List Int)) (calls : List (Matcher × List Int)) (name : Str)
    (unit : Option MUnit) : Str × Str × Dist :=
  let n := sanitizeMetricName name
  (PromRender.familyName n (if unitSuffix then unit else none),
   distType (cfgOfU unitSuffix global calls) n,
   newDist (cfgOfU unitSuffix global calls) n)

end MetricsVerif.DistBuilder
