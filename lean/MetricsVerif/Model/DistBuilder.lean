/-
Model of the bucket configuration of `PrometheusBuilder` (metrics-exporter-prometheus/src/exporter/builder.rs:
`set_buckets`, `set_buckets_for_metric`) and of the hand-over to `DistributionBuilder::new`
(distribution.rs).  `Matcher`, its derived order, `sortMatchers`, `newDist` (= `get_distribution`) and
`distType` (= `get_distribution_type`) are the ones of `Model/Prom.lean`.
-/
import MetricsVerif.Model.Prom

namespace MetricsVerif.DistBuilder
open MetricsVerif.Prom MetricsVerif.PromFmt

/-- `set_buckets_for_metric(matcher, values)`: `bucket_overrides.insert(matcher.sanitized(), values.to_vec())` on a
    `HashMap<Matcher, Vec<f64>>` — an equal (sanitised) key gets its value replaced, a new key is added.
    (Empty `values` are rejected with an error before that; callers of the model pass non-empty bounds.) -/
def setBucketsForMetric (ovs : List (Matcher × List Int)) (m : Matcher) (bs : List Int) : List (Matcher × List Int) :=
  upsert ovs m.sanitized [] (fun _ => bs)

/-- the override map after a sequence of `set_buckets_for_metric` calls -/
def overridesOf (calls : List (Matcher × List Int)) : List (Matcher × List Int) :=
  calls.foldl (fun ovs c => setBucketsForMetric ovs c.1 c.2) []

/-- the configuration `build_recorder` hands to `DistributionBuilder::new`, which sorts the overrides -/
def cfgOf (global : Option (List Int)) (calls : List (Matcher × List Int)) : Cfg :=
  { unitSuffix := false, globals := [], buckets := global, overrides := sortMatchers (overridesOf calls), quantiles := [] }

/-- the distribution a histogram registered under the raw name `name` gets: the recorder asks
    `get_distribution` with the SANITISED name (`key_to_parts`), the patterns were sanitised by the builder -/
def distributionFor (global : Option (List Int)) (calls : List (Matcher × List Int)) (name : Str) : Dist :=
  newDist (cfgOf global calls) (sanitizeMetricName name)

/-- the `# TYPE` the recorder prints for it -/
def typeFor (global : Option (List Int)) (calls : List (Matcher × List Int)) (name : Str) : Str :=
  distType (cfgOf global calls) (sanitizeMetricName name)

/-! ### the rolling window of a summary

`PrometheusBuilder::{set_bucket_duration, set_bucket_count}` store `Some(value)`; `build_recorder` hands both options to
`DistributionBuilder::new`; `get_distribution` resolves each one ON ITS OWN against its default
(`self.bucket_duration.map_or(DEFAULT_SUMMARY_BUCKET_DURATION, |d| d)`, likewise the count). -/

/-- `DEFAULT_SUMMARY_BUCKET_COUNT` -/
def defaultBucketCount : Nat := 3

/-- `DEFAULT_SUMMARY_BUCKET_DURATION` = `Duration::from_secs(20)`, in nanoseconds -/
def defaultBucketDurationNs : Nat := 20 * 1000000000

/-- `(b_count, b_duration)` of `get_distribution`: what `Distribution::new_summary` → `RollingSummary::new` receives -/
def windowOf (count : Option Nat) (duration : Option Nat) : Nat × Nat :=
  (match count with | some c => c | none => defaultBucketCount,
   match duration with | some d => d | none => defaultBucketDurationNs)

end MetricsVerif.DistBuilder
