import MetricsVerif.Model.Sched
/-
Model of the generation stamp that idle-detection relies on (metrics-util/src/registry/recency.rs,
`Generational::with_increment`; metrics-exporter-prometheus/src/recorder.rs, `get_recent_metrics`), as a step
machine at the granularity of one shared-memory operation.

An UPDATER runs `with_increment(f)`: first `f(&inner)` (the value write, step W), then `gen.fetch_add(1)` (step G).
An OBSERVER (a render) reads the generation (`get_generation`, step RG), lets `Recency` compare it with the last
one it saw, and then reads the value (`get_inner().load`, step RV).  The value is abstracted to the number of
updates applied so far (every update is visible as a change of that number).

`bumpFirst := true` is the mutated order (generation bumped before the closure runs), kept to show that the
order is what the theorem rests on.
-/
namespace MetricsVerif.GenRace

structure Upd where
  todo : Nat
  mid : Bool            -- first half of the current update done, second half pending
  deriving Repr, DecidableEq

structure Obs where
  todo : Nat
  mid : Bool            -- generation read, value not yet read
  g : Nat
  seen : List (Nat × Nat)   -- (generation stamp, value) pairs recorded by completed observations
  deriving Repr, DecidableEq

structure Sys where
  bumpFirst : Bool
  applied : Nat
  gen : Nat
  upds : List Upd
  obss : List Obs
  deriving Repr, DecidableEq

def stepUpd (s : Sys) (u : Upd) : Sys × Upd :=
  if u.mid then
    (if s.bumpFirst then { s with applied := s.applied + 1 } else { s with gen := s.gen + 1 },
     { todo := u.todo - 1, mid := false })
  else if u.todo > 0 then
    (if s.bumpFirst then { s with gen := s.gen + 1 } else { s with applied := s.applied + 1 },
     { u with mid := true })
  else (s, u)

def stepObs (s : Sys) (o : Obs) : Obs :=
  if o.mid then { o with todo := o.todo - 1, mid := false, seen := o.seen ++ [(o.g, s.applied)] }
  else if o.todo > 0 then { o with mid := true, g := s.gen }
  else o

def step (s : Sys) (tid : Nat) : Sys :=
  if tid < s.upds.length then
    match s.upds[tid]? with
    | none => s
    | some u =>
      let (s', u') := stepUpd s u
      { s' with upds := setAt s'.upds tid u' }
  else
    match s.obss[tid - s.upds.length]? with
    | none => s
    | some o => { s with obss := setAt s.obss (tid - s.upds.length) (stepObs s o) }

def run (s : Sys) (sched : List Nat) : Sys := sched.foldl step s

def init (bumpFirst : Bool) (updates observations : List Nat) : Sys :=
  { bumpFirst, applied := 0, gen := 0,
    upds := updates.map (fun n => { todo := n, mid := false }),
    obss := observations.map (fun n => { todo := n, mid := false, g := 0, seen := [] }) }

def total (updates : List Nat) : Nat := updates.sum

def quiescent (s : Sys) : Bool := s.upds.all (fun u => u.todo == 0 && !u.mid)

/-- label of the yield point thread `tid` is parked at -/
def label (s : Sys) (tid : Nat) : String :=
  if tid < s.upds.length then
    match s.upds[tid]? with
    | some u => if u.mid then "gen.applied" else if u.todo > 0 then "start" else "done"
    | none => "nothread"
  else
    match s.obss[tid - s.upds.length]? with
    | some o => if o.mid then "prom.render.gen_read" else if o.todo > 0 then "start" else "done"
    | none => "nothread"

/-- one scheduler grant: the code runs from the point the thread is parked at to the next point, i.e. the second
    half of the current update / observation and, if there is a further one, its first half -/
def grant (s : Sys) (tid : Nat) : Sys :=
  let midNow := if tid < s.upds.length then (s.upds[tid]?).map (·.mid) else (s.obss[tid - s.upds.length]?).map (·.mid)
  match midNow with
  | some true => step (step s tid) tid
  | _ => step s tid

end MetricsVerif.GenRace
