/-
Concurrent model of `DebuggingRecorder` (metrics-util/src/debugging.rs) ON TOP OF the registry step machine of
`Model/Registry` (metrics-util/src/registry/mod.rs): several threads register / update / snapshot through ONE
recorder at the same time.

What is shared: the registry (`Reg`: per kind the shards of `(key, hash, storage id)`), the storage cells the
registry's `AtomicStorage` factory made (`cells`, index = storage id = creation order; `Arc<AtomicU64>` /
`Arc<AtomicBucket<f64>>` in the code), and `Inner::seen` (a `Mutex<IndexMap<CompositeKey, ()>>`).
What is private to a thread: the handles its registrations returned (`Counter::from_arc(c.clone())`: the handle
IS the cell; it keeps pointing at that cell whatever happens to the map afterwards).

One step = what a thread does between two consecutive yield points (DESIGN §3.1).  Yield points:
  `c19.call`       before every call of the thread's program (placed by the harness, harness/src/c19.rs)
  `reg.goc.read`   before the read-lock section of `Registry::get_or_create_*`
  `reg.goc.write`  between `drop(shard_read)` and `shard.write()` — the window in which another thread can create
                   the entry; the write section looks the key up AGAIN (`Registry.writeSection`)
so `register_*` is three steps (`track_metric` | read section | write section) and two threads registering one
new key can both miss under the read lock.  An update through a handle is one atomic RMW (`fetch_add`,
`fetch_max`, `store`/`fetch_update`); `Histogram::record` and `Snapshotter::snapshot` are taken as one step each
(the interleavings INSIDE the lock-free bucket are C05's step machine; K-C05-K1 lives there).

Values: counters `Nat` mod 2^64, gauge / histogram values exact dyadics `n/1024` given by their numerator.

`ulog` is ghost state (which update reached which key, in the order they took effect); nothing reads it.
-/
import MetricsVerif.Model.Registry

namespace MetricsVerif.DebuggingConc
open MetricsVerif MetricsVerif.Registry

def two64 : Nat := 18446744073709551616

/-- a storage cell of `AtomicStorage`: `Arc<AtomicU64>` (counter), `Arc<AtomicU64>` holding f64 bits (gauge),
    `Arc<AtomicBucket<f64>>` (histogram: the values not yet drained, in record order) -/
inductive Cell
  | counter (n : Nat)
  | gauge (v : Int)
  | hist (vs : List Int)
  deriving Repr, DecidableEq

/-- `AtomicStorage::counter / gauge / histogram`: a new cell -/
def fresh : Kind → Cell
  | .counter => .counter 0
  | .gauge => .gauge 0
  | .histogram => .hist []

/-- what can happen to a cell: `CounterFn::increment / absolute`, `GaugeFn::set / increment (decrement = negative)`,
    `HistogramFn::record`, and `AtomicBucket::clear_with` (`drain`; only `Snapshotter::snapshot` calls it) -/
inductive Upd
  | cinc (n : Nat)
  | cabs (n : Nat)
  | gset (v : Int)
  | gadd (d : Int)
  | hrec (v : Int)
  | drain
  deriving Repr, DecidableEq

/-- the effect of one operation on a cell (a handle is typed: an operation of another kind cannot reach the cell;
    the model leaves the cell alone) -/
def applyUpd : Cell → Upd → Cell
  | .counter c, .cinc n => .counter ((c + n) % two64)
  | .counter c, .cabs n => .counter (max c n)
  | .gauge _, .gset v => .gauge v
  | .gauge g, .gadd d => .gauge (g + d)
  | .hist vs, .hrec v => .hist (vs ++ [v])
  | .hist _, .drain => .hist []
  | c, _ => c

/-- a thread's calls on the recorder -/
inductive CCall (K : Type)
  /-- `register_counter / _gauge / _histogram(&key, _)`; the returned handle is appended to the thread's handles -/
  | register (kd : Kind) (k : K)
  /-- an update through the thread's `h`-th handle -/
  | update (h : Nat) (u : Upd)
  /-- `Snapshotter::snapshot()` -/
  | snapshot

inductive CPC
  | start | call | gocRead | gocWrite | done
  deriving Repr, DecidableEq

/-- a handle: the cell, and (ghost) the kind and key it was registered with -/
structure Handle (K : Type) where
  kd : Kind
  key : K
  id : Nat

/-- one element of a snapshot: kind, the key instance stored in `seen`, the value read -/
abbrev SnapEntry (K : Type) := Kind × K × Cell

structure CThread (K : Type) where
  calls : List (CCall K)
  pc : CPC
  handles : List (Handle K)
  snaps : List (List (SnapEntry K))

/-- ghost: one cell operation, with the kind and key of the handle (or `seen` element) it went through -/
structure ULog (K : Type) where
  kd : Kind
  key : K
  upd : Upd

structure CSys (K : Type) where
  reg : Reg K
  cells : List Cell
  seen : List (Kind × K)
  threads : List (CThread K)
  ulog : List (ULog K)

def mkThread {K : Type} (calls : List (CCall K)) : CThread K := { calls, pc := .start, handles := [], snaps := [] }

/-- `DebuggingRecorder::new()` (`Registry::atomic()` with `count` shards) and the threads' programs -/
def CSys.init {K : Type} (count : Nat) (progs : List (List (CCall K))) : CSys K :=
  { reg := Reg.new count, cells := [], seen := [], threads := progs.map mkThread, ulog := [] }

/-- `CompositeKey::eq`: same kind, equal key -/
def sameMetric {K : Type} (ko : KeyOps K) (kd : Kind) (k : K) (e : Kind × K) : Bool := decide (e.1 = kd) && ko.eqv k e.2

def seenHas {K : Type} (ko : KeyOps K) (seen : List (Kind × K)) (kd : Kind) (k : K) : Bool := seen.any (sameMetric ko kd k)

/-- `track_metric`: `IndexMap::insert(ckey, ())` — an equal key keeps its position and its stored instance -/
def track {K : Type} (ko : KeyOps K) (seen : List (Kind × K)) (kd : Kind) (k : K) : List (Kind × K) :=
  if seenHas ko seen kd k then seen else seen ++ [(kd, k)]

/-- one operation on cell `i`, reached through `(kd, k)` -/
def cellOp {K : Type} (s : CSys K) (kd : Kind) (k : K) (i : Nat) (u : Upd) : CSys K :=
  { s with cells := match s.cells[i]? with
                    | some c => setAt s.cells i (applyUpd c u)
                    | none => s.cells,
           ulog := s.ulog ++ [{ kd, key := k, upd := u }] }

/-- the write section of `get_or_create_*` (re-check included: `Registry.writeSection`) together with the storage
    factory: one fresh cell per storage the factory was asked for -/
def create {K : Type} (ko : KeyOps K) (s : CSys K) (kd : Kind) (k : K) : CSys K × Nat :=
  let ri := writeSection ko s.reg kd k
  ({ s with reg := ri.1, cells := s.cells ++ List.replicate (ri.1.next - s.reg.next) (fresh kd) }, ri.2)

/-- body of the snapshot loop for one element of `seen`: the value under that key, if the registry has it
    (`counters.get(ck.key()).map(load)`) -/
def snapEntry {K : Type} (ko : KeyOps K) (s : CSys K) (e : Kind × K) : Option (SnapEntry K) :=
  match readSection ko s.reg e.1 e.2 with
  | some i => (s.cells[i]?).map (fun c => (e.1, e.2, c))
  | none => none

/-- `h.clear_with(..)` on the histogram found under an element of `seen` -/
def drainOne {K : Type} (ko : KeyOps K) (s : CSys K) (e : Kind × K) : CSys K :=
  match e.1, readSection ko s.reg e.1 e.2 with
  | .histogram, some i => cellOp s .histogram e.2 i .drain
  | _, _ => s

/-- `Snapshotter::snapshot`: walk `seen` in order, load counters and gauges, drain histograms -/
def snapshot {K : Type} (ko : KeyOps K) (s : CSys K) : CSys K × List (SnapEntry K) :=
  (s.seen.foldl (drainOne ko) s, s.seen.filterMap (snapEntry ko s))

/-- the call returned; on to the next one -/
def CThread.advance {K : Type} (t : CThread K) : CThread K :=
  { t with calls := t.calls.tail, pc := match t.calls.tail with | [] => .done | _ :: _ => .call }

/-- what thread `t` does between two consecutive yield points: the new system (its `threads` untouched) and the
    thread's new state -/
def stepThread {K : Type} (ko : KeyOps K) (s : CSys K) (t : CThread K) : CSys K × CThread K :=
  match t.pc, t.calls with
  | .start, [] => (s, { t with pc := .done })
  | .start, _ :: _ => (s, { t with pc := .call })
  | .call, .register kd k :: _ => ({ s with seen := track ko s.seen kd k }, { t with pc := .gocRead })
  | .call, .update h u :: _ =>
    match t.handles[h]? with
    | some hd => (cellOp s hd.kd hd.key hd.id u, t.advance)
    | none => (s, t.advance)        -- no such handle (the driver refuses such programs)
  | .call, .snapshot :: _ =>
    let o := snapshot ko s
    (o.1, { t.advance with snaps := t.snaps ++ [o.2] })
  | .gocRead, .register kd k :: _ =>
    match readSection ko s.reg kd k with
    | some i => (s, { t.advance with handles := t.handles ++ [{ kd, key := k, id := i }] })
    | none => (s, { t with pc := .gocWrite })
  | .gocWrite, .register kd k :: _ =>
    let o := create ko s kd k
    (o.1, { t.advance with handles := t.handles ++ [{ kd, key := k, id := o.2 }] })
  | _, _ => (s, t)          -- `done`, or a pc that does not fit the call: no step

def step {K : Type} (ko : KeyOps K) (s : CSys K) (tid : Nat) : CSys K :=
  match s.threads[tid]? with
  | none => s
  | some t =>
    let o := stepThread ko s t
    { o.1 with threads := setAt o.1.threads tid o.2 }

def run {K : Type} (ko : KeyOps K) (s : CSys K) (sched : List Nat) : CSys K := sched.foldl (step ko) s

/-- the point id the implementation is parked at -/
def CPC.label : CPC → String
  | .start => "start" | .call => "c19.call" | .gocRead => "reg.goc.read" | .gocWrite => "reg.goc.write"
  | .done => "done"

/-- ghost: the operations that reached the cell of `(kd, k)`, through whichever equal key, oldest first -/
def keyLog {K : Type} (ko : KeyOps K) (ulog : List (ULog K)) (kd : Kind) (k : K) : List Upd :=
  (ulog.filter (fun e => sameMetric ko kd k (e.kd, e.key))).map (·.upd)

/-- the state of a cell that has seen the operations `us` since it was made -/
def foldCell (kd : Kind) (us : List Upd) : Cell := us.foldl applyUpd (fresh kd)

end MetricsVerif.DebuggingConc
