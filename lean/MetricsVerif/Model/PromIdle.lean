/-
Model of the Prometheus exporter's side of idle-metric removal:
`metrics-exporter-prometheus/src/recorder.rs` — `Inner::get_recent_metrics` (the three loops, with the clean-up
of an expired histogram's aggregated distribution), `Inner::drain_histograms_to_distributions`,
`PrometheusHandle::run_upkeep` — on top of `Model/Recency.lean` (registry + `Recency`).

A histogram of the exporter lives in two places: the registry entry (an `AtomicBucket` of raw samples, wrapped
in `Generational`) and the exporter's own map `distributions : name ↦ labels ↦ Distribution`, keyed by what
`key_to_parts(&key, Some(&global_labels))` returns.  Every render first moves the raw samples into the
distribution (`clear_with`), so the value that is *shown* survives the registry entry unless the exporter
deletes it as well — which it does, looking the distribution up under `key_to_parts` again.

* `base` is the `Recency` model unchanged (so every theorem of `Props/C12.lean` about the registry applies:
  `C12.prom_base_sim`); the histogram value kept there — (count, sum) of the samples recorded since the
  metric was (re-)registered — is what the property calls its "full value".
* `buckets` is the raw, not yet drained part per key; `dists` the aggregated part per `key_to_parts` result.
  A distribution is modelled by its (count, sum) (the `_count` / `_sum` series of the exposition text).
* `parts` is `key_to_parts(·, Some(global_labels))`; the model is parametric in it (the driver instantiates it
  with `PromFmt.keyToParts` and the configured global labels), the theorems say which of its properties they use.
-/
import MetricsVerif.Model.Recency

namespace MetricsVerif.PromIdle
open MetricsVerif.Recency

/-- what `key_to_parts` returns: (sanitised name, rendered `k="v"` label strings) -/
abbrev DKey := List Char × List (List Char)
/-- (count, sum) of a set of samples -/
abbrev Agg := Nat × Int

def aggAdd (a b : Agg) : Agg := (a.1 + b.1, a.2 + b.2)

structure PSt where
  base : St
  /-- raw samples recorded and not yet drained, per histogram key (missing = empty bucket) -/
  buckets : List (Key × Agg) := []
  /-- `Inner::distributions` -/
  dists : List (DKey × Agg) := []
  deriving Repr

def init (cfg : Cfg) : PSt := { base := Recency.init cfg }

/-- one `Histogram::record(v)` through a freshly registered handle: `Generational::with_increment` pushes the
    sample into the bucket and bumps the generation -/
def recordOnce (ps : PSt) (key : Key) (v : Int) : PSt :=
  { ps with base := step ps.base (.upd .histogram key (.record v)),
            buckets := insert ps.buckets key (aggAdd ((lookup ps.buckets key).getD (0, 0)) (1, v)) }

/-- one iteration of `drain_histograms_to_distributions`: the distribution under `key_to_parts(key)` is created
    if missing (also when there is nothing to drain) and takes over the bucket's samples (`clear_with`) -/
def drainOne (parts : Key → DKey) (ps : PSt) (e : Id × Metric) : PSt :=
  { ps with dists := insert ps.dists (parts e.1.2)
                      (aggAdd ((lookup ps.dists (parts e.1.2)).getD (0, 0)) ((lookup ps.buckets e.1.2).getD (0, 0))),
            buckets := erase ps.buckets e.1.2 }

/-- `Inner::drain_histograms_to_distributions` (also all of `run_upkeep` that matters here) -/
def drain (parts : Key → DKey) (ps : PSt) : PSt :=
  (handles ps.base .histogram).foldl (drainOne parts) ps

/-- one iteration of the histogram loop of `get_recent_metrics`: ask `should_store_histogram`; on `false` the
    registry entry is gone (with its bucket) and the exporter removes the distribution it finds under
    `key_to_parts(key)` -/
def visitH (parts : Key → DKey) (ps : PSt) (e : Id × Metric) : PSt :=
  if (shouldStore ps.base e.1.1 e.1.2 e.2.gen).2 then
    { ps with base := (shouldStore ps.base e.1.1 e.1.2 e.2.gen).1 }
  else
    { base := (shouldStore ps.base e.1.1 e.1.2 e.2.gen).1,
      buckets := erase ps.buckets e.1.2,
      dists := erase ps.dists (parts e.1.2) }

/-- the state a render starts its drain from: counters loop, gauges loop -/
def afterCG (ps : PSt) : PSt := { ps with base := observeKind (observeKind ps.base .counter) .gauge }

/-- `Inner::get_recent_metrics`: counters, gauges, drain, then the histogram loop over a fresh snapshot -/
def render (parts : Key → DKey) (ps : PSt) : PSt :=
  (handles (drain parts (afterCG ps)).base .histogram).foldl (visitH parts) (drain parts (afterCG ps))

inductive POp
  | reg (k : Kind) (key : Key)                  -- `register_*`, handle dropped
  | upd (k : Kind) (key : Key) (u : Upd)        -- `register_*` then one update call
  | recMany (key : Key) (v : Int) (n : Nat)     -- `register_histogram` then `record_many(v, n)` (default method: n × `record`)
  | adv (ticks : Nat)
  | upkeep                                      -- `PrometheusHandle::run_upkeep`
  | render                                      -- `PrometheusHandle::render`
  deriving Repr

/-- `n` times `recordOnce` -/
def recordN (ps : PSt) (key : Key) (v : Int) : Nat → PSt
  | 0 => ps
  | n + 1 => recordOnce (recordN ps key v n) key v

/-- a `record` on a histogram goes through `recordOnce`; every other update touches the registry only -/
def updStep (ps : PSt) (k : Kind) (key : Key) (u : Upd) : PSt :=
  match k, u with
  | .histogram, .record v => recordOnce ps key v
  | _, _ => { ps with base := step ps.base (.upd k key u) }

def pstep (parts : Key → DKey) (ps : PSt) : POp → PSt
  | .reg k key => { ps with base := step ps.base (.reg k key) }
  | .upd k key u => updStep ps k key u
  | .recMany key v n => recordN { ps with base := step ps.base (.reg .histogram key) } key v n
  | .adv n => { ps with base := step ps.base (.adv n) }
  | .upkeep => drain parts ps
  | .render => render parts ps

def prun (parts : Key → DKey) (ps : PSt) (ops : List POp) : PSt := ops.foldl (pstep parts) ps

/-- the operations of the `Recency` model that an exporter operation amounts to, as far as the registry and
    `Recency` are concerned -/
def POp.toOps : POp → List Op
  | .reg k key => [.reg k key]
  | .upd k key u => [.upd k key u]
  | .recMany key v n => .reg .histogram key :: List.replicate n (.upd .histogram key (.record v))
  | .adv n => [.adv n]
  | .upkeep => []
  | .render => [.observe]

end MetricsVerif.PromIdle
