/-
Shared plumbing of the step-machine models: replacing one thread in a thread list.
-/
namespace MetricsVerif

def setAt {α : Type} : List α → Nat → α → List α
  | [], _, _ => []
  | _ :: xs, 0, a => a :: xs
  | x :: xs, n + 1, a => x :: setAt xs n a

end MetricsVerif
