import MetricsVerif.Model.Statsd
/-
Model of the client state machine of the synchronous DogStatsD forwarder
(metrics-exporter-dogstatsd/src/forwarder/sync.rs: `Client`, `ClientState`, `ClientState::try_send`), together with
the adversary it talks to (the kernel / the receiving Agent) and the receiver's view of every connection.

The environment decides, for every `try_send`, whether a (re)connect succeeds and what the socket does with the
bytes: accept all of them (`full`), or accept `k` of them and then fail (`fail k`: the write timeout `SO_SNDTIMEO`
elapsing inside `write_all` while the receiver is not reading, `EPIPE` / `ECONNRESET` after the receiver went away,
...).  The code does not look at the kind of the error, so the model does not either.

A socket is modelled by what it carried: one `Chunk` per `Client::send` on it.  Import-free apart from the writer
model (for `Bytes` and `le32`), total, executable.
-/
namespace MetricsVerif.StatsdFwd
open MetricsVerif.Statsd

/-- what the socket does with the bytes of one `Client::send` -/
inductive WriteRes
  /-- every byte accepted: `Ok(buf.len())` -/
  | full
  /-- `k` bytes accepted, then an error (`write_all` on the stream socket: `k < buf.len()`); a datagram socket
      transmits nothing on an error -/
  | fail (k : Nat)
  deriving DecidableEq, Repr

/-- the environment's choices for one `try_send` -/
structure Env where
  /-- result of `Client::from_forwarder_config`, consulted only when the client is `Disconnected` -/
  connectOk : Bool
  write : WriteRes
  deriving Repr

/-- what one `Client::send` left on its socket: the bytes the kernel accepted, and whether the call returned `Ok` -/
structure Chunk where
  bytes : Bytes
  ok : Bool
  deriving DecidableEq, Repr

/-- one socket = the sends made on it, oldest first -/
abbrev Conn := List Chunk

/-- `ClientState` (+ the sockets it has dropped so far, which the receiver still reads to their end).
    `ready = some c` is `ClientState::Ready(config, client)`, `none` is `ClientState::Disconnected(config)`;
    `ClientState::Inconsistent` only exists inside `try_send`. -/
structure Fwd where
  /-- `Client::Unix` (SOCK_STREAM, `write_all`) as opposed to `Client::Udp` / `Client::Unixgram` (one `send` = one
      datagram) -/
  stream : Bool
  ready : Option Conn
  closed : List Conn
  deriving Repr

/-- `Forwarder::new`: `ClientState::Disconnected(config.clone())` -/
def init (stream : Bool) : Fwd := ⟨stream, none, []⟩

/-- `Client::send`.  Stream: `socket.write_all(buf)` — `Ok` iff every byte was accepted (an empty buffer is `Ok`
    without a system call), otherwise the accepted bytes stay in the stream.  Datagram: `socket.send(buf)` — all or
    nothing. -/
def clientSend (stream : Bool) (p : Bytes) : WriteRes → Chunk
  | .full => ⟨p, true⟩
  | .fail k =>
    if stream then (if p.isEmpty then ⟨[], true⟩ else ⟨p.take (min k (p.length - 1)), false⟩)
    else ⟨[], false⟩

/-- the `ClientState::Ready` arm of `try_send`: send; `Ok` keeps the socket, ANY error drops it
    (`*self = ClientState::Disconnected(config)`) -/
def sendOn (s : Fwd) (c : Conn) (p : Bytes) (w : WriteRes) : Fwd × Option Nat :=
  let ch := clientSend s.stream p w
  if ch.ok then ({ s with ready := some (c ++ [ch]) }, some p.length)
  else ({ s with ready := none, closed := s.closed ++ [c ++ [ch]] }, none)

/-- `ClientState::try_send`: `Disconnected` → connect (failure: stay `Disconnected`, return the error), then loop
    into the `Ready` arm with the same payload.  Result `some n` = `Ok(n)`, `none` = `Err(_)`. -/
def trySend (s : Fwd) (p : Bytes) (e : Env) : Fwd × Option Nat :=
  match s.ready with
  | some c => sendOn s c p e.write
  | none => if e.connectOk then sendOn s [] p e.write else (s, none)

/-- the payload loop of `Forwarder::run`: `try_send` for every payload, in order, whatever the earlier results -/
def run : Fwd → List (Bytes × Env) → Fwd × List (Option Nat)
  | s, [] => (s, [])
  | s, (p, e) :: ops =>
    let (s1, o) := trySend s p e
    let (s2, os) := run s1 ops
    (s2, o :: os)

/-- every socket ever made, oldest first (the live one last) -/
def conns (s : Fwd) : List Conn := s.closed ++ s.ready.toList

/-! ## the receiver -/

/-- the byte stream a receiver reads from one stream connection until EOF -/
def rxStream (c : Conn) : Bytes := (c.map (·.bytes)).flatten

/-- the datagrams a receiver gets from one datagram socket -/
def rxDgram (c : Conn) : List Bytes := (c.filter (·.ok)).map (·.bytes)

/-- `u32::from_le_bytes` -/
def le32val (a b c d : UInt8) : Nat := a.toNat + 256 * b.toNat + 65536 * c.toNat + 16777216 * d.toNat

/-- the Agent's stream reader: 4-byte little-endian length, then that many bytes, repeat; stops at the first
    incomplete frame.  Result: the complete frame bodies and the unconsumed rest. -/
def deframeGo : Nat → Bytes → List Bytes × Bytes
  | 0, bs => ([], bs)
  | fuel + 1, a :: b :: c :: d :: rest =>
    if le32val a b c d ≤ rest.length then
      let r := deframeGo fuel (rest.drop (le32val a b c d))
      (rest.take (le32val a b c d) :: r.1, r.2)
    else ([], a :: b :: c :: d :: rest)
  | _ + 1, bs => ([], bs)

def deframe (bs : Bytes) : List Bytes × Bytes := deframeGo bs.length bs

/-- a payload as `PayloadWriter` hands it to the socket in length-prefixed mode (`C09.framed`) -/
def lpFrame (body : Bytes) : Bytes := le32 body.length ++ body

/-! ## the payload loop of `Forwarder::run` with its counters (round 7)

`Forwarder::run` keeps a `TelemetryUpdate` per flush cycle (`telemetry_update.clear()` at the top of the cycle) and,
for every payload of the drain, calls `track_packet_send_succeeded(payload.len())` when `try_send` returned `Ok` and
`track_packet_send_failed(payload.len())` when it returned `Err` — and goes on with the next payload either way. -/

/-- the send counters of `TelemetryUpdate` (telemetry.rs) -/
structure SendCounts where
  packetsSent : Nat
  bytesSent : Nat
  packetsDropped : Nat
  packetsDroppedWriter : Nat
  bytesDropped : Nat
  bytesDroppedWriter : Nat
  deriving DecidableEq, Repr

/-- `TelemetryUpdate::clear` (the send part) -/
def SendCounts.zero : SendCounts := ⟨0, 0, 0, 0, 0, 0⟩

/-- `TelemetryUpdate::track_packet_send_succeeded` -/
def trackOk (c : SendCounts) (len : Nat) : SendCounts :=
  { c with packetsSent := c.packetsSent + 1, bytesSent := c.bytesSent + len }

/-- `TelemetryUpdate::track_packet_send_failed` -/
def trackFailed (c : SendCounts) (len : Nat) : SendCounts :=
  { c with packetsDropped := c.packetsDropped + 1, packetsDroppedWriter := c.packetsDroppedWriter + 1,
           bytesDropped := c.bytesDropped + len, bytesDroppedWriter := c.bytesDroppedWriter + len }

/-- the two arms of `if let Err(e) = self.client_state.try_send(payload) { … } else { … }` -/
def track (c : SendCounts) (len : Nat) : Option Nat → SendCounts
  | none => trackFailed c len
  | some _ => trackOk c len

/-- the `while let Some(payload) = payloads.next_payload()` loop of one flush cycle, with its counters: `try_send`
    for every payload in order, whatever the earlier results, and one `track_*` call per payload -/
def cycle : Fwd → SendCounts → List (Bytes × Env) → Fwd × SendCounts
  | s, c, [] => (s, c)
  | s, c, (p, e) :: ops => cycle (trySend s p e).1 (track c p.length (trySend s p e).2) ops

/-! ## the UDP client socket (`Client::from_forwarder_config`, `RemoteAddr::Udp` arm) -/

/-- address family of a socket address -/
inductive Family
  | v4
  | v6
  deriving DecidableEq, Repr

/-- how the UDP arm picks the local address it binds before `connect`: a fixed family (the code as it stands binds
    `Ipv4Addr::UNSPECIFIED`), or the family of the remote address it is about to connect to -/
inductive UdpBind
  | fixed (f : Family)
  | ofRemote
  deriving DecidableEq, Repr

/-- `socket.connect(addr)` on a socket of family `local`: the kernel refuses an address of the other family
    (`EAFNOSUPPORT`; `std` binds plain `AF_INET` / `AF_INET6` sockets, an `AF_INET` socket cannot reach `::1`) -/
def connectFamilyOk (l r : Family) : Bool := l == r

/-- `bind(..).and_then(|socket| socket.connect(&addrs[..]))`: `connect` tries the addresses in order and succeeds with
    the first one the socket can be connected to; no address → error.  (Loopback / routable targets: the only failure
    modelled is the family mismatch.) -/
def udpConnects (b : UdpBind) (remotes : List Family) : Bool :=
  match b with
  | .fixed f => remotes.any (connectFamilyOk f)
  | .ofRemote => !remotes.isEmpty

/-- the environment a UDP client of bind policy `b` towards `remotes` lives in when nothing else goes wrong: connects
    succeed iff the families allow it, every datagram is accepted -/
def udpEnv (b : UdpBind) (remotes : List Family) : Env := ⟨udpConnects b remotes, .full⟩

/-- the bind policy a given source text of the `UdpSocket::bind(..)` call stands for (the text comes from the
    translator: `Generated.dsd_udp_bind`); unknown text → none -/
def udpBindOfSource (bindText : String) : Option UdpBind :=
  if bindText = "UdpSocket::bind((Ipv4Addr::UNSPECIFIED, 0))" then some (.fixed .v4)
  else if bindText = "UdpSocket::bind(unspecified_for(addr))" then some .ofRemote
  else none

end MetricsVerif.StatsdFwd
