/-
Model of metrics-exporter-prometheus/src/formatting.rs (import-free, total, executable).

Strings are `List Char` (the Rust code iterates `str::chars()`); the harness ships UTF-8 bytes in hex and
the driver decodes them to `List Char`.

The model follows the code that exists, including its oddities (e.g. a newline does not flush or reset
a pending backslash, a `"` in label-value mode swallows a pending backslash).
-/
namespace MetricsVerif.PromFmt

/-- `valid_metric_name_start_character` -/
def validNameStart (c : Char) : Bool := c.isAlpha || c == '_' || c == ':'
/-- `valid_metric_name_character` -/
def validNameChar (c : Char) : Bool := c.isAlphanum || c == '_' || c == ':'
/-- `valid_label_key_start_character` -/
def validLabelStart (c : Char) : Bool := c.isAlpha || c == '_'
/-- `valid_label_key_character` -/
def validLabelChar (c : Char) : Bool := c.isAlphanum || c == '_'

/-- shape shared by `sanitize_metric_name` / `sanitize_label_key`:
  position 0 is kept iff `start`, other positions iff `rest`, else replaced by `_`. -/
def sanitizeWith (start rest : Char → Bool) : List Char → List Char
  | [] => []
  | c :: cs => (if start c then c else '_') :: cs.map (fun c => if rest c then c else '_')

def sanitizeMetricName : List Char → List Char := sanitizeWith validNameStart validNameChar
def sanitizeLabelKey : List Char → List Char := sanitizeWith validLabelStart validLabelChar

/-- `sanitize_label_value_or_description`, loop body as a recursion carrying `previous_backslash`. -/
def escGo (isDesc : Bool) : Bool → List Char → List Char
  | prev, [] => if prev then ['\\', '\\'] else []
  | prev, c :: cs =>
    if c = '\n' then '\\' :: 'n' :: escGo isDesc prev cs
    else if c = '"' ∧ isDesc = false then '\\' :: '"' :: escGo isDesc false cs
    else if c = '\\' then
      if prev then '\\' :: '\\' :: escGo isDesc false cs
      else escGo isDesc true cs
    else
      if prev then '\\' :: '\\' :: c :: escGo isDesc false cs
      else c :: escGo isDesc false cs

def sanitizeLabelValue (s : List Char) : List Char := escGo false false s
def sanitizeDescription (s : List Char) : List Char := escGo true false s

/-- `Unit` in declaration order, with `Unit::as_str`. The table is cross-checked against the source by
    the translator (`Generated/SourceFacts.lean`). -/
inductive MUnit
  | count | percent | seconds | milliseconds | microseconds | nanoseconds
  | tebibytes | gibibytes | mebibytes | kibibytes | bytes
  | terabitsPerSecond | gigabitsPerSecond | megabitsPerSecond | kilobitsPerSecond | bitsPerSecond
  | countPerSecond
  deriving DecidableEq, Repr, Inhabited

def MUnit.all : List MUnit :=
  [.count, .percent, .seconds, .milliseconds, .microseconds, .nanoseconds, .tebibytes, .gibibytes,
   .mebibytes, .kibibytes, .bytes, .terabitsPerSecond, .gigabitsPerSecond, .megabitsPerSecond,
   .kilobitsPerSecond, .bitsPerSecond, .countPerSecond]

def MUnit.asStr : MUnit → String
  | .count => "count" | .percent => "percent" | .seconds => "seconds"
  | .milliseconds => "milliseconds" | .microseconds => "microseconds" | .nanoseconds => "nanoseconds"
  | .tebibytes => "tebibytes" | .gibibytes => "gibibytes" | .mebibytes => "mebibytes"
  | .kibibytes => "kibibytes" | .bytes => "bytes"
  | .terabitsPerSecond => "terabits_per_second" | .gigabitsPerSecond => "gigabits_per_second"
  | .megabitsPerSecond => "megabits_per_second" | .kilobitsPerSecond => "kilobits_per_second"
  | .bitsPerSecond => "bits_per_second" | .countPerSecond => "count_per_second"

def MUnit.ofStr? (s : String) : Option MUnit := MUnit.all.find? (fun u => u.asStr == s)

/-- the `match unit` of `write_metric_line`: text appended after `_`, or nothing -/
def unitSuffix : Option MUnit → Option (List Char)
  | none => none
  | some .count => none
  | some .percent => some "ratio".toList
  | some u => some u.asStr.toList

/-- `write_help_line` -/
def writeHelpLine (name desc : List Char) : List Char :=
  ['#', ' ', 'H', 'E', 'L', 'P', ' '] ++ name ++ [' '] ++ sanitizeDescription desc ++ ['\n']

/-- `write_type_line` -/
def writeTypeLine (name ty : List Char) : List Char :=
  ['#', ' ', 'T', 'Y', 'P', 'E', ' '] ++ name ++ [' '] ++ ty ++ ['\n']

/-- `labels.join(",")` as the loop in `write_metric_line` writes it -/
def joinComma : List (List Char) → List Char
  | [] => []
  | [l] => l
  | l :: ls => l ++ ',' :: joinComma ls

/-- the name part of `write_metric_line`: `name[_suffix][_unit]` -/
def fullName (name : List Char) (suffix : Option (List Char)) (unit : Option MUnit) : List Char :=
  name ++ (match suffix with | some s => '_' :: s | none => [])
       ++ (match unitSuffix unit with | some u => '_' :: u | none => [])

/-- the `{…}` block of `write_metric_line` (only written when there is at least one label) -/
def labelBlock (labels : List (List Char)) (extra : Option (List Char × List Char)) : List Char :=
  '{' :: joinComma labels
  ++ (match extra with
      | some (k, v) => (if labels.isEmpty then [] else [',']) ++ k ++ ['=', '"'] ++ v ++ ['"']
      | none => [])
  ++ ['}']

/-- `write_metric_line`; `labels` are the pre-formatted `k="v"` strings, `extra` the additional label
    `(name, Display text of its value)`, `value` the Display text of the sample value. -/
def writeMetricLine (name : List Char) (suffix : Option (List Char)) (labels : List (List Char))
    (extra : Option (List Char × List Char)) (value : List Char) (unit : Option MUnit) : List Char :=
  fullName name suffix unit
  ++ (if labels.isEmpty && extra.isNone then [] else labelBlock labels extra)
  ++ [' '] ++ value ++ ['\n']

/-- the `format!("{}=\"{}\"", sanitize_label_key(k), sanitize_label_value(v))` of `key_to_parts` -/
def formatLabel (k v : List Char) : List Char :=
  sanitizeLabelKey k ++ ['=', '"'] ++ sanitizeLabelValue v ++ ['"']

/-- `IndexMap::insert` on an association list: overwrite in place, else append. -/
def imInsert (m : List (List Char × List Char)) (k v : List Char) : List (List Char × List Char) :=
  match m with
  | [] => [(k, v)]
  | (k', v') :: rest => if k' = k then (k', v) :: rest else (k', v') :: imInsert rest k v

/-- `key_to_parts`: global labels first (in their order), overridden in place by the key's labels. -/
def keyToParts (name : List Char) (keyLabels globals : List (List Char × List Char)) :
    List Char × List (List Char) :=
  let merged := keyLabels.foldl (fun m kv => imInsert m kv.1 kv.2) globals
  (sanitizeMetricName name, merged.map (fun kv => formatLabel kv.1 kv.2))

end MetricsVerif.PromFmt
