import MetricsVerif.Model.Sched
/-
Model of an UPDATE RACING THE IDLE-DELETION, as a step machine at the granularity of the `cfg(metrics_verif)` yield
points (one step = what one thread does from the yield point it is parked at up to its next yield point).

Code followed (one metric: one key of one kind, counter or gauge, every update adds 1):

* updater threads.  `fresh = true`: what the `metrics` macros do — before EVERY update the handle is obtained anew,
  `PrometheusRecorder::register_counter/gauge` → `Registry::get_or_create_*` (yield point `reg.goc.read`: read-lock
  the shard, look the key up, clone the handle; absent → yield point `reg.goc.write`: write-lock, look up again,
  else create storage with value 0 / generation 0 and insert it), then `Counter::increment` →
  `Generational::with_increment`: the value write, yield point `gen.applied`, the generation bump.
  `fresh = false`: ONE handle obtained before the race and kept (`let c = counter!(..)` outside the loop); its updates
  keep going to the storage cell it was cloned from, whether or not the registry still maps the key to that cell.
* the observer thread: `renders` times `Inner::get_recent_metrics` (one key, so one loop iteration): snapshot
  `get_*_handles` and `get_generation` (then yield point `prom.render.gen_read`), `Recency::should_store_*`:
  unknown key / changed generation → (re)store `(generation, now)` and keep; same generation and
  `now - last > timeout` → `Registry::delete_*` (yield point `reg.delete` — the `Recency` mutex is held across it, which
  is why there is a single observer), which removes WHATEVER the registry maps the key to — it does not re-check the
  generation; deleted → entry removed, metric not shown; kept → the value is read through the snapshot handle and shown.
  Between two renders the observer thread advances the mock clock by `tick` and passes the harness's own yield point
  `obs.render`.

Storage cells are numbered; `reg` is the cell the registry currently maps the key to; a cell that was deleted stays
reachable through the handles cloned from it (orphaned storage).

Ghost state (not in the code): `unshown c` = updates written to cell `c` since the observer last read its value;
`lost` = updates that can never reach the output any more (unshown updates of a cell at the moment it is deleted, and
updates written to a cell the registry does not map the key to); `dirtyDrops` = deletions of a cell with unshown updates.
-/
namespace MetricsVerif.IdleRace

inductive UPc
  | start | gocRead | gocWrite | applied | done
  deriving DecidableEq, Repr

structure Upd where
  fresh : Bool
  todo : Nat
  pc : UPc
  /-- the storage cell of the handle in use (the kept handle; or the one just obtained, while `pc = applied`) -/
  h : Nat
  deriving DecidableEq, Repr

inductive OPc
  | idle | genRead | deleting
  deriving DecidableEq, Repr

structure Obs where
  todo : Nat
  pc : OPc
  /-- cell of the handle in the snapshot -/
  c : Nat
  /-- generation read from it -/
  g : Nat
  /-- what each completed render showed (`none` = metric absent from the output) -/
  shown : List (Option Nat)
  deriving DecidableEq, Repr

structure Sys where
  timeout : Option Nat
  /-- `MetricKindMask::matches(kind)` -/
  covered : Bool
  tick : Nat
  now : Nat
  reg : Option Nat
  /-- `Recency`'s entry for the key: (generation, time) -/
  entry : Option (Nat × Nat)
  nCells : Nat
  val : Nat → Nat
  gen : Nat → Nat
  unshown : Nat → Nat
  upds : List Upd
  obs : Obs
  lost : Nat
  dirtyDrops : Nat
  orphanWrites : Nat

/-- the value write of `with_increment` (`f(&self.inner)`) through a handle of cell `c` -/
def write (s : Sys) (c : Nat) : Sys :=
  { s with
    val := fun i => if i = c then s.val i + 1 else s.val i
    unshown := fun i => if i = c then s.unshown i + 1 else s.unshown i
    lost := if s.reg = some c then s.lost else s.lost + 1
    orphanWrites := if s.reg = some c then s.orphanWrites else s.orphanWrites + 1 }

/-- `gen.fetch_add(1)` -/
def bump (s : Sys) (c : Nat) : Sys :=
  { s with gen := fun i => if i = c then s.gen i + 1 else s.gen i }

/-- `Storage::counter/gauge(key)` + insertion under the shard's write lock -/
def create (s : Sys) : Sys :=
  { s with
    reg := some s.nCells
    nCells := s.nCells + 1
    val := fun i => if i = s.nCells then 0 else s.val i
    gen := fun i => if i = s.nCells then 0 else s.gen i
    unshown := fun i => if i = s.nCells then 0 else s.unshown i }

/-- the start of the next update of a thread (after `start`, or right after a generation bump) -/
def beginUpd (s : Sys) (u : Upd) : Sys × Upd :=
  if u.todo = 0 then (s, { u with pc := .done })
  else if u.fresh then (s, { u with pc := .gocRead })
  else (write s u.h, { u with pc := .applied })

def stepUpd (s : Sys) (u : Upd) : Sys × Upd :=
  match u.pc with
  | .start => beginUpd s u
  | .gocRead =>
    match s.reg with
    | some c => (write s c, { u with pc := .applied, h := c })
    | none => (s, { u with pc := .gocWrite })
  | .gocWrite =>
    match s.reg with
    | some c => (write s c, { u with pc := .applied, h := c })
    | none => (write (create s) s.nCells, { u with pc := .applied, h := s.nCells })
  | .applied => beginUpd (bump s u.h) { u with todo := u.todo - 1 }
  | .done => (s, u)

/-- the decision of `should_store` to delete, for the generation the observer holds -/
def doomed (s : Sys) : Bool :=
  match s.timeout with
  | none => false
  | some T =>
    s.covered &&
      (match s.entry with
       | some (lg, lt) => decide (lg = s.obs.g) && decide (T < s.now - lt)
       | none => false)

/-- the entry after a `should_store` that keeps the metric -/
def refreshed (s : Sys) : Option (Nat × Nat) :=
  match s.timeout with
  | none => s.entry
  | some _ =>
    if s.covered then
      match s.entry with
      | some (lg, lt) => if lg = s.obs.g then some (lg, lt) else some (s.obs.g, s.now)
      | none => some (s.obs.g, s.now)
    else s.entry

/-- the end of a render: what it showed; the observer thread then advances the clock -/
def finishObs (s : Sys) (sh : Option Nat) : Sys :=
  { s with now := s.now + s.tick,
           obs := { s.obs with todo := s.obs.todo - 1, pc := .idle, shown := s.obs.shown ++ [sh] } }

/-- the value read through the snapshot handle (`get_inner().load`) -/
def showValue (s : Sys) : Sys :=
  finishObs { s with unshown := fun i => if i = s.obs.c then 0 else s.unshown i } (some (s.val s.obs.c))

def stepObs (s : Sys) : Sys :=
  match s.obs.pc with
  | .idle =>
    if s.obs.todo = 0 then s
    else
      match s.reg with
      | none => finishObs s none
      | some c => { s with obs := { s.obs with pc := .genRead, c := c, g := s.gen c } }
  | .genRead =>
    if doomed s then { s with obs := { s.obs with pc := .deleting } }
    else showValue { s with entry := refreshed s }
  | .deleting =>
    match s.reg with
    | some c =>
      finishObs { s with reg := none, entry := none,
                         lost := s.lost + s.unshown c,
                         dirtyDrops := if s.unshown c = 0 then s.dirtyDrops else s.dirtyDrops + 1 } none
    | none => showValue s

/-- thread ids: `0 … upds.length - 1` the updaters, `upds.length` the observer -/
def step (s : Sys) (tid : Nat) : Sys :=
  if tid < s.upds.length then
    match s.upds[tid]? with
    | none => s
    | some u =>
      let r := stepUpd s u
      { r.1 with upds := setAt r.1.upds tid r.2 }
  else if tid = s.upds.length then stepObs s
  else s

def run (s : Sys) (sched : List Nat) : Sys := sched.foldl step s

structure Cfg where
  timeout : Option Nat
  covered : Bool
  /-- clock advance after each render of the observer thread -/
  tick : Nat
  /-- clock advance between the prelude's render and the race -/
  adv : Nat
  /-- updates made before the prelude's render -/
  pre : Nat
  /-- per updater thread: (fresh handle per update?, number of updates) -/
  upds : List (Bool × Nat)
  renders : Nat

/-- the state after the prelude: the metric registered, `pre` updates, one render at time 0, the clock at `adv` -/
def init (c : Cfg) : Sys :=
  { timeout := c.timeout, covered := c.covered, tick := c.tick, now := c.adv,
    reg := some 0,
    entry := (match c.timeout with
              | none => none
              | some _ => if c.covered then some (c.pre, 0) else none),
    nCells := 1,
    val := fun _ => c.pre, gen := fun _ => c.pre, unshown := fun _ => 0,
    upds := c.upds.map (fun p => { fresh := p.1, todo := p.2, pc := .start, h := 0 }),
    obs := { todo := c.renders, pc := .idle, c := 0, g := 0, shown := [] },
    lost := 0, dirtyDrops := 0, orphanWrites := 0 }

/-- some updater is between its value write and its generation bump -/
def anyMid (s : Sys) : Bool := s.upds.any (fun u => decide (u.pc = .applied))

/-- the observer is inside a read→delete window: it holds a generation on which `should_store` deletes, or it is
    already on its way into `Registry::delete_*` -/
def inWindow (s : Sys) : Bool :=
  match s.obs.pc with
  | .idle => false
  | .genRead => doomed s
  | .deleting => true

def calm (s : Sys) : Bool := !(inWindow s && anyMid s)

/-- **no update step lies inside an observer's read→delete window**: no updater is granted while the window is
    open, and no updater is mid-update when it opens -/
def windowFree (s : Sys) : List Nat → Bool
  | [] => true
  | t :: ts => (if t < s.upds.length then !inWindow s else true) && calm (step s t) && windowFree (step s t) ts

/-- a quiescent observation: the observer thread runs one whole render with nobody else moving (at most three
    steps; the further ones are no-ops once it is back at `idle`).  Used after the race by the driver. -/
def observeQuiet (s : Sys) : Sys :=
  let s0 := { s with obs := { s.obs with todo := 1 }, tick := 0 }
  let s1 := stepObs s0
  let s2 := if s1.obs.pc = .idle then s1 else stepObs s1
  let s3 := if s2.obs.pc = .idle then s2 else stepObs s2
  { s3 with tick := s.tick }

def advance (s : Sys) (n : Nat) : Sys := { s with now := s.now + n }

/-- label of the yield point a thread is parked at -/
def label (s : Sys) (tid : Nat) : String :=
  if tid < s.upds.length then
    match s.upds[tid]? with
    | some u =>
      match u.pc with
      | .start => "start" | .gocRead => "reg.goc.read" | .gocWrite => "reg.goc.write"
      | .applied => "gen.applied" | .done => "done"
    | none => "nothread"
  else if tid = s.upds.length then
    match s.obs.pc with
    | .idle => if s.obs.todo = 0 then "done" else if s.obs.shown.isEmpty then "start" else "obs.render"
    | .genRead => "prom.render.gen_read"
    | .deleting => "reg.delete"
  else "nothread"

end MetricsVerif.IdleRace
