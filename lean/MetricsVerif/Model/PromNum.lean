/-
Number texts of the Prometheus exporter: what `Display for f64` writes for the values the correspondence generator uses —
exact dyadic rationals `n / 1024` (bucket bounds → the `le` label value, `_sum`, gauge values).

`Display for f64` prints the shortest decimal text that reads back to the same f64, never in exponent form.  For `n / 1024`
with |n| < 2^31 that text is the exact decimal expansion (1024 = 2^10: at most 10 fractional digits, the last one a 5; any
shorter decimal is off by at least 5e-10, more than half an ulp below 2^21), which is what `dyText` computes by long
division.  The tie to the real `Display` is the stream `c08 letext` (text against text).
-/
namespace MetricsVerif.PromNum

/-- fractional digits of `r / 1024` (`r < 1024`) by long division; stops when the remainder is 0 -/
def fracDigits : Nat → Nat → List Char
  | 0, _ => []
  | fuel + 1, r => if r = 0 then [] else (toString (r * 10 / 1024)).toList ++ fracDigits fuel (r * 10 % 1024)

/-- `format!("{}", n as f64 / 1024.0)` -/
def dyText (n : Int) : List Char :=
  let a := n.natAbs
  (if n < 0 then ['-'] else []) ++ (toString (a / 1024)).toList
    ++ (if a % 1024 = 0 then [] else '.' :: fracDigits 10 (a % 1024))

end MetricsVerif.PromNum
