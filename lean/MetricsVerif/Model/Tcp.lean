/-
Model of the transport loop of `metrics-exporter-tcp` (`metrics-exporter-tcp/src/lib.rs`, C11).

The loop is a sequential machine over the poll events it handles:

  * `wake metas frames rs`  — the waker branch: the metadata / metric messages taken from the channel, then
                              (if any metric frame was buffered) the fan-out to every client;
  * `accept perm`           — one accepted connection (`perm` = the order in which the metadata `HashMap`
                              happened to be iterated, the only non-determinism of the branch);
  * `writable c rs`         — a WRITABLE event for client `c`.

Each `write` call inside `drive_connection` is resolved by an adversarial `WriteResult` taken from the list
`rs` that comes with the event (one result per call, in call order; when the list runs out the socket answers
`WouldBlock`).  Frames are opaque byte lists (`varint(len) ++ body`, produced by prost) with an id.

Ghost fields (not in the Rust code): `received` = bytes the socket accepted from us, `sent` = every frame ever
put into the client's queue, `started` = frames popped from the queue for writing, `dropped` = frames
discarded to make room, `atConnect` = the metadata frames enqueued at accept.

`Fixes` switches between the code as it is now (all `true`, the three repairs of this round) and the
behaviour before each repair, so that the old failures stay available as kernel-evaluated witnesses.
Import-free, total, executable.
-/
namespace MetricsVerif.Tcp

/-- a length-delimited `proto::Event`, encoded: opaque bytes with an identity -/
structure Frame where
  id : Nat
  bytes : List UInt8
deriving DecidableEq, Repr, Inhabited

/-- what `conn.write(&buf)` returned -/
inductive WriteResult where
  | ok (n : Nat)
  | wouldBlock
  | interrupted
  | err
deriving DecidableEq, Repr, Inhabited

/-- `true` = the repaired code (current tree); `false` = the behaviour before that repair -/
structure Fixes where
  /-- fix 1: `buffered_pmsgs` is only pre-allocated for an explicit limit -/
  cap : Bool := true
  /-- fix 2: a client found dead during the fan-out is counted out once -/
  dec : Bool := true
  /-- fix 3: the buffer is put back into `wbuf` on `WouldBlock` / `Interrupted` -/
  block : Bool := true
deriving DecidableEq, Repr, Inhabited

def usizeMax : Nat := 2 ^ 64 - 1
def isizeMax : Nat := 2 ^ 63 - 1
/-- `size_of::<Bytes>()` -/
def bytesSize : Nat := 32

/-- per client: `(conn, wbuf, msgs)` of the `clients` map plus ghosts; a removed client stays as `alive = false` -/
structure Client where
  /-- `wbuf: Option<Bytes>`: what is left of a message whose write was cut short -/
  wbuf : Option (List UInt8) := none
  /-- `msgs: VecDeque<Bytes>`: whole messages not yet started -/
  msgs : List Frame := []
  alive : Bool := true
  received : List UInt8 := []
  sent : List Frame := []
  started : List Frame := []
  dropped : Nat := 0
  /-- ghost: the metadata frames enqueued when the connection was accepted -/
  atConnect : List Frame := []
deriving Repr, Inhabited

/-- concatenation of whole frames -/
def flat : List Frame → List UInt8
  | [] => []
  | f :: fs => f.bytes ++ flat fs

/-- head of `drive_connection`'s loop: `wbuf.take()` or else `msgs.pop_front()` -/
def takeBuf (cl : Client) : Option (List UInt8 × Client) :=
  match cl.wbuf with
  | some b => some (b, { cl with wbuf := none })
  | none =>
    match cl.msgs with
    | [] => none
    | f :: rest => some (f.bytes, { cl with msgs := rest, started := cl.started ++ [f] })

/-- the `WouldBlock` / `Interrupted` arms: keep the buffer (repaired) or lose it (before fix 3) -/
def onBlock (fx : Fixes) (buf : List UInt8) (cl : Client) : Client :=
  if fx.block then { cl with wbuf := some buf } else cl

/-- result of one `drive_connection` call -/
structure DriveOut where
  cl : Client
  /-- return value: `true` = remove the client -/
  done : Bool
  /-- write results not consumed -/
  rest : List WriteResult
  /-- `buf.len()` of every `write` call, in order (compared with the hook's trace) -/
  attempts : List Nat
  /-- a `write` call found the result list empty (answered as `WouldBlock`) -/
  starved : Bool
deriving Repr

def DriveOut.push (n : Nat) (o : DriveOut) : DriveOut := { o with attempts := n :: o.attempts }

/-- `drive_connection(conn, wbuf, msgs)`; one element of the list per `write` call -/
def drive (fx : Fixes) (cl : Client) : List WriteResult → DriveOut
  | [] =>
    match takeBuf cl with
    | none => ⟨cl, false, [], [], false⟩
    | some (buf, cl') => ⟨onBlock fx buf cl', false, [], [buf.length], true⟩
  | r :: rs =>
    match takeBuf cl with
    | none => ⟨cl, false, r :: rs, [], false⟩
    | some (buf, cl') =>
      match r with
      | .ok n =>
        -- `Ok(0)`: client closed their connection
        if n = 0 then ⟨cl', true, rs, [buf.length], false⟩
        -- `Ok(n) if n < buf.len()`: keep the remaining chunk
        else if n < buf.length then
          ⟨{ cl' with wbuf := some (buf.drop n), received := cl'.received ++ buf.take n }, false, rs, [buf.length], false⟩
        -- `Ok(_) => continue`
        else (drive fx { cl' with received := cl'.received ++ buf } rs).push buf.length
      | .wouldBlock => ⟨onBlock fx buf cl', false, rs, [buf.length], false⟩
      | .interrupted => (drive fx (onBlock fx buf cl') rs).push buf.length
      | .err => ⟨cl', true, rs, [buf.length], false⟩

/-- `to_drain` of the fan-out: how many queued messages have to go to make room for the batch -/
def toDrain (lim msgsLen batchLen : Nat) : Nat :=
  let available := if msgsLen < lim then lim - msgsLen else 0
  batchLen - available

/-- `msgs.drain(0..to_drain); msgs.extend(buffered_pmsgs.iter().take(buffer_limit).cloned())` -/
def enqueue (lim : Nat) (batch : List Frame) (cl : Client) : Client :=
  let k := toDrain lim cl.msgs.length batch.length
  let new := batch.take lim
  { cl with
    msgs := cl.msgs.drop k ++ new
    sent := cl.sent ++ new
    dropped := cl.dropped + min k cl.msgs.length + (batch.length - lim) }

/-- what one `drive_connection` call looked like from outside (for the comparison with the trace) -/
structure Phase where
  done : Bool
  wbuf : Option Nat
  msgs : Nat
  attempts : List Nat
  starved : Bool
deriving Repr

def DriveOut.phase (o : DriveOut) : Phase :=
  ⟨o.done, o.cl.wbuf.map List.length, o.cl.msgs.length, o.attempts, o.starved⟩

structure ClientLog where
  p1 : Phase
  /-- frames dropped, frames enqueued, second drive (absent when the first drive found the client dead) -/
  second : Option (Nat × Nat × Phase)
  /-- write results left unused -/
  leftover : Nat
deriving Repr

/-- what an event did to one client -/
structure ClientStep where
  cl : Client
  /-- the client was removed from the `clients` map by this event -/
  removed : Bool
  log : Option ClientLog
deriving Repr

/-- body of the fan-out loop for one client: drive, make room + enqueue, drive again -/
def wakeClient (fx : Fixes) (lim : Nat) (batch : List Frame) (cl : Client) (rs : List WriteResult) : ClientStep :=
  if !cl.alive then ⟨cl, false, none⟩ else
  let d1 := drive fx cl rs
  if d1.done then
    ⟨{ d1.cl with alive := false }, true, some ⟨d1.phase, none, d1.rest.length⟩⟩
  else
    let cl2 := enqueue lim batch d1.cl
    let d2 := drive fx cl2 d1.rest
    ⟨{ d2.cl with alive := !d2.done }, d2.done,
      some ⟨d1.phase, some (toDrain lim d1.cl.msgs.length batch.length, (batch.take lim).length, d2.phase), d2.rest.length⟩⟩

/-- the `token =>` branch for one client -/
def writableClient (fx : Fixes) (c : Nat) (rs : List WriteResult) (k : Nat) (cl : Client) : ClientStep :=
  if k = c && cl.alive then
    let d := drive fx cl rs
    ⟨{ d.cl with alive := !d.done }, d.done, some ⟨d.phase, none, d.rest.length⟩⟩
  else ⟨cl, false, none⟩

structure State where
  fixes : Fixes := {}
  bufferSize : Option Nat := some 1024
  /-- `metadata: HashMap<KeyName, …>` as key ↦ the frame a client accepted now would get -/
  metadata : List (Nat × Frame) := []
  clients : List (Nat × Client) := []
  nextToken : Nat := 2
  /-- `State::client_count` (`AtomicUsize`) -/
  clientCount : Nat := 0
  /-- `State::should_send` (`AtomicBool`) -/
  shouldSend : Bool := false
deriving Repr

/-- `buffer_limit = buffer_size.unwrap_or(usize::MAX)` -/
def State.limit (s : State) : Nat := s.bufferSize.getD usizeMax

/-- `VecDeque::<Bytes>::with_capacity(n)` panics with "capacity overflow" beyond `isize::MAX` bytes -/
def withCapacityOk (n : Nat) : Bool := n * bytesSize ≤ isizeMax

/-- initialisation of `run_transport` up to the first `poll`: `none` = the thread panicked -/
def initTransport (fx : Fixes) (bufferSize : Option Nat) : Option State :=
  let ok :=
    if fx.cap then
      -- `buffer_size.map_or_else(VecDeque::new, VecDeque::with_capacity)`
      match bufferSize with
      | none => true
      | some n => withCapacityOk n
    else
      -- `VecDeque::with_capacity(buffer_limit)`
      withCapacityOk (bufferSize.getD usizeMax)
  if ok then some { fixes := fx, bufferSize := bufferSize } else none

/-- `State::increment_clients` on `(client_count, should_send)` -/
def incrementClients (g : Nat × Bool) : Nat × Bool := (g.1 + 1, true)

/-- `State::decrement_clients`: `fetch_sub(1)` wraps below zero; the gate closes when the old value was 1 -/
def decrementClients (g : Nat × Bool) : Nat × Bool :=
  (if g.1 = 0 then usizeMax else g.1 - 1, if g.1 = 1 then false else g.2)

def decN : Nat → Nat × Bool → Nat × Bool
  | 0, g => g
  | n + 1, g => decN n (decrementClients g)

def lookupKey (k : Nat) : List (Nat × α) → Option α
  | [] => none
  | (k', v) :: rest => if k' = k then some v else lookupKey k rest

/-- `metadata.entry(key)…` (the stored frame stands for the updated entry) -/
def upsert (md : List (Nat × Frame)) (k : Nat) (f : Frame) : List (Nat × Frame) :=
  match md with
  | [] => [(k, f)]
  | (k', f') :: rest => if k' = k then (k, f) :: rest else (k', f') :: upsert rest k f

def stepClients (f : Nat → Client → ClientStep) (cs : List (Nat × Client)) : List (Nat × ClientStep) :=
  cs.map (fun p => (p.1, f p.1 p.2))

def newClients (xs : List (Nat × ClientStep)) : List (Nat × Client) := xs.map (fun p => (p.1, p.2.cl))

def removedCount (xs : List (Nat × ClientStep)) : Nat := (xs.filter (fun p => p.2.removed)).length

/-- the `WAKER` branch -/
def wakeFull (s : State) (metas : List (Nat × Frame)) (frames : List Frame) (rs : List (Nat × List WriteResult)) :
    State × List (Nat × ClientStep) :=
  let md := metas.foldl (fun md p => upsert md p.1 p.2) s.metadata
  -- the read loop stops at `buffer_limit` buffered messages
  let batch := frames.take s.limit
  -- "woken for metrics but no pmsgs buffered"
  if batch.isEmpty then ({ s with metadata := md }, []) else
  let xs := stepClients (fun k cl => wakeClient s.fixes s.limit batch cl ((lookupKey k rs).getD [])) s.clients
  -- before fix 2 a client found dead was counted out in the loop and again when removed
  let k := removedCount xs
  let g := decN (if s.fixes.dec then k else 2 * k) (s.clientCount, s.shouldSend)
  ({ s with metadata := md, clients := newClients xs, clientCount := g.1, shouldSend := g.2 }, xs)

/-- the `LISTENER` branch for one accepted connection -/
def accept (s : State) (perm : List Nat) : State :=
  let md := perm.filterMap (fun k => lookupKey k s.metadata)
  let cl : Client := { msgs := md, sent := md, atConnect := md }
  let g := incrementClients (s.clientCount, s.shouldSend)
  { s with clients := s.clients ++ [(s.nextToken, cl)], nextToken := s.nextToken + 1, clientCount := g.1, shouldSend := g.2 }

/-- the `token =>` branch (writable event) -/
def writableFull (s : State) (c : Nat) (rs : List WriteResult) : State × List (Nat × ClientStep) :=
  let xs := stepClients (writableClient s.fixes c rs) s.clients
  let g := decN (removedCount xs) (s.clientCount, s.shouldSend)
  ({ s with clients := newClients xs, clientCount := g.1, shouldSend := g.2 }, xs)

inductive Event where
  | wake (metas : List (Nat × Frame)) (frames : List Frame) (rs : List (Nat × List WriteResult))
  | accept (perm : List Nat)
  | writable (c : Nat) (rs : List WriteResult)
deriving Repr

def step (s : State) : Event → State
  | .wake metas frames rs => (wakeFull s metas frames rs).1
  | .accept perm => accept s perm
  | .writable c rs => (writableFull s c rs).1

def run (s : State) (evs : List Event) : State := evs.foldl step s

/-- number of clients still in the `clients` map -/
def aliveCount (cs : List (Nat × Client)) : Nat := (cs.filter (fun p => p.2.alive)).length

/-- is `perm` an enumeration of exactly the known metadata keys? (checked by the driver for every accept) -/
def permOk (s : State) (perm : List Nat) : Bool :=
  let keys := s.metadata.map (·.1)
  perm.length == keys.length && keys.all (perm.contains ·) && perm.all (keys.contains ·)

/-- `TcpBuilder::new()` / `TcpBuilder::default()`: `buffer_size: Some(1024)` (the documented default) -/
def defaultBufferSize : Option Nat := some 1024

/-- what `TcpBuilder::build` and `run_transport` derive from the configured `buffer_size` -/
structure Plumbing where
  /-- `match buffer_size { None => unbounded(), Some(size) => bounded(size) }` (`none` = no capacity limit) -/
  chanCap : Option Nat
  /-- `buffer_limit` as used by the read loop of the `WAKER` branch (`buffered_pmsgs.len() >= buffer_limit`) -/
  batchLimit : Nat
  /-- `buffer_limit` as used by the fan-out for every client's queue (`available`, `take(buffer_limit)`) -/
  clientLimit : Nat
deriving DecidableEq, Repr

/-- `let buffer_size = self.buffer_size; … bounded(size) …; run_transport(.., buffer_size)` and
    `let buffer_limit = buffer_size.unwrap_or(std::usize::MAX)` -/
def plumb (bs : Option Nat) : Plumbing := ⟨bs, bs.getD usizeMax, bs.getD usizeMax⟩

end MetricsVerif.Tcp
