import MetricsVerif.Model.Sched
/-
Model of `RecorderOnceCell` (metrics/src/recorder/cell.rs) as a step machine at the granularity of one
shared-memory operation, the PC names being the `metrics::verif::point` ids placed before each operation.

  set:       cell.set.cas  → (won)  cell.set.write → cell.set.store → Ok
                           → (lost) Err(own recorder)
  try_load:  cell.load.state → (state = INITIALIZED) cell.load.read → Some(cell) | None

Memory model: interleaving (SC) for the atomic `state`; the non-atomic `cell` carries a release/acquire
fragment: a thread may read `cell` only if it *synchronised* with the writer — it is the writer, or its
`state` load was an acquire load that read the value written by the writer's release store. Reading
without that is recorded as a data race (`raced`). The two orderings are parameters (`Ord`), instantiated
from the source by the translator (`Generated/SourceFacts.lean`).
-/
namespace MetricsVerif.OnceCell

/-- the orderings of the publishing store and the consuming load, as far as the model cares -/
structure Ord where
  storeRelease : Bool      -- `state.store(INITIALIZED, o)` with o ∈ {Release, AcqRel, SeqCst}
  loadAcquire : Bool       -- `state.load(o)` with o ∈ {Acquire, SeqCst}
  deriving Repr, DecidableEq

inductive Call
  | set (r : Nat)          -- install recorder `r`
  | load
  | nested                 -- a lookup made from INSIDE a call into the recorder this thread's previous lookup
                           -- returned (the recorder emits while it handles an emission): it exists only if that
                           -- previous lookup answered `Some` (the no-op recorder emits nothing), see `settle`
  deriving Repr, DecidableEq

inductive Res
  | ok | err (r : Nat) | some (r : Nat) | none | torn      -- `torn`: read the cell while it held nothing
  deriving Repr, DecidableEq

inductive PC
  | start                  -- before the first call (thread-local setup)
  | cas | write | store    -- inside `set`
  | loadState | read       -- inside `try_load`
  | done
  deriving Repr, DecidableEq

structure Thread where
  calls : List Call        -- remaining calls, head = current
  pc : PC
  synced : Bool            -- has synchronised with the cell writer
  results : List Res       -- oldest first
  deriving Repr, DecidableEq

structure Sys where
  state : Nat                     -- 0 UNINITIALIZED, 1 INITIALIZING, 2 INITIALIZED
  cell : Option Nat
  published : Bool                -- the store of INITIALIZED was a release store by the writer
  raced : Bool                    -- some thread read `cell` without having synchronised
  threads : List Thread
  deriving Repr, DecidableEq

def pcOfCall : Call → PC
  | .set _ => .cas
  | .load => .loadState
  | .nested => .loadState

def Res.isSome : Res → Bool
  | .some _ => true
  | _ => false

/-- what is left of a thread's program after a call answered `r`: nested lookups directly behind it are made
    only if `r` was `Some` (only a real recorder emits from inside a call; `f(&NOOP_RECORDER)` does nothing) -/
def settle (r : Res) : List Call → List Call
  | [] => []
  | .nested :: cs => if r.isSome then .nested :: cs else settle r cs
  | .set x :: cs => .set x :: cs
  | .load :: cs => .load :: cs

/-- move to the next call of the thread (or `done`) -/
def Thread.advance (t : Thread) (r : Res) : Thread :=
  let rest := settle r t.calls.tail
  { t with calls := rest, results := t.results ++ [r],
           pc := match rest with | [] => .done | c :: _ => pcOfCall c }

/-- (a program cannot begin with a nested lookup: there is no enclosing dispatch; such calls are dropped) -/
def mkThread (calls : List Call) : Thread :=
  { calls := settle .none calls, pc := .start, synced := false, results := [] }

def init (progs : List (List Call)) : Sys :=
  { state := 0, cell := none, published := false, raced := false, threads := progs.map mkThread }

/-- one step of thread `t` (what the code does between two consecutive points) -/
def stepThread (o : Ord) (s : Sys) (t : Thread) : Sys × Thread :=
  match t.pc, t.calls with
  | .start, [] => (s, { t with pc := .done })
  | .start, c :: _ => (s, { t with pc := pcOfCall c })
  | .cas, .set r :: _ =>
    if s.state = 0 then ({ s with state := 1 }, { t with pc := .write, synced := true })
    else (s, t.advance (.err r))
  | .write, .set r :: _ => ({ s with cell := some r }, { t with pc := .store })
  | .store, .set _ :: _ => ({ s with state := 2, published := o.storeRelease }, t.advance .ok)
  | .loadState, .load :: _ | .loadState, .nested :: _ =>
    if s.state = 2 then (s, { t with pc := .read, synced := t.synced || (o.loadAcquire && s.published) })
    else (s, t.advance .none)
  | .read, .load :: _ | .read, .nested :: _ =>
    let s' := if t.synced then s else { s with raced := true }
    (s', t.advance (match s.cell with | some r => .some r | none => .torn))
  | _, _ => (s, t)      -- `done`, or a pc that does not fit the call: no step

def step (o : Ord) (s : Sys) (tid : Nat) : Sys :=
  match s.threads[tid]? with
  | none => s
  | some t =>
    let (s', t') := stepThread o s t
    { s' with threads := setAt s'.threads tid t' }

def run (o : Ord) (s : Sys) (sched : List Nat) : Sys := sched.foldl (step o) s

/-- the label of the step thread `tid` would take (= the point id the implementation is parked at) -/
def PC.label : PC → String
  | .start => "start" | .cas => "cell.set.cas" | .write => "cell.set.write" | .store => "cell.set.store"
  | .loadState => "cell.load.state" | .read => "cell.load.read" | .done => "done"

end MetricsVerif.OnceCell
