/-
Model of `metrics-util/src/quantile.rs` (`Quantile::new`, `parse_quantiles`), of the guard of `Summary::quantile`
(metrics-util/src/storage/summary.rs), of `PrometheusBuilder::set_quantiles` and of the quantile lines `Inner::render`
writes for a summary series:

    for quantile in quantiles.iter() {
        let value = snapshot.quantile(quantile.value()).unwrap_or(0.0);
        write_metric_line(.., Some(("quantile", quantile.value())), value, ..);
    }

A quantile is an `FV` in units of 1/1024 (`fin 1024` = 1.0), so every dyadic quantile k/1024, every out-of-range finite
value, both infinities and NaN are inputs.  (`-0.0` is not distinguished from `0.0`: `f64::max(-0.0, 0.0)` may return
either, the harness records what it does as an observation.)
-/
import MetricsVerif.Model.Rolling

namespace MetricsVerif.Quantile
open MetricsVerif.Histogram MetricsVerif.Rolling

/-- `f64::max`: "if one of the arguments is NaN, then the other argument is returned" -/
def fmax (a b : FV) : FV :=
  if a.isNan then b else if b.isNan then a else if a.le b then b else a

/-- `f64::min`: "if one of the arguments is NaN, then the other argument is returned" -/
def fmin (a b : FV) : FV :=
  if a.isNan then b else if b.isNan then a else if a.le b then a else b

/-- 0.0 and 1.0 in units of 1/1024 -/
def qZero : FV := .fin 0
def qOne : FV := .fin 1024

/-- the human-friendly label: `min` for "0", `max` for "1", otherwise `p<digits of value*100>` (the digits are the
    shortest-round-trip decimal printing of a float product and are not modelled) -/
inductive Label
  | min
  | max
  | p
  deriving DecidableEq, Repr

/-- `Quantile(f64, String)` -/
structure Quantile where
  value : FV
  label : Label
  deriving DecidableEq, Repr

/-- `Quantile::new`: `let clamped = quantile.max(0.0); let clamped = clamped.min(1.0);` then the label from the
    printed clamped value -/
def Quantile.new (quantile : FV) : Quantile :=
  let clamped := fmax quantile qZero
  let clamped := fmin clamped qOne
  { value := clamped, label := if clamped = qZero then .min else if clamped = qOne then .max else .p }

/-- `parse_quantiles`: `quantiles.iter().map(|f| Quantile::new(*f)).collect()` -/
def parseQuantiles (quantiles : List FV) : List Quantile := quantiles.map Quantile.new

/-- `PrometheusBuilder::set_quantiles`: an empty slice is refused, otherwise `self.quantiles = parse_quantiles(quantiles)` -/
def setQuantiles (quantiles : List FV) : Option (List Quantile) :=
  if quantiles.isEmpty then none else some (parseQuantiles quantiles)

/-- the quantiles of `PrometheusBuilder::new`: `parse_quantiles(&[0.0, 0.5, 0.9, 0.95, 0.99, 0.999, 1.0])` has seven
    entries; only their number and the two ends are representable in units of 1/1024 -/
def defaultQuantileCount : Nat := 7

/-- `(0.0..=1.0).contains(&q)`: false for NaN -/
def inUnit (q : FV) : Bool := qZero.le q && q.le qOne

/-- what a quantile line of a rendered summary shows -/
inductive Shown
  | placeholder            -- `None` → `unwrap_or(0.0)`
  | zeroClass              -- the rank falls into the sketch's zero count: 0.0
  | near (v : FV)          -- `±value(key)` of the bin that holds the retained sample `v` (within alpha of it)
  | exact (v : FV)         -- the sketch's running min / max: `v` itself
  deriving DecidableEq, Repr

def Shown.ofQAns : QAns → Shown
  | .none => .placeholder
  | .zero => .zeroClass
  | .bin v => .near v

/-- `Summary::quantile(q)` on the snapshot of a rolling summary, then `unwrap_or(0.0)`:
    `if !(0.0..=1.0).contains(&q) || self.count() == 0 { return None }`, then `DDSketch::quantile`: `min` for
    `q == 0.0`, `max` for `q == 1.0`, the bin at `rank = (q * (count - 1)) as u64` otherwise (exact for the dyadic `q`
    of the model).  `Summary::merge` is the repaired one (empty summaries are skipped). -/
def summaryQuantile (minU : Nat) (r : Rolling FV) (now : Nat) (q : FV) : Shown :=
  if !inUnit q then .placeholder
  else if (snapshotSketch minU r now).count == 0 then .placeholder
  else if q = qZero then .exact (snapshotMinMax true r now).min
  else if q = qOne then .exact (snapshotMinMax true r now).max
  else match q with
    | .fin n => Shown.ofQAns (snapshotQuantile minU r now n.toNat 1024)
    | _ => .placeholder

/-- the quantile lines of one summary series, in the configured order: (value of the `quantile` label, value shown) -/
def renderQuantiles (minU : Nat) (quantiles : List Quantile) (r : Rolling FV) (now : Nat) : List (FV × Shown) :=
  quantiles.map (fun q => (q.value, summaryQuantile minU r now q.value))

end MetricsVerif.Quantile
