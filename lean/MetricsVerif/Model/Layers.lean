/-
Model of the recorder layers of metrics-util (metrics-util/src/layers/{mod,prefix,filter,router,fanout}.rs,
metrics-util/src/kind.rs) and of the handles they return (metrics/src/handles.rs).

A tree of recorders (`Rec`) ends in numbered base recorders.  An operation (`Op`: describe / register ×
kind × name × labels × unit × description × metadata) entering the tree is delivered to some of the base
recorders (`Rec.deliver`); a register operation also returns a handle tree (`Rec.handle`), and an update
applied to a handle tree reaches its leaves (`Handle.apply`).

The model follows the code, including:
* `Prefix`            name ↦ prefix ++ "." ++ name (also for an empty prefix / empty name), rest unchanged;
* `Filter`            aho-corasick `is_match` = some pattern occurs as a substring; with
                      `ascii_case_insensitive` both sides are compared modulo ASCII case only (non-ASCII
                      letters are never folded); an empty pattern matches every name; `use_dfa` only selects
                      the automaton implementation and is not part of the model;
* `Router`            `global_mask` pre-check, one trie per kind holding *indices into `targets`*, a later
                      `add_route` with the same pattern replaces the earlier index (`Trie::insert`),
                      `get_ancestor` = longest key that is a prefix of the name; ALL inserts into all three;
* `Fanout`            every recorder in order; handles are vectors of handles; `record_many` is NOT
                      overridden by `FanoutHistogram`, so the trait default turns it into `count` × `record`
                      on every inner handle.
* layer values     `PrefixLayer::new` keeps the prefix as given; `FilterLayer` is a mutable builder
                      (`FilterCfg`: `default()` / `from_patterns`, then `add_pattern` = push, `case_insensitive` /
                      `use_dfa` = assignment) and `.layer(&self, inner)` builds a fresh automaton from the fields as
                      they are at that moment, so one value can be applied, changed and applied again
                      (`FilterCfg.reuse`);
* handles           `Fanout*` handles hold nothing but their vector of handles: a sequence of calls is the
                      concatenation of the single calls (`Handle.applySeq`).
Strings are `List Char`; prefix / substring on code points coincides with prefix / substring on the UTF-8
bytes the Rust code works on (UTF-8 is self-synchronising and patterns / routes are whole strings).
`add_route` panics for a mask that is neither a single kind nor ALL; `Mask` has exactly those four values.
-/
namespace MetricsVerif.Layers

abbrev Str := List Char

/-- `MetricKind` -/
inductive Kind
  | counter | gauge | histogram
  deriving DecidableEq, Repr, Inhabited

/-- one call on the `Recorder` trait: `describe_<kind>(name, unit, desc)` (`reg = false`) or
    `register_<kind>(Key{name, labels}, metadata)` (`reg = true`).  Unit and metadata are opaque. -/
structure Op where
  reg : Bool
  kind : Kind
  name : Str
  labels : List (Str × Str)
  unit : Option Str
  desc : Str
  metadata : Str
  deriving DecidableEq, Repr, Inhabited

/-! ### prefix.rs -/

/-- `Prefix::prefix_key` / `Prefix::prefix_key_name` -/
def prefixName (p name : Str) : Str := p ++ '.' :: name

/-- what `Prefix` hands to its inner recorder -/
def prefixOp (p : Str) (op : Op) : Op := { op with name := prefixName p op.name }

/-! ### filter.rs -/

/-- ASCII lower-casing of one character (what `ascii_case_insensitive` identifies) -/
def asciiLower (c : Char) : Char :=
  if 65 ≤ c.toNat ∧ c.toNat ≤ 90 then Char.ofNat (c.toNat + 32) else c

/-- the text the automaton effectively compares: unchanged, or ASCII-folded when case-insensitive -/
def fold (ci : Bool) (s : Str) : Str := if ci then s.map asciiLower else s

def isPrefixOf : Str → Str → Bool
  | [], _ => true
  | _ :: _, [] => false
  | a :: as, b :: bs => a == b && isPrefixOf as bs

/-- `p` occurs in `s` as a contiguous substring -/
def isInfixOf (p : Str) : Str → Bool
  | [] => isPrefixOf p []
  | c :: cs => isPrefixOf p (c :: cs) || isInfixOf p cs

/-- `Filter::should_filter` (`AhoCorasick::is_match` over the configured patterns) -/
def shouldFilter (pats : List Str) (ci : Bool) (name : Str) : Bool :=
  pats.any (fun p => isInfixOf (fold ci p) (fold ci name))

/-! ### kind.rs, router.rs -/

/-- the masks `add_route` accepts: COUNTER, GAUGE, HISTOGRAM, ALL -/
inductive Mask
  | counter | gauge | histogram | all
  deriving DecidableEq, Repr, Inhabited

/-- `MetricKindMask::matches` -/
def Mask.covers : Mask → Kind → Bool
  | .all, _ => true
  | .counter, .counter => true
  | .gauge, .gauge => true
  | .histogram, .histogram => true
  | _, _ => false

/-- a `Trie<String, usize>` as a finite map: newest binding first, so that `insert` of an existing key
    shadows (= replaces) the older value -/
abbrev Trie := List (Str × Nat)

/-- `Trie::insert` -/
def Trie.insert (t : Trie) (k : Str) (v : Nat) : Trie := (k, v) :: t

/-- `Trie::get` -/
def Trie.get : Trie → Str → Option Nat
  | [], _ => none
  | (k', v) :: rest, k => if k' = k then some v else Trie.get rest k

/-- the sub-trie below the edge labelled `c` -/
def Trie.child : Trie → Char → Trie
  | [], _ => []
  | ([], _) :: rest, c => Trie.child rest c
  | (c' :: k, v) :: rest, c => if c' = c then (k, v) :: Trie.child rest c else Trie.child rest c

/-- `Trie::get_ancestor`: walk down along `name`, the deepest node with a value wins; returns that node's
    key and value -/
def Trie.getAncestor (t : Trie) : Str → Option (Str × Nat)
  | [] => (Trie.get t []).map (fun v => ([], v))
  | c :: cs =>
    match Trie.getAncestor (Trie.child t c) cs with
    | some (k, v) => some (c :: k, v)
    | none => (Trie.get t []).map (fun v => ([], v))

/-- `RouterBuilder`: the global mask (as "does it cover kind k"), the number of targets pushed so far and the
    three route tries -/
structure Builder where
  maskC : Bool := false
  maskG : Bool := false
  maskH : Bool := false
  nTargets : Nat := 0
  counterRoutes : Trie := []
  gaugeRoutes : Trie := []
  histogramRoutes : Trie := []
  deriving Repr

/-- `RouterBuilder::add_route` (the target itself is kept in the `targets` list of `Rec.router`) -/
def Builder.addRoute (b : Builder) (mask : Mask) (pat : Str) : Builder :=
  let i := b.nTargets
  match mask with
  | .all => { maskC := true, maskG := true, maskH := true, nTargets := i + 1,
              counterRoutes := b.counterRoutes.insert pat i, gaugeRoutes := b.gaugeRoutes.insert pat i,
              histogramRoutes := b.histogramRoutes.insert pat i }
  | .counter => { b with maskC := true, nTargets := i + 1, counterRoutes := b.counterRoutes.insert pat i }
  | .gauge => { b with maskG := true, nTargets := i + 1, gaugeRoutes := b.gaugeRoutes.insert pat i }
  | .histogram => { b with maskH := true, nTargets := i + 1, histogramRoutes := b.histogramRoutes.insert pat i }

def Builder.addRoutes : Builder → List (Mask × Str) → Builder
  | b, [] => b
  | b, (m, p) :: rest => Builder.addRoutes (b.addRoute m p) rest

/-- `global_mask.matches(kind)` -/
def Builder.maskCovers (b : Builder) : Kind → Bool
  | .counter => b.maskC
  | .gauge => b.maskG
  | .histogram => b.maskH

/-- the trie `Router::{describe,register}_<kind>` passes to `route` -/
def Builder.routes (b : Builder) : Kind → Trie
  | .counter => b.counterRoutes
  | .gauge => b.gaugeRoutes
  | .histogram => b.histogramRoutes

/-- `Router::route`: `none` = the default recorder, `some i` = `targets[i]` -/
def Builder.route (b : Builder) (kind : Kind) (name : Str) : Option Nat :=
  if !b.maskCovers kind then none
  else (Trie.getAncestor (b.routes kind) name).map (·.2)

/-- the routing decision of a router built by `add_route`-ing `routes` in order -/
def routeIdx (routes : List (Mask × Str)) (kind : Kind) (name : Str) : Option Nat :=
  (Builder.addRoutes {} routes).route kind name

/-! ### recorder trees -/

/-- a tree of recorders over numbered base recorders.  `router`: `routes[i]` was added with target
    `targets[i]` (the code keeps `targets: Vec<_>` and tries of indices in just this way). -/
inductive Rec
  | base (id : Nat)
  | pfx (p : Str) (inner : Rec)
  | filter (pats : List Str) (ci : Bool) (inner : Rec)
  | router (dflt : Rec) (routes : List (Mask × Str)) (targets : List Rec)
  | fanout (recorders : List Rec)
  deriving Repr, Inhabited

/-- handles: `Counter::noop()` etc., a handle made by a base recorder (identified by the base and the
    registration it answered), or a `FanoutCounter/Gauge/Histogram` -/
inductive Handle
  | noop
  | leaf (base : Nat) (op : Op)
  | fan (hs : List Handle)
  deriving Repr, Inhabited

mutual
/-- who receives what: the `(base recorder, operation as received)` pairs caused by one operation, in call
    order -/
def Rec.deliver : Rec → Op → List (Nat × Op)
  | .base id, op => [(id, op)]
  | .pfx p r, op => r.deliver (prefixOp p op)
  | .filter pats ci r, op => if shouldFilter pats ci op.name then [] else r.deliver op
  | .router d routes ts, op =>
    match routeIdx routes op.kind op.name with
    | none => d.deliver op
    | some i => deliverNth ts i op
  | .fanout rs, op => deliverAll rs op
/-- `for recorder in &self.recorders { … }` -/
def deliverAll : List Rec → Op → List (Nat × Op)
  | [], _ => []
  | r :: rs, op => r.deliver op ++ deliverAll rs op
/-- `self.targets.get_unchecked(i)`; the index is always in range for a router built by `add_route`
    (see `routeIdx_lt`), the out-of-range arm is unreachable -/
def deliverNth : List Rec → Nat → Op → List (Nat × Op)
  | [], _, _ => []
  | r :: _, 0, op => r.deliver op
  | _ :: rs, i + 1, op => deliverNth rs i op
end

mutual
/-- the handle `register_<kind>` returns -/
def Rec.handle : Rec → Op → Handle
  | .base id, op => .leaf id op
  | .pfx p r, op => r.handle (prefixOp p op)
  | .filter pats ci r, op => if shouldFilter pats ci op.name then .noop else r.handle op
  | .router d routes ts, op =>
    match routeIdx routes op.kind op.name with
    | none => d.handle op
    | some i => handleNth ts i op
  | .fanout rs, op => .fan (handleAll rs op)
def handleAll : List Rec → Op → List Handle
  | [], _ => []
  | r :: rs, op => r.handle op :: handleAll rs op
def handleNth : List Rec → Nat → Op → Handle
  | [], _, _ => .noop
  | r :: _, 0, op => r.handle op
  | _ :: rs, i + 1, op => handleNth rs i op
end

/-! ### filter.rs / prefix.rs: the layer VALUES (`FilterLayer` is a mutable builder, `PrefixLayer` is immutable) -/

/-- the fields of `FilterLayer` -/
structure FilterCfg where
  patterns : List Str
  ci : Bool
  dfa : Bool
  deriving DecidableEq, Repr, Inhabited

/-- `FilterLayer::default()` (`#[derive(Default)]`: no patterns, case-sensitive, `use_dfa = false`) -/
def FilterCfg.dflt : FilterCfg := { patterns := [], ci := false, dfa := false }

/-- `FilterLayer::from_patterns`: the patterns as given, case-sensitive, `use_dfa = true` -/
def FilterCfg.fromPatterns (ps : List Str) : FilterCfg := { patterns := ps, ci := false, dfa := true }

/-- one call of a `&mut self` method of `FilterLayer` -/
inductive FOp
  | add (p : Str)
  | ci (b : Bool)
  | dfa (b : Bool)
  deriving DecidableEq, Repr, Inhabited

/-- `FilterLayer::add_pattern` (push, whatever the pattern: duplicates, case variants and the empty pattern are
    all kept), `FilterLayer::case_insensitive`, `FilterLayer::use_dfa` (plain assignments) -/
def FilterCfg.step (c : FilterCfg) : FOp → FilterCfg
  | .add p => { c with patterns := c.patterns ++ [p] }
  | .ci b => { c with ci := b }
  | .dfa b => { c with dfa := b }

/-- a chain of builder calls -/
def FilterCfg.run (c : FilterCfg) (ops : List FOp) : FilterCfg := ops.foldl FilterCfg.step c

/-- `<FilterLayer as Layer<R>>::layer(&self, inner)`: a fresh automaton from the CURRENT fields; `use_dfa` only
    selects the automaton implementation -/
def FilterCfg.layer (c : FilterCfg) (inner : Rec) : Rec := .filter c.patterns c.ci inner

/-- `PrefixLayer::new(prefix)` followed by `<PrefixLayer as Layer<R>>::layer(&self, inner)`: the prefix is kept
    exactly as given (no trimming of dots or blanks) -/
def prefixLayer (p : Str) (inner : Rec) : Rec := .pfx p inner

/-- a step in the life of ONE `FilterLayer` value: a builder call, or `.layer(inner)` (which takes `&self`, so
    the value lives on and can be changed and applied again) -/
inductive LStep
  | cfg (o : FOp)
  | layer (inner : Rec)
  deriving Repr, Inhabited

/-- the recorders produced, in order, by the `.layer(…)` calls among `steps` on one `FilterLayer` value that
    starts as `c` -/
def FilterCfg.reuse (c : FilterCfg) : List LStep → List Rec
  | [] => []
  | .cfg o :: rest => (c.step o).reuse rest
  | .layer inner :: rest => c.layer inner :: c.reuse rest

/-- the builder calls among the steps -/
def cfgOps : List LStep → List FOp
  | [] => []
  | .cfg o :: rest => o :: cfgOps rest
  | .layer _ :: rest => cfgOps rest

/-! ### mod.rs: `Layer`, `Stack` -/

/-- the two `Layer` implementations -/
inductive Layer
  | pfx (p : Str)
  | filter (pats : List Str) (ci : Bool)
  deriving Repr, Inhabited

/-- `Layer::layer` -/
def Layer.layer : Layer → Rec → Rec
  | .pfx p, r => .pfx p r
  | .filter pats ci, r => .filter pats ci r

/-- `Stack::new(inner).push(l₁).push(l₂)…`: layers in push order, the last pushed is outermost.
    (`Stack` itself only delegates to what it wraps.) -/
def stack (inner : Rec) (layers : List Layer) : Rec := layers.foldl (fun r l => l.layer r) inner

/-! ### handles.rs, fanout.rs: updates through handle trees -/

/-- one call on a handle; `f64` arguments are opaque bit patterns -/
inductive Upd
  | cinc (n : Nat)
  | cabs (n : Nat)
  | ginc (v : Nat)
  | gdec (v : Nat)
  | gset (v : Nat)
  | hrec (v : Nat)
  | hmany (v : Nat) (count : Nat)
  deriving DecidableEq, Repr, Inhabited

/-- the kind of handle an update can be applied to -/
def Upd.kind : Upd → Kind
  | .cinc _ | .cabs _ => .counter
  | .ginc _ | .gdec _ | .gset _ => .gauge
  | .hrec _ | .hmany _ _ => .histogram

/-- `for _ in 0..count { self.record(value) }` (default `HistogramFn::record_many`): `n` rounds of what one
    `record` causes -/
def rounds {α : Type} : Nat → List α → List α
  | 0, _ => []
  | n + 1, one => one ++ rounds n one

mutual
/-- the calls `(leaf handle, call)` one call on a handle tree causes, in call order.
    `Counter::increment` etc. on `inner: None` do nothing; a leaf handle receives the call itself
    (incl. `record_many`); `Fanout*` loop over their vector — `FanoutHistogram` inherits the default
    `record_many`, i.e. `count` rounds of `record` -/
def Handle.apply : Handle → Upd → List ((Nat × Op) × Upd)
  | .noop, _ => []
  | .leaf b op, u => [((b, op), u)]
  | .fan hs, .hmany v n => rounds n (applyAll hs (.hrec v))
  | .fan hs, u => applyAll hs u
def applyAll : List Handle → Upd → List ((Nat × Op) × Upd)
  | [], _ => []
  | h :: hs, u => h.apply u ++ applyAll hs u
end

/-- a sequence of calls on ONE handle (or on clones of it: `Counter` / `Gauge` / `Histogram` are `Arc`s): what
    is received is the concatenation of what each call causes — the `Fanout*` handles keep no state between
    calls -/
def Handle.applySeq (h : Handle) (us : List Upd) : List ((Nat × Op) × Upd) := us.flatMap h.apply

/-! ### what an update amounts to (used to compare receptions: the property counts samples, not calls) -/

/-- an update as the elementary calls it stands for: `record_many(v, n)` is `n` times `record(v)` -/
def norm : Upd → List Upd
  | .hmany v n => List.replicate n (.hrec v)
  | u => [u]

/-- one received call, normalised -/
def normD (d : (Nat × Op) × Upd) : List ((Nat × Op) × Upd) := (norm d.2).map (fun e => (d.1, e))

/-! ### kind.rs: raw mask bits, as `add_route` sees them -/

/-- `MetricKindMask` is a `u8` bit set (COUNTER = 1, GAUGE = 2, HISTOGRAM = 4, ALL = 7, NONE = 0; `|` is the bitwise
    or).  `add_route` `match`es the mask against the four named constants and `panic!`s in the `_` arm: `none` here.
    A composite mask such as COUNTER | GAUGE (3) is therefore NOT "both tries" — it is refused. -/
def Mask.ofBits : Nat → Option Mask
  | 1 => some .counter
  | 2 => some .gauge
  | 4 => some .histogram
  | 7 => some .all
  | _ => none

/-- the bits of the four accepted masks -/
def Mask.bits : Mask → Nat
  | .counter => 1
  | .gauge => 2
  | .histogram => 4
  | .all => 7

/-! ### several client threads on ONE recorder tree

No layer has a mutable field (`src_layers_stateless`), every `Recorder` method takes `&self`, and the layers are
`Sync`: client threads share the tree and the handles.  The step machine below has the granularity of ONE call
into a base recorder (the harness's logging doubles are the yield points): a granted thread makes the call it is
parked in front of and runs on — finishing the operation, starting the next ones — until it stands in front of its
next call into a base recorder. -/

/-- what a base recorder (or a handle made by one) receives -/
inductive Ev
  | got (base : Nat) (op : Op)
  | upd (leaf : Nat × Op) (u : Upd)
  deriving Repr, Inhabited

/-- one call of a client thread: a describe / register on the top recorder (the handle of a register becomes the
    thread's next OWN handle), or an update through a handle — one of the SHARED handles (registered before the
    threads started; every thread holds a clone) or one of its own -/
inductive Call
  | op (o : Op)
  | upd (sharedH : Bool) (i : Nat) (u : Upd)
  deriving Repr, Inhabited

/-- the calls into base recorders one client call causes, in call order, and the thread's own handles afterwards -/
def evalCall (tree : Rec) (shared own : List Handle) : Call → List Ev × List Handle
  | .op o => ((tree.deliver o).map (fun d => Ev.got d.1 d.2), if o.reg then own ++ [tree.handle o] else own)
  | .upd sh i u =>
    match (if sh then shared else own)[i]? with
    | some h => ((h.apply u).map (fun d => Ev.upd d.1 d.2), own)
    | none => ([], own)

/-- a thread running ALONE: everything its remaining calls cause, in order -/
def seqFrom (tree : Rec) (shared : List Handle) : List Handle → List Call → List Ev
  | _, [] => []
  | own, c :: cs => (evalCall tree shared own c).1 ++ seqFrom tree shared (evalCall tree shared own c).2 cs

/-- a client thread: `pending` = the calls into base recorders it still has to make for the client call in flight
    (it is parked in front of the first), `todo` = the client calls after that -/
structure Thread where
  started : Bool := false
  pending : List Ev := []
  own : List Handle := []
  todo : List Call := []
  deriving Repr, Inhabited

/-- run on until the thread stands in front of a call into a base recorder (client calls that reach nobody —
    filtered, inert handle, empty fan-out — are passed without stopping), or has nothing left to do -/
def advance (tree : Rec) (shared : List Handle) : List Ev → List Handle → List Call → Thread
  | e :: p, own, todo => { started := true, pending := e :: p, own := own, todo := todo }
  | [], own, [] => { started := true, pending := [], own := own, todo := [] }
  | [], own, c :: cs => advance tree shared (evalCall tree shared own c).1 (evalCall tree shared own c).2 cs

/-- the whole system: the shared tree and handles (never written), the threads, and the global log of calls
    received by base recorders, tagged with the calling thread, in real-time order -/
structure Sys where
  tree : Rec
  shared : List Handle
  threads : Nat → Thread
  log : List (Nat × Ev)

/-- thread `t` is granted: its first grant only brings it in front of its first call; every later grant makes the
    call it is parked in front of and runs on to the next one -/
def Sys.step (s : Sys) (t : Nat) : Sys :=
  if (s.threads t).started = false then
    { s with threads := fun i =>
        if i = t then advance s.tree s.shared (s.threads t).pending (s.threads t).own (s.threads t).todo
        else s.threads i }
  else
    match (s.threads t).pending with
    | [] => s
    | e :: p =>
      { s with log := s.log ++ [(t, e)],
               threads := fun i =>
                 if i = t then advance s.tree s.shared p (s.threads t).own (s.threads t).todo else s.threads i }

/-- a schedule = the list of granted thread ids -/
def Sys.run (s : Sys) (sched : List Nat) : Sys := sched.foldl Sys.step s

/-- the start: thread `t` is to make the client calls `scripts t` -/
def Sys.init (tree : Rec) (shared : List Handle) (scripts : Nat → List Call) : Sys :=
  { tree := tree, shared := shared, threads := fun t => { todo := scripts t }, log := [] }

/-- what thread `t` caused, in order -/
def proj (log : List (Nat × Ev)) (t : Nat) : List Ev := (log.filter (fun x => x.1 == t)).map (·.2)

/-- what a thread will still cause if it runs to its end -/
def Thread.rest (tree : Rec) (shared : List Handle) (th : Thread) : List Ev :=
  th.pending ++ seqFrom tree shared th.own th.todo

/-- a thread has nothing left to do -/
def Thread.finished (th : Thread) : Bool := th.started && th.pending.isEmpty && th.todo.isEmpty

/-! ### recorder lifetime: a client that may drop the tree while keeping handles -/

/-- a client: the recorder tree (while it lives) and the handles obtained from it -/
structure Client where
  tree : Option Rec
  handles : List Handle
  deriving Repr, Inhabited

/-- `drop(recorder)`: the handles are `Arc`s of their own and live on -/
def Client.dropTree (c : Client) : Client := { c with tree := none }

/-- calls on handle number `i` -/
def Client.update (c : Client) (i : Nat) (us : List Upd) : List ((Nat × Op) × Upd) :=
  match c.handles[i]? with
  | some h => h.applySeq us
  | none => []

end MetricsVerif.Layers
