/-
Concurrent model of `metrics-util/src/storage/reservoir.rs`: any number of threads pushing into and consuming
from one `AtomicSamplingReservoir`, as a step machine at the granularity of the yield points.

One grant of the deterministic scheduler = one `step`:

* `push(v)`  (three steps; points `reservoir.push.selected`, `reservoir.push.claimed`)
    1. `use_primary.load(Relaxed)`                              → pc `selected side`
    2. `count.fetch_add(1, Relaxed)` on that side               → pc `claimed side idx`
    3. `values[idx].store` resp. `fastrand(idx + 1)` + store    → next op
* `consume(f)` (the closure `f` of the harness yields before every `Drain::next`)
    1. `swap.lock()`, `use_primary.load/store(!u)`, `drain()` = `count.load` of the retired side → pc `reading`
       (a thread that finds the lock taken does not move: `step` is a stutter)
       These three operations are ONE step: under the lock only this thread writes `use_primary`, a pusher's
       `use_primary.load` commutes with `lock` and with the `count.load` of the other side, and a pusher's
       `fetch_add`/`store` commute with `lock` and the flip — every finer interleaving is equivalent to one of these.
    2. one `values[i].load` per step while `i < len`
    3. end of the closure: `Drain::drop` = `count.store(0)`, the guard is released, the drain is recorded.
* `mem::forget(drain)` in the closure (`consumeForget`): as `consume`, but step 3 does not reset the count.

The model follows the code, including the behaviour recorded as known finding K-C16-straddle: a push that selected
a side before the swap and claims after the drain's `count.load` is wiped by the reset; a push that has claimed but
not stored when its slot is read makes the drain yield the slot's old content.
-/
import MetricsVerif.Model.Reservoir

namespace MetricsVerif.Reservoir

/-- `if use_primary { &self.primary } else { &self.secondary }` -/
def ASR.side (a : ASR) (prim : Bool) : Res := if prim then a.primary else a.secondary

def ASR.setSide (a : ASR) (prim : Bool) (r : Res) : ASR :=
  if prim then { a with primary := r } else { a with secondary := r }

/-- `count.fetch_add(1, Relaxed)`: the new state and the index claimed -/
def Res.claim (r : Res) : Res × Nat := ({ r with count := r.count + 1 }, r.count)

/-- the part of `Reservoir::push` after the `fetch_add`, for the push that claimed `idx` -/
def Res.storeAt (r : Res) (idx v c : Nat) : Res :=
  if idx < r.slots.length then
    { r with slots := r.slots.set idx v }
  else
    let upper := fastrandArg idx
    if upper = 0 then
      { r with panicked := true }
    else
      let j := c % upper
      if j < r.slots.length then { r with slots := r.slots.set j v } else r

/-- what that push asks the generator for (`none`: not consulted) -/
def Res.askedAt (r : Res) (idx : Nat) : Option Nat :=
  if idx < r.slots.length then none else some (fastrandArg idx)

/-- operations of a thread's program -/
inductive COp
  | push (v c : Nat)
  | consume
  | consumeForget
  deriving DecidableEq, Repr

def COp.isConsume : COp → Bool
  | .push _ _ => false
  | _ => true

/-- where a thread stands inside its current operation -/
inductive PC
  | idle
  | selected (prim : Bool)
  | claimed (prim : Bool) (idx : Nat)
  | reading (prim : Bool) (unsampled len : Nat) (vals : List Nat)
  deriving DecidableEq, Repr

structure Thread where
  prog : List COp
  pc : PC := .idle
  /-- ghost: what each completed push asked the generator for -/
  asked : List (Option Nat) := []
  deriving DecidableEq, Repr

structure Sys where
  asr : ASR
  /-- `swap` is held -/
  locked : Bool := false
  threads : List Thread
  /-- completed drains in completion order: (thread, what the closure saw) -/
  drains : List (Nat × DrainOut) := []
  deriving DecidableEq, Repr

def Sys.init (cap : Nat) (progs : List (List COp)) : Sys :=
  { asr := ASR.new cap, threads := progs.map (fun p => { prog := p }) }

def Sys.setThread (s : Sys) (t : Nat) (th : Thread) : Sys := { s with threads := s.threads.set t th }

/-- one grant of a thread whose current operation is `push(v)` (raw random number `c`) -/
def pushStep (s : Sys) (t : Nat) (th : Thread) (v c : Nat) (rest : List COp) : Sys :=
  match th.pc with
  | .idle =>
      s.setThread t { th with pc := .selected s.asr.usePrimary }
  | .selected p =>
      ({ s with asr := s.asr.setSide p (s.asr.side p).claim.1 } : Sys).setThread t
        { th with pc := .claimed p (s.asr.side p).claim.2 }
  | .claimed p idx =>
      ({ s with asr := s.asr.setSide p ((s.asr.side p).storeAt idx v c) } : Sys).setThread t
        { prog := rest, pc := .idle, asked := th.asked ++ [(s.asr.side p).askedAt idx] }
  | .reading _ _ _ _ => s

/-- one grant of a thread whose current operation is `consume(f)`; `forget`: `f` leaks the `Drain` -/
def consumeStep (s : Sys) (t : Nat) (th : Thread) (forget : Bool) (rest : List COp) : Sys :=
  match th.pc with
  | .idle =>
      if s.locked then s else
      ({ s with locked := true, asr := { s.asr with usePrimary := !s.asr.usePrimary } } : Sys).setThread t
        { th with pc := .reading s.asr.usePrimary s.asr.active.drain.unsampled s.asr.active.drain.len [] }
  | .reading p u len vals =>
      if vals.length < len then
        s.setThread t { th with pc := .reading p u len (vals ++ [(s.asr.side p).slots.getD vals.length 0]) }
      else
        ({ s with locked := false,
                  asr := (if forget then s.asr else s.asr.setSide p (s.asr.side p).reset),
                  drains := s.drains ++ [(t, DrainOut.mk vals u len)] } : Sys).setThread t
          { th with prog := rest, pc := .idle }
  | _ => s

/-- one grant of thread `t` whose state is `th` -/
def threadStep (s : Sys) (t : Nat) (th : Thread) : Sys :=
  match th.prog with
  | [] => s
  | .push v c :: rest => pushStep s t th v c rest
  | .consume :: rest => consumeStep s t th false rest
  | .consumeForget :: rest => consumeStep s t th true rest

/-- one grant of thread `t` (a thread id that does not exist, a finished thread and a consumer waiting for the
    lock do not move) -/
def cstep (s : Sys) (t : Nat) : Sys :=
  match s.threads[t]? with
  | none => s
  | some th => threadStep s t th

/-- a schedule is the list of thread ids granted -/
def crun (s : Sys) (sched : List Nat) : Sys := sched.foldl cstep s

def Sys.finished (s : Sys) : Bool := s.threads.all (fun th => th.prog.isEmpty)

def Sys.panicked (s : Sys) : Bool := s.asr.primary.panicked || s.asr.secondary.panicked

/-- a thread is inside a push on side `p` (it has loaded `use_primary = p` and not yet stored) -/
def Thread.midPushOn (th : Thread) (p : Bool) : Bool :=
  match th.pc with
  | .selected q => q == p
  | .claimed q _ => q == p
  | _ => false

/-! ### epochs of pushers (any number of threads pushing, no `consume` step granted): ghosts used by the theorems
`conc_pushers_*` / `conc_in_order_*` of `Props/C16.lean` and by the driver op `pushers` -/

/-- the values of the pushes a thread makes before its next `consume` -/
def pushPrefix : List COp → List Nat
  | .push v _ :: rest => v :: pushPrefix rest
  | _ => []

/-- granting thread `i` in state `s` does not execute a step of `consume` -/
def noConsumeStep (s : Sys) (i : Nat) : Bool :=
  match s.threads[i]? with
  | none => true
  | some th =>
    match th.prog with
    | [] => true
    | op :: _ => !op.isConsume

/-- no grant of the schedule executes a step of `consume` ("no drain in flight") -/
def pushOnlySched : Sys → List Nat → Bool
  | _, [] => true
  | s, i :: sched => noConsumeStep s i && pushOnlySched (cstep s i) sched

/-- the `(value, raw random number)` of the push whose `count.fetch_add` this grant executes, if it is one -/
def claimEntry (s : Sys) (i : Nat) : Option (Nat × Nat) :=
  match s.threads[i]? with
  | none => none
  | some th =>
    match th.prog, th.pc with
    | .push v c :: _, .selected _ => some (v, c)
    | _, _ => none

/-- claim order: the pushes of a schedule in the order of their `fetch_add`s (= the indices `0, 1, …` they get) -/
def claimLog : Sys → List Nat → List (Nat × Nat)
  | _, [] => []
  | s, i :: sched => (claimEntry s i).toList ++ claimLog (cstep s i) sched

/-- this grant is not a slot store that overtakes an earlier claim: if it is the store step of the push that claimed
    `idx`, no thread holds a claimed-but-not-stored index below `idx` -/
def storeInOrder (s : Sys) (i : Nat) : Bool :=
  match s.threads[i]? with
  | none => true
  | some th =>
    match th.pc with
    | .claimed _ idx =>
        s.threads.all (fun th' => match th'.pc with | .claimed _ idx' => decide (idx ≤ idx') | _ => true)
    | _ => true

/-- the slot stores of the schedule land in claim order -/
def storesInOrder : Sys → List Nat → Bool
  | _, [] => true
  | s, i :: sched => storeInOrder s i && storesInOrder (cstep s i) sched

/-- sequential `Reservoir::push`es of a list of `(value, raw random number)` -/
def seqRun (r : Res) (l : List (Nat × Nat)) : Res := l.foldl (fun r vc => r.push vc.1 vc.2) r

end MetricsVerif.Reservoir
