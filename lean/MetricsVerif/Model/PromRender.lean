/-
Model of the text assembly in `Inner::render` (metrics-exporter-prometheus/src/recorder.rs), as of the
`fix:` commit that makes the unit suffix part of the family name.

A family is rendered as: optional HELP line, one TYPE line, the samples of every series, a blank line.
The numeric texts (`Display` of u64 / f64) are opaque `List Char` tokens supplied by the caller.
-/
import MetricsVerif.Model.PromFmt

namespace MetricsVerif.PromRender
open MetricsVerif.PromFmt

/-- what one series of a family carries when it is rendered -/
inductive SeriesData
  | scalar (v : List Char)                                                    -- counter / gauge
  | hist (buckets : List (List Char × List Char)) (count sum : List Char)     -- (le, cumulative count)
  | summ (quantiles : List (List Char × List Char)) (sum count : List Char)   -- (quantile, value)
  deriving Repr, DecidableEq

structure Series where
  labels : List (List Char)          -- pre-formatted `k="v"` strings from `key_to_parts`
  data : SeriesData
  deriving Repr, DecidableEq

/-- structured output line; `text` below is what is written to the buffer -/
inductive Line
  | help (name desc : List Char)
  | type (name ty : List Char)
  | sample (name : List Char) (suffix : Option (List Char)) (labels : List (List Char))
      (extra : Option (List Char × List Char)) (value : List Char)
  | blank
  deriving Repr, DecidableEq

def Line.text : Line → List Char
  | .help n d => writeHelpLine n d
  | .type n t => writeTypeLine n t
  | .sample n s ls e v => writeMetricLine n s ls e v none
  | .blank => ['\n']

/-- `family_name` (recorder.rs): the unit suffix goes into the family name -/
def familyName (name : List Char) (unit : Option MUnit) : List Char :=
  fullName name none unit

def seriesLines (fam : List Char) (s : Series) : List Line :=
  match s.data with
  | .scalar v => [.sample fam none s.labels none v]
  | .hist buckets count sum =>
    buckets.map (fun b => Line.sample fam (some "bucket".toList) s.labels (some ("le".toList, b.1)) b.2)
    ++ [.sample fam (some "bucket".toList) s.labels (some ("le".toList, "+Inf".toList)) count,
        .sample fam (some "sum".toList) s.labels none sum,
        .sample fam (some "count".toList) s.labels none count]
  | .summ quantiles sum count =>
    quantiles.map (fun q => Line.sample fam none s.labels (some ("quantile".toList, q.1)) q.2)
    ++ [.sample fam (some "sum".toList) s.labels none sum,
        .sample fam (some "count".toList) s.labels none count]

/-- one iteration of the three `for (name, by_labels) in ….drain()` loops of `render` -/
def renderFamily (unitSuffixOn : Bool) (name : List Char) (desc : Option (List Char × Option MUnit))
    (ty : List Char) (series : List Series) : List Line :=
  let unit : Option MUnit := match desc with
    | some (_, u) => if unitSuffixOn then u else none
    | none => none
  let fam := familyName name unit
  (match desc with | some (d, _) => [Line.help fam d] | none => [])
  ++ [.type fam ty] ++ series.flatMap (seriesLines fam) ++ [.blank]

def renderText (ls : List Line) : List Char := ls.flatMap Line.text

end MetricsVerif.PromRender
