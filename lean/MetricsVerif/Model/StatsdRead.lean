/-
An independent, grammar-level reader of one DogStatsD metric datagram, written from the datagram format
description (docs.datadoghq.com "Datagram Format and Shell Usage", metrics section), NOT from the repo's
writer:

    <METRIC_NAME>:<VALUE>[:<VALUE>…]|<TYPE>[|@<SAMPLE_RATE>][|#<TAG_KEY>:<TAG_VALUE>,<TAG>…][|T<UNIX_SECONDS>]\n

* one datagram = one line: the terminating newline is the only newline;
* sections are separated by `|`; the first is name and values separated by `:` (multi-value packing for
  histograms/distributions), name and every value non-empty;
* `<TYPE>` ∈ c g h d ms s;
* optional sections in the documented order, each at most once: `@` sample rate (non-empty), `#` tags
  separated by `,` (each non-empty; `key:value` split at the first `:`, or a bare `key`), `T` timestamp
  (non-empty, decimal digits);
* DogStatsD has no escaping: a name, tag or value simply cannot contain its delimiters.

Whether a value / rate token is a number is checked on the implementation side (the harness parses it back to
the same bits); here tokens are delimiter-free non-empty byte strings.

Import-free; structurally recursive.  It is the "what the agent would see" side of C09.
-/
namespace MetricsVerif.StatsdRead

abbrev Bytes := List UInt8

structure Msg where
  name : Bytes
  values : List Bytes
  ty : Bytes
  rate : Option Bytes
  tags : List (Bytes × Bytes)
  ts : Option Bytes
  deriving DecidableEq, Repr

/-- split at every occurrence of `d` (always at least one piece) -/
def splitOn (d : UInt8) : Bytes → List Bytes
  | [] => [[]]
  | c :: cs =>
    if c = d then [] :: splitOn d cs
    else match splitOn d cs with
      | [] => [[c]]
      | x :: xs => (c :: x) :: xs

/-- split at the first occurrence of `d`: (before, after) — `none` when `d` does not occur -/
def splitFirst (d : UInt8) : Bytes → Bytes × Option Bytes
  | [] => ([], none)
  | c :: cs => if c = d then ([], some cs) else let r := splitFirst d cs; (c :: r.1, r.2)

/-- `key:value` (split at the first `:`; the value may contain further colons) or a bare `key` -/
def parseTag (t : Bytes) : Option (Bytes × Bytes) :=
  match splitFirst 58 t with
  | (k, none) => if k.isEmpty then none else some (k, [])
  | (k, some v) => if k.isEmpty || v.isEmpty then none else some (k, v)

/-- every tag of a `#` section must be a tag -/
def parseTags : List Bytes → Option (List (Bytes × Bytes))
  | [] => some []
  | t :: ts =>
    match parseTag t, parseTags ts with
    | some x, some xs => some (x :: xs)
    | _, _ => none

def isType (t : Bytes) : Bool :=
  t == [99] || t == [103] || t == [104] || t == [100] || t == [109, 115] || t == [115]

def isDigit (b : UInt8) : Bool := 48 ≤ b && b ≤ 57

/-- the optional sections after the type, in order; `stage` = how far we are (0 nothing, 1 rate, 2 tags, 3 ts) -/
def parseSections : Nat → List Bytes → Msg → Option Msg
  | _, [], m => some m
  | stage, sec :: rest, m =>
    match sec with
    | [] => none
    | c :: r =>
      if c = 64 then
        if stage < 1 ∧ r ≠ [] then parseSections 1 rest { m with rate := some r } else none
      else if c = 35 then
        if stage < 2 then
          match parseTags (splitOn 44 r) with
          | some tags => parseSections 2 rest { m with tags := tags }
          | none => none
        else none
      else if c = 84 then
        if stage < 3 ∧ r ≠ [] ∧ r.all isDigit = true then parseSections 3 rest { m with ts := some r } else none
      else none

/-- one datagram, including its terminating newline -/
def parsePayload (p : Bytes) : Option Msg :=
  if p.getLast? = some 10 then
    let body := p.dropLast
    if body.contains 10 then none
    else
      match splitOn 124 body with
      | head :: ty :: secs =>
        match splitOn 58 head with
        | name :: v :: vs =>
          if name.isEmpty || (v :: vs).any (·.isEmpty) || !isType ty then none
          else parseSections 0 secs ⟨name, v :: vs, ty, none, [], none⟩
        | _ => none
      | _ => none
  else none

end MetricsVerif.StatsdRead
