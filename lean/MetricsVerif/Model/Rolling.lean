/-
Model of `RollingSummary` (metrics-exporter-prometheus/src/distribution.rs) and of the summary arm of
`Distribution::record_samples`; time is `Nat` nanoseconds (`quanta::Instant` is a `u64` of nanoseconds,
`checked_sub` fails exactly when the duration exceeds it).

The DDSketch inside each bucket's `Summary` is abstracted to the list of samples it retains, in insertion
order.  The payload type `α` is a parameter: the control flow of `add`/`snapshot` never looks at a sample
except through `keep` (= `Summary::add`'s `!value.is_infinite()` test).  The driver runs the model at `α = FV`;
the window theorems run the very same functions on samples that carry their timestamp.

`Summary::add` (metrics-util/src/storage/summary.rs) returns early for ±∞.  NaN is passed on to
`DDSketch::add`, where `v > min_possible` and `v < -min_possible` are both false, so it is counted in the
zero bin (it counts as a retained sample; `min`/`max` are not touched).  Hence `keepFV v = !v.isInfinite`.
-/
import MetricsVerif.Model.Histogram

namespace MetricsVerif.Rolling
open MetricsVerif.Histogram

structure RBucket (α : Type) where
  begin : Nat
  samples : List α
  deriving Repr

structure Rolling (α : Type) where
  buckets : List (RBucket α)      -- latest first
  maxBuckets : Nat
  bucketDuration : Nat
  maxBucketDuration : Nat
  count : Nat
  deriving Repr

/-- `RollingSummary::new(buckets, bucket_duration)` (`buckets` is a `NonZeroU32`, the duration is asserted non-zero) -/
def Rolling.new (n d : Nat) : Rolling α :=
  { buckets := [], maxBuckets := n, bucketDuration := d, maxBucketDuration := d * n, count := 0 }

/-- `Summary::add` on the retained-sample abstraction -/
def summaryAdd (keep : α → Bool) (s : List α) (v : α) : List α :=
  if keep v then s ++ [v] else s

/-- what `Summary::add` keeps of an f64 -/
def keepFV (v : FV) : Bool := !v.isInfinite

/-- the search loop at the top of `add`:
    `for bucket in &mut self.buckets { if now > begin + dur { break } if now >= begin && now < end { add; return } }`
    `some` = the value was put into an existing bucket (the `return`), `none` = loop left by `break` or exhaustion -/
def addInBucket (keep : α → Bool) (d now : Nat) (v : α) : List (RBucket α) → Option (List (RBucket α))
  | [] => none
  | b :: bs =>
    if now > b.begin + d then none
    else if now ≥ b.begin ∧ now < b.begin + d then some ({ b with samples := summaryAdd keep b.samples v } :: bs)
    else (addInBucket keep d now v bs).map (b :: ·)

/-- `while now < begin || now >= end { begin += dur; end += dur }` with `end = begin + dur` throughout.
    The code's loop has no bound (it would spin forever for `now < begin`, which is unreachable: `now > reftime`
    and bucket 0 did not match, so `now >= reftime + dur = begin`); the model gives it `fuel`, and
    `Proofs/Rolling.alignLoop_spec` shows that `now + 1` is always enough there. -/
def alignLoop (d now : Nat) : Nat → Nat → Nat
  | 0, begin => begin
  | fuel + 1, begin => if now < begin ∨ now ≥ begin + d then alignLoop d now fuel (begin + d) else begin

/-- `if let Some(cutoff) = now.checked_sub(max) { retain(|b| b.begin > cutoff) }`; also the filter of `snapshot` -/
def liveAt (maxDur now : Nat) (bs : List (RBucket α)) : List (RBucket α) :=
  if now ≥ maxDur then bs.filter (fun b => b.begin > now - maxDur) else bs

/-- `RollingSummary::add(value, now)` -/
def Rolling.add (keep : α → Bool) (r : Rolling α) (v : α) (now : Nat) : Rolling α :=
  -- the count is incremented even if the value is dropped
  let r := { r with count := r.count + 1 }
  match addInBucket keep r.bucketDuration now v r.buckets with
  | some bs => { r with buckets := bs }
  | none =>
    -- remove any expired buckets
    match liveAt r.maxBucketDuration now r.buckets with
    | [] => { r with buckets := [⟨now, summaryAdd keep [] v⟩] }
    | b0 :: rest =>
      let reftime := b0.begin
      if now > reftime then
        let begin := alignLoop r.bucketDuration now (now + 1) (reftime + r.bucketDuration)
        { r with buckets := ⟨begin, summaryAdd keep [] v⟩ :: (b0 :: rest).take (r.maxBuckets - 1) }
      else
        -- `now <= reftime` and no bucket matched: the value is silently dropped (the expiry above stays done)
        { r with buckets := b0 :: rest }

/-- `RollingSummary::snapshot(now)`: merge of the buckets that are valid at `now`, latest first -/
def Rolling.snapshot (r : Rolling α) (now : Nat) : List α :=
  (liveAt r.maxBucketDuration now r.buckets).flatMap (·.samples)

/-- the summary arm of `Distribution`: `Summary(RollingSummary, quantiles, sum)` -/
structure SummaryDist where
  rolling : Rolling FV
  sum : FSum := {}
  deriving Repr

/-- `Distribution::new_summary(quantiles, bucket_duration, bucket_count)` -/
def SummaryDist.new (n d : Nat) : SummaryDist := { rolling := Rolling.new n d }

/-- the summary arm of `Distribution::record_samples`: `for (sample, ts) in samples { hist.add(*sample, *ts); *sum += *sample }` -/
def SummaryDist.recordSamples (s : SummaryDist) (samples : List (FV × Nat)) : SummaryDist :=
  samples.foldl (fun s st => { rolling := s.rolling.add keepFV st.1 st.2, sum := s.sum.add st.1 }) s

/-- value printed for a quantile line: `snapshot.quantile(q).unwrap_or(0.0)`.  `Summary::quantile` is `None`
    when the snapshot is empty (`count() == 0`); otherwise the sketch answers with an estimate of a retained
    sample — abstracted here to the range it must lie in (checked dynamically, up to the relative error). -/
inductive QTok
  | zero
  | within (samples : List FV)
  deriving DecidableEq, Repr

def quantileTok (snapshot : List FV) : QTok :=
  if snapshot.isEmpty then .zero else .within snapshot

/-- what `render` shows of a summary series at time `now`: the quantile token, `_sum`, `_count` -/
def SummaryDist.render (s : SummaryDist) (now : Nat) : QTok × FV × Nat :=
  (quantileTok (s.rolling.snapshot now), s.sum.val, s.rolling.count)

/-! ### what answers `quantile(0.0)` / `quantile(1.0)`: the sketch's running min/max

`DDSketch::quantile` returns `self.min` for `q == 0.0` and `self.max` for `q == 1.0`.  This is the part of
`sketches_ddsketch::DDSketch::{add, merge}` (0.3.0) that maintains them, next to the two counts the code tests. -/

structure MinMax where
  pos : Nat := 0        -- `store.count()`: samples above `min_possible` (1e-9)
  total : Nat := 0      -- `count()`
  min : FV := .pinf     -- initial values of `DDSketch::new`
  max : FV := .ninf
  deriving DecidableEq, Repr

/-- IEEE `a < b` -/
def FV.lt (a b : FV) : Bool := a.le b && !b.le a

/-- `v > min_possible` for the values of the model (`fin n` = n/1024, so every positive one is above 1e-9) -/
def isPositive : FV → Bool
  | .fin n => decide (0 < n)
  | .pinf => true
  | _ => false

/-- `DDSketch::add` (NaN falls through both store tests into the zero count and through both min/max tests) -/
def MinMax.add (s : MinMax) (v : FV) : MinMax :=
  { pos := if isPositive v then s.pos + 1 else s.pos, total := s.total + 1,
    min := if FV.lt v s.min then v else s.min, max := if FV.lt s.max v then v else s.max }

/-- the min/max part of `DDSketch::merge`: `was_empty` looks at the POSITIVE store only, and the other sketch's
    min/max are only considered when ITS positive store is non-empty -/
def MinMax.merge (s o : MinMax) : MinMax :=
  { pos := s.pos + o.pos, total := s.total + o.total,
    min := if s.pos == 0 then o.min else if o.pos > 0 && FV.lt o.min s.min then o.min else s.min,
    max := if s.pos == 0 then o.max else if o.pos > 0 && FV.lt s.max o.max then o.max else s.max }

/-- `Summary::merge`; `skipEmpty = true` is the repaired version (fix-C15-empty-summary-merge.patch):
    an empty `other` is not handed to the sketch -/
def summaryMerge (skipEmpty : Bool) (s o : MinMax) : MinMax :=
  if skipEmpty && o.total == 0 then s else s.merge o

/-- min/max of the `Summary` of one bucket (its retained samples, in insertion order) -/
def bucketMinMax (samples : List FV) : MinMax := samples.foldl MinMax.add {}

/-- min/max of `RollingSummary::snapshot(now)`: the live buckets folded into a fresh summary, latest first -/
def snapshotMinMax (skipEmpty : Bool) (r : Rolling FV) (now : Nat) : MinMax :=
  (liveAt r.maxBucketDuration now r.buckets).foldl (fun acc b => summaryMerge skipEmpty acc (bucketMinMax b.samples)) {}

/-- the value printed for `quantile="0"` / `quantile="1"`: `quantile(q).unwrap_or(0.0)` -/
def renderQ0 (m : MinMax) : FV := if m.total == 0 then .fin 0 else m.min
def renderQ1 (m : MinMax) : FV := if m.total == 0 then .fin 0 else m.max

/-! ### what answers `quantile(q)` for `0 < q < 1`: the three stores of the sketch

`DDSketch` (sketches-ddsketch 0.3.0) keeps a store of positive samples (`v > min_possible`), a store of negative samples
(`v < -min_possible`, keyed by `-v`) and a count of everything else (zeros, magnitudes up to `min_possible`, NaN).
A store maps a sample to the bin `key(|v|) = ceil(log_gamma |v|)`, which is monotone in `|v|`; `key_at_rank` walks the
bins in ascending key order.  The model keeps, per store, the samples themselves and answers with THE SAMPLE whose bin
is selected; the real sketch answers with that bin's representative `value(key)` (within the relative error alpha of
every sample of the bin — the part that is floating-point `ln`/`exp` and is checked dynamically at alpha = 1e-4).
Stores are not collapsed (fewer than `max_buckets` = 32768 bins in use: samples of one store within a factor 700). -/

inductive Cls
  | neg
  | zero
  | pos
  deriving DecidableEq, Repr

/-- which store `DDSketch::add` picks.  `minU` is `min_possible` (1e-9) in units of the value scale: for `fin n` = n/1024
    it is 0 (every non-zero n/1024 is above 1e-9), for the small-magnitude stream (`fin n` = n·2^-40) it is 1099. -/
def clsOf (minU : Nat) : FV → Cls
  | .fin n => if (minU : Int) < n then .pos else if n < -(minU : Int) then .neg else .zero
  | .nan => .zero          -- `v > m` and `v < -m` are both false
  | .pinf => .pos          -- (never reaches the sketch: `Summary::add` returns early)
  | .ninf => .neg

structure Sketch where
  neg : List FV := []
  zero : Nat := 0
  pos : List FV := []
  deriving Repr

/-- `DDSketch::add`, the store part -/
def Sketch.add (minU : Nat) (s : Sketch) (v : FV) : Sketch :=
  match clsOf minU v with
  | .pos => { s with pos := s.pos ++ [v] }
  | .neg => { s with neg := s.neg ++ [v] }
  | .zero => { s with zero := s.zero + 1 }

/-- `DDSketch::merge`, the store part: `store.merge`, `negative_store.merge`, `zero_count += o.zero_count` -/
def Sketch.merge (s o : Sketch) : Sketch :=
  { neg := s.neg ++ o.neg, zero := s.zero + o.zero, pos := s.pos ++ o.pos }

/-- `DDSketch::count` -/
def Sketch.count (s : Sketch) : Nat := s.pos.length + s.zero + s.neg.length

/-- the bins of a store in ascending key order (insertion sort, structurally recursive so that the kernel evaluates it) -/
def insertBy (le : FV → FV → Bool) (x : FV) : List FV → List FV
  | [] => [x]
  | y :: ys => if le x y then x :: y :: ys else y :: insertBy le x ys

def sortBy (le : FV → FV → Bool) (l : List FV) : List FV := l.foldr (insertBy le) []

/-- `Store::key_at_rank`: the first bin, in ascending key order, at which the running count exceeds `rank`; `max_key`
    when the rank is beyond the store.  `le` orders the samples by key. -/
def storeAtRank (le : FV → FV → Bool) (store : List FV) (rank : Nat) : Option FV :=
  match (sortBy le store)[rank]? with
  | some x => some x
  | none => (sortBy le store).getLast?

/-- answer of `quantile(q)` for `0 < q < 1` -/
inductive QAns
  | none                   -- empty sketch: `Ok(None)`, rendered as 0
  | zero                   -- `quantile = 0.0` (the rank falls into the zero count)
  | bin (v : FV)           -- `±value(key)` of the bin that holds the retained sample `v`
  deriving DecidableEq, Repr

def QAns.ofOpt : Option FV → QAns
  | some v => .bin v
  | Option.none => .none

/-- `DDSketch::quantile(q)` for `0 < q < 1`, given `rank = (q * (count - 1)) as u64`: negative store from its largest
    key down (`reversed_rank`), then the zero count, then the positive store from its smallest key up -/
def Sketch.atRank (s : Sketch) (rank : Nat) : QAns :=
  if s.count == 0 then .none
  else if rank < s.neg.length then
    -- keys of the negative store ascend with `-v`
    QAns.ofOpt (storeAtRank (fun a b => b.le a) s.neg (s.neg.length - rank - 1))
  else if rank < s.zero + s.neg.length then .zero
  else QAns.ofOpt (storeAtRank FV.le s.pos (rank - s.zero - s.neg.length))

/-- `rank = (q * (count as f64 - 1.0)) as u64` for `q = num/den` (exact in f64 for the dyadic `q` the harness asks) -/
def rankOf (num den count : Nat) : Nat := num * (count - 1) / den

/-- the `Summary` of one bucket -/
def bucketSketch (minU : Nat) (samples : List FV) : Sketch := samples.foldl (Sketch.add minU) {}

/-- the sketch of `RollingSummary::snapshot(now)`: live buckets merged into a fresh summary, latest first -/
def snapshotSketch (minU : Nat) (r : Rolling FV) (now : Nat) : Sketch :=
  (liveAt r.maxBucketDuration now r.buckets).foldl (fun acc b => acc.merge (bucketSketch minU b.samples)) {}

/-- the value `render` prints for a configured quantile `num/den` strictly between 0 and 1 -/
def snapshotQuantile (minU : Nat) (r : Rolling FV) (now : Nat) (num den : Nat) : QAns :=
  let sk := snapshotSketch minU r now
  sk.atRank (rankOf num den sk.count)

end MetricsVerif.Rolling
