/-
Model of `RollingSummary` (metrics-exporter-prometheus/src/distribution.rs) and of the summary arm of
`Distribution::record_samples`; time is `Nat` nanoseconds (`quanta::Instant` is a `u64` of nanoseconds,
`checked_sub` fails exactly when the duration exceeds it).

The DDSketch inside each bucket's `Summary` is abstracted to the list of samples it retains, in insertion
order.  The payload type `α` is a parameter: the control flow of `add`/`snapshot` never looks at a sample
except through `keep` (= `Summary::add`'s `!value.is_infinite()` test).  The driver runs the model at `α = FV`;
the window theorems run the very same functions on samples that carry their timestamp.

`Summary::add` (metrics-util/src/storage/summary.rs) returns early for ±∞.  NaN is passed on to
`DDSketch::add`, where `v > min_possible` and `v < -min_possible` are both false, so it is counted in the
zero bin (it counts as a retained sample; `min`/`max` are not touched).  Hence `keepFV v = !v.isInfinite`.
-/
import MetricsVerif.Model.Histogram

namespace MetricsVerif.Rolling
open MetricsVerif.Histogram

structure RBucket (α : Type) where
  begin : Nat
  samples : List α
  deriving Repr

structure Rolling (α : Type) where
  buckets : List (RBucket α)      -- latest first
  maxBuckets : Nat
  bucketDuration : Nat
  maxBucketDuration : Nat
  count : Nat
  deriving Repr

/-- `RollingSummary::new(buckets, bucket_duration)` (`buckets` is a `NonZeroU32`, the duration is asserted non-zero) -/
def Rolling.new (n d : Nat) : Rolling α :=
  { buckets := [], maxBuckets := n, bucketDuration := d, maxBucketDuration := d * n, count := 0 }

/-- `Summary::add` on the retained-sample abstraction -/
def summaryAdd (keep : α → Bool) (s : List α) (v : α) : List α :=
  if keep v then s ++ [v] else s

/-- what `Summary::add` keeps of an f64 -/
def keepFV (v : FV) : Bool := !v.isInfinite

/-- the search loop at the top of `add`:
    `for bucket in &mut self.buckets { if now > begin + dur { break } if now >= begin && now < end { add; return } }`
    `some` = the value was put into an existing bucket (the `return`), `none` = loop left by `break` or exhaustion -/
def addInBucket (keep : α → Bool) (d now : Nat) (v : α) : List (RBucket α) → Option (List (RBucket α))
  | [] => none
  | b :: bs =>
    if now > b.begin + d then none
    else if now ≥ b.begin ∧ now < b.begin + d then some ({ b with samples := summaryAdd keep b.samples v } :: bs)
    else (addInBucket keep d now v bs).map (b :: ·)

/-- `while now < begin || now >= end { begin += dur; end += dur }` with `end = begin + dur` throughout.
    The code's loop has no bound (it would spin forever for `now < begin`, which is unreachable: `now > reftime`
    and bucket 0 did not match, so `now >= reftime + dur = begin`); the model gives it `fuel`, and
    `Proofs/Rolling.alignLoop_spec` shows that `now + 1` is always enough there. -/
def alignLoop (d now : Nat) : Nat → Nat → Nat
  | 0, begin => begin
  | fuel + 1, begin => if now < begin ∨ now ≥ begin + d then alignLoop d now fuel (begin + d) else begin

/-- `if let Some(cutoff) = now.checked_sub(max) { retain(|b| b.begin > cutoff) }`; also the filter of `snapshot` -/
def liveAt (maxDur now : Nat) (bs : List (RBucket α)) : List (RBucket α) :=
  if now ≥ maxDur then bs.filter (fun b => b.begin > now - maxDur) else bs

/-- `RollingSummary::add(value, now)` -/
def Rolling.add (keep : α → Bool) (r : Rolling α) (v : α) (now : Nat) : Rolling α :=
  -- the count is incremented even if the value is dropped
  let r := { r with count := r.count + 1 }
  match addInBucket keep r.bucketDuration now v r.buckets with
  | some bs => { r with buckets := bs }
  | none =>
    -- remove any expired buckets
    match liveAt r.maxBucketDuration now r.buckets with
    | [] => { r with buckets := [⟨now, summaryAdd keep [] v⟩] }
    | b0 :: rest =>
      let reftime := b0.begin
      if now > reftime then
        let begin := alignLoop r.bucketDuration now (now + 1) (reftime + r.bucketDuration)
        { r with buckets := ⟨begin, summaryAdd keep [] v⟩ :: (b0 :: rest).take (r.maxBuckets - 1) }
      else
        -- `now <= reftime` and no bucket matched: the value is silently dropped (the expiry above stays done)
        { r with buckets := b0 :: rest }

/-- `RollingSummary::snapshot(now)`: merge of the buckets that are valid at `now`, latest first -/
def Rolling.snapshot (r : Rolling α) (now : Nat) : List α :=
  (liveAt r.maxBucketDuration now r.buckets).flatMap (·.samples)

/-- the summary arm of `Distribution`: `Summary(RollingSummary, quantiles, sum)` -/
structure SummaryDist where
  rolling : Rolling FV
  sum : FSum := {}
  deriving Repr

/-- `Distribution::new_summary(quantiles, bucket_duration, bucket_count)` -/
def SummaryDist.new (n d : Nat) : SummaryDist := { rolling := Rolling.new n d }

/-- the summary arm of `Distribution::record_samples`: `for (sample, ts) in samples { hist.add(*sample, *ts); *sum += *sample }` -/
def SummaryDist.recordSamples (s : SummaryDist) (samples : List (FV × Nat)) : SummaryDist :=
  samples.foldl (fun s st => { rolling := s.rolling.add keepFV st.1 st.2, sum := s.sum.add st.1 }) s

/-- value printed for a quantile line: `snapshot.quantile(q).unwrap_or(0.0)`.  `Summary::quantile` is `None`
    when the snapshot is empty (`count() == 0`); otherwise the sketch answers with an estimate of a retained
    sample — abstracted here to the range it must lie in (checked dynamically, up to the relative error). -/
inductive QTok
  | zero
  | within (samples : List FV)
  deriving DecidableEq, Repr

def quantileTok (snapshot : List FV) : QTok :=
  if snapshot.isEmpty then .zero else .within snapshot

/-- what `render` shows of a summary series at time `now`: the quantile token, `_sum`, `_count` -/
def SummaryDist.render (s : SummaryDist) (now : Nat) : QTok × FV × Nat :=
  (quantileTok (s.rolling.snapshot now), s.sum.val, s.rolling.count)

/-! ### what answers `quantile(0.0)` / `quantile(1.0)`: the sketch's running min/max

`DDSketch::quantile` returns `self.min` for `q == 0.0` and `self.max` for `q == 1.0`.  This is the part of
`sketches_ddsketch::DDSketch::{add, merge}` (0.3.0) that maintains them, next to the two counts the code tests. -/

structure MinMax where
  pos : Nat := 0        -- `store.count()`: samples above `min_possible` (1e-9)
  total : Nat := 0      -- `count()`
  min : FV := .pinf     -- initial values of `DDSketch::new`
  max : FV := .ninf
  deriving DecidableEq, Repr

/-- IEEE `a < b` -/
def FV.lt (a b : FV) : Bool := a.le b && !b.le a

/-- `v > min_possible` for the values of the model (`fin n` = n/1024, so every positive one is above 1e-9) -/
def isPositive : FV → Bool
  | .fin n => decide (0 < n)
  | .pinf => true
  | _ => false

/-- `DDSketch::add` (NaN falls through both store tests into the zero count and through both min/max tests) -/
def MinMax.add (s : MinMax) (v : FV) : MinMax :=
  { pos := if isPositive v then s.pos + 1 else s.pos, total := s.total + 1,
    min := if FV.lt v s.min then v else s.min, max := if FV.lt s.max v then v else s.max }

/-- the min/max part of `DDSketch::merge`: `was_empty` looks at the POSITIVE store only, and the other sketch's
    min/max are only considered when ITS positive store is non-empty -/
def MinMax.merge (s o : MinMax) : MinMax :=
  { pos := s.pos + o.pos, total := s.total + o.total,
    min := if s.pos == 0 then o.min else if o.pos > 0 && FV.lt o.min s.min then o.min else s.min,
    max := if s.pos == 0 then o.max else if o.pos > 0 && FV.lt s.max o.max then o.max else s.max }

/-- `Summary::merge`; `skipEmpty = true` is the repaired version (fix-C15-empty-summary-merge.patch):
    an empty `other` is not handed to the sketch -/
def summaryMerge (skipEmpty : Bool) (s o : MinMax) : MinMax :=
  if skipEmpty && o.total == 0 then s else s.merge o

/-- min/max of the `Summary` of one bucket (its retained samples, in insertion order) -/
def bucketMinMax (samples : List FV) : MinMax := samples.foldl MinMax.add {}

/-- min/max of `RollingSummary::snapshot(now)`: the live buckets folded into a fresh summary, latest first -/
def snapshotMinMax (skipEmpty : Bool) (r : Rolling FV) (now : Nat) : MinMax :=
  (liveAt r.maxBucketDuration now r.buckets).foldl (fun acc b => summaryMerge skipEmpty acc (bucketMinMax b.samples)) {}

/-- the value printed for `quantile="0"` / `quantile="1"`: `quantile(q).unwrap_or(0.0)` -/
def renderQ0 (m : MinMax) : FV := if m.total == 0 then .fin 0 else m.min
def renderQ1 (m : MinMax) : FV := if m.total == 0 then .fin 0 else m.max

end MetricsVerif.Rolling
