/-
Model of idle-metric removal: `metrics-util/src/registry/recency.rs` (`Generation`, `Generational`,
`Recency::should_store_*`), `metrics-util/src/kind.rs` (`MetricKindMask::matches`), the three metric maps of
`metrics-util/src/registry/mod.rs` (`get_or_create_*`, `delete_*`, `get_*_handles`) and the observation loop
of `metrics-exporter-prometheus/src/recorder.rs` (`Inner::get_recent_metrics`), as a sequential state machine.

Time is a `Nat` number of clock ticks (`quanta::Clock::mock`, one tick = one nanosecond; `now - last_update`
is a `Duration`, compared with the configured timeout by `>`).  A metric is a generation counter (bumped by
*every* update through `Generational::with_increment`, also by updates that leave the value unchanged) and a
value.  Counter values are `Nat` modulo 2^64, gauge values and histogram sums are integers (the
correspondence generator only uses integer-valued `f64`s whose partial sums are exact); a histogram's value
is the (count, sum) of the samples recorded since it was (re-)registered.

`Cfg.byKind` selects how `Recency` keys its map: `true` = by (kind, key) — the repaired code in this tree;
`false` = by key only — the code as it was before `fix-C12.patch` (kept so that the defect stays a
kernel-checked witness, `Props/C12.lean: kinds_independent_legacy_false`).
-/
namespace MetricsVerif.Recency

/-- `MetricKind` -/
inductive Kind
  | counter | gauge | histogram
  deriving DecidableEq, Repr

abbrev Key := List Char
/-- a metric is identified by its kind and key (three separate maps in `Registry`) -/
abbrev Id := Kind × Key
/-- key of `Recency`'s map: `(some kind, key)` after the repair, `(none, key)` before -/
abbrev Slot := Option Kind × Key

inductive Val
  | c (n : Nat)
  | g (v : Int)
  | h (count : Nat) (sum : Int)
  deriving DecidableEq, Repr

/-- value of a freshly created metric (`AtomicStorage::{counter,gauge,histogram}`) -/
def Val.zero : Kind → Val
  | .counter => .c 0
  | .gauge => .g 0
  | .histogram => .h 0 0

/-- the update calls of `CounterFn` / `GaugeFn` / `HistogramFn` -/
inductive Upd
  | inc (n : Nat)      -- Counter::increment
  | abs (n : Nat)      -- Counter::absolute
  | set (v : Int)      -- Gauge::set
  | add (v : Int)      -- Gauge::increment / decrement
  | record (v : Int)   -- Histogram::record
  deriving DecidableEq, Repr

def two64 : Nat := 18446744073709551616

/-- the effect of an update on the value (`fetch_add` wraps, `absolute` is `fetch_max`).  An update that
    does not belong to the kind of the value cannot be written against the real API; the driver rejects it
    (`bad-op`), here it leaves the value alone. -/
def Val.apply : Val → Upd → Val
  | .c a, .inc n => .c ((a + n) % two64)
  | .c a, .abs n => .c (max a n)
  | .g _, .set v => .g v
  | .g a, .add v => .g (a + v)
  | .h cnt s, .record v => .h (cnt + 1) (s + v)
  | v, _ => v

/-- does the update belong to the kind? (driver-side check) -/
def Upd.fits : Upd → Kind → Bool
  | .inc _, .counter | .abs _, .counter => true
  | .set _, .gauge | .add _, .gauge => true
  | .record _, .histogram => true
  | _, _ => false

/-- `Generational<T>`: the inner value and its generation -/
structure Metric where
  gen : Nat
  val : Val
  deriving DecidableEq, Repr

/-! ### hash maps as association lists (unique keys are an invariant, `Proofs/Recency.lean: KeysNodup`) -/

section maps
variable {κ α : Type} [DecidableEq κ]

def lookup : List (κ × α) → κ → Option α
  | [], _ => none
  | (k', a) :: rest, k => if k' = k then some a else lookup rest k

def erase (m : List (κ × α)) (k : κ) : List (κ × α) := m.filter (fun e => !decide (e.1 = k))

def insert (m : List (κ × α)) (k : κ) (a : α) : List (κ × α) := (k, a) :: erase m k

end maps

/-- `MetricKindMask::matches` (bits 1, 2, 4) -/
def maskMatches (mask : Nat) : Kind → Bool
  | .counter => mask &&& 1 != 0
  | .gauge => mask &&& 2 != 0
  | .histogram => mask &&& 4 != 0

structure Cfg where
  mask : Nat
  timeout : Option Nat
  byKind : Bool := true
  deriving Repr

structure St where
  cfg : Cfg
  now : Nat := 0
  /-- the registry: counters, gauges and histograms, as one map keyed by (kind, key) -/
  metrics : List (Id × Metric) := []
  /-- `Recency::inner.1`: slot ↦ (generation, time) recorded at an observation -/
  entries : List (Slot × (Nat × Nat)) := []
  deriving Repr

def init (cfg : Cfg) : St := { cfg }

/-- which slot of `Recency`'s map a metric uses -/
def slotOf (cfg : Cfg) (k : Kind) (key : Key) : Slot :=
  if cfg.byKind then (some k, key) else (none, key)

/-- `Registry::get_or_create_*`: the existing metric, or a new one with generation 0 and value zero -/
def getOrCreate (s : St) (i : Id) : Metric :=
  (lookup s.metrics i).getD ⟨0, Val.zero i.1⟩

/-- `Registry::delete_*`: removes the metric; answers whether it existed -/
def deleteMetric (ms : List (Id × Metric)) (i : Id) : List (Id × Metric) × Bool :=
  (erase ms i, (lookup ms i).isSome)

/-- `Recency::should_store` (via `should_store_counter/gauge/histogram`): the new state and the answer.
    First sighting stores and keeps; a changed generation refreshes and keeps; the same generation seen more
    than `timeout` ago (strictly) deletes the metric from the registry and, if it existed, the entry. -/
def shouldStore (s : St) (k : Kind) (key : Key) (gen : Nat) : St × Bool :=
  match s.cfg.timeout with
  | none => (s, true)
  | some timeout =>
    if maskMatches s.cfg.mask k then
      match lookup s.entries (slotOf s.cfg k key) with
      | some (lastGen, lastUpdate) =>
        if lastGen = gen then
          if timeout < s.now - lastUpdate then
            if (deleteMetric s.metrics (k, key)).2 then
              ({ s with metrics := (deleteMetric s.metrics (k, key)).1,
                        entries := erase s.entries (slotOf s.cfg k key) }, false)
            else (s, true)
          else (s, true)
        else ({ s with entries := insert s.entries (slotOf s.cfg k key) (gen, s.now) }, true)
      | none => ({ s with entries := insert s.entries (slotOf s.cfg k key) (gen, s.now) }, true)
    else (s, true)

/-- `Registry::get_*_handles`: a snapshot of the metrics of one kind -/
def handles (s : St) (k : Kind) : List (Id × Metric) :=
  s.metrics.filter (fun e => decide (e.1.1 = k))

/-- one iteration of a loop of `get_recent_metrics`: read the generation, ask `should_store_*` -/
def visit (s : St) (e : Id × Metric) : St := (shouldStore s e.1.1 e.1.2 e.2.gen).1

/-- one loop of `get_recent_metrics` over the snapshot of one kind -/
def observeKind (s : St) (k : Kind) : St := (handles s k).foldl visit s

/-- `Inner::get_recent_metrics`: counters, then gauges, then histograms -/
def observe (s : St) : St :=
  observeKind (observeKind (observeKind s .counter) .gauge) .histogram

inductive Op
  | reg (k : Kind) (key : Key)                 -- register only (`get_or_create_*` with a no-op closure)
  | upd (k : Kind) (key : Key) (u : Upd)       -- register if needed, then one update through the handle
  | adv (ticks : Nat)                          -- the clock advances
  | observe                                    -- one observation / render
  deriving Repr

def step (s : St) : Op → St
  | .reg k key => { s with metrics := insert s.metrics (k, key) (getOrCreate s (k, key)) }
  | .upd k key u =>
    let m := getOrCreate s (k, key)
    { s with metrics := insert s.metrics (k, key) ⟨m.gen + 1, m.val.apply u⟩ }
  | .adv n => { s with now := s.now + n }
  | .observe => observe s

def run (s : St) (ops : List Op) : St := ops.foldl step s

/-! ### the registry changed behind `Recency`'s back

`Registry::delete_counter|gauge|histogram` and `Registry::clear` are public (`metrics-util/src/registry/mod.rs`) and
know nothing of `Recency`; `Recency` has no operation that forgets an entry.  A second observer (another thread
inside `get_recent_metrics`: `PrometheusHandle` is `Clone`, `render(&self)`) takes its handle snapshot
(`get_*_handles()`) before the first one's deletions and later calls `should_store_*` with the generation of a
handle whose storage is no longer registered.  `XOp` adds these three to the histories. -/
inductive XOp
  | base (op : Op)
  | del (k : Kind) (key : Key)                 -- `Registry::delete_*(key)` called from outside `Recency`
  | clear                                      -- `Registry::clear()`
  | stale (k : Kind) (key : Key) (gen : Nat)   -- `should_store_*(key, gen, registry)`: one loop iteration of a second
                                               -- observer, `gen` read from the handle in its (possibly stale) snapshot
  deriving Repr

def xstep (s : St) : XOp → St
  | .base op => step s op
  | .del k key => { s with metrics := (deleteMetric s.metrics (k, key)).1 }
  | .clear => { s with metrics := [] }
  | .stale k key g => (shouldStore s k key g).1

def xrun (s : St) (xs : List XOp) : St := xs.foldl xstep s

/-- the operations of a history that `Recency` itself takes part in -/
def strip : List XOp → List Op
  | [] => []
  | .base op :: rest => op :: strip rest
  | _ :: rest => strip rest

end MetricsVerif.Recency
