/-
Model of the PRODUCER side of `metrics-exporter-tcp` (`metrics-exporter-tcp/src/lib.rs`, C11): the emitting
threads running `State::push_metric`, the channel to the transport thread, the `mio::Waker`, and the part of
`run_transport` that consumes them (poll → `WAKER` branch → read loop → fan-out).  `Model/Tcp.lean` starts where
this model ends: its `wake` event carries the batch that this model calls `delivered`.

A step machine at the granularity of one shared-memory operation (DESIGN §3.1):

  emitter (one `Handle::increment/…` call per metric id in `todo`)
    pc `gate`  — about to `self.should_send.load(Acquire)`               (yield point `tcp:should_send`)
    pc `send`  — gate was open; about to `self.tx.try_send(..)`          (yield point: the allocation inside
                                                                          `key.clone()`, reached by the harness's
                                                                          allocator trap)
    pc `wake`  — about to `self.waker.wake()`                            (yield point `tcp:wake`)
  transport thread
    pc `idle`  — about to `poll.poll(..)`; it returns for the `WAKER` token only if a wake-up is pending
                 (mio's waker is an eventfd registered edge-triggered: wake-ups coalesce, one poll return
                 consumes them)
    pc `loop`  — inside the read loop of the `WAKER` branch, about to run one iteration:
                 `buffered_pmsgs.len() >= buffer_limit` → `state.wake(); break`, else `rx.try_recv()`.
                 Leaving the loop fans the batch out (`Model/Tcp.wakeFull`) and returns to `idle`.

`Shape` is the order of the producer's operations.  The code as it is has `sendThenWake`
(pinned by the source fact `Generated.tcp_push_metric_calls`, see `Props/C11.src_push_metric_shape`); the two
other shapes are NOT the code — they are kept so that the lost wake-ups they cause are kernel-evaluated
witnesses (the invariant below is not vacuous).  Import-free, total, executable.
-/
namespace MetricsVerif.TcpProd

inductive Shape where
  /-- `if should_send() { try_send(..); wake() }` — the code -/
  | sendThenWake
  /-- `if should_send() { wake(); try_send(..) }` -/
  | wakeThenSend
  /-- `if should_send() { let w = tx.is_empty(); try_send(..); if w { wake() } }` -/
  | wakeIfWasEmpty
deriving DecidableEq, Repr, Inhabited

/-- the shape named by the ordered producer calls of `push_metric` and its number of `if`s -/
def shapeOf (calls : List String) (ifs : Nat) : Option Shape :=
  if calls = ["should_send", "try_send", "wake"] ∧ ifs = 1 then some .sendThenWake
  else if calls = ["should_send", "wake", "try_send"] ∧ ifs = 1 then some .wakeThenSend
  else if calls = ["should_send", "is_empty", "try_send", "wake"] ∧ ifs = 2 then some .wakeIfWasEmpty
  else none

inductive Pc where
  | gate | send | wake | done
deriving DecidableEq, Repr, Inhabited

/-- one emitting thread: the metric ids it still has to emit (head = the call in progress) -/
structure Em where
  pc : Pc := .done
  todo : List Nat := []
  /-- `needs_wake` of the `wakeIfWasEmpty` shape -/
  needsWake : Bool := true
deriving DecidableEq, Repr, Inhabited

/-- the call returns; the thread starts its next call or is finished -/
def Em.next (e : Em) : Em :=
  match e.todo.tail with
  | [] => { pc := .done, todo := [] }
  | rest => { pc := .gate, todo := rest }

def Em.start (ids : List Nat) : Em := if ids.isEmpty then {} else { pc := .gate, todo := ids }

inductive TPc where
  | idle | loop
deriving DecidableEq, Repr, Inhabited

def usizeMax : Nat := 2 ^ 64 - 1

structure Sys where
  shape : Shape := .sendThenWake
  /-- `buffer_size`: capacity of the channel (`bounded(n)` / `unbounded()`) and batch limit -/
  cap : Option Nat := some 1024
  /-- `should_send` (constant here: no accept / disconnect happens during a race case) -/
  gate : Bool := true
  /-- the channel, oldest first -/
  chan : List Nat := []
  /-- the waker's eventfd has been written since poll last returned for it -/
  wakePending : Bool := false
  tpc : TPc := .idle
  /-- `buffered_pmsgs` -/
  buffered : List Nat := []
  /-- ghost: concatenation of all batches handed to the fan-out -/
  delivered : List Nat := []
  /-- ghost: ids whose `try_send` returned `Ok`, in channel order -/
  accepted : List Nat := []
  /-- emitting threads (any number: all but finitely many are `done`) -/
  ems : Nat → Em := fun _ => {}

def Sys.limit (s : Sys) : Nat := s.cap.getD usizeMax

/-- `try_send` succeeds iff there is room (`bounded(0)` is a rendezvous channel: with a receiver that only
    ever calls `try_recv` it never succeeds) -/
def Sys.room (s : Sys) : Bool :=
  match s.cap with
  | none => true
  | some n => decide (s.chan.length < n)

def Sys.setEm (s : Sys) (i : Nat) (e : Em) : Sys := { s with ems := fun j => if j = i then e else s.ems j }

/-- `try_send(Event::Metric(id))` -/
def Sys.trySend (s : Sys) (id : Nat) : Sys :=
  if s.room then { s with chan := s.chan ++ [id], accepted := s.accepted ++ [id] } else s

/-- emitter `i` at pc `gate`: `if self.should_send()` (and, in the `wakeIfWasEmpty` shape, the `is_empty()` sample) -/
def emGate (s : Sys) (i : Nat) : Sys :=
  if !s.gate then s.setEm i (s.ems i).next else
  match s.shape with
  | .sendThenWake => s.setEm i { s.ems i with pc := .send }
  | .wakeIfWasEmpty => s.setEm i { s.ems i with pc := .send, needsWake := s.chan.isEmpty }
  | .wakeThenSend => s.setEm i { s.ems i with pc := .wake }

/-- emitter `i` at pc `send`: `let _ = self.tx.try_send(Event::Metric(key.clone(), op))` -/
def emSend (s : Sys) (i : Nat) (id : Nat) : Sys :=
  match s.shape with
  | .sendThenWake => (s.trySend id).setEm i { s.ems i with pc := .wake }
  | .wakeIfWasEmpty =>
    if (s.ems i).needsWake then (s.trySend id).setEm i { s.ems i with pc := .wake }
    else (s.trySend id).setEm i (s.ems i).next
  | .wakeThenSend => (s.trySend id).setEm i (s.ems i).next

/-- emitter `i` at pc `wake`: `self.waker.wake()` -/
def emWake (s : Sys) (i : Nat) : Sys :=
  match s.shape with
  | .wakeThenSend => { s with wakePending := true }.setEm i { s.ems i with pc := .send }
  | _ => { s with wakePending := true }.setEm i (s.ems i).next

/-- one step of emitter `i` (what it does between two of its yield points) -/
def emStep (s : Sys) (i : Nat) : Sys :=
  match (s.ems i).pc, (s.ems i).todo with
  | .done, _ => s
  | _, [] => s
  | .gate, _ :: _ => emGate s i
  | .send, id :: _ => emSend s i id
  | .wake, _ :: _ => emWake s i

/-- the fan-out of the buffered batch; the loop is left -/
def Sys.fanout (s : Sys) : Sys :=
  { s with tpc := .idle, delivered := s.delivered ++ s.buffered, buffered := [] }

/-- transport at pc `idle`: `poll.poll(..)` returns for the waker iff a wake-up is pending, and consumes it -/
def tIdle (s : Sys) : Sys :=
  if s.wakePending then { s with wakePending := false, tpc := .loop } else s

/-- transport at pc `loop`: one iteration of the read loop of the `WAKER` branch -/
def tLoop (s : Sys) : Sys :=
  -- `if buffered_pmsgs.len() >= buffer_limit { state.wake(); break }`
  if s.limit ≤ s.buffered.length then { s with wakePending := true }.fanout
  else
    match s.chan with
    -- `Ok(msg)`
    | id :: rest => { s with chan := rest, buffered := s.buffered ++ [id] }
    -- `Err(e) if e.is_empty() => break`
    | [] => s.fanout

/-- one step of the transport thread -/
def tStep (s : Sys) : Sys :=
  match s.tpc with
  | .idle => tIdle s
  | .loop => tLoop s

inductive Tid where
  | em (i : Nat)
  | t
deriving DecidableEq, Repr, Inhabited

def step (s : Sys) : Tid → Sys
  | .em i => emStep s i
  | .t => tStep s

def run (s : Sys) (sched : List Tid) : Sys := sched.foldl step s

/-- the thread can move -/
def enabled (s : Sys) : Tid → Bool
  | .em i => (s.ems i).pc != .done
  | .t => s.tpc == .loop || s.wakePending

def emsOf (progs : List (List Nat)) : Nat → Em := fun i => Em.start ((progs[i]?).getD [])

def init (shape : Shape) (cap : Option Nat) (gate : Bool) (progs : List (List Nat)) : Sys :=
  { shape := shape, cap := cap, gate := gate, ems := emsOf progs }

/-- `k` steps of the transport thread in a row (the emitters do not run in between) -/
def tSteps : Nat → Sys → Sys
  | 0, s => s
  | k + 1, s => tSteps k (tStep s)

/-- `ids.len()` emissions' `try_send`s in a row (the transport thread does not run in between) -/
def sendAll (s : Sys) (ids : List Nat) : Sys := ids.foldl Sys.trySend s

end MetricsVerif.TcpProd
