import MetricsVerif.Model.Bucket
import MetricsVerif.Model.BucketGhost
/-
Model of ONE histogram series of the Prometheus exporter under concurrency, on top of the step machine of the lock-free
bucket (`Model/Bucket.lean`: one step = one shared-memory operation, PC names = yield-point ids in bucket.rs).

  `Histogram::record(v)` on the exporter's handle   = `AtomicBucket::push (v, now)`      (C07.src_record_path)
  `record_many(v, c)`                               = `c` times `record(v)`              (trait default, same source fact)
  one drain pass (`run_upkeep()`, or the first half of `render()`: `drain_histograms_to_distributions`)
                                                    = ONE `clear_with` on the key's bucket whose callback is
                                                      `Distribution::record_samples`, called block by block (at the
                                                      `bkt.clear.read` step) while the distributions write lock is held
                                                      (C07.src_drain_under_lock, C07.src_upkeep_and_render_drain)
  `render()`                                        = a drain pass, then a read of the distributions under the read lock.

Threads: any number of recording threads (each a list of samples) and any number of draining threads (each a number of
drain passes).  The distributions lock only removes schedules (two drains never overlap in the real exporter); the
theorems of `Props/C07Conc.lean` quantify over ALL schedules of the step machine, so they cover the ones the lock leaves.

The distribution is (count, sum) — what `_count` / `_sum` of the rendered series show (C07.distSeries_shows).  Folding
batch after batch is folding their concatenation (`Dist.record_append`, Props/C07Conc.lean), so the distribution that the
finished drains have built is `Dist.record ⟨0,0⟩ (delivered s)`.  Samples are naturals (the harness uses multiples of
0.5 and sends `2·v`).
-/
namespace MetricsVerif.PromConc
open MetricsVerif.Bucket

/-- a recording thread: `record(v)` for every `v` of the list (`record_many(v, c)` = `c` copies of `v`) -/
def recCalls (vs : List Nat) : List Call := vs.map .push

/-- a draining thread: `n` drain passes (`run_upkeep()` / `render()`), each ONE `clear_with` -/
def drainCalls (n : Nat) : List Call := List.replicate n .clear

/-- recording threads `0 … recs.length-1`, draining threads after them -/
def progsOf (recs : List (List Nat)) (drains : List Nat) : List (List Call) :=
  recs.map recCalls ++ drains.map drainCalls

/-- every sample any thread records -/
def recorded (recs : List (List Nat)) : List Nat := recs.flatten

/-- the aggregate of a series that `_count` / `_sum` show -/
structure Dist where
  count : Nat
  sum : Nat
  deriving DecidableEq, Repr

/-- `Distribution::record_samples` (count and sum; C07.src_fold_path) -/
def Dist.record (d : Dist) (vs : List Nat) : Dist := { count := d.count + vs.length, sum := d.sum + vs.sum }

def Dist.zero : Dist := { count := 0, sum := 0 }

/-- the distribution built by the drain passes that have FINISHED (what a `render()` shows: it reads the distributions
    under the read lock, i.e. while no drain is inside its `clear_with`) -/
def distOf (s : Sys) : Dist := Dist.zero.record (delivered s)

/-- the samples still in the bucket, reachable from the tail: what the next drain pass will fold in -/
def pendingOf (s : Sys) : Dist := Dist.zero.record (visible s)

/-- one scheduler grant = exactly one model step: every PC of the bucket machine is a yield point of bucket.rs (the
    detaching CAS of `clear_with` is the point `bkt.clear.cas`, between the tail load and the CAS) -/
def grant (s : Sys) (tid : Nat) : Sys := step s tid

/-- the steps of a thread that runs `n` pushes alone from its start (the prefill the harness does before the scheduled
    threads start): at most 6 steps per push (`start`, tail load, first-block CAS or hand-over CAS, claim, publish, and
    the retry after a full block); steps of a finished thread change nothing -/
def prefillSched (tid n : Nat) : List Nat := List.replicate (6 * n + 2) tid

end MetricsVerif.PromConc
