/-
Model of the recorder scoping of `metrics` (metrics/src/recorder/mod.rs) and of the emitting macros
(metrics/src/macros.rs).

  LOCAL_RECORDER (thread_local Cell<Option<NonNull<dyn Recorder>>>)   `St.loc : Tid → Option RecId`
  LocalRecorderGuard { prev_recorder }                               `Guard` (table entry: rcd, prev, live)
  LocalRecorderGuard::new   = replace(Some(r)), remember what was there  `install`
  Drop for LocalRecorderGuard = replace(self.prev_recorder)              `dropG`   (restores the SAVED previous
                                                                         value, whatever is installed now —
                                                                         this is what goes wrong for FIFO drops)
  mem::forget(guard)        = the destructor never runs                  `Op.forget`
  with_local_recorder(r, f) = { let _g = Guard::new(r); f() }            `Op.enter r … Op.exit panic`
                              (the guard is dropped on return AND on unwinding; both are `exit`)
  with_recorder             = local > global > noop                      `dispatch`
  set_global_recorder       = first call wins                            `Op.setGlobal`

`Op.endBorrow r` is the program point after which recorder `r` must not be touched any more (the `&r` handed
to the guards has ended / `r` is dropped).  The borrow checker allows it only when no guard VALUE borrowing
`r` is still owned by the program: every guard of `r` was dropped or given to `mem::forget`.  Programs the
borrow checker rejects answer `Out.rejected` and leave the state unchanged.

The model follows the code: it is not a specification.  A stale recorder left in `loc` by a FIFO drop or a
forgotten guard is dispatched to exactly as the real code does (`Emission.stale = true`).
-/
namespace MetricsVerif.LocalRec

abbrev RecId := Nat
abbrev GuardId := Nat
abbrev Tid := Nat

/-! ## macro forms (macros.rs) -/

inductive Kind
  | counter | gauge | histogram
  deriving DecidableEq, Repr

inductive Level
  | trace | debug | info | warn | error
  deriving DecidableEq, Repr

/-- the `$name` argument: a literal token (`$name:literal` arms, static key) or any other expression -/
inductive NameArg
  | lit (s : String)
  | expr (s : String)
  deriving DecidableEq, Repr

def NameArg.val : NameArg → String
  | .lit s => s
  | .expr s => s

/-- the label arguments of `counter!/gauge!/histogram!` -/
inductive LabelsArg
  | none                                          -- no label argument
  | litPairs (kv : List (String × String))        -- `"k" => "v", …` all literals (static LABELS array)
  | exprPairs (kv : List (String × String))       -- `k => v, …` some key/value is a computed expression
  | collection (kv : List (String × String))      -- one expression implementing IntoLabels: `&labels`, a Vec, …
  deriving DecidableEq, Repr

/-- `counter!/gauge!/histogram!( [target: t,] [level: l,] name [, labels…] )` -/
structure RegCall where
  kind : Kind
  target : Option String
  level : Option Level
  name : NameArg
  labels : LabelsArg
  deriving DecidableEq, Repr

/-- `describe_counter!/…( name, [unit,] description )`; `unit` is `Unit::as_str` of the written unit -/
structure DescCall where
  kind : Kind
  name : NameArg
  unit : Option String
  desc : String
  deriving DecidableEq, Repr

inductive Call
  | reg (c : RegCall)
  | desc (d : DescCall)
  deriving DecidableEq, Repr

/-- what the `Recorder` method finally receives -/
structure Row where
  describe : Bool                       -- describe_* (true) or register_* (false)
  kind : Kind
  name : String
  labels : List (String × String)
  target : Option String                -- Metadata::target        (register_* only)
  level : Option Level                  -- Metadata::level         (register_* only)
  modulePath : Option String            -- Metadata::module_path   (register_* only)
  unit : Option String                  -- describe_* only
  desc : Option String                  -- describe_* only
  deriving DecidableEq, Repr

/-- `key_var!`: the six arms, in source order; every arm builds a key of (name, labels in written order) -/
def keyVar (n : NameArg) (l : LabelsArg) : String × List (String × String) :=
  match n, l with
  | .lit s, .none => (s, [])                      -- ($name:literal)            Key::from_static_name
  | .expr s, .none => (s, [])                     -- ($name:expr)               Key::from_name
  | .lit s, .litPairs kv => (s, kv)               -- ($name:literal, lit=>lit)  Key::from_static_parts
  | .expr s, .litPairs kv => (s, kv)              -- ($name:expr, lit=>lit)     Key::from_static_labels
  | n, .exprPairs kv => (n.val, kv)               -- ($name:expr, expr=>expr)   Key::from_parts(name, vec![Label::new…])
  | n, .collection kv => (n.val, kv)              -- ($name:expr, $labels:expr) Key::from_parts(name, labels)

/-- `metadata_var!($target, $level)` = Metadata::new(target, level, Some(module_path!())) -/
def metadataVar (mp : String) (target : String) (level : Level) : String × Level × Option String :=
  (target, level, some mp)

/-- `counter!/gauge!/histogram!`: the four arms (missing `target:` ⇒ `module_path!()`, missing `level:` ⇒
    `Level::INFO`), then `recorder.register_*(&key, metadata)` -/
def expandReg (mp : String) (c : RegCall) : Row :=
  let target := match c.target with | some t => t | none => mp
  let level := match c.level with | some l => l | none => Level.info
  let k := keyVar c.name c.labels
  let m := metadataVar mp target level
  { describe := false, kind := c.kind, name := k.1, labels := k.2,
    target := some m.1, level := some m.2.1, modulePath := m.2.2, unit := none, desc := none }

/-- `describe!`: two arms (`Some($unit)` / `None`), `recorder.describe_*(name.into(), unit, description.into())` -/
def expandDesc (d : DescCall) : Row :=
  { describe := true, kind := d.kind, name := d.name.val, labels := [],
    target := none, level := none, modulePath := none, unit := d.unit, desc := some d.desc }

def expand (mp : String) : Call → Row
  | .reg c => expandReg mp c
  | .desc d => expandDesc d

/-! ## recorder scoping (recorder/mod.rs) -/

/-- one `LocalRecorderGuard` value that was ever created (guard ids count per thread: guards are `!Send`) -/
structure Guard where
  tid : Tid
  id : GuardId
  rcd : RecId
  prev : Option RecId        -- `prev_recorder`
  live : Bool                -- the guard value still exists (neither dropped nor forgotten)
  forgotten : Bool           -- given to `mem::forget`: its destructor will never run
  deriving DecidableEq, Repr

inductive Target
  | loc (r : RecId)          -- the thread's LOCAL_RECORDER
  | glob (r : RecId)         -- GLOBAL_RECORDER
  | noop                     -- NOOP_RECORDER
  deriving DecidableEq, Repr

/-- one call of a `Recorder` method made by a macro -/
structure Emission where
  tid : Tid
  target : Target
  stale : Bool               -- the target is a local recorder whose `endBorrow` already happened
  call : Call
  deriving DecidableEq, Repr

structure St where
  loc : Tid → Option RecId           -- LOCAL_RECORDER of each thread
  next : Tid → GuardId               -- next guard id of each thread
  scopes : Tid → List GuardId        -- guards owned by the running `with_local_recorder` frames, innermost first
  guards : List Guard                -- every guard ever created, newest first
  global : Option RecId              -- GLOBAL_RECORDER
  ended : List RecId                 -- recorders whose borrow ended
  log : List Emission                -- oldest first

def init (global : Option RecId) : St :=
  { loc := fun _ => none, next := fun _ => 0, scopes := fun _ => [], guards := [], global := global,
    ended := [], log := [] }

def upd {α : Type} (f : Tid → α) (t : Tid) (v : α) : Tid → α := fun x => if x = t then v else f x

inductive Op
  | install (r : RecId)          -- `let g = set_default_local_recorder(&r)`
  | dropGuard (g : GuardId)      -- `drop(g)`
  | forget (g : GuardId)         -- `mem::forget(g)`
  | endBorrow (r : RecId)        -- the borrow of `r` ends here
  | enter (r : RecId)            -- `with_local_recorder(&r, || {`
  | exit (panic : Bool)          -- `})` — by return (`false`) or by a panic unwinding through the frame (`true`)
  | emit (c : Call)              -- a macro call
  | setGlobal (r : RecId)        -- `set_global_recorder(r)`
  | keepRef                      -- `kept = with_recorder(|r| r)`: keep the `&dyn Recorder` beyond the call
  | dupGuard (g : GuardId)       -- `let g' = g.clone()` / using `g` again after it was moved (a second guard VALUE)
  deriving DecidableEq, Repr

inductive Out
  | guard (g : GuardId)
  | ok
  | err                          -- SetRecorderError
  | rejected                     -- not a program safe Rust accepts
  | emitted (e : Emission)
  deriving DecidableEq, Repr

def isG (t : Tid) (g : GuardId) (x : Guard) : Bool := x.tid == t && x.id == g

def isLiveOf (t : Tid) (x : Guard) : Bool := x.tid == t && x.live

def isLiveG (t : Tid) (g : GuardId) (x : Guard) : Bool := isG t g x && x.live

/-- the live guards of thread `t`, newest first: its stack of installations -/
def liveGuards (s : St) (t : Tid) : List Guard := s.guards.filter (isLiveOf t)

def findLive (gs : List Guard) (t : Tid) (g : GuardId) : Option Guard := gs.find? (isLiveG t g)

def kill (t : Tid) (g : GuardId) (forgot : Bool) (x : Guard) : Guard :=
  if isG t g x then { x with live := false, forgotten := forgot } else x

/-- the guard value disappears (dropped: `forgot = false`, forgotten: `true`) -/
def markDead (gs : List Guard) (t : Tid) (g : GuardId) (forgot : Bool) : List Guard := gs.map (kill t g forgot)

/-- `LocalRecorderGuard::new`: `prev_recorder = LOCAL_RECORDER.replace(Some(r))` -/
def install (s : St) (t : Tid) (r : RecId) : St × GuardId :=
  let g := s.next t
  ({ s with loc := upd s.loc t (some r), next := upd s.next t (g + 1),
            guards := { tid := t, id := g, rcd := r, prev := s.loc t, live := true, forgotten := false } :: s.guards },
   g)

/-- `Drop for LocalRecorderGuard`: `LOCAL_RECORDER.replace(self.prev_recorder.take())` -/
def dropG (s : St) (t : Tid) (x : Guard) : St :=
  { s with loc := upd s.loc t x.prev, guards := markDead s.guards t x.id false }

/-- the two last branches of `with_recorder`: `GLOBAL_RECORDER.try_load()`, else `NOOP_RECORDER` -/
def fallback (s : St) : Target :=
  match s.global with
  | some r => .glob r
  | none => .noop

/-- `with_recorder`: local, else global, else noop -/
def dispatch (s : St) (t : Tid) : Target :=
  match s.loc t with
  | some r => .loc r
  | none => fallback s

def isStale (s : St) : Target → Bool
  | .loc r => s.ended.contains r
  | _ => false

/-- some guard value borrowing `r` is still owned by the program -/
def borrowsRec (r : RecId) (x : Guard) : Bool := x.rcd == r && x.live

def borrowed (s : St) (r : RecId) : Bool := s.guards.any (borrowsRec r)

def step (s : St) (t : Tid) (op : Op) : St × Out :=
  match op with
  | .install r =>
    if s.ended.contains r then (s, .rejected)
    else let p := install s t r; (p.1, .guard p.2)
  | .dropGuard g =>
    if (s.scopes t).contains g then (s, .rejected)        -- `_local` of with_local_recorder is not nameable
    else match findLive s.guards t g with
      | some x => (dropG s t x, .ok)
      | none => (s, .rejected)                            -- moved-out value / another thread's guard (`!Send`)
  | .forget g =>
    if (s.scopes t).contains g then (s, .rejected)
    else match findLive s.guards t g with
      | some x => ({ s with guards := markDead s.guards t x.id true }, .ok)
      | none => (s, .rejected)
  | .endBorrow r =>
    if borrowed s r || s.ended.contains r then (s, .rejected)
    else ({ s with ended := r :: s.ended }, .ok)
  | .enter r =>
    if s.ended.contains r then (s, .rejected)
    else
      let p := install s t r
      ({ p.1 with scopes := upd p.1.scopes t (p.2 :: s.scopes t) }, .guard p.2)
  | .exit _ =>
    match s.scopes t with
    | [] => (s, .rejected)
    | g :: rest =>
      match findLive s.guards t g with
      | some x => (dropG { s with scopes := upd s.scopes t rest } t x, .ok)
      | none => (s, .rejected)
  | .emit c =>
    let tg := dispatch s t
    let e : Emission := { tid := t, target := tg, stale := isStale s tg, call := c }
    ({ s with log := s.log ++ [e] }, .emitted e)
  | .setGlobal r =>
    match s.global with
    | none => ({ s with global := some r }, .ok)
    | some _ => (s, .err)
  -- `with_recorder<T>(f: impl FnOnce(&dyn Recorder) -> T) -> T`: the reference is valid for the call only (higher-
  -- ranked lifetime), `T` cannot mention it
  | .keepRef => (s, .rejected)
  -- `LocalRecorderGuard` is neither `Clone` nor `Copy`: a guard is ONE value, its destructor runs at most once
  | .dupGuard _ => (s, .rejected)

def run (s : St) (ops : List (Tid × Op)) : St := ops.foldl (fun s o => (step s o.1 o.2).1) s

/-- no op of the program is rejected: the program is one the borrow checker accepts -/
def borrowChecked (s : St) : List (Tid × Op) → Bool
  | [] => true
  | o :: rest => (step s o.1 o.2).2 != .rejected && borrowChecked (step s o.1 o.2).1 rest

/-! ## the discipline under which the property holds -/

def topLive (s : St) (t : Tid) : Option GuardId := (liveGuards s t).head?.map Guard.id

/-- the op keeps thread `t`'s guards LIFO and forgets nothing: an explicit drop drops the newest live guard,
    a closure exit finds its own guard on top (no guard created inside the closure outlives it) -/
def opOk (s : St) (t : Tid) : Op → Bool
  | .dropGuard g => topLive s t == some g
  | .forget _ => false
  | .exit _ => topLive s t == (s.scopes t).head?
  | _ => true

def disc (s : St) : List (Tid × Op) → Bool
  | [] => true
  | o :: rest => opOk s o.1 o.2 && disc (step s o.1 o.2).1 rest

/-- the recorder the property says an emission of thread `t` must reach -/
def innermost (s : St) (t : Tid) : Target :=
  match liveGuards s t with
  | g :: _ => .loc g.rcd
  | [] => fallback s

/-! ## closure-only programs (`with_local_recorder` trees with panics) -/

/-- statements of one thread: emissions, nested `with_local_recorder` closures, and `panic!()` which abandons
    the rest of the enclosing closure body (caught by `catch_unwind` around that `with_local_recorder`) -/
inductive Prog
  | done
  | emit (c : Call) (rest : Prog)
  | withLocal (r : RecId) (body : Prog) (rest : Prog)
  | panic
  deriving Repr

def Prog.panics : Prog → Bool
  | .done => false
  | .emit _ rest => rest.panics
  | .withLocal _ _ rest => rest.panics
  | .panic => true

def compile (t : Tid) : Prog → List (Tid × Op)
  | .done => []
  | .emit c rest => (t, .emit c) :: compile t rest
  | .withLocal r body rest => (t, .enter r) :: (compile t body ++ (t, .exit body.panics) :: compile t rest)
  | .panic => []

/-! ## what the call site gets back (macros.rs: the value of `with_recorder(|recorder| recorder.register_*(..))`) -/

/-- the recorder whose `register_*` made the handle the macro call evaluates to: `with_recorder` returns what its
    closure returns, the closure returns what the dispatched recorder returns (`describe_*` forms evaluate to `()`) -/
def handleOf (e : Emission) : Option Target :=
  match e.call with
  | .reg _ => some e.target
  | .desc _ => none

/-! ## closure programs with "record on drop" locals -/

/-- `Prog` plus `defer c`: `let _d = EmitOnDrop(c);` — a local of the enclosing body whose destructor makes the macro
    call `c`.  Rust drops the locals of a body newest first when the body is left, by return or by a panic unwinding
    it, and BEFORE the caller's locals (the `_local` guard of `with_local_recorder`, declared before `f()` is called) -/
inductive ProgD
  | done
  | emit (c : Call) (rest : ProgD)
  | defer (c : Call) (rest : ProgD)
  | withLocal (r : RecId) (body : ProgD) (rest : ProgD)
  | panic
  deriving Repr

/-- the pending destructors of a body that is being left, newest first, then how it is left -/
def flush : List Call → Prog → Prog
  | [], k => k
  | c :: cs, k => .emit c (flush cs k)

/-- destructors made explicit: `pend` = the `defer`s of the current body seen so far, newest first.  Leaving the body
    (`done`, or `panic` — the rest of the body is skipped) runs them; a nested closure has its own list -/
def lower (pend : List Call) : ProgD → Prog
  | .done => flush pend .done
  | .panic => flush pend .panic
  | .emit c rest => .emit c (lower pend rest)
  | .defer c rest => lower (c :: pend) rest
  | .withLocal r body rest => .withLocal r (lower [] body) (lower pend rest)

def compileD (t : Tid) (p : ProgD) : List (Tid × Op) := compile t (lower [] p)

/-! ## the compiled macro-form table of the harness (harness/src/c01.rs `forms()`, same order) -/

def modPath : String := "mv_harness::c01"

/-- the first 29 entries: hand-picked call sites (harness `OLD_FORMS`) -/
def oldForms : List Call := [
  /- 0 -/ .reg { kind := .counter, target := none, level := none, name := .lit "c_lit", labels := .none },
  /- 1 -/ .reg { kind := .counter, target := none, level := none, name := .expr "c_computed_7", labels := .none },
  /- 2 -/ .reg { kind := .counter, target := none, level := none, name := .lit "c_lit", labels := .litPairs [("uvw", "xyz")] },
  /- 3 -/ .reg { kind := .counter, target := none, level := none, name := .expr "c_computed_7", labels := .litPairs [("uvw", "xyz"), ("a", "b")] },
  /- 4 -/ .reg { kind := .counter, target := none, level := none, name := .lit "c_lit", labels := .exprPairs [("dyn", "xyz!")] },
  /- 5 -/ .reg { kind := .counter, target := none, level := none, name := .expr "c_computed_7", labels := .collection [("uvw", "xyz!"), ("k2", "v2")] },
  /- 6 -/ .reg { kind := .counter, target := some "tgt_a", level := none, name := .lit "c_lit", labels := .none },
  /- 7 -/ .reg { kind := .counter, target := none, level := some .debug, name := .lit "c_lit", labels := .none },
  /- 8 -/ .reg { kind := .counter, target := some "tgt_b", level := some .warn, name := .lit "c_lit", labels := .litPairs [("uvw", "xyz")] },
  /- 9 -/ .reg { kind := .counter, target := none, level := none, name := .expr "c_const", labels := .exprPairs [("ck", "cv")] },
  /- 10 -/ .reg { kind := .gauge, target := none, level := none, name := .lit "g_lit", labels := .none },
  /- 11 -/ .reg { kind := .gauge, target := none, level := none, name := .expr "g_computed_7", labels := .litPairs [("a", "1"), ("b", "2")] },
  /- 12 -/ .reg { kind := .gauge, target := some "tgt_g", level := none, name := .lit "g_lit", labels := .collection [("uvw", "xyz!"), ("k2", "v2")] },
  /- 13 -/ .reg { kind := .gauge, target := none, level := some .trace, name := .expr "g_computed_7", labels := .none },
  /- 14 -/ .reg { kind := .gauge, target := some "tgt_g", level := some .error, name := .expr "g_computed_7", labels := .exprPairs [("dyn", "xyz!"), ("lit", "v")] },
  /- 15 -/ .reg { kind := .histogram, target := none, level := none, name := .lit "h_lit", labels := .none },
  /- 16 -/ .reg { kind := .histogram, target := none, level := none, name := .lit "h_lit", labels := .exprPairs [("dyn", "xyz!")] },
  /- 17 -/ .reg { kind := .histogram, target := some "tgt_h", level := some .error, name := .expr "h_computed_7", labels := .collection [("uvw", "xyz!"), ("k2", "v2")] },
  /- 18 -/ .reg { kind := .histogram, target := none, level := some .warn, name := .lit "h_lit", labels := .litPairs [("uvw", "xyz")] },
  /- 19 -/ .reg { kind := .histogram, target := some "tgt_h", level := none, name := .expr "h_computed_7", labels := .none },
  /- 20 -/ .desc { kind := .counter, name := .lit "c_lit", unit := none, desc := "a counter" },
  /- 21 -/ .desc { kind := .counter, name := .lit "c_lit", unit := some "nanoseconds", desc := "a counter" },
  /- 22 -/ .desc { kind := .counter, name := .expr "c_computed_7", unit := some "bytes", desc := "computed desc 7" },
  /- 23 -/ .desc { kind := .gauge, name := .lit "g_lit", unit := none, desc := "a gauge" },
  /- 24 -/ .desc { kind := .gauge, name := .expr "g_computed_7", unit := some "percent", desc := "a gauge" },
  /- 25 -/ .desc { kind := .histogram, name := .expr "h_computed_7", unit := none, desc := "computed desc 7" },
  /- 26 -/ .desc { kind := .histogram, name := .lit "h_lit", unit := some "seconds", desc := "a histogram" },
  /- 27 -/ .reg { kind := .counter, target := none, level := none, name := .lit "c_lit", labels := .litPairs [("uvw", "xyz")] },   -- trailing comma
  /- 28 -/ .desc { kind := .counter, name := .lit "c_lit", unit := some "count_per_second", desc := "a counter" }                 -- trailing comma
]

/-! ### the systematic part: every macro × prefix arm × name kind × label shape; every describe × name kind × unit -/

def kinds : List Kind := [.counter, .gauge, .histogram]

def litName : Kind → String
  | .counter => "c_lit" | .gauge => "g_lit" | .histogram => "h_lit"

def compName : Kind → String
  | .counter => "c_computed_7" | .gauge => "g_computed_7" | .histogram => "h_computed_7"

/-- the level the harness spells in the `level:`-only arm of each macro -/
def lvlOnly : Kind → Level
  | .counter => .debug | .gauge => .trace | .histogram => .error

/-- the level the harness spells in the `target:, level:` arm of each macro -/
def lvlBoth : Kind → Level
  | .counter => .warn | .gauge => .error | .histogram => .trace

/-- the four prefix arms of `counter!/gauge!/histogram!`, in the harness's order -/
def prefixes (k : Kind) : List (Option String × Option Level) :=
  [(none, none), (some "tgt_x", none), (none, some (lvlOnly k)), (some "tgt_y", some (lvlBoth k))]

/-- the four label shapes (one per group of `key_var!` arms) -/
def labelShapes : List LabelsArg :=
  [.none, .litPairs [("uvw", "xyz"), ("a", "b")], .exprPairs [("dyn", "xyz!"), ("ck", "cv")],
   .collection [("uvw", "xyz!"), ("k2", "v2")]]

/-- literal and computed name under each label shape -/
def nameLabel (k : Kind) : List (NameArg × LabelsArg) :=
  labelShapes.flatMap fun l => [(.lit (litName k), l), (.expr (compName k), l)]

/-- 3 macros × 4 prefix arms × 8 name/label shapes = 96 call sites (harness `reg32!`/`reg8!`) -/
def genReg : List Call :=
  kinds.flatMap fun k => (prefixes k).flatMap fun p => (nameLabel k).map fun nl =>
    .reg { kind := k, target := p.1, level := p.2, name := nl.1, labels := nl.2 }

/-- `Unit::as_str` of the 17 variants, in declaration order -/
def unitNames : List String :=
  ["count", "percent", "seconds", "milliseconds", "microseconds", "nanoseconds", "tebibytes", "gibibytes", "mebibytes",
   "kibibytes", "bytes", "terabits_per_second", "gigabits_per_second", "megabits_per_second", "kilobits_per_second",
   "bits_per_second", "count_per_second"]

/-- the two name kinds of a describe call with one unit argument (harness `desc36!`) -/
def descPair (k : Kind) (u : Option String) : List Call :=
  [.desc { kind := k, name := .lit (litName k), unit := u, desc := "d lit" },
   .desc { kind := k, name := .expr (compName k), unit := u, desc := "computed desc 7" }]

/-- 3 describe macros × (no unit + 17 units) × 2 name kinds = 108 call sites -/
def genDesc : List Call :=
  kinds.flatMap fun k => descPair k none ++ unitNames.flatMap fun u => descPair k (some u)

/-- direct calls of the public `metrics::with_recorder(|r| r.<method>(…))` (what the macros expand to) -/
def directForms : List Call := [
  .reg { kind := .counter, target := some "tgt_d", level := some .error, name := .expr "direct_c", labels := .collection [("dk", "dv")] },
  .reg { kind := .gauge, target := some "tgt_d", level := some .trace, name := .expr "direct_g7", labels := .collection [("dk", "dv"), ("k2", "v2")] },
  .reg { kind := .histogram, target := some modPath, level := some .warn, name := .expr "direct_h", labels := .none },
  .desc { kind := .counter, name := .expr "direct_c", unit := none, desc := "direct desc" },
  .desc { kind := .gauge, name := .expr "direct_g", unit := some "bytes", desc := "direct desc" },
  .desc { kind := .histogram, name := .expr "direct_h7", unit := some "seconds", desc := "direct desc" }
]

def forms : List Call := oldForms ++ genReg ++ genDesc ++ directForms

end MetricsVerif.LocalRec
