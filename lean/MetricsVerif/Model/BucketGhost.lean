import MetricsVerif.Model.Bucket
/-
Ghost state next to the bucket step machine (`Model/Bucket.lean`; `step` itself is untouched): who owns each block,
and the K1 predicate defined from it.

`Owner`: a block is `live` (reachable from the tail), `det tid` (detached by the running clear of thread `tid`, not
yet read by it) or `read` (handed to a clear callback).  `gown` updates the ownership for the step thread `tid` is
about to take: a clear's successful detach CAS moves every live block to `det tid`; a clear's read step moves its
block to `read`.  `grun` threads it through a schedule; its first component is the plain `run`
(`Proofs/BucketClear.lean`, `grun_fst`).

K1 (known finding K-C05-K1): the step about to be taken is a slot claim (`pClaim blk`, `write < B`) on a block that is
not `live` any more.  `k1Count` counts these steps along a schedule (`k1Fold`: the same with an accumulator, for the
driver).  Theorems: `Props/C05.lean` (`conservation_except_K1`, `K1_is_claim_on_unreachable_block`, …).
-/
namespace MetricsVerif.Bucket

inductive Owner
  | live | det (tid : Nat) | read
  deriving DecidableEq, Repr

def gownT (s : Sys) (t : Thread) (tid : Nat) (own : Nat → Owner) : Nat → Owner :=
  match t.pc with
  | .cCas old =>
    if s.tail = some old then (fun i => if i < s.blocks.length ∧ own i = .live then .det tid else own i) else own
  | .cRead blk => fun i => if i = blk then .read else own i
  | _ => own

def gown (s : Sys) (own : Nat → Owner) (tid : Nat) : Nat → Owner :=
  match s.threads[tid]? with
  | none => own
  | some t => gownT s t tid own

def grun : Sys → (Nat → Owner) → List Nat → Sys × (Nat → Owner)
  | s, own, [] => (s, own)
  | s, own, tid :: rest => grun (step s tid) (gown s own tid) rest

def own0 : Nat → Owner := fun _ => .live

/-- the step about to be taken at `pc` claims a slot in a block that is not (any more) reachable from the tail -/
def k1PC (s : Sys) (own : Nat → Owner) : PC → Bool
  | .pClaim blk _ => decide ((getBlock s blk).write < s.B) && !decide (own blk = .live)
  | _ => false

/-- **K1 step**: thread `tid`'s next step is a slot claim that lands on a detached block -/
def k1Step (s : Sys) (own : Nat → Owner) (tid : Nat) : Bool :=
  match s.threads[tid]? with
  | none => false
  | some t => k1PC s own t.pc

/-- number of K1 steps along a schedule (ghost counter threaded next to `grun`) -/
def k1Count : Sys → (Nat → Owner) → List Nat → Nat
  | _, _, [] => 0
  | s, own, tid :: rest => (if k1Step s own tid then 1 else 0) + k1Count (step s tid) (gown s own tid) rest

/-- `k1Count` with an accumulator (tail recursive; `Proofs/BucketCons.lean`: `k1Fold s own n sched = n + k1Count s own sched`) -/
def k1Fold : Sys → (Nat → Owner) → Nat → List Nat → Nat
  | _, _, n, [] => n
  | s, own, n, tid :: rest => k1Fold (step s tid) (gown s own tid) (n + if k1Step s own tid then 1 else 0) rest

end MetricsVerif.Bucket
