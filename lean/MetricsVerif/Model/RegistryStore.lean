/-
Which hash a NEW registry entry is filed under (extension of `Model/Registry.lean`, C06 round 4).

`Registry::get_or_create_*` computes `hash = key.hashable()` (`Hashable::hashable`, metrics-util/src/common.rs), selects
the shard by it and looks the key up with `raw_entry().from_key_hashed_nocheck(hash, key)`.  On a miss under the write
lock it fills the vacant raw entry with

    .raw_entry_mut().from_key_hashed_nocheck(hash, key).or_insert_with(|| (key.clone(), storage.counter(key)))

and hashbrown's `RawEntryMut::or_insert_with` → `RawVacantEntryMut::insert(key, value)` does NOT use the `hash` the
entry was looked up with: it re-hashes the key with the MAP's `BuildHasher`
(`make_hash(self.hash_builder, &key)`, hashbrown-0.15.2 raw_entry.rs:1322-1328); every later resize re-hashes the
same way.  The shard maps are `HashMap<K, V, BuildHasherDefault<RegistryHasher>>` with `RegistryHasher = KeyHasher`
(registry/mod.rs:25-26), so the stored hash is `KeyHasher` run over `impl Hash for K` — for `metrics::Key` and
`DefaultHashable<H>` that is the very value `hashable()` returns; for a key type that implements `Hashable` through
the trait's DEFAULT method with another `type Hasher` (the trait documentation invites exactly that) it is a
different number.

So a key has TWO hashes here: `ko.hash` (lookups, shard selection) and `storeHash` (what a new entry is filed under).
`writeSectionS` is `Registry.writeSection` with the entry's `hash` field set to `storeHash k`; everything else of the
model (`lookup`, `delete`, `retain`, `clear`, `visit`, `handles`) is unchanged and sees the stored hash through
`Entry.hash`.  With `storeHash = ko.hash` this is literally the one-hash model (`C06.stored_hash_coherent_same`).

`InsertVia` names the two insertion calls the driver knows how to follow (source fact `reg_goc_insert_calls`):
`or_insert_with` (files under the map hasher's hash) and `insert_with_hasher(hash, …, |k| k.hashable())` (files under
the looked-up hash, and re-hashes with `hashable()` on resize).
-/
import MetricsVerif.Model.Registry

namespace MetricsVerif.Registry

/-- a key type as the registry's maps see it: `Eq` + `Hashable::hashable` (`ko`) and the hash a vacant-entry insertion
    files a new entry under -/
structure StoreOps (K : Type) where
  ko : KeyOps K
  storeHash : K → Nat

/-- the write-lock section of `get_or_create_*` with the entry filed under `storeHash` -/
def writeSectionS {K : Type} (so : StoreOps K) (r : Reg K) (kd : Kind) (k : K) : Reg K × Nat :=
  let h := so.ko.hash k
  match lookup so.ko (r.shard kd h) h k with
  | some e => (r, e.id)
  | none => ((r.setShard kd h (r.shard kd h ++ [{ key := k, hash := so.storeHash k, id := r.next }])).bump, r.next)

/-- `get_or_create_counter / _gauge / _histogram` -/
def getOrCreateS {K : Type} (so : StoreOps K) (r : Reg K) (kd : Kind) (k : K) : Reg K × Nat :=
  match readSection so.ko r kd k with
  | some i => (r, i)
  | none => writeSectionS so r kd k

/-- `Registry.step` with the two-hash get-or-create -/
def stepS {K : Type} (so : StoreOps K) (r : Reg K) : Op K → Reg K × Out K
  | .goc kd k => ((getOrCreateS so r kd k).1, .id (getOrCreateS so r kd k).2)
  | .get kd k => step so.ko r (.get kd k)
  | .delete kd k => step so.ko r (.delete kd k)
  | .retain kd f => step so.ko r (.retain kd f)
  | .clear => step so.ko r .clear
  | .visit kd => step so.ko r (.visit kd)
  | .handles kd => step so.ko r (.handles kd)

def runOpsS {K : Type} (so : StoreOps K) (r : Reg K) : List (Op K) → Reg K × List (Out K)
  | [] => (r, [])
  | op :: ops => ((runOpsS so (stepS so r op).1 ops).1, (stepS so r op).2 :: (runOpsS so (stepS so r op).1 ops).2)

/-- the insertion calls the model can follow -/
inductive InsertVia
  | mapHasher    -- `.or_insert_with(..)`: hashbrown re-hashes the key with the map's `BuildHasher`
  | givenHash    -- `.insert_with_hasher(hash, .., |k| k.hashable())`: filed (and re-filed on resize) under `hashable()`
  deriving Repr, DecidableEq

/-- the insertion call of the three `get_or_create_*` bodies, as extracted from the source (one string per kind):
    `none` for anything the model has no semantics for (the driver then answers `bad-op`, never a default) -/
def insertViaOf (calls : List String) : Option InsertVia :=
  if calls = ["or_insert_with", "or_insert_with", "or_insert_with"] then some .mapHasher
  else if calls = ["insert_with_hasher hash |k| k.hashable()", "insert_with_hasher hash |k| k.hashable()",
                   "insert_with_hasher hash |k| k.hashable()"] then some .givenHash
  else none

end MetricsVerif.Registry
