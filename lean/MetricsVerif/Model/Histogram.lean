/-
Model of `metrics_util::storage::Histogram` (metrics-util/src/storage/histogram.rs) and of the histogram arm of
`Distribution::record_samples` (metrics-exporter-prometheus/src/distribution.rs).

Values.  `f64` is an ordered carrier with the three non-finite points: `FV.fin n` is a finite value, ordered by
`n`.  In the exact stream of the correspondence harness `fin n` is the dyadic rational `n / 1024` (then sums are
compared as well, all partial sums being exactly representable); in the order-only stream (subnormals, huge
values) `n` is the monotone integer key of the f64 bit pattern (`-0.0` and `0.0` share key 0) and sums are left
out of the comparison.  `FV.le` is IEEE `<=`: false whenever a NaN is involved.

Sum.  `self.sum += sample` is modelled exactly: `FSum` keeps the exact integer sum of the finite samples and
one flag per kind of non-finite sample seen.  The f64 the code holds is NaN if a NaN was added or both
infinities were, else the infinity that was added, else the finite sum (`FSum.tok`) — this does not depend
on the order of the additions, and IEEE rounding is outside the model (DESIGN §2).
-/
namespace MetricsVerif.Histogram

inductive FV
  | nan
  | ninf
  | fin (n : Int)
  | pinf
  deriving DecidableEq, Repr, Inhabited

/-- IEEE `a <= b` -/
def FV.le : FV → FV → Bool
  | .nan, _ => false
  | _, .nan => false
  | .ninf, _ => true
  | _, .pinf => true
  | .fin a, .fin b => decide (a ≤ b)
  | .fin _, .ninf => false
  | .pinf, .ninf => false
  | .pinf, .fin _ => false

def FV.isNan : FV → Bool
  | .nan => true
  | _ => false

/-- `f64::is_infinite` -/
def FV.isInfinite : FV → Bool
  | .pinf => true
  | .ninf => true
  | _ => false

/-- the running `f64` sum, exactly -/
structure FSum where
  fin : Int := 0
  pinf : Bool := false
  ninf : Bool := false
  nan : Bool := false
  deriving DecidableEq, Repr, Inhabited

/-- `sum += sample` -/
def FSum.add (s : FSum) : FV → FSum
  | .nan => { s with nan := true }
  | .ninf => { s with ninf := true }
  | .pinf => { s with pinf := true }
  | .fin n => { s with fin := s.fin + n }

/-- `self.sum += sum` (merging the batch-local sum of `record_many`) -/
def FSum.plus (a b : FSum) : FSum :=
  { fin := a.fin + b.fin, pinf := a.pinf || b.pinf, ninf := a.ninf || b.ninf, nan := a.nan || b.nan }

/-- the f64 value the sum holds -/
def FSum.val (s : FSum) : FV :=
  if s.nan || (s.pinf && s.ninf) then .nan
  else if s.pinf then .pinf
  else if s.ninf then .ninf
  else .fin s.fin

structure Hist where
  bounds : List FV
  buckets : List Nat
  count : Nat
  sum : FSum
  deriving DecidableEq, Repr

/-- `Histogram::new`: `None` for no bounds, else all-zero buckets -/
def Hist.new (bounds : List FV) : Option Hist :=
  if bounds.isEmpty then none else some ⟨bounds, bounds.map (fun _ => 0), 0, {}⟩

/-- the loop of `record`: `for (idx, bucket) in bounds.enumerate() { if sample <= *bucket { buckets[idx] += 1 } }`
    (`bounds` and `buckets` have the same length by construction; were `buckets` shorter the code would panic on the
    index, the model just stops) -/
def bumpAll (x : FV) : List FV → List Nat → List Nat
  | b :: bs, c :: cs => (if x.le b then c + 1 else c) :: bumpAll x bs cs
  | _, cs => cs

/-- `Histogram::record` -/
def Hist.record (h : Hist) (x : FV) : Hist :=
  { h with sum := h.sum.add x, count := h.count + 1, buckets := bumpAll x h.bounds h.buckets }

/-- the inner loop of `record_many` with its `break`: only the FIRST bucket whose bound is `>=` the sample -/
def bumpFirst (x : FV) : List FV → List Nat → List Nat
  | b :: bs, c :: cs => if x.le b then (c + 1) :: cs else c :: bumpFirst x bs cs
  | _, cs => cs

/-- `for idx in 0..len-1 { bucketed[idx + 1] += bucketed[idx] }`: in-place running sum; `acc` is the already
    accumulated value of the previous slot (0 before the first).  The `len >= 2` guard of the code only skips a
    loop that would not run anyway. -/
def prefixFrom (acc : Nat) : List Nat → List Nat
  | [] => []
  | a :: rest => (acc + a) :: prefixFrom (acc + a) rest

def prefixSum (l : List Nat) : List Nat := prefixFrom 0 l

/-- `for (idx, local) in bucketed.iter().enumerate() { self.buckets[idx] += local }` -/
def mergeInto : List Nat → List Nat → List Nat
  | c :: cs, l :: ls => (c + l) :: mergeInto cs ls
  | cs, [] => cs
  | [], _ :: _ => []

/-- state of the sample loop of `record_many`: `(bucketed, sum, count)` -/
structure Batch where
  bucketed : List Nat
  sum : FSum := {}
  count : Nat := 0
  deriving DecidableEq, Repr

def Batch.step (bounds : List FV) (b : Batch) (x : FV) : Batch :=
  { bucketed := bumpFirst x bounds b.bucketed, sum := b.sum.add x, count := b.count + 1 }

/-- `Histogram::record_many` -/
def Hist.recordMany (h : Hist) (xs : List FV) : Hist :=
  let b := xs.foldl (Batch.step h.bounds) { bucketed := h.buckets.map (fun _ => 0) }
  { h with buckets := mergeInto h.buckets (prefixSum b.bucketed), sum := h.sum.plus b.sum, count := h.count + b.count }

/-- the histogram arm of `Distribution::record_samples`: always `record_many`, timestamps ignored -/
def Hist.recordSamples (h : Hist) (samples : List (FV × Nat)) : Hist :=
  h.recordMany (samples.map (·.1))

/-- what `render` prints for one histogram series: `(le, count)` per bound, then `le="+Inf"` with `count()` -/
def Hist.infBucket (h : Hist) : Nat := h.count

/-- samples one by one -/
def Hist.recordAll (h : Hist) (xs : List FV) : Hist := xs.foldl Hist.record h

/-- samples batch by batch -/
def Hist.recordBatches (h : Hist) (xss : List (List FV)) : Hist := xss.foldl Hist.recordMany h

end MetricsVerif.Histogram
