import MetricsVerif.Model.Atomics
/-
The atomic storage machine one level further down (round 4): `fetch_update` is not a hardware instruction but
std's compare-and-swap loop

    let mut prev = self.load(fetch_order);
    while let Some(next) = f(prev) {                              // f = the closure of atomics.rs
        match self.compare_exchange_weak(prev, next, set_order, fetch_order) {
            x @ Ok(_) => return x,
            Err(next_prev) => prev = next_prev,                   // the failed CAS returns the value it saw
        }
    }

so `GaugeFn::increment` / `decrement` take (at least) TWO shared-memory operations: a load, then one CAS per
evaluation of the closure.  Between the two any other update may take effect.  The closure carries a
`#[cfg(metrics_verif)]` yield point at its head (hook-C04), so on the real code the deterministic scheduler can
stop a thread exactly there: after the load / failed CAS, before the next CAS.

`Shape` is reused with the reading  `true` = the update is a single hardware read-modify-write (`fetch_add`,
`fetch_max`, `swap`),  `false` = the update is a `fetch_update` CAS loop.  `Thread.tmp` holds the value `prev`
the closure was (or is about to be) evaluated on.

A schedule entry is `(tid, weakFail)`: `weakFail = true` lets a `compare_exchange_weak` fail spuriously although
the cell still holds `prev` (allowed by its contract; never happens on x86 — the correspondence runs use `false`).
-/
namespace MetricsVerif.Atomics

/-- atomics.rs today: counters and `set` are single instructions, gauge increment/decrement are CAS loops -/
def casShape : Shape := { inc := true, abs := true, gInc := false, gDec := false, gSet := true }

/-- one shared-memory operation of a thread, CAS-loop granularity -/
def casStepThread {F : Type} (A : Carrier F) (sh : Shape) (s : Sys F) (tid : Nat) (t : Thread F) (weakFail : Bool) :
    Sys F × Thread F :=
  match t.prog with
  | [] => (s, t)
  | c :: rest =>
    match c.h with
    | none => (s, { prog := rest, tmp := none })                       -- no-op handle: returns, nothing touched
    | some _ =>
      if sh.rmw c.op then
        (commit A s tid c.op s.cell, { prog := rest, tmp := none })    -- fetch_add / fetch_max / swap
      else
        match t.tmp with
        | none => (s, { t with tmp := some s.cell })                   -- `prev = self.load(..)`; closure entered
        | some prev =>
          if prev = s.cell ∧ weakFail = false then
            (commit A s tid c.op prev, { prog := rest, tmp := none })  -- CAS(prev → f(prev)) succeeds; returns
          else
            (s, { t with tmp := some s.cell })                         -- CAS fails: `prev = next_prev`; closure again

def casStep {F : Type} (A : Carrier F) (sh : Shape) (s : Sys F) (x : Nat × Bool) : Sys F :=
  match s.threads[x.1]? with
  | none => s
  | some t =>
    let r := casStepThread A sh s x.1 t x.2
    { r.1 with threads := setAt r.1.threads x.1 r.2 }

def casRun {F : Type} (A : Carrier F) (sh : Shape) (s : Sys F) (sched : List (Nat × Bool)) : Sys F :=
  sched.foldl (casStep A sh) s

/-- forget the thread-private `prev` registers -/
def clr {F : Type} (t : Thread F) : Thread F := { t with tmp := none }
def erase {F : Type} (s : Sys F) : Sys F := { s with threads := s.threads.map clr }

/-- what a step did, for the correspondence trace: `c` = an update took effect (the log grew), `l` = a load or a
    failed CAS (the thread is now parked at the closure's yield point), `n` = a call through a no-op handle
    returned, `-` = nothing (no such thread / thread has returned) -/
def stepKind {F : Type} (s s' : Sys F) (tid : Nat) : String :=
  if s'.log.length ≠ s.log.length then "c"
  else match s.threads[tid]?, s'.threads[tid]? with
    | some t, some t' =>
      if t'.prog.length ≠ t.prog.length then "n" else if t.prog.isEmpty then "-" else "l"
    | _, _ => "-"

end MetricsVerif.Atomics
