/-
Thread model of `metrics::Cow<'a, T>` (metrics/src/cow.rs): WHO can reach the `T` objects behind a value, and from
which thread — the part of "values can be sent to and dropped on other threads" that the sequential heap model
(`Model/Cow.lean`) leaves out.

`NonNull<T::Pointer>` is neither `Send` nor `Sync`, so the type is exactly as thread-safe as its two
`unsafe impl`s say:

    unsafe impl<T: Cowable + … + ?Sized> Sync for Cow<'_, T> {}
    unsafe impl<T: Cowable + … + ?Sized> Send for Cow<'_, T> {}

The bounds in `…` are a parameter of this model (`Impls`; the translator reads them from the source,
`Generated.cow_send_bound_tokens` / `cow_sync_bound_tokens`).  The compiler's rule is the model's guard: a value
may be MOVED to another thread only when `Cow<T>: Send`, a `&Cow<T>` may be HANDED to another thread only when
`Cow<T>: Sync`; everything else (construct, clone, read, drop) is safe code that any thread may run on what it holds.

What the three kinds are, seen from a thread:
  * Borrowed — a `&'a T`: the caller who made the borrow keeps its own access to the same `T`s;
  * Owned    — a `Vec<T>` / `String`: the only path to its `T`s;
  * Shared   — an `Arc<T>`: every clone is another path to the SAME `T`s, and the LAST one to go destroys them.

A cell (`Cell`) is one group of `T` objects, named by the thread they were created on (`home`) and a serial number.
The promises of the auto traits, as violations of a state:
  * `racy`       — `T: !Sync`, yet two different threads hold a path (`&T`) to the same cell at the same time;
  * `misplaced`  — `T: !Send`, yet a value that owns `T` objects (Owned, Shared) lives on a thread other than the one
                   they were created on, or they were destroyed there.
-/
namespace MetricsVerif.CowSend

/-- the auto traits of the element type `T` -/
structure Elem where
  send : Bool
  sync : Bool
  deriving DecidableEq, Repr

/-- what one `unsafe impl<T: Cowable + … + ?Sized>` asks of `T` -/
structure Bound where
  needSend : Bool
  needSync : Bool
  deriving DecidableEq, Repr

/-- the trait solver: does `T` meet the bound -/
def Bound.admits (b : Bound) (e : Elem) : Bool := (!b.needSend || e.send) && (!b.needSync || e.sync)

/-- the bound tokens of an impl header (`["Cowable", "Sync", "Send", "?Sized"]`) -/
def Bound.ofTokens (ts : List String) : Bound := { needSend := ts.contains "Send", needSync := ts.contains "Sync" }

/-- the two `unsafe impl`s -/
structure Impls where
  send : Bound
  sync : Bound
  deriving DecidableEq, Repr

/-- the bounds of `std::sync::Arc<T>`: `T: Sync + Send` for both -/
def arcBounds : Impls := { send := ⟨true, true⟩, sync := ⟨true, true⟩ }

/-- the bounds of the code before the repair (`Sync` for `Sync`, `Send` for `Send`) -/
def sameTraitBounds : Impls := { send := ⟨true, false⟩, sync := ⟨false, true⟩ }

inductive Kind
  | borrowed | owned | shared
  deriving DecidableEq, Repr

/-- one group of `T` objects: the thread that created them, a serial number -/
structure Cell where
  home : Nat
  id : Nat
  deriving DecidableEq, Repr

/-- a live `Cow` value: what it points to, its kind, the thread it lives on, the threads that currently hold a
    `&Cow` to it -/
structure Handle where
  cell : Cell
  kind : Kind
  thr : Nat
  lent : List Nat
  deriving DecidableEq, Repr

structure St where
  vals : List (Option Handle) := []
  /-- cells to which the CALLER still has its own path on the cell's home thread (the borrow a Borrowed value was
      made from; the `Arc<T>` a Shared value was made from, if the caller kept a clone) -/
  callers : List Cell := []
  next : Nat := 0
  /-- (cell, thread on which its `T` objects were destroyed) -/
  destroyed : List (Cell × Nat) := []
  deriving Repr

def init : St := {}

inductive Op
  | fromBorrowed (t : Nat)               -- thread `t`: `Cow::from_borrowed(&local[..])` (the caller keeps `local`)
  | fromOwned (t : Nat)                  -- thread `t`: `Cow::from_owned(vec)`
  | fromShared (t : Nat) (keep : Bool)   -- thread `t`: `Cow::from_shared(arc)`; `keep`: the caller kept an `Arc::clone`
  | send (h : Nat) (t : Nat)             -- move value `h` to thread `t` (`thread::spawn(move || ..)`, a channel): needs `Cow<T>: Send`
  | lend (h : Nat) (t : Nat)             -- hand `&h` to thread `t` (`thread::scope`): needs `Cow<T>: Sync`
  | unlend (h : Nat) (t : Nat)           -- thread `t` gives the reference back (its scope ends)
  | clone (t : Nat) (h : Nat)            -- thread `t` clones `h` (its own, or through a `&Cow` it was lent)
  | drop (t : Nat) (h : Nat)             -- thread `t` drops its value `h`
  deriving DecidableEq, Repr

def getVal (s : St) (h : Nat) : Option Handle :=
  match s.vals[h]? with
  | some (some x) => some x
  | _ => none

def push (s : St) (x : Handle) : St := { s with vals := s.vals ++ [some x] }

/-- thread `t` can use value `x`: it lives there, or `t` holds a `&Cow` to it -/
def canUse (x : Handle) (t : Nat) : Bool := x.thr == t || x.lent.contains t

/-- another live value (not `h`) points to the same cell -/
def otherOwner (s : St) (h : Nat) (c : Cell) : Bool :=
  (s.vals.zipIdx).any fun p =>
    match p.1 with
    | some y => p.2 != h && y.cell == c && y.kind == .shared
    | none => false

/-- one step; an op that safe Rust does not accept (the trait solver refuses the move / the loan; the thread does not
    hold the value) leaves the state unchanged -/
def step (im : Impls) (e : Elem) (s : St) : Op → St
  | .fromBorrowed t =>
    let c : Cell := ⟨t, s.next⟩
    { push s ⟨c, .borrowed, t, []⟩ with callers := c :: s.callers, next := s.next + 1 }
  | .fromOwned t =>
    { push s ⟨⟨t, s.next⟩, .owned, t, []⟩ with next := s.next + 1 }
  | .fromShared t keep =>
    let c : Cell := ⟨t, s.next⟩
    { push s ⟨c, .shared, t, []⟩ with callers := if keep then c :: s.callers else s.callers, next := s.next + 1 }
  | .send h t =>
    match getVal s h with
    | some x =>
      if im.send.admits e && x.lent.isEmpty then { s with vals := s.vals.set h (some { x with thr := t }) } else s
    | none => s
  | .lend h t =>
    match getVal s h with
    | some x => if im.sync.admits e then { s with vals := s.vals.set h (some { x with lent := t :: x.lent }) } else s
    | none => s
  | .unlend h t =>
    match getVal s h with
    | some x => { s with vals := s.vals.set h (some { x with lent := x.lent.erase t }) }
    | none => s
  | .clone t h =>
    match getVal s h with
    | some x =>
      if canUse x t then
        match x.kind with
        | .owned => { push s ⟨⟨t, s.next⟩, .owned, t, []⟩ with next := s.next + 1 }   -- `to_vec()`: new `T`s made on `t`
        | k => push s ⟨x.cell, k, t, []⟩                                              -- the same `T`s, one more path
      else s
    | none => s
  | .drop t h =>
    match getVal s h with
    | some x =>
      if x.thr == t && x.lent.isEmpty then
        let s' := { s with vals := s.vals.set h none }
        match x.kind with
        | .borrowed => s'
        | .owned => { s' with destroyed := (x.cell, t) :: s.destroyed }
        | .shared =>
          if otherOwner s h x.cell || s.callers.contains x.cell then s'
          else { s' with destroyed := (x.cell, t) :: s.destroyed }
      else s
    | none => s

def run (im : Impls) (e : Elem) (s : St) (ops : List Op) : St := ops.foldl (step im e) s

/-- the caller gives up its own path to cell `c` (its borrow ends / it drops its `Arc`) — not an operation of `Cow`;
    used by witnesses only -/
def callerLeaves (s : St) (c : Cell) : St := { s with callers := s.callers.erase c }

/-- the threads that hold a path to the `T` objects of cell `c` right now -/
def reachers (s : St) (c : Cell) : List Nat :=
  (if s.callers.contains c then [c.home] else []) ++
  s.vals.flatMap fun
    | some x => if x.cell == c then x.thr :: x.lent else []
    | none => []

def cellsOf (s : St) : List Cell :=
  s.callers ++ s.vals.filterMap fun o => o.map (·.cell)

/-- `T: !Sync`, and two different threads hold a path to the same `T` objects -/
def racy (e : Elem) (s : St) : Bool :=
  !e.sync && (cellsOf s).any fun c => (reachers s c).any fun t1 => (reachers s c).any fun t2 => t1 != t2

/-- `T: !Send`, and a value owning `T` objects lives on a thread that did not create them, or they were destroyed
    on such a thread -/
def misplaced (e : Elem) (s : St) : Bool :=
  !e.send && (s.vals.any (fun
                | some x => x.kind != .borrowed && x.thr != x.cell.home
                | none => false)
              || s.destroyed.any fun p => p.2 != p.1.home)

def violates (e : Elem) (s : St) : Bool := racy e s || misplaced e s

end MetricsVerif.CowSend
