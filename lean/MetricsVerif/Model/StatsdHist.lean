import MetricsVerif.Model.Bucket
/-
Model of the histogram path of the DogStatsD exporter with sampling off, for ONE histogram key
(metrics-exporter-dogstatsd/src/storage.rs `AtomicHistogram::{record, is_empty, flush}` (the `Raw` arm) and the
histogram loop of `State::flush` in state.rs), on top of the step machine of the lock-free bucket
(`Model/Bucket.lean`, one step = one shared-memory operation, PC names = yield-point ids in bucket.rs).

  record(v)         = `bucket.push(v)`
  one `State::flush` = `histogram.is_empty()`; answered `true`  ⇒ `continue` (nothing is handed to the writer);
                                               answered `false` ⇒ `histogram.flush(f)` = `bucket.clear_with(f)`:
                                               ONE detach (CAS of the tail) and exactly the detached values go to
                                               `write_histogram` / `write_distribution`.

The flusher's sequence of bucket calls depends on what its `is_empty` calls answer.  It is modelled as the static
program `flushCalls answers` (`answers` = what each `is_empty` answered) together with the consistency condition
`consistent` ("every `is_empty` of the run answered what the program assumed"): the runs the code can produce are
exactly the consistent ones, and `findAnswers` computes the one consistent answer list of a schedule (the run up to
the k-th answer does not depend on the calls after it).  The theorems of `Props/C10.lean` hold for EVERY answer
list, hence for the consistent one.
-/
namespace MetricsVerif.StatsdHist
open MetricsVerif.Bucket

/-- the bucket calls of `n` consecutive `State::flush`es over the histogram, given what each `is_empty` answered -/
def flushCalls : List Bool → List Call
  | [] => []
  | true :: r => .isEmpty :: flushCalls r
  | false :: r => .isEmpty :: .clear :: flushCalls r

/-- `AtomicHistogram::record` (Raw arm) forwards to `AtomicBucket::push` -/
def recCalls (vs : List Nat) : List Call := vs.map .push

/-- recorder threads `0 .. recs.length-1`, the flusher is thread `recs.length` -/
def progsOf (recs : List (List Nat)) (answers : List Bool) : List (List Call) :=
  recs.map recCalls ++ [flushCalls answers]

/-- what the `is_empty` calls among these results answered, in order -/
def emptyAnswers : List Res → List Bool
  | [] => []
  | .empty b :: r => b :: emptyAnswers r
  | .pushed :: r => emptyAnswers r
  | .snapshot _ :: r => emptyAnswers r
  | .cleared _ :: r => emptyAnswers r

/-- the values every completed `clear_with` among these results handed to the payload writer: one entry per
    flush that was not skipped as empty -/
def clearedOf : List Res → List (List Nat)
  | [] => []
  | .cleared vs :: r => vs :: clearedOf r
  | .pushed :: r => clearedOf r
  | .snapshot _ :: r => clearedOf r
  | .empty _ :: r => clearedOf r

/-- per flush what went to the writer: `none` = the histogram was skipped as empty; walks the answers and takes one
    `cleared` result per `false` answer (a flush whose `clear_with` has not finished yet is left out) -/
def flushesOf : List Bool → List (List Nat) → List (Option (List Nat))
  | [], _ => []
  | true :: r, cs => none :: flushesOf r cs
  | false :: _, [] => []
  | false :: r, c :: cs => some c :: flushesOf r cs

def flusherResults (s : Sys) (f : Nat) : List Res :=
  match s.threads[f]? with
  | some t => t.results
  | none => []

/-- the run is one the code can produce: every `is_empty` of the flusher answered what the program assumed -/
def consistent (s : Sys) (f : Nat) (answers : List Bool) : Bool :=
  (emptyAnswers (flusherResults s f)).isPrefixOf answers

/-- one scheduler grant = exactly one model step: every PC of the bucket machine is a yield point of bucket.rs (the
    detaching CAS of `clear_with` is the point `bkt.clear.cas`, between the tail load and the CAS) -/
def grant (s : Sys) (tid : Nat) : Sys := step s tid

/-- the answers of the flusher's `is_empty` calls under this schedule of grants, discovered one at a time: guess
    `true` for the next one, run, read what it really answered -/
def findAnswers (B : Nat) (recs : List (List Nat)) (sched : List Nat) : Nat → List Bool → List Bool
  | 0, acc => acc
  | n + 1, acc =>
    let s := sched.foldl grant (init B (progsOf recs (acc ++ [true])))
    match (emptyAnswers (flusherResults s recs.length))[acc.length]? with
    | some b => findAnswers B recs sched n (acc ++ [b])
    | none => acc

/-- every value the flushes have handed to the writer so far, flush by flush -/
def sentAll (s : Sys) (f : Nat) : List Nat := (clearedOf (flusherResults s f)).flatten

end MetricsVerif.StatsdHist
