/-
Model of metrics-exporter-dogstatsd/src/writer.rs (import-free, total, executable).

Everything is bytes (`List UInt8`).  Number texts (the `itoa` / `ryu` output for values, sample rates and
timestamps) are opaque byte strings supplied by the caller; the model never formats a number.

A panic of the Rust code (`assert!(self.commit())`, the `usize` underflow in `current_len`, the `unwrap` of
the `u32` conversion, the `assert!` in `new`) is the result `none`.

The model follows the code as it is after the three repairs fix-C09-a/b/c.  The three places the repairs
touch are switched by `Fixes`; with a flag off the model does what the unrepaired code did, so the original
defects stay reproducible (and are proved to be defects in `Props/C09.lean`).

Byte values used below: `\n` 10, `#` 35, `,` 44, `.` 46, `:` 58, `@` 64, `T` 84, `|` 124,
`c` 99, `d` 100, `g` 103, `h` 104.
-/
namespace MetricsVerif.Statsd

abbrev Bytes := List UInt8
/-- a `metrics::Label` : (key, value) -/
abbrev Tag := Bytes × Bytes

/-- which of the three repairs are present (`true` = repaired code) -/
structure Fixes where
  /-- fix-C09-a: the minimum payload length of `write_hist_dist_inner` includes the global prefix -/
  a : Bool
  /-- fix-C09-b: a rejected `commit` keeps the length-prefix placeholder when it truncates -/
  b : Bool
  /-- fix-C09-c: dropping `Payloads` re-adds the length-prefix placeholder after clearing the buffer -/
  c : Bool
  deriving DecidableEq, Repr

def Fixes.all : Fixes := ⟨true, true, true⟩

/-- `PayloadWriter` (`trailer_buf` is scratch space, cleared at every use, and not part of the state) -/
structure Writer where
  max : Nat
  lp : Bool
  buf : Bytes
  offsets : List Nat
  fx : Fixes
  deriving Repr

/-- `u32::to_le_bytes` -/
def le32 (n : Nat) : Bytes :=
  [UInt8.ofNat (n % 256), UInt8.ofNat (n / 256 % 256), UInt8.ofNat (n / 65536 % 256), UInt8.ofNat (n / 16777216 % 256)]

/-- the dummy length `[0, 0, 0, 0]` of `prepare_for_write` -/
def placeholder (lp : Bool) : Bytes := if lp then [0, 0, 0, 0] else []

/-- `maybe_length_prefix_len` -/
def hdrLen (lp : Bool) : Nat := if lp then 4 else 0

/-- `PayloadWriter::prepare_for_write` -/
def prepareForWrite (w : Writer) : Writer := { w with buf := w.buf ++ placeholder w.lp }

/-- `PayloadWriter::new`; `none` = the `assert!` on `u32::try_from(max_payload_len)` -/
def new (max : Nat) (lp : Bool) (fx : Fixes) : Option Writer :=
  if max < 4294967296 then some (prepareForWrite ⟨max, lp, [], [], fx⟩) else none

/-- `PayloadWriter::last_offset` -/
def lastOffset (w : Writer) : Nat := w.offsets.getLast?.getD 0

/-- `PayloadWriter::current_len`; `none` = `usize` subtraction underflow (a panic in a debug build; in a
    release build the wrapped value makes the following `commit` fail, which the histogram path asserts on) -/
def currentLen (w : Writer) : Option Nat :=
  if lastOffset w + hdrLen w.lp ≤ w.buf.length then some (w.buf.length - lastOffset w - hdrLen w.lp) else none

/-- `buf[off .. off + bs.len()].copy_from_slice(bs)` -/
def setSlice (buf : Bytes) (off : Nat) (bs : Bytes) : Bytes := buf.take off ++ bs ++ buf.drop (off + bs.length)

/-- `PayloadWriter::commit`; `none` = panic, `some (w, committed?)` otherwise -/
def commit (w : Writer) : Option (Writer × Bool) :=
  match currentLen w with
  | none => none
  | some cl =>
    if w.max < cl then
      some ({ w with buf := w.buf.take (lastOffset w + (if w.fx.b then hdrLen w.lp else 0)) }, false)
    else
      let lo := lastOffset w
      let w1 := { w with offsets := w.offsets ++ [w.buf.length] }
      if w.lp then
        if cl < 4294967296 then some (prepareForWrite { w1 with buf := setSlice w1.buf lo (le32 cl) }, true)
        else none
      else some (prepareForWrite w1, true)

/-- one tag as `write_metric_trailer` writes it: `key` or `key:value` -/
def tagText (t : Tag) : Bytes := if t.2.isEmpty then t.1 else t.1 ++ 58 :: t.2

/-- the tag loop of `write_metric_trailer`, carrying `wrote_tag` -/
def tagsGo : Bool → List Tag → Bytes
  | _, [] => []
  | wrote, t :: ts => (if wrote then [44] else [124, 35]) ++ tagText t ++ tagsGo true ts

/-- `write_metric_trailer`: `[|@rate][|#tags][|T ts]\n`, tags = global labels then the key's own -/
def trailer (labels globals : List Tag) (ts rate : Option Bytes) : Bytes :=
  (match rate with | some r => 124 :: 64 :: r | none => [])
  ++ tagsGo false (globals ++ labels)
  ++ (match ts with | some t => 124 :: 84 :: t | none => [])
  ++ [10]

/-- `[prefix.]name` -/
def fullName (pfx : Option Bytes) (name : Bytes) : Bytes :=
  match pfx with
  | some p => p ++ 46 :: name
  | none => name

/-- the arguments of a `write_*` call other than the value(s) -/
structure Call where
  /-- metric type byte: `c`, `g`, `h` or `d` -/
  ty : UInt8
  name : Bytes
  labels : List Tag
  /-- timestamp text (counters and gauges only) -/
  ts : Option Bytes
  /-- sample rate text (histograms and distributions only) -/
  rate : Option Bytes
  pfx : Option Bytes
  globals : List Tag
  deriving Repr

/-- `write_counter` / `write_gauge` (they differ in the type byte and in who formatted `v`):
    result = (writer, payloads written, points dropped) -/
def writeScalar (w : Writer) (c : Call) (v : Bytes) : Option (Writer × Nat × Nat) :=
  let w1 := { w with buf := w.buf ++ (fullName c.pfx c.name ++ 58 :: v ++ 124 :: c.ty :: trailer c.labels c.globals c.ts none) }
  match commit w1 with
  | none => none
  | some (w2, true) => some (w2, 1, 0)
  | some (w2, false) => some (w2, 0, 1)

/-- loop state of `write_hist_dist_inner`: writer, `needs_name`, the shadow `current_len`, `result` -/
structure HSt where
  w : Writer
  needsName : Bool
  cur : Nat
  written : Nat
  dropped : Nat

/-- "write the metric type and then the trailer; `assert!(self.commit(), …)`" -/
def histFlush (w : Writer) (ty : UInt8) (tr : Bytes) : Option Writer :=
  match commit { w with buf := w.buf ++ 124 :: ty :: tr } with
  | some (w', true) => some w'
  | _ => none

/-- the `for value in values` loop of `write_hist_dist_inner` -/
def histLoop (minLen : Nat) (nm : Bytes) (ty : UInt8) (tr : Bytes) : HSt → List Bytes → Option HSt
  | s, [] => some s
  | s, v :: vs =>
    if s.w.max < minLen + v.length + 1 then
      histLoop minLen nm ty tr { s with dropped := s.dropped + 1 } vs
    else
      let s1? : Option HSt :=
        if s.w.max < s.cur + v.length + 1 then
          (histFlush s.w ty tr).map
            (fun w' => { s with w := w', needsName := true, cur := minLen, written := s.written + 1 })
        else some s
      match s1? with
      | none => none
      | some s1 =>
        let b := if s1.needsName then s1.w.buf ++ nm else s1.w.buf
        histLoop minLen nm ty tr
          { s1 with w := { s1.w with buf := b ++ 58 :: v }, needsName := false, cur := s1.cur + v.length + 1 } vs

/-- `write_hist_dist_inner` (`write_histogram` / `write_distribution` pass `h` / `d`) -/
def writeHist (w : Writer) (c : Call) (vs : List Bytes) : Option (Writer × Nat × Nat) :=
  let tr := trailer c.labels c.globals none c.rate
  let nm := fullName c.pfx c.name
  let minLen := (if w.fx.a then nm.length else c.name.length) + tr.length + 2
  if w.max < minLen + 2 then some (w, 0, vs.length)
  else
    match histLoop minLen nm c.ty tr ⟨w, true, minLen, 0, 0⟩ vs with
    | none => none
    | some s =>
      match currentLen s.w with
      | none => none
      | some 0 => some (s.w, s.written, s.dropped)
      | some (_ + 1) => (histFlush s.w c.ty tr).map (fun w' => (w', s.written + 1, s.dropped))

/-- `Payloads::next_payload` until exhausted: `buf[start..offset]` for each offset -/
def drainGo (buf : Bytes) : Nat → List Nat → List Bytes
  | _, [] => []
  | start, o :: os => (buf.take o).drop start :: drainGo buf o os

/-- `PayloadWriter::payloads()` consumed and dropped, as one flush of `Forwarder::run` does:
    result = (writer afterwards, the slices handed to the socket) -/
def payloads (w : Writer) : Writer × List Bytes :=
  ({ w with buf := if w.fx.c then placeholder w.lp else [], offsets := [] }, drainGo w.buf 0 w.offsets)

/-- one operation on a long-lived writer -/
inductive Op
  | scalar (c : Call) (v : Bytes)
  | hist (c : Call) (vs : List Bytes)
  | drain

/-- what the caller observes -/
inductive Out
  | wrote (payloadsWritten pointsDropped : Nat)
  | drained (slices : List Bytes)
  deriving DecidableEq, Repr

def step (w : Writer) : Op → Option (Writer × Out)
  | .scalar c v => (writeScalar w c v).map (fun r => (r.1, .wrote r.2.1 r.2.2))
  | .hist c vs => (writeHist w c vs).map (fun r => (r.1, .wrote r.2.1 r.2.2))
  | .drain => let r := payloads w; some (r.1, .drained r.2)

/-- a whole history of writes and drains on one writer; `none` = some operation panicked -/
def run : Writer → List Op → Option (Writer × List Out)
  | w, [] => some (w, [])
  | w, op :: ops =>
    match step w op with
    | none => none
    | some (w', o) =>
      match run w' ops with
      | none => none
      | some (w'', os) => some (w'', o :: os)

/-! ## configuration: which writer `DogStatsDBuilder::build` + `Forwarder::run` create -/

/-- `RemoteAddr` (forwarder/mod.rs): UDP, unix datagram socket (`unixgram://`), unix stream socket (`unix://`) -/
inductive Transport
  | udp
  | unixgram
  | unix
  deriving DecidableEq, Repr

/-- `RemoteAddr::default_max_payload_len` -/
def defaultMaxPayloadLen : Transport → Nat
  | .udp => 1432
  | .unixgram => 8192
  | .unix => 8192

/-- `ForwarderConfiguration::is_length_prefixed` -/
def isLengthPrefixed : Transport → Bool
  | .udp => false
  | .unixgram => false
  | .unix => true

/-- `UDP_DATAGRAM_MAX_PAYLOAD_LEN = (u16::MAX as usize) - 8` (builder.rs) -/
def udpDatagramMaxPayloadLen : Nat := 65535 - 8

/-- `u32::MAX as usize` -/
def u32Max : Nat := 4294967295

/-- `DogStatsDBuilder::get_max_payload_len`: the configured value, else the transport's default -/
def getMaxPayloadLen (t : Transport) (configured : Option Nat) : Nat :=
  match configured with
  | some m => m
  | none => defaultMaxPayloadLen t

/-- `DogStatsDBuilder::validate_max_payload_len`: `true` = `Ok(())`, `false` = `Err(InvalidConfiguration)` -/
def validateMaxPayloadLen (t : Transport) (configured : Option Nat) : Bool :=
  if t = Transport.udp ∧ udpDatagramMaxPayloadLen < getMaxPayloadLen t configured then false
  else if u32Max < getMaxPayloadLen t configured then false
  else true

/-- `DogStatsDBuilder::build` (validation, then the forwarder configuration) followed by the first statement of
    `Forwarder::run` (`PayloadWriter::new(config.max_payload_len, config.is_length_prefixed())`):
    `none` = `BuildError` (no exporter exists), `some none` = the forwarder thread panics in `PayloadWriter::new`,
    `some (some w)` = the long-lived writer of the forwarder. -/
def buildWriter (t : Transport) (configured : Option Nat) (fx : Fixes) : Option (Option Writer) :=
  if validateMaxPayloadLen t configured then some (new (getMaxPayloadLen t configured) (isLengthPrefixed t) fx)
  else none

/-- the name `State::flush` hands to the writer's `prefix` argument: the exporter's own telemetry
    (`datadog.dogstatsd.client…`) is never prefixed -/
def isPrefixOf : Bytes → Bytes → Bool
  | [], _ => true
  | _ :: _, [] => false
  | a :: as, b :: bs => a == b && isPrefixOf as bs

/-- `"datadog.dogstatsd.client"` -/
def clientNamespace : Bytes :=
  [100, 97, 116, 97, 100, 111, 103, 46, 100, 111, 103, 115, 116, 97, 116, 115, 100, 46, 99, 108, 105, 101, 110, 116]

/-- `let prefix = if key.name().starts_with("datadog.dogstatsd.client") { None } else { global_prefix }` -/
def flushPrefix (globalPrefix : Option Bytes) (name : Bytes) : Option Bytes :=
  if isPrefixOf clientNamespace name then none else globalPrefix

end MetricsVerif.Statsd
