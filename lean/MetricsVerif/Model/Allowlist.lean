/-
Model of the scrape endpoint's allowlist and request decision
(metrics-exporter-prometheus/src/exporter/builder.rs: `add_allowed_address`, `build`;
 metrics-exporter-prometheus/src/exporter/http_listener.rs: `check_tcp_allowed`, `handle_http_request`;
 ipnet 2.11 `IpNet::from_str`, `From<IpAddr> for IpNet`, `Ipv4Net/Ipv6Net::{network, broadcast, contains}`).

Addresses are `(family, bits : Nat)` with `bits < 2^32` / `2^128`; an allowlist entry as stored by the builder
is an `IpNet` = `(family, address bits AS WRITTEN, prefix length)`.  The model follows the code, including:

* `add_allowed_address` (with the C18 repair): the text is tried as `IpNet` (CIDR, `addr/len`, `len ≤ width`)
  and, failing that, as a plain `IpAddr`, which becomes the host network (`/32`, `/128`).  Textual parsing of
  dotted quads / IPv6 groups is `ipnet`'s and `std`'s job: the model starts at the already-split numeric
  components `(family, address, optional prefix length)` (`Entry`); the harness sends exactly those and the
  real parsers see the text.
* `IpNet::from_str` does NOT truncate: `10.1.2.3/8` is stored with address 10.1.2.3.  Masking happens in
  `contains`, which is an interval test `network() ≤ a ≤ broadcast()` with
  `network = addr & netmask`, `broadcast = addr | hostmask` (written here with `/` and `*` on `Nat`:
  clearing / setting the low `width − len` bits).  An address of the other family is never contained.
* `allowed_addresses : Option<Vec<IpNet>>` — `None` (no `add_allowed_address` call) allows everybody;
  `Some(list)` allows a peer iff some entry matches.  `Some([])` would deny everybody but cannot be built:
  `add_allowed_address` pushes right after `get_or_insert(vec![])` (`addAllowed_nonempty` in Props/C18).
* `check_tcp_allowed` (with the second C18 repair): the peer address reported by the socket is matched as it
  is and, if it is an IPv4-mapped IPv6 address `::ffff:a.b.c.d` (what a dual-stack `[::]` listener reports
  for IPv4 clients), also as the embedded IPv4 address (`Ipv6Addr::to_ipv4_mapped`).
* `handle_http_request` looks at `is_allowed` FIRST: a peer that is not allowed gets 403 with an empty body
  for every path, `/health` included; an allowed peer gets 200 `"OK"` for the path `/health` exactly
  (no trailing slash, case-sensitive, query not part of the path) and 200 with `handle.render()` otherwise.
  The decision is made once per connection and reused for every request on it.
-/
namespace MetricsVerif.Allowlist

/-- IPv4 / IPv6 -/
inductive Family
  | v4 | v6
  deriving DecidableEq, Repr, Inhabited

/-- address width in bits -/
def Family.width : Family → Nat
  | .v4 => 32
  | .v6 => 128

/-- `std::net::IpAddr` -/
structure Addr where
  fam : Family
  bits : Nat
  deriving DecidableEq, Repr, Inhabited

/-- the address is a value of its family's integer type (`u32` / `u128`) -/
def Addr.wf (a : Addr) : Prop := a.bits < 2 ^ a.fam.width

/-- `ipnet::IpNet`: the address as written (host bits kept) and the prefix length -/
structure Net where
  fam : Family
  bits : Nat
  plen : Nat
  deriving DecidableEq, Repr, Inhabited

/-- argument of `add_allowed_address` after splitting the text: `plen = none` for a plain address -/
structure Entry where
  fam : Family
  bits : Nat
  plen : Option Nat
  deriving DecidableEq, Repr, Inhabited

/-- `IpNet::from_str(text).or_else(|_| IpAddr::from_str(text).map(IpNet::from))` on split components:
    CIDR needs `len ≤ width`; a plain address is the host network. -/
def parseEntry (e : Entry) : Option Net :=
  if e.bits < 2 ^ e.fam.width then
    match e.plen with
    | some p => if p ≤ e.fam.width then some ⟨e.fam, e.bits, p⟩ else none
    | none => some ⟨e.fam, e.bits, e.fam.width⟩
  else none

/-- `PrometheusBuilder::add_allowed_address`: `Err` (= `none`) leaves nothing behind (the builder is consumed),
    `Ok` appends to `allowed_addresses.get_or_insert(vec![])`. -/
def addAllowed (al : Option (List Net)) (e : Entry) : Option (Option (List Net)) :=
  (parseEntry e).map (fun n => some (al.getD [] ++ [n]))

/-- a chain of `add_allowed_address` calls; `none` if any of them failed -/
def addAll (al : Option (List Net)) : List Entry → Option (Option (List Net))
  | [] => some al
  | e :: es => match addAllowed al e with
    | none => none
    | some al' => addAll al' es

/-- number of addresses in the block: `hostmask + 1 = 2^(width − len)` -/
def Net.size (n : Net) : Nat := 2 ^ (n.fam.width - n.plen)

/-- `Ipv4Net::network` / `Ipv6Net::network`: `addr & netmask` (low `width − len` bits cleared) -/
def Net.network (n : Net) : Nat := n.bits / n.size * n.size

/-- `Ipv4Net::broadcast` / `Ipv6Net::broadcast`: `addr | hostmask` (low `width − len` bits set) -/
def Net.broadcast (n : Net) : Nat := n.network + (n.size - 1)

/-- `<IpNet as Contains<&IpAddr>>::contains`: same family and `network() ≤ a ≤ broadcast()` -/
def contains (n : Net) (a : Addr) : Bool :=
  n.fam == a.fam && (decide (n.network ≤ a.bits) && decide (a.bits ≤ n.broadcast))

/-- `Ipv6Addr::to_ipv4_mapped`: `::ffff:a.b.c.d ↦ a.b.c.d` -/
def v4Mapped (a : Addr) : Option Addr :=
  if a.fam = .v6 ∧ a.bits / 2 ^ 32 = 0xffff then some ⟨.v4, a.bits % 2 ^ 32⟩ else none

/-- closure inside `check_tcp_allowed`: the entry contains the peer address as reported, or its embedded IPv4
    address when the reported address is IPv4-mapped -/
def peerMatches (n : Net) (peer : Addr) : Bool :=
  contains n peer || match v4Mapped peer with
    | some p4 => contains n p4
    | none => false

/-- `HttpListeningExporter::check_tcp_allowed` (for a peer whose address could be obtained) -/
def checkAllowed (al : Option (List Net)) (peer : Addr) : Bool :=
  match al with
  | none => true
  | some nets => nets.any (fun n => peerMatches n peer)

/-- an HTTP response: status code and body -/
structure Resp where
  status : Nat
  body : List Char
  deriving DecidableEq, Repr, Inhabited

/-- `"/health"` -/
def healthPath : List Char := ['/', 'h', 'e', 'a', 'l', 't', 'h']

/-- `"OK"` -/
def okBody : List Char := ['O', 'K']

/-- `HttpListeningExporter::handle_http_request(is_allowed, handle, req)`; `rendered` is what
    `handle.render()` returns at that moment, `path` is `req.uri().path()` -/
def handleHttpRequest (isAllowed : Bool) (rendered : List Char) (path : List Char) : Resp :=
  if isAllowed then
    ⟨200, if path = healthPath then okBody else rendered⟩
  else
    ⟨403, []⟩

/-- the characters that end the path inside a path-and-query text: `?` starts the query, `#` a fragment
    (`http::uri::PathAndQuery::from_shared` stops its path scan at either and cuts the text at `#`) -/
def endsPath (c : Char) : Bool := c == '?' || c == '#'

/-- `PathAndQuery::path` of the text after scheme and authority: everything before the first `?` or `#` -/
def pathPart (pq : List Char) : List Char := pq.takeWhile (fun c => !endsPath c)

/-- characters of a URI scheme (`http::uri::Scheme2::parse`: letters, digits, `+`, `-`, `.`) -/
def isSchemeChar (c : Char) : Bool :=
  ('a'.toNat ≤ c.toNat && c.toNat ≤ 'z'.toNat) || ('A'.toNat ≤ c.toNat && c.toNat ≤ 'Z'.toNat)
    || ('0'.toNat ≤ c.toNat && c.toNat ≤ '9'.toNat) || c == '+' || c == '-' || c == '.'

/-- the text after `scheme://` when the target starts with a scheme -/
def afterScheme : List Char → Option (List Char)
  | ':' :: '/' :: '/' :: rest => some rest
  | c :: cs => if isSchemeChar c then afterScheme cs else none
  | [] => none

/-- characters that end the authority (`http::uri::Authority::parse` stops at `/`, `?`, `#`) -/
def endsAuthority (c : Char) : Bool := c == '/' || endsPath c

/-- `req.uri().path()` (`http::Uri::from_shared` + `Uri::path`) of the request target hyper hands to the service,
    for every form of target that gets that far (anything `http::Uri` rejects is answered `400` by hyper itself):
    * origin-form `/path[?query]` — and, since `httparse` lets `#` through, `/path[?query]#fragment`: the text before
      the first `?` or `#`;
    * asterisk-form `*`: the path is `*`;
    * absolute-form `scheme://authority[/path][?query][#fragment]` (what a client talking through a proxy sends):
      the path after the authority, `/` when there is none;
    * anything else is authority-form (`host:port`): no path, `path()` returns the empty string. -/
def pathOf (target : List Char) : List Char :=
  match target with
  | '/' :: _ => pathPart target
  | ['*'] => ['*']
  | _ =>
    match afterScheme target with
    | some rest =>
      if (pathPart (rest.dropWhile (fun c => !endsAuthority c))).isEmpty then ['/']
      else pathPart (rest.dropWhile (fun c => !endsAuthority c))
    | none => []

/-- the whole decision for one request of a connection from `peer` -/
def respond (al : Option (List Net)) (peer : Addr) (path : List Char) (rendered : List Char) : Resp :=
  handleHttpRequest (checkAllowed al peer) rendered path

/-! ### sessions: the listener over time

The listener's only state is its (immutable) allowlist and the recorder it renders; every accepted connection
is handled by its own task (`process_tcp_stream` → `tokio::spawn`) which shares nothing with other
connections.  `metrics` stands for the recorder's contents (the harness uses the value of a marker counter). -/

/-- what happens at the listener -/
inductive Ev
  /-- the application updates its metrics -/
  | update (n : Nat)
  /-- a well-formed `GET target` on a connection from `peer` -/
  | req (peer : Addr) (target : List Char)
  /-- a connection from `peer` that never yields a well-formed request (garbage, half-open, reset, …) -/
  | fault (kind : Nat) (peer : Addr)
  deriving Repr

structure Sess where
  al : Option (List Net)
  metrics : Nat
  deriving Repr

/-- one event; the response if the event is a well-formed request -/
def stepEv (render : Nat → List Char) (s : Sess) : Ev → Sess × Option Resp
  | .update n => ({ s with metrics := s.metrics + n }, none)
  | .req peer target => (s, some (respond s.al peer (pathOf target) (render s.metrics)))
  | .fault _ _ => (s, none)

/-- responses to the well-formed requests of a history, in order -/
def run (render : Nat → List Char) (s : Sess) : List Ev → List Resp
  | [] => []
  | e :: es =>
    match stepEv render s e with
    | (s', some r) => r :: run render s' es
    | (s', none) => run render s' es

def Ev.isFault : Ev → Bool
  | .fault _ _ => true
  | _ => false

/-! ### the builder: which endpoint `build` creates

`PrometheusBuilder` carries two independent pieces of listener configuration: `exporter_config`
(`ExporterConfig::HttpListener { destination: Tcp(addr) | Uds(path) }` or `PushGateway { .. }`; `new()` starts with
`Tcp(0.0.0.0:9000)`) and `allowed_addresses`.  `with_http_listener`, `with_http_uds_listener` and
`with_push_gateway` overwrite the first and never touch the second; `add_allowed_address` appends to the second
and never touches the first.  `build` takes the allowlist (`self.allowed_addresses.take()`) and hands it to
`new_http_listener(handle, addr, allowed_addresses)` for a TCP destination; `new_http_uds_listener(handle, path)`
does not receive it and stores `allowed_addresses: None`; the push gateway has no listener at all.
Socket addresses and paths are opaque numbers here (the harness sends the port / a path id). -/

/-- `ExporterConfig` with `ListenDestination` flattened -/
inductive Dest
  | tcp (addr : Nat)
  | uds (path : Nat)
  | push
  deriving DecidableEq, Repr, Inhabited

/-- the two listener-related fields of `PrometheusBuilder` -/
structure Builder where
  dest : Dest
  allowed : Option (List Net)
  deriving DecidableEq, Repr, Inhabited

/-- the opaque number standing for `0.0.0.0:9000` -/
def defaultListen : Nat := 9000

/-- `PrometheusBuilder::new()` (feature `http-listener`): listener on `0.0.0.0:9000`, no allowlist -/
def Builder.new : Builder := ⟨.tcp defaultListen, none⟩

/-- a builder call that concerns the listener -/
inductive BOp
  /-- `with_http_listener(addr)` -/
  | httpListener (addr : Nat)
  /-- `with_http_uds_listener(path)` -/
  | udsListener (path : Nat)
  /-- `with_push_gateway(..)` with a valid endpoint -/
  | pushGateway
  /-- `add_allowed_address(text)` -/
  | allow (e : Entry)
  deriving Repr, Inhabited

/-- one builder call; `none` = the call returned `Err` (the builder is consumed) -/
def Builder.apply (b : Builder) : BOp → Option Builder
  | .httpListener a => some { b with dest := .tcp a }
  | .udsListener p => some { b with dest := .uds p }
  | .pushGateway => some { b with dest := .push }
  | .allow e => (addAllowed b.allowed e).map (fun al => { b with allowed := al })

/-- a chain of builder calls -/
def Builder.applyAll (b : Builder) : List BOp → Option Builder
  | [] => some b
  | o :: os => match b.apply o with
    | none => none
    | some b' => b'.applyAll os

/-- the `add_allowed_address` arguments of a chain, in call order -/
def entriesOf : List BOp → List Entry
  | [] => []
  | .allow e :: os => e :: entriesOf os
  | _ :: os => entriesOf os

/-- the destination after a chain: the last destination call wins -/
def lastDest (d : Dest) : List BOp → Dest
  | [] => d
  | .httpListener a :: os => lastDest (.tcp a) os
  | .udsListener p :: os => lastDest (.uds p) os
  | .pushGateway :: os => lastDest .push os
  | .allow _ :: os => lastDest d os

/-- what `build` starts -/
inductive Endpoint
  /-- `new_http_listener(handle, addr, allowed_addresses)` -/
  | tcp (addr : Nat) (al : Option (List Net))
  /-- `new_http_uds_listener(handle, path)`: `allowed_addresses: None` -/
  | uds (path : Nat)
  /-- push gateway: nothing listens -/
  | nolistener
  deriving DecidableEq, Repr, Inhabited

/-- `PrometheusBuilder::build` (the listener part; bind errors are the environment's) -/
def Builder.build (b : Builder) : Endpoint :=
  match b.dest with
  | .tcp a => .tcp a b.allowed
  | .uds p => .uds p
  | .push => .nolistener

/-- who connects: a TCP client (address and source port as `peer_addr()` reports them) or a unix-socket client -/
inductive Peer
  | ip (a : Addr) (port : Nat)
  | unix
  deriving DecidableEq, Repr, Inhabited

/-- `is_allowed` of a connection accepted by this endpoint: `process_tcp_stream` uses `check_tcp_allowed`
    (which reads `peer_addr().ip()` only — the port plays no part), `process_uds_stream` passes `true`;
    `none`: this peer cannot reach this endpoint (other transport, or nothing listens) -/
def Endpoint.isAllowed : Endpoint → Peer → Option Bool
  | .tcp _ al, .ip a _ => some (checkAllowed al a)
  | .uds _, .unix => some true
  | _, _ => none

/-- a well-formed HTTP/1.1 request as the handler receives it -/
structure Req where
  method : List Char
  target : List Char
  headers : List (List Char × List Char)
  deriving DecidableEq, Repr, Inhabited

/-- `"HEAD"` -/
def headMethod : List Char := ['H', 'E', 'A', 'D']

/-- hyper's HTTP/1 encoder: the response to a `HEAD` request carries no body bytes (status and headers as for
    `GET`); everything else is written as the handler returned it -/
def wire (method : List Char) (r : Resp) : Resp :=
  if method = headMethod then ⟨r.status, []⟩ else r

/-- the `service_fn` closure of `process_tcp_stream` / `process_uds_stream`:
    `handle_http_request(is_allowed, handle.clone(), req)` — of the request only `req.uri().path()` is read;
    method, headers and body are never looked at -/
def serveReq (isAllowed : Bool) (rendered : List Char) (q : Req) : Resp :=
  wire q.method (handleHttpRequest isAllowed rendered (pathOf q.target))

/-- what the accept loop does in its `Err(e)` arm -/
inductive LoopAct
  /-- `warn!(..); continue` — what `serve_tcp` / `serve_uds` do -/
  | continue
  /-- leave the loop (`break`, `return`, `?`): the exporter future ends, nothing accepts any more -/
  | exit
  deriving DecidableEq, Repr, Inhabited

/-- events at an endpoint -/
inductive Ev2
  /-- the application updates its metrics -/
  | update (n : Nat)
  /-- an accepted connection from `peer` carrying these well-formed requests in order (keep-alive / pipelined) -/
  | conn (peer : Peer) (reqs : List Req)
  /-- a connection that never yields a well-formed request -/
  | fault (kind : Nat) (peer : Peer)
  /-- `listener.accept()` returned `Err` (EMFILE, ECONNABORTED, …) -/
  | acceptErr (errno : Nat)
  deriving Repr, Inhabited

/-- the endpoint over time: `running` = the accept loop is still being polled -/
structure Sess2 where
  ep : Endpoint
  metrics : Nat
  running : Bool
  deriving Repr, Inhabited

/-- the state right after `build` + spawn -/
def Sess2.start (ep : Endpoint) : Sess2 := ⟨ep, 0, true⟩

/-- one event; the answers written on that connection (`[]` for anything that is not a served connection).
    `arm` is the action of the accept loop's error arm (`LoopAct.continue` in the code). -/
def stepEv2 (arm : LoopAct) (render : Nat → List Char) (s : Sess2) : Ev2 → Sess2 × List Resp
  | .update n => ({ s with metrics := s.metrics + n }, [])
  | .conn peer reqs =>
    if s.running then
      match s.ep.isAllowed peer with
      | some ok => (s, reqs.map (serveReq ok (render s.metrics)))
      | none => (s, [])
    else (s, [])
  | .fault _ _ => (s, [])
  | .acceptErr _ =>
    match arm with
    | .continue => (s, [])
    | .exit => ({ s with running := false }, [])

/-- the answers of a history, one list per event (in event order) -/
def run2 (arm : LoopAct) (render : Nat → List Char) (s : Sess2) : List Ev2 → List (List Resp)
  | [] => []
  | e :: es => (stepEv2 arm render s e).2 :: run2 arm render (stepEv2 arm render s e).1 es

/-- the final state of a history -/
def runState2 (arm : LoopAct) (render : Nat → List Char) (s : Sess2) : List Ev2 → Sess2
  | [] => s
  | e :: es => runState2 arm render (stepEv2 arm render s e).1 es

/-- events that are not served connections or metric updates -/
def Ev2.isNoise : Ev2 → Bool
  | .fault _ _ => true
  | .acceptErr _ => true
  | _ => false

/-! ### clients that half-close

A client may write its complete request(s) and then shut down its WRITE side (`shutdown(SHUT_WR)`: the server reads
EOF) while it keeps reading: `printf 'GET /metrics HTTP/1.1\r\nHost: x\r\n\r\n' | nc host 9000`, `socat`, HTTP/1.0-style
clients, some health checkers.  Its requests are complete and well-formed; what the connection task does when it
reads that EOF while a response is still owed is an option of hyper's HTTP/1 connection
(`hyper::server::conn::http1::Builder::half_close`):
* `half_close(true)`: `Conn::mid_message_detect_eof` stays `Pending`, the service future (for a rendering:
  `spawn_blocking(handle.render()).await`) is polled to its end, every request read so far is answered, then the
  connection is closed — the client is served like any other;
* default (`half_close(false)`): `mid_message_detect_eof` reads the EOF, returns `Error::new_incomplete()`,
  `Dispatcher::poll_loop` propagates it before `poll_write` is reached and the connection is dropped: responses not
  yet written are never written.  Whether a response was already written when the EOF is seen is a race the client
  loses whenever its FIN is in the socket before the answer is complete (always, for a rendering that takes time);
  the model takes the schedule in which the EOF is seen first. -/

/-- what the connection task does on reading EOF while a response is owed -/
inductive EofAct
  /-- `half_close(true)`: finish the answers, then close -/
  | finish
  /-- hyper's default: drop the connection (`IncompleteMessage`) -/
  | drop
  deriving DecidableEq, Repr, Inhabited

/-- the connection options between `HyperHttpBuilder::new()` and `.serve_connection(..)` as read off the source -/
def eofOfSource (opts : List String) : EofAct :=
  if opts = ["half_close(true)"] then .finish else .drop

/-- events at an endpoint, third layer: everything of the second layer plus the half-closing client -/
inductive Ev3
  /-- an event of the second layer -/
  | ev (e : Ev2)
  /-- a connection from `peer` whose client writes these complete, well-formed requests, then shuts down its write
      side and reads the answers until the server closes -/
  | halfClose (peer : Peer) (reqs : List Req)
  deriving Repr, Inhabited

/-- one event of the third layer.  `eof` is the option of the connection (`EofAct.finish` in the code after the C18
    repair `half_close(true)`; `EofAct.drop` before it). -/
def stepEv3 (arm : LoopAct) (eof : EofAct) (render : Nat → List Char) (s : Sess2) : Ev3 → Sess2 × List Resp
  | .ev e => stepEv2 arm render s e
  | .halfClose peer reqs =>
    match eof with
    | .finish => stepEv2 arm render s (.conn peer reqs)
    | .drop => (s, [])

/-- the answers of a third-layer history, one list per event -/
def run3 (arm : LoopAct) (eof : EofAct) (render : Nat → List Char) (s : Sess2) : List Ev3 → List (List Resp)
  | [] => []
  | e :: es => (stepEv3 arm eof render s e).2 :: run3 arm eof render (stepEv3 arm eof render s e).1 es

/-- the final state of a third-layer history -/
def runState3 (arm : LoopAct) (eof : EofAct) (render : Nat → List Char) (s : Sess2) : List Ev3 → Sess2
  | [] => s
  | e :: es => runState3 arm eof render (stepEv3 arm eof render s e).1 es

/-- the half-closing client seen as an ordinary connection (what it is when the option is `finish`) -/
def Ev3.plain : Ev3 → Ev2
  | .ev e => e
  | .halfClose peer reqs => .conn peer reqs

/-- a first-layer event seen at the second layer: a `GET` without headers from source port `port` -/
def Ev.lift (port : Nat) : Ev → Ev2
  | .update n => .update n
  | .req peer target => .conn (.ip peer port) [⟨['G', 'E', 'T'], target, []⟩]
  | .fault k peer => .fault k (.ip peer port)

/-! ### requests in flight: overlapping scrapes, renderings that take time

`handle_http_request` does not answer in one step: when the request ARRIVES it queues
`tokio::task::spawn_blocking(move || handle.render())`; the blocking task then walks the registry and loads one
series after the other (`Inner::get_recent_metrics`: one `load(Acquire)` per counter / gauge) — this is where the
application's updates and OTHER clients' requests interleave; when every series has been read the text is
formatted and the response is written.  Each request owns its task and its own accumulator: nothing of a rendering
is shared between connections (`src_render_per_request`).  The model has one event per such step.  The series are
numbered `0 … n-1` (the order in which a rendering visits them is the hash map's and differs between renderings, so
`read` names the series); `metrics k` is the current value of series `k`. -/

/-- a request between its arrival and its response -/
structure Flight where
  /-- the harness's name for the request -/
  id : Nat
  /-- `is_allowed` of its connection -/
  ok : Bool
  /-- `req.uri().path()` -/
  path : List Char
  /-- what its rendering has loaded so far: `none` = series not visited yet -/
  acc : Nat → Option Nat

/-- events at the exporter, one per step of the code -/
inductive EvC
  /-- the application adds `d` to series `k` (a completed `fetch_add` on the handle) -/
  | update (k d : Nat)
  /-- a well-formed request reaches `handle_http_request` on a connection whose `is_allowed` is `ok` -/
  | arrive (id : Nat) (ok : Bool) (path : List Char)
  /-- the rendering of request `id` loads series `k` -/
  | read (id k : Nat)
  /-- request `id` is answered (possible once its rendering has visited every series, or at once for a refusal
      and for `/health`, which do not render) -/
  | respond (id : Nat)

/-- the exporter with its requests in flight; `n` = number of registered series -/
structure StC where
  n : Nat
  metrics : Nat → Nat
  flights : List Flight

/-- does answering this request involve a rendering? (`is_allowed` and a path other than `/health`) -/
def Flight.renders (f : Flight) : Bool := f.ok && !(f.path == healthPath)

/-- the rendering of this request has visited every series -/
def Flight.complete (n : Nat) (f : Flight) : Bool := (List.range n).all (fun k => (f.acc k).isSome)

/-- the values a complete rendering carries, in series order -/
def Flight.values (n : Nat) (f : Flight) : List Nat := (List.range n).map (fun k => (f.acc k).getD 0)

/-- the request `id` in flight, if any -/
def findFlight (id : Nat) : List Flight → Option Flight
  | [] => none
  | f :: fs => if f.id = id then some f else findFlight id fs

/-- one `load(Acquire)` of the rendering of this request: series `k`, once per series, only for requests that
    render -/
def Flight.load (metrics : Nat → Nat) (n k : Nat) (f : Flight) : Flight :=
  if f.renders && decide (k < n) && (f.acc k).isNone
    then { f with acc := fun j => if j = k then some (metrics k) else f.acc j } else f

/-- the blocking task of request `id` loads series `k` -/
def readFlight (metrics : Nat → Nat) (n id k : Nat) : List Flight → List Flight
  | [] => []
  | f :: fs => if f.id = id then f.load metrics n k :: fs else f :: readFlight metrics n id k fs

/-- request `id` leaves the exporter -/
def dropFlight (id : Nat) : List Flight → List Flight
  | [] => []
  | f :: fs => if f.id = id then fs else f :: dropFlight id fs

/-- the answer to a request in flight, once it can be given: `handle_http_request` applied to the text made of the
    values its OWN rendering loaded -/
def Flight.answer (render : List Nat → List Char) (n : Nat) (f : Flight) : Option Resp :=
  if !f.renders || f.complete n then some (handleHttpRequest f.ok (render (f.values n)) f.path) else none

/-- one event; the response if one is written -/
def stepC (render : List Nat → List Char) (s : StC) : EvC → StC × Option Resp
  | .update k d => ({ s with metrics := fun j => if j = k then s.metrics j + d else s.metrics j }, none)
  | .arrive id ok path =>
    match findFlight id s.flights with
    | some _ => (s, none)
    | none => ({ s with flights := ⟨id, ok, path, fun _ => none⟩ :: s.flights }, none)
  | .read id k => ({ s with flights := readFlight s.metrics s.n id k s.flights }, none)
  | .respond id =>
    match findFlight id s.flights with
    | none => (s, none)
    | some f =>
      match f.answer render s.n with
      | some r => ({ s with flights := dropFlight id s.flights }, some r)
      | none => (s, none)

/-- the state after a history -/
def runStateC (render : List Nat → List Char) (s : StC) : List EvC → StC
  | [] => s
  | e :: es => runStateC render (stepC render s e).1 es

/-- the responses of a history, in the order they are written -/
def runC (render : List Nat → List Char) (s : StC) : List EvC → List Resp
  | [] => []
  | e :: es =>
    match (stepC render s e).2 with
    | some r => r :: runC render (stepC render s e).1 es
    | none => runC render (stepC render s e).1 es

def EvC.isRespond (id : Nat) : EvC → Bool
  | .respond i => i == id
  | _ => false

/-- the same exporter with the "coalescing" shortcut (NOT what the code does; the class of defect the freshness
    clause excludes): a request that finds another request's COMPLETE rendering takes that text instead of
    rendering itself. -/
def stepShared (render : List Nat → List Char) (s : StC) : EvC → StC × Option Resp
  | .respond id =>
    match findFlight id s.flights with
    | none => (s, none)
    | some f =>
      match s.flights.find? (fun g => g.id != id && g.renders && g.complete s.n) with
      | some g =>
        if f.renders then
          ({ s with flights := dropFlight id s.flights }, some (handleHttpRequest f.ok (render (g.values s.n)) f.path))
        else stepC render s (.respond id)
      | none => stepC render s (.respond id)
  | e => stepC render s e

end MetricsVerif.Allowlist
