/-
Model of the scrape endpoint's allowlist and request decision
(metrics-exporter-prometheus/src/exporter/builder.rs: `add_allowed_address`, `build`;
 metrics-exporter-prometheus/src/exporter/http_listener.rs: `check_tcp_allowed`, `handle_http_request`;
 ipnet 2.11 `IpNet::from_str`, `From<IpAddr> for IpNet`, `Ipv4Net/Ipv6Net::{network, broadcast, contains}`).

Addresses are `(family, bits : Nat)` with `bits < 2^32` / `2^128`; an allowlist entry as stored by the builder
is an `IpNet` = `(family, address bits AS WRITTEN, prefix length)`.  The model follows the code, including:

* `add_allowed_address` (with the C18 repair): the text is tried as `IpNet` (CIDR, `addr/len`, `len ≤ width`)
  and, failing that, as a plain `IpAddr`, which becomes the host network (`/32`, `/128`).  Textual parsing of
  dotted quads / IPv6 groups is `ipnet`'s and `std`'s job: the model starts at the already-split numeric
  components `(family, address, optional prefix length)` (`Entry`); the harness sends exactly those and the
  real parsers see the text.
* `IpNet::from_str` does NOT truncate: `10.1.2.3/8` is stored with address 10.1.2.3.  Masking happens in
  `contains`, which is an interval test `network() ≤ a ≤ broadcast()` with
  `network = addr & netmask`, `broadcast = addr | hostmask` (written here with `/` and `*` on `Nat`:
  clearing / setting the low `width − len` bits).  An address of the other family is never contained.
* `allowed_addresses : Option<Vec<IpNet>>` — `None` (no `add_allowed_address` call) allows everybody;
  `Some(list)` allows a peer iff some entry matches.  `Some([])` would deny everybody but cannot be built:
  `add_allowed_address` pushes right after `get_or_insert(vec![])` (`addAllowed_nonempty` in Props/C18).
* `check_tcp_allowed` (with the second C18 repair): the peer address reported by the socket is matched as it
  is and, if it is an IPv4-mapped IPv6 address `::ffff:a.b.c.d` (what a dual-stack `[::]` listener reports
  for IPv4 clients), also as the embedded IPv4 address (`Ipv6Addr::to_ipv4_mapped`).
* `handle_http_request` looks at `is_allowed` FIRST: a peer that is not allowed gets 403 with an empty body
  for every path, `/health` included; an allowed peer gets 200 `"OK"` for the path `/health` exactly
  (no trailing slash, case-sensitive, query not part of the path) and 200 with `handle.render()` otherwise.
  The decision is made once per connection and reused for every request on it.
-/
namespace MetricsVerif.Allowlist

/-- IPv4 / IPv6 -/
inductive Family
  | v4 | v6
  deriving DecidableEq, Repr, Inhabited

/-- address width in bits -/
def Family.width : Family → Nat
  | .v4 => 32
  | .v6 => 128

/-- `std::net::IpAddr` -/
structure Addr where
  fam : Family
  bits : Nat
  deriving DecidableEq, Repr, Inhabited

/-- the address is a value of its family's integer type (`u32` / `u128`) -/
def Addr.wf (a : Addr) : Prop := a.bits < 2 ^ a.fam.width

/-- `ipnet::IpNet`: the address as written (host bits kept) and the prefix length -/
structure Net where
  fam : Family
  bits : Nat
  plen : Nat
  deriving DecidableEq, Repr, Inhabited

/-- argument of `add_allowed_address` after splitting the text: `plen = none` for a plain address -/
structure Entry where
  fam : Family
  bits : Nat
  plen : Option Nat
  deriving DecidableEq, Repr, Inhabited

/-- `IpNet::from_str(text).or_else(|_| IpAddr::from_str(text).map(IpNet::from))` on split components:
    CIDR needs `len ≤ width`; a plain address is the host network. -/
def parseEntry (e : Entry) : Option Net :=
  if e.bits < 2 ^ e.fam.width then
    match e.plen with
    | some p => if p ≤ e.fam.width then some ⟨e.fam, e.bits, p⟩ else none
    | none => some ⟨e.fam, e.bits, e.fam.width⟩
  else none

/-- `PrometheusBuilder::add_allowed_address`: `Err` (= `none`) leaves nothing behind (the builder is consumed),
    `Ok` appends to `allowed_addresses.get_or_insert(vec![])`. -/
def addAllowed (al : Option (List Net)) (e : Entry) : Option (Option (List Net)) :=
  (parseEntry e).map (fun n => some (al.getD [] ++ [n]))

/-- a chain of `add_allowed_address` calls; `none` if any of them failed -/
def addAll (al : Option (List Net)) : List Entry → Option (Option (List Net))
  | [] => some al
  | e :: es => match addAllowed al e with
    | none => none
    | some al' => addAll al' es

/-- number of addresses in the block: `hostmask + 1 = 2^(width − len)` -/
def Net.size (n : Net) : Nat := 2 ^ (n.fam.width - n.plen)

/-- `Ipv4Net::network` / `Ipv6Net::network`: `addr & netmask` (low `width − len` bits cleared) -/
def Net.network (n : Net) : Nat := n.bits / n.size * n.size

/-- `Ipv4Net::broadcast` / `Ipv6Net::broadcast`: `addr | hostmask` (low `width − len` bits set) -/
def Net.broadcast (n : Net) : Nat := n.network + (n.size - 1)

/-- `<IpNet as Contains<&IpAddr>>::contains`: same family and `network() ≤ a ≤ broadcast()` -/
def contains (n : Net) (a : Addr) : Bool :=
  n.fam == a.fam && (decide (n.network ≤ a.bits) && decide (a.bits ≤ n.broadcast))

/-- `Ipv6Addr::to_ipv4_mapped`: `::ffff:a.b.c.d ↦ a.b.c.d` -/
def v4Mapped (a : Addr) : Option Addr :=
  if a.fam = .v6 ∧ a.bits / 2 ^ 32 = 0xffff then some ⟨.v4, a.bits % 2 ^ 32⟩ else none

/-- closure inside `check_tcp_allowed`: the entry contains the peer address as reported, or its embedded IPv4
    address when the reported address is IPv4-mapped -/
def peerMatches (n : Net) (peer : Addr) : Bool :=
  contains n peer || match v4Mapped peer with
    | some p4 => contains n p4
    | none => false

/-- `HttpListeningExporter::check_tcp_allowed` (for a peer whose address could be obtained) -/
def checkAllowed (al : Option (List Net)) (peer : Addr) : Bool :=
  match al with
  | none => true
  | some nets => nets.any (fun n => peerMatches n peer)

/-- an HTTP response: status code and body -/
structure Resp where
  status : Nat
  body : List Char
  deriving DecidableEq, Repr, Inhabited

/-- `"/health"` -/
def healthPath : List Char := ['/', 'h', 'e', 'a', 'l', 't', 'h']

/-- `"OK"` -/
def okBody : List Char := ['O', 'K']

/-- `HttpListeningExporter::handle_http_request(is_allowed, handle, req)`; `rendered` is what
    `handle.render()` returns at that moment, `path` is `req.uri().path()` -/
def handleHttpRequest (isAllowed : Bool) (rendered : List Char) (path : List Char) : Resp :=
  if isAllowed then
    ⟨200, if path = healthPath then okBody else rendered⟩
  else
    ⟨403, []⟩

/-- `http::Uri::path` of an origin-form request target: everything before the first `?` -/
def pathOf (target : List Char) : List Char := target.takeWhile (· ≠ '?')

/-- the whole decision for one request of a connection from `peer` -/
def respond (al : Option (List Net)) (peer : Addr) (path : List Char) (rendered : List Char) : Resp :=
  handleHttpRequest (checkAllowed al peer) rendered path

/-! ### sessions: the listener over time

The listener's only state is its (immutable) allowlist and the recorder it renders; every accepted connection
is handled by its own task (`process_tcp_stream` → `tokio::spawn`) which shares nothing with other
connections.  `metrics` stands for the recorder's contents (the harness uses the value of a marker counter). -/

/-- what happens at the listener -/
inductive Ev
  /-- the application updates its metrics -/
  | update (n : Nat)
  /-- a well-formed `GET target` on a connection from `peer` -/
  | req (peer : Addr) (target : List Char)
  /-- a connection from `peer` that never yields a well-formed request (garbage, half-open, reset, …) -/
  | fault (kind : Nat) (peer : Addr)
  deriving Repr

structure Sess where
  al : Option (List Net)
  metrics : Nat
  deriving Repr

/-- one event; the response if the event is a well-formed request -/
def stepEv (render : Nat → List Char) (s : Sess) : Ev → Sess × Option Resp
  | .update n => ({ s with metrics := s.metrics + n }, none)
  | .req peer target => (s, some (respond s.al peer (pathOf target) (render s.metrics)))
  | .fault _ _ => (s, none)

/-- responses to the well-formed requests of a history, in order -/
def run (render : Nat → List Char) (s : Sess) : List Ev → List Resp
  | [] => []
  | e :: es =>
    match stepEv render s e with
    | (s', some r) => r :: run render s' es
    | (s', none) => run render s' es

def Ev.isFault : Ev → Bool
  | .fault _ _ => true
  | _ => false

end MetricsVerif.Allowlist
