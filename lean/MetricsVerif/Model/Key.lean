/-
Model of `metrics::Key` identity (metrics/src/key.rs, label.rs, cow.rs, common.rs; metrics-util/src/common.rs):
`PartialEq`, `Ord`, `Hash`/`key_hasher_impl`, `get_hash` and its two-atomic memo.

What the model sees.  A `SharedString` (`Cow<'static, str>`: static / owned / `Arc`-shared) compares, orders
and hashes through `deref()` only (cow.rs: `PartialEq`, `Ord`, `Hash` all forward to `str`), and a `Key`'s
`labels: Cow<'static, [Label]>` is only ever indexed — so the model sees *content only*: strings are their
UTF-8 bytes (`List Nat`, each < 256), ordered bytewise-lexicographically as `Ord for str` is.  That the real
types really do ignore how they were built is what the correspondence harness checks (every construction
path, one model value).

Case split.  `PartialEq`, `Hash` and `Ord` each `match self.labels.len()` with arms
`0 | 1 | 2 | n < 8 | n`; the `n < 8` and `n` arms run the same algorithm (stable `sort_by_key` of an index
map by label name, `[u8; 8]` on the stack vs. `Vec<usize>`), so the model has one `≥ 3` arm for both and
sorts the labels themselves rather than indices into them.  `sort_by_key` is modelled as a stable insertion
sort (a stable sort's result is unique, so the algorithm does not matter).

`Key.cmp` is `Ord::cmp` of the repaired code (fix-C03: a `2 =>` arm that orders the two labels as
`PartialEq`/`Hash` do, by the whole label).  `Key.cmpOld` is the code before the repair, kept for the
witness of the defect.
-/
namespace MetricsVerif.Key

/-- a `str` as its bytes -/
abbrev Str := List Nat

/-- `Ord for u8` / `Ord for usize` -/
def cmpNat (a b : Nat) : Ordering := if a < b then .lt else if b < a then .gt else .eq

/-- lexicographic comparison of slices (`Ord for [T]`, hence `Ord for str` on bytes) -/
def cmpList (c : α → α → Ordering) : List α → List α → Ordering
  | [], [] => .eq
  | [], _ :: _ => .lt
  | _ :: _, [] => .gt
  | a :: as, b :: bs => (c a b).then (cmpList c as bs)

/-- `Ord for str` -/
def cmpStr : Str → Str → Ordering := cmpList cmpNat

/-- `Label(SharedString, SharedString)` -/
structure Label where
  key : Str
  value : Str
  deriving DecidableEq, Repr

/-- `#[derive(Ord)] for Label`: name first, then value -/
def Label.cmp (a b : Label) : Ordering := (cmpStr a.key b.key).then (cmpStr a.value b.value)

/-- `labels[0] < labels[1]` (`#[derive(PartialOrd)]`) -/
def Label.lt (a b : Label) : Bool := a.cmp b == .lt

/-- `Key { name, labels, .. }` (the two atomics are the memo, modelled separately below) -/
structure Key where
  name : Str
  labels : List Label
  deriving DecidableEq, Repr

/-- the comparison `sort_by_key(|i| labels[*i].key())` sorts by: label *name* only -/
def keyLe (a b : Label) : Bool := cmpStr a.key b.key != .gt

/-- insertion step of the stable sort: `x` (earlier in the input) goes before the first element whose
    name is not smaller -/
def insertByKey (x : Label) : List Label → List Label
  | [] => [x]
  | y :: ys => if keyLe x y then x :: y :: ys else y :: insertByKey x ys

/-- `labels_sort_map.sort_by_key(|i| labels[*i].key())` followed by `labels[labels_sort_map[i]]`:
    the labels in stable order of their names -/
def sortByKey : List Label → List Label
  | [] => []
  | x :: xs => insertByKey x (sortByKey xs)

/-- the two-label order of `key_hasher_impl`: `if labels[0] < labels[1] { 0, 1 } else { 1, 0 }`
    (by the *whole* label) -/
def order2 (a b : Label) : List Label := if a.lt b then [a, b] else [b, a]

/-- the order in which `key_hasher_impl` feeds the labels to the hasher, per arm of
    `match labels.len()`: `0`, `1`, `2`, `n < 8` / `n` -/
def hashOrder : List Label → List Label
  | [] => []
  | [a] => [a]
  | [a, b] => order2 a b
  | a :: b :: c :: rest => sortByKey (a :: b :: c :: rest)

/-! ### `impl PartialEq for Key` -/

/-- the `match self.labels.len()` of `PartialEq::eq` (reached only when both lengths agree; the `false`
    defaults are the out-of-bounds index panics that the length check makes unreachable) -/
def eqArm : List Label → List Label → Bool
  | [], _ => true
  | [x], ys => match ys with
    | [y] => x == y
    | _ => false
  | [x0, x1], ys => match ys with
    | [y0, y1] => if x0 == y0 then x1 == y1 else if x0 == y1 then x1 == y0 else false
    | _ => false
  | x0 :: x1 :: x2 :: xs, ys => sortByKey (x0 :: x1 :: x2 :: xs) == sortByKey ys

/-- `PartialEq::eq for Key` -/
def Key.eq (a b : Key) : Bool :=
  if a.name != b.name then false
  else if a.labels.length != b.labels.length then false
  else eqArm a.labels b.labels

/-! ### `impl Ord for Key` -/

/-- the `match self.labels.len()` of `Ord::cmp` **after the repair** (arms `0`, `1`, `2`, `≥ 3`) -/
def cmpArm : List Label → List Label → Ordering
  | [], _ => .eq
  | [x], ys => match ys with
    | [y] => x.cmp y
    | _ => .eq
  | [x0, x1], ys => match ys with
    | [y0, y1] => cmpList Label.cmp (order2 x0 x1) (order2 y0 y1)
    | _ => .eq
  | x0 :: x1 :: x2 :: xs, ys => cmpList Label.cmp (sortByKey (x0 :: x1 :: x2 :: xs)) (sortByKey ys)

/-- `Ord::cmp for Key` (repaired): `(name, len)` first, then the labels in canonical order -/
def Key.cmp (a b : Key) : Ordering :=
  ((cmpStr a.name b.name).then (cmpNat a.labels.length b.labels.length)).then (cmpArm a.labels b.labels)

/-- the `match self.labels.len()` of `Ord::cmp` **before the repair**: arms `0`, `1`, `n < 8`, `n` — two
    labels fall into `n < 8` and are ordered by *name only* -/
def cmpArmOld : List Label → List Label → Ordering
  | [], _ => .eq
  | [x], ys => match ys with
    | [y] => x.cmp y
    | _ => .eq
  | x0 :: x1 :: xs, ys => cmpList Label.cmp (sortByKey (x0 :: x1 :: xs)) (sortByKey ys)

/-- `Ord::cmp for Key` before the repair -/
def Key.cmpOld (a b : Key) : Ordering :=
  ((cmpStr a.name b.name).then (cmpNat a.labels.length b.labels.length)).then (cmpArmOld a.labels b.labels)

/-! ### `impl Hash for Key` / `key_hasher_impl` -/

/-- one call on the `std::hash::Hasher` -/
inductive Write
  | bytes (b : List Nat)   -- `write(&[u8])`
  | u8 (n : Nat)           -- `write_u8`
  | usize (n : Nat)        -- `write_usize`
  deriving DecidableEq, Repr

/-- `Hash for str` (via `Hash for Cow` → `deref().hash`): `write(bytes); write_u8(0xff)` -/
def strWrites (s : Str) : List Write := [.bytes s, .u8 255]

/-- `#[derive(Hash)] for Label`: field 0, field 1 -/
def labelWrites (l : Label) : List Write := strWrites l.key ++ strWrites l.value

/-- `key_hasher_impl`: the exact sequence of `Hasher` calls of `Hash::hash for Key` -/
def hashStream (k : Key) : List Write :=
  strWrites k.name ++ [.usize k.labels.length] ++ (hashOrder k.labels).flatMap labelWrites

/-- little-endian bytes of a `usize` (64-bit target): `n.to_ne_bytes()` -/
def leBytes : Nat → Nat → List Nat
  | 0, _ => []
  | w + 1, n => n % 256 :: leBytes w (n / 256)

/-- what `KeyHasher` (which overrides `write` only) passes on to aHash: the provided methods
    `write_u8` / `write_usize` turn into `write(&[b])` / `write(&n.to_ne_bytes())` -/
def lower : Write → List Nat
  | .bytes b => b
  | .u8 n => [n]
  | .usize n => leBytes 8 n

/-- the `write` calls `generate_key_hash` makes on the `KeyHasher` -/
def keyHasherWrites (k : Key) : List (List Nat) := (hashStream k).map lower

/-- `generate_key_hash`, for an arbitrary hash function `H` of the call sequence
    (aHash is not modelled: some fixed function of what is written to it) -/
def generateKeyHash (H : List Write → Nat) (k : Key) : Nat := H (hashStream k)

/-! ### `Key::get_hash`: the memo (`hashed: AtomicBool`, `hash: AtomicU64`)

```
if self.hashed.load(Acquire) { self.hash.load(Acquire) }
else { let h = generate_key_hash(..); self.hash.store(h, Release); self.hashed.store(true, Release); h }
```
One step = one atomic operation.  Interleaving semantics plus a release/acquire fragment: a thread may rely
on seeing the value another thread stored to `hash` only if it *synchronised* with that thread, i.e. it
read `hashed == true` with an acquire load from a release store.  A load of `hash` by a thread that has not
synchronised returns the constructor's value (the stale one — the adversarial choice). -/

/-- program counter of one `get_hash()` call, or of one `clone()` call (`impl Clone for Key`):

```
Self { name: self.name.clone(), labels: self.labels.clone(),
       hashed: AtomicBool::new(self.hashed.load(Acquire)), hash: AtomicU64::new(self.hash.load(Acquire)) }
```
(struct-literal fields are evaluated in the order written: the two `Cow` clones, which touch nothing shared, then
the flag, then the value). -/
inductive PC
  | idle                -- not calling
  | loadFlag            -- before `hashed.load`
  | loadHash            -- saw `true`; before `hash.load`
  | storeHash (h : Nat) -- saw `false`, computed `h`; before `hash.store`
  | storeFlag (h : Nat) -- before `hashed.store(true)`
  | done (v : Nat)      -- returned `v`
  | cloneName           -- `clone()`: before `self.name.clone()` (thread-local work)
  | cloneLabels         -- `clone()`: before `self.labels.clone()` (thread-local work)
  | cloneFlag           -- `clone()`: before `self.hashed.load`
  | cloneHash (f : Bool)        -- `clone()`: read flag `f`; before `self.hash.load`
  | cloneHashFirst              -- `clone()` with the two loads swapped: before `self.hash.load`
  | cloneFlagSecond (v : Nat)   -- … read value `v`; before `self.hashed.load`
  | cloned (f : Bool) (v : Nat) -- `clone()` returned a key with `hashed = f`, `hash = v`
  deriving DecidableEq, Repr

/-- the orderings and the order of loads the property depends on (`true` = at least Release / Acquire) -/
structure Ords where
  flagStoreRelease : Bool
  flagLoadAcquire : Bool
  /-- `clone()`: the load of `hashed` is (at least) Acquire -/
  cloneFlagAcquire : Bool := true
  /-- `clone()` loads `hashed` before `hash` -/
  cloneFlagFirst : Bool := true
  deriving DecidableEq, Repr

/-- orderings in the code: `hashed.store(true, Release)`, `hashed.load(Acquire)`; clone: flag (Acquire) first -/
def codeOrds : Ords := ⟨true, true, true, true⟩

/-- memory orderings as the source spells them (`Ordering::…`, extracted by tools/extract.py) -/
def atLeastRelease (s : String) : Bool := s == "Release" || s == "AcqRel" || s == "SeqCst"
def atLeastAcquire (s : String) : Bool := s == "Acquire" || s == "AcqRel" || s == "SeqCst"

/-- what the source says about `clone()`: the atomic calls in source order with their orderings.  `none` unless
    they are the two loads the step machine models (in either order). -/
def cloneOfSource (calls ords : List String) : Option (Bool × Bool) :=
  match calls, ords with
  | ["hashed.load", "hash.load"], [flagLoad, _] => some (atLeastAcquire flagLoad, true)
  | ["hash.load", "hashed.load"], [_, flagLoad] => some (atLeastAcquire flagLoad, false)
  | _, _ => none

/-- the `Ords` of a `get_hash` whose atomic calls, in source order, are `calls` with orderings `ords`;
    `none` unless they are the four calls the step machine below models, in its order
    (`loadFlag`, `loadHash`, `storeHash`, `storeFlag`).  The orderings of the two accesses to `hash` are not
    looked at: under release/acquire on the flag they may be `Relaxed`. -/
def ordsOfSource (calls ords : List String) : Option Ords :=
  if calls = ["hashed.load", "hash.load", "hash.store", "hashed.store"] then
    match ords with
    | [flagLoad, _, _, flagStore] => some ⟨atLeastRelease flagStore, atLeastAcquire flagLoad, true, true⟩
    | _ => none
  else none

/-- `get_hash` and `clone` facts of the source together -/
def ordsOfSources (ghCalls ghOrds clCalls clOrds : List String) : Option Ords :=
  match ordsOfSource ghCalls ghOrds, cloneOfSource clCalls clOrds with
  | some o, some (acq, first) => some { o with cloneFlagAcquire := acq, cloneFlagFirst := first }
  | _, _ => none

structure Sys where
  /-- `hashed` -/
  hashed : Bool
  /-- `hash`: latest value in modification order -/
  hash : Nat
  /-- value `hash` was constructed with (what a non-synchronised load may still see) -/
  init : Nat
  /-- the `true` in `hashed` was written by a release store (or by the constructor, before the key was shared) -/
  flagReleased : Bool
  pc : Nat → PC
  /-- thread has synchronised with a thread that stored `hash` -/
  synced : Nat → Bool

def setPc (s : Sys) (t : Nat) (p : PC) : Sys := { s with pc := fun u => if u = t then p else s.pc u }

/-- thread `t` has read `hashed == true`: it synchronises if its load was an acquire of a released store -/
def syncIf (s : Sys) (t : Nat) (b : Bool) : Sys :=
  if b then { s with synced := fun u => if u = t then true else s.synced u } else s

/-- what a load of `hash` by thread `t` returns: the latest value if `t` has synchronised, else (adversarially)
    the value the key was constructed with -/
def readHash (s : Sys) (t : Nat) : Nat := if s.synced t then s.hash else s.init

/-- one atomic operation of thread `t`'s `get_hash()` / `clone()`; `h` = `generate_key_hash(name, labels)` -/
def step (o : Ords) (h : Nat) (s : Sys) (t : Nat) : Sys :=
  match s.pc t with
  | .idle => s
  | .loadFlag =>
    if s.hashed then
      let s' := setPc s t .loadHash
      if o.flagLoadAcquire && s.flagReleased then { s' with synced := fun u => if u = t then true else s.synced u } else s'
    else setPc s t (.storeHash h)
  | .loadHash => setPc s t (.done (if s.synced t then s.hash else s.init))
  | .storeHash v => setPc { s with hash := v } t (.storeFlag v)
  | .storeFlag v => setPc { s with hashed := true, flagReleased := o.flagStoreRelease } t (.done v)
  | .done _ => s
  | .cloneName => setPc s t .cloneLabels
  | .cloneLabels => setPc s t (if o.cloneFlagFirst then .cloneFlag else .cloneHashFirst)
  | .cloneFlag => syncIf (setPc s t (.cloneHash s.hashed)) t (s.hashed && o.cloneFlagAcquire && s.flagReleased)
  | .cloneHash f => setPc s t (.cloned f (readHash s t))
  | .cloneHashFirst => setPc s t (.cloneFlagSecond (readHash s t))
  | .cloneFlagSecond v => syncIf (setPc s t (.cloned s.hashed v)) t (s.hashed && o.cloneFlagAcquire && s.flagReleased)
  | .cloned _ _ => s

/-- run a schedule (list of thread ids) -/
def run (o : Ords) (h : Nat) (s : Sys) (sched : List Nat) : Sys := sched.foldl (step o h) s

/-- `Key::from_static_parts` / `from_static_labels`: `hashed = false, hash = 0`; threads `t < n` call `get_hash` -/
def freshStatic (n : Nat) : Sys :=
  { hashed := false, hash := 0, init := 0, flagReleased := false,
    pc := fun t => if t < n then .loadFlag else .idle, synced := fun _ => false }

/-- `Key::builder` (`from_name`, `from_parts`, `with_extra_labels`): hash computed at construction -/
def freshBuilt (h : Nat) (n : Nat) : Sys :=
  { hashed := true, hash := h, init := h, flagReleased := true,
    pc := fun t => if t < n then .loadFlag else .idle, synced := fun _ => false }

/-- what a thread does with the shared key -/
inductive Role
  | none    -- nothing
  | hasher  -- calls `get_hash()`
  | cloner  -- calls `clone()`
  deriving DecidableEq, Repr

def Role.start : Role → PC
  | .none => .idle
  | .hasher => .loadFlag
  | .cloner => .cloneName

/-- a key whose memo fields were constructed as `hashed = f`, `hash = v` (`from_static_*`: `false, 0`; `builder`:
    `true, h`; `clone()`: whatever it copied), shared by any number of threads with the given roles.  A flag that
    is up at construction was written before the key was shared, which counts as released. -/
def freshOf (f : Bool) (v : Nat) (roles : Nat → Role) : Sys :=
  { hashed := f, hash := v, init := v, flagReleased := f,
    pc := fun t => (roles t).start, synced := fun _ => false }

/-- roles given as a list (thread `t` has role `rs[t]`) -/
def rolesOf (rs : List Role) : Nat → Role := fun t => rs.getD t .none

/-! ### provided methods of the comparison traits

`impl PartialEq for Key` defines `eq` only, `impl PartialOrd for Key` defines `partial_cmp` only (as
`Some(self.cmp(other))`), `impl Ord for Key` defines `cmp` only (source facts `key_trait_impl_methods`,
`key_partial_cmp_forwards`).  So `!=`, `<`, `<=`, `>`, `>=`, `max`, `min`, `clamp` are the PROVIDED methods of
`core::cmp`, written out here as the standard library defines them. -/

/-- `PartialEq::ne` (provided): `!self.eq(other)` -/
def Key.ne (a b : Key) : Bool := !Key.eq a b

/-- `PartialOrd::partial_cmp for Key`: `Some(self.cmp(other))` -/
def Key.partialCmp (a b : Key) : Option Ordering := some (Key.cmp a b)

/-- `PartialOrd::lt` (provided): `matches!(self.partial_cmp(other), Some(Less))` -/
def Key.lt (a b : Key) : Bool :=
  match Key.partialCmp a b with
  | some .lt => true
  | _ => false

/-- `PartialOrd::le` (provided): `matches!(self.partial_cmp(other), Some(Less | Equal))` -/
def Key.le (a b : Key) : Bool :=
  match Key.partialCmp a b with
  | some .lt => true
  | some .eq => true
  | _ => false

/-- `PartialOrd::gt` (provided): `matches!(self.partial_cmp(other), Some(Greater))` -/
def Key.gt (a b : Key) : Bool :=
  match Key.partialCmp a b with
  | some .gt => true
  | _ => false

/-- `PartialOrd::ge` (provided): `matches!(self.partial_cmp(other), Some(Greater | Equal))` -/
def Key.ge (a b : Key) : Bool :=
  match Key.partialCmp a b with
  | some .gt => true
  | some .eq => true
  | _ => false

/-- `Ord::max` (provided) = `max_by(self, other, Ord::cmp)`: `Less | Equal => other`, `Greater => self` -/
def Key.max (a b : Key) : Key :=
  match Key.cmp a b with
  | .gt => a
  | _ => b

/-- `Ord::min` (provided) = `min_by(self, other, Ord::cmp)`: `Less | Equal => self`, `Greater => other` -/
def Key.min (a b : Key) : Key :=
  match Key.cmp a b with
  | .gt => b
  | _ => a

/-- `Ord::clamp` (provided; callers must pass `lo <= hi`, otherwise it panics):
    `if self < lo { lo } else if self > hi { hi } else { self }` -/
def Key.clamp (x lo hi : Key) : Key :=
  if Key.lt x lo then lo else if Key.gt x hi then hi else x

/-! ### construction paths and the memo they leave behind (sequential part)

A `Key` value as the constructors of key.rs make it: the content plus the two memo fields.  `builder` (behind
`from_name`, `from_parts`, `From<…>`, the non-literal macros and the non-empty branch of `with_extra_labels`) hashes
at construction; the `const` constructors (`from_static_name`, `from_static_parts`, and `from_static_labels`) start
with `(false, 0)`; `with_extra_labels(vec![])` is `clone()`; `clone()` copies both memo fields. -/

/-- `Key { name, labels, hashed, hash }` -/
structure RKey where
  key : Key
  hashed : Bool
  hash : Nat
  deriving DecidableEq, Repr

/-- `Key::builder(name, labels)`: `hashed = true`, `hash = generate_key_hash(&name, &labels)` -/
def RKey.builder (H : List Write → Nat) (n : Str) (ls : List Label) : RKey :=
  ⟨⟨n, ls⟩, true, generateKeyHash H ⟨n, ls⟩⟩

/-- `Key::from_static_parts` / `from_static_labels` / `from_static_name`: `hashed = false`, `hash = 0` -/
def RKey.static (n : Str) (ls : List Label) : RKey := ⟨⟨n, ls⟩, false, 0⟩

/-- `Clone::clone` while nobody else touches the key: both memo fields are copied -/
def RKey.clone (k : RKey) : RKey := ⟨k.key, k.hashed, k.hash⟩

/-- `Key::with_extra_labels`: `if extra_labels.is_empty() { return self.clone() }`, else
    `builder(name.clone(), labels.clone().into_owned() ++ extra_labels)` -/
def RKey.withExtraLabels (H : List Write → Nat) (k : RKey) (extra : List Label) : RKey :=
  match extra with
  | [] => k.clone
  | _ :: _ => RKey.builder H k.key.name (k.key.labels ++ extra)

/-- `Key::get_hash` run alone: the value returned and the key afterwards -/
def RKey.getHash (H : List Write → Nat) (k : RKey) : Nat × RKey :=
  if k.hashed then (k.hash, k) else (generateKeyHash H k.key, ⟨k.key, true, generateKeyHash H k.key⟩)

/-- `Key::into_parts` -/
def RKey.intoParts (k : RKey) : Str × List Label := (k.key.name, k.key.labels)

/-- how user code obtained a key: a public constructor followed by any number of derivations -/
inductive Path
  | fromParts (n : Str) (ls : List Label)    -- `from_name` (no labels), `from_parts`, `From<N>`, `From<(N, L)>`, macros with expressions
  | fromStatic (n : Str) (ls : List Label)   -- `from_static_name`, `from_static_parts`, `from_static_labels`, macros with literals
  | withExtra (p : Path) (extra : List Label) -- `p.with_extra_labels(extra)`
  | clone (p : Path)                          -- `p.clone()`
  | hashed (p : Path)                         -- `p` after somebody called `get_hash()` on it
  | reparts (p : Path)                        -- `Key::from_parts(name, labels)` of `p.into_parts()`
  deriving Repr

/-- the key a path produces -/
def Path.build (H : List Write → Nat) : Path → RKey
  | .fromParts n ls => RKey.builder H n ls
  | .fromStatic n ls => RKey.static n ls
  | .withExtra p extra => (p.build H).withExtraLabels H extra
  | .clone p => (p.build H).clone
  | .hashed p => ((p.build H).getHash H).2
  | .reparts p => RKey.builder H (p.build H).intoParts.1 (p.build H).intoParts.2

/-- name and labels a path is supposed to produce: the labels given so far, in the order given -/
def Path.content : Path → Key
  | .fromParts n ls => ⟨n, ls⟩
  | .fromStatic n ls => ⟨n, ls⟩
  | .withExtra p extra => ⟨p.content.name, p.content.labels ++ extra⟩
  | .clone p => p.content
  | .hashed p => p.content
  | .reparts p => p.content

/-! ### `metrics_util::CompositeKey(MetricKind, Key)` — `#[derive(PartialEq, Eq, Hash, PartialOrd, Ord)]`

What registries and the debugging snapshot key their maps with.  The derives compare field by field, in order:
the kind (a fieldless enum: by discriminant `Counter < Gauge < Histogram`), then the key. -/

/-- `metrics_util::MetricKind` -/
inductive Kind
  | counter | gauge | histogram
  deriving DecidableEq, Repr

/-- the discriminant `#[derive(PartialOrd, Ord)]` orders a fieldless enum by -/
def Kind.discr : Kind → Nat
  | .counter => 0 | .gauge => 1 | .histogram => 2

/-- `CompositeKey(MetricKind, Key)` -/
structure CompositeKey where
  kind : Kind
  key : Key
  deriving DecidableEq, Repr

/-- `#[derive(PartialEq)]`: `self.0 == other.0 && self.1 == other.1` -/
def CompositeKey.eq (a b : CompositeKey) : Bool := (a.kind == b.kind) && Key.eq a.key b.key

/-- `#[derive(Ord)]`: lexicographic, field 0 then field 1 -/
def CompositeKey.cmp (a b : CompositeKey) : Ordering :=
  (cmpNat a.kind.discr b.kind.discr).then (Key.cmp a.key b.key)

/-! ### `Label` / `KeyName` / `SharedString` on their own (`#[derive]`d on `Label(SharedString, SharedString)` and
`KeyName(SharedString)`; `Cow<str>` forwards `==`, `cmp`, `partial_cmp`, `hash` to `str`) -/

/-- `#[derive(PartialEq)] for Label` -/
def Label.eq (a b : Label) : Bool := (a.key == b.key) && (a.value == b.value)

/-- `#[derive(Hash)] for KeyName` = `Hash for str`: what `Borrow<str> for KeyName` needs in order to be lawful -/
def keyNameWrites (n : Str) : List Write := strWrites n

end MetricsVerif.Key
