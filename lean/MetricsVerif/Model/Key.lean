/-
Model of `metrics::Key` identity (metrics/src/key.rs, label.rs, cow.rs, common.rs; metrics-util/src/common.rs):
`PartialEq`, `Ord`, `Hash`/`key_hasher_impl`, `get_hash` and its two-atomic memo.

What the model sees.  A `SharedString` (`Cow<'static, str>`: static / owned / `Arc`-shared) compares, orders
and hashes through `deref()` only (cow.rs: `PartialEq`, `Ord`, `Hash` all forward to `str`), and a `Key`'s
`labels: Cow<'static, [Label]>` is only ever indexed — so the model sees *content only*: strings are their
UTF-8 bytes (`List Nat`, each < 256), ordered bytewise-lexicographically as `Ord for str` is.  That the real
types really do ignore how they were built is what the correspondence harness checks (every construction
path, one model value).

Case split.  `PartialEq`, `Hash` and `Ord` each `match self.labels.len()` with arms
`0 | 1 | 2 | n < 8 | n`; the `n < 8` and `n` arms run the same algorithm (stable `sort_by_key` of an index
map by label name, `[u8; 8]` on the stack vs. `Vec<usize>`), so the model has one `≥ 3` arm for both and
sorts the labels themselves rather than indices into them.  `sort_by_key` is modelled as a stable insertion
sort (a stable sort's result is unique, so the algorithm does not matter).

`Key.cmp` is `Ord::cmp` of the repaired code (fix-C03: a `2 =>` arm that orders the two labels as
`PartialEq`/`Hash` do, by the whole label).  `Key.cmpOld` is the code before the repair, kept for the
witness of the defect.
-/
namespace MetricsVerif.Key

/-- a `str` as its bytes -/
abbrev Str := List Nat

/-- `Ord for u8` / `Ord for usize` -/
def cmpNat (a b : Nat) : Ordering := if a < b then .lt else if b < a then .gt else .eq

/-- lexicographic comparison of slices (`Ord for [T]`, hence `Ord for str` on bytes) -/
def cmpList (c : α → α → Ordering) : List α → List α → Ordering
  | [], [] => .eq
  | [], _ :: _ => .lt
  | _ :: _, [] => .gt
  | a :: as, b :: bs => (c a b).then (cmpList c as bs)

/-- `Ord for str` -/
def cmpStr : Str → Str → Ordering := cmpList cmpNat

/-- `Label(SharedString, SharedString)` -/
structure Label where
  key : Str
  value : Str
  deriving DecidableEq, Repr

/-- `#[derive(Ord)] for Label`: name first, then value -/
def Label.cmp (a b : Label) : Ordering := (cmpStr a.key b.key).then (cmpStr a.value b.value)

/-- `labels[0] < labels[1]` (`#[derive(PartialOrd)]`) -/
def Label.lt (a b : Label) : Bool := a.cmp b == .lt

/-- `Key { name, labels, .. }` (the two atomics are the memo, modelled separately below) -/
structure Key where
  name : Str
  labels : List Label
  deriving DecidableEq, Repr

/-- the comparison `sort_by_key(|i| labels[*i].key())` sorts by: label *name* only -/
def keyLe (a b : Label) : Bool := cmpStr a.key b.key != .gt

/-- insertion step of the stable sort: `x` (earlier in the input) goes before the first element whose
    name is not smaller -/
def insertByKey (x : Label) : List Label → List Label
  | [] => [x]
  | y :: ys => if keyLe x y then x :: y :: ys else y :: insertByKey x ys

/-- `labels_sort_map.sort_by_key(|i| labels[*i].key())` followed by `labels[labels_sort_map[i]]`:
    the labels in stable order of their names -/
def sortByKey : List Label → List Label
  | [] => []
  | x :: xs => insertByKey x (sortByKey xs)

/-- the two-label order of `key_hasher_impl`: `if labels[0] < labels[1] { 0, 1 } else { 1, 0 }`
    (by the *whole* label) -/
def order2 (a b : Label) : List Label := if a.lt b then [a, b] else [b, a]

/-- the order in which `key_hasher_impl` feeds the labels to the hasher, per arm of
    `match labels.len()`: `0`, `1`, `2`, `n < 8` / `n` -/
def hashOrder : List Label → List Label
  | [] => []
  | [a] => [a]
  | [a, b] => order2 a b
  | a :: b :: c :: rest => sortByKey (a :: b :: c :: rest)

/-! ### `impl PartialEq for Key` -/

/-- the `match self.labels.len()` of `PartialEq::eq` (reached only when both lengths agree; the `false`
    defaults are the out-of-bounds index panics that the length check makes unreachable) -/
def eqArm : List Label → List Label → Bool
  | [], _ => true
  | [x], ys => match ys with
    | [y] => x == y
    | _ => false
  | [x0, x1], ys => match ys with
    | [y0, y1] => if x0 == y0 then x1 == y1 else if x0 == y1 then x1 == y0 else false
    | _ => false
  | x0 :: x1 :: x2 :: xs, ys => sortByKey (x0 :: x1 :: x2 :: xs) == sortByKey ys

/-- `PartialEq::eq for Key` -/
def Key.eq (a b : Key) : Bool :=
  if a.name != b.name then false
  else if a.labels.length != b.labels.length then false
  else eqArm a.labels b.labels

/-! ### `impl Ord for Key` -/

/-- the `match self.labels.len()` of `Ord::cmp` **after the repair** (arms `0`, `1`, `2`, `≥ 3`) -/
def cmpArm : List Label → List Label → Ordering
  | [], _ => .eq
  | [x], ys => match ys with
    | [y] => x.cmp y
    | _ => .eq
  | [x0, x1], ys => match ys with
    | [y0, y1] => cmpList Label.cmp (order2 x0 x1) (order2 y0 y1)
    | _ => .eq
  | x0 :: x1 :: x2 :: xs, ys => cmpList Label.cmp (sortByKey (x0 :: x1 :: x2 :: xs)) (sortByKey ys)

/-- `Ord::cmp for Key` (repaired): `(name, len)` first, then the labels in canonical order -/
def Key.cmp (a b : Key) : Ordering :=
  ((cmpStr a.name b.name).then (cmpNat a.labels.length b.labels.length)).then (cmpArm a.labels b.labels)

/-- the `match self.labels.len()` of `Ord::cmp` **before the repair**: arms `0`, `1`, `n < 8`, `n` — two
    labels fall into `n < 8` and are ordered by *name only* -/
def cmpArmOld : List Label → List Label → Ordering
  | [], _ => .eq
  | [x], ys => match ys with
    | [y] => x.cmp y
    | _ => .eq
  | x0 :: x1 :: xs, ys => cmpList Label.cmp (sortByKey (x0 :: x1 :: xs)) (sortByKey ys)

/-- `Ord::cmp for Key` before the repair -/
def Key.cmpOld (a b : Key) : Ordering :=
  ((cmpStr a.name b.name).then (cmpNat a.labels.length b.labels.length)).then (cmpArmOld a.labels b.labels)

/-! ### `impl Hash for Key` / `key_hasher_impl` -/

/-- one call on the `std::hash::Hasher` -/
inductive Write
  | bytes (b : List Nat)   -- `write(&[u8])`
  | u8 (n : Nat)           -- `write_u8`
  | usize (n : Nat)        -- `write_usize`
  deriving DecidableEq, Repr

/-- `Hash for str` (via `Hash for Cow` → `deref().hash`): `write(bytes); write_u8(0xff)` -/
def strWrites (s : Str) : List Write := [.bytes s, .u8 255]

/-- `#[derive(Hash)] for Label`: field 0, field 1 -/
def labelWrites (l : Label) : List Write := strWrites l.key ++ strWrites l.value

/-- `key_hasher_impl`: the exact sequence of `Hasher` calls of `Hash::hash for Key` -/
def hashStream (k : Key) : List Write :=
  strWrites k.name ++ [.usize k.labels.length] ++ (hashOrder k.labels).flatMap labelWrites

/-- little-endian bytes of a `usize` (64-bit target): `n.to_ne_bytes()` -/
def leBytes : Nat → Nat → List Nat
  | 0, _ => []
  | w + 1, n => n % 256 :: leBytes w (n / 256)

/-- what `KeyHasher` (which overrides `write` only) passes on to aHash: the provided methods
    `write_u8` / `write_usize` turn into `write(&[b])` / `write(&n.to_ne_bytes())` -/
def lower : Write → List Nat
  | .bytes b => b
  | .u8 n => [n]
  | .usize n => leBytes 8 n

/-- the `write` calls `generate_key_hash` makes on the `KeyHasher` -/
def keyHasherWrites (k : Key) : List (List Nat) := (hashStream k).map lower

/-- `generate_key_hash`, for an arbitrary hash function `H` of the call sequence
    (aHash is not modelled: some fixed function of what is written to it) -/
def generateKeyHash (H : List Write → Nat) (k : Key) : Nat := H (hashStream k)

/-! ### `Key::get_hash`: the memo (`hashed: AtomicBool`, `hash: AtomicU64`)

```
if self.hashed.load(Acquire) { self.hash.load(Acquire) }
else { let h = generate_key_hash(..); self.hash.store(h, Release); self.hashed.store(true, Release); h }
```
One step = one atomic operation.  Interleaving semantics plus a release/acquire fragment: a thread may rely
on seeing the value another thread stored to `hash` only if it *synchronised* with that thread, i.e. it
read `hashed == true` with an acquire load from a release store.  A load of `hash` by a thread that has not
synchronised returns the constructor's value (the stale one — the adversarial choice). -/

/-- program counter of one `get_hash()` call -/
inductive PC
  | idle                -- not calling
  | loadFlag            -- before `hashed.load`
  | loadHash            -- saw `true`; before `hash.load`
  | storeHash (h : Nat) -- saw `false`, computed `h`; before `hash.store`
  | storeFlag (h : Nat) -- before `hashed.store(true)`
  | done (v : Nat)      -- returned `v`
  deriving DecidableEq, Repr

/-- the two orderings the property depends on (`true` = at least Release / Acquire) -/
structure Ords where
  flagStoreRelease : Bool
  flagLoadAcquire : Bool
  deriving DecidableEq, Repr

/-- orderings in the code: `hashed.store(true, Release)`, `hashed.load(Acquire)` -/
def codeOrds : Ords := ⟨true, true⟩

/-- memory orderings as the source spells them (`Ordering::…`, extracted by tools/extract.py) -/
def atLeastRelease (s : String) : Bool := s == "Release" || s == "AcqRel" || s == "SeqCst"
def atLeastAcquire (s : String) : Bool := s == "Acquire" || s == "AcqRel" || s == "SeqCst"

/-- the `Ords` of a `get_hash` whose atomic calls, in source order, are `calls` with orderings `ords`;
    `none` unless they are the four calls the step machine below models, in its order
    (`loadFlag`, `loadHash`, `storeHash`, `storeFlag`) -/
def ordsOfSource (calls ords : List String) : Option Ords :=
  if calls = ["hashed.load", "hash.load", "hash.store", "hashed.store"] then
    match ords with
    | [flagLoad, _, _, flagStore] => some ⟨atLeastRelease flagStore, atLeastAcquire flagLoad⟩
    | _ => none
  else none

structure Sys where
  /-- `hashed` -/
  hashed : Bool
  /-- `hash`: latest value in modification order -/
  hash : Nat
  /-- value `hash` was constructed with (what a non-synchronised load may still see) -/
  init : Nat
  /-- the `true` in `hashed` was written by a release store (or by the constructor, before the key was shared) -/
  flagReleased : Bool
  pc : Nat → PC
  /-- thread has synchronised with a thread that stored `hash` -/
  synced : Nat → Bool

def setPc (s : Sys) (t : Nat) (p : PC) : Sys := { s with pc := fun u => if u = t then p else s.pc u }

/-- one atomic operation of thread `t`'s `get_hash()`; `h` = `generate_key_hash(name, labels)` -/
def step (o : Ords) (h : Nat) (s : Sys) (t : Nat) : Sys :=
  match s.pc t with
  | .idle => s
  | .loadFlag =>
    if s.hashed then
      let s' := setPc s t .loadHash
      if o.flagLoadAcquire && s.flagReleased then { s' with synced := fun u => if u = t then true else s.synced u } else s'
    else setPc s t (.storeHash h)
  | .loadHash => setPc s t (.done (if s.synced t then s.hash else s.init))
  | .storeHash v => setPc { s with hash := v } t (.storeFlag v)
  | .storeFlag v => setPc { s with hashed := true, flagReleased := o.flagStoreRelease } t (.done v)
  | .done _ => s

/-- run a schedule (list of thread ids) -/
def run (o : Ords) (h : Nat) (s : Sys) (sched : List Nat) : Sys := sched.foldl (step o h) s

/-- `Key::from_static_parts` / `from_static_labels`: `hashed = false, hash = 0`; threads `t < n` call `get_hash` -/
def freshStatic (n : Nat) : Sys :=
  { hashed := false, hash := 0, init := 0, flagReleased := false,
    pc := fun t => if t < n then .loadFlag else .idle, synced := fun _ => false }

/-- `Key::builder` (`from_name`, `from_parts`, `with_extra_labels`): hash computed at construction -/
def freshBuilt (h : Nat) (n : Nat) : Sys :=
  { hashed := true, hash := h, init := h, flagReleased := true,
    pc := fun t => if t < n then .loadFlag else .idle, synced := fun _ => false }

end MetricsVerif.Key
