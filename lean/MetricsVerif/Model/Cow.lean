/-
Ownership model of `metrics::Cow<'a, T>` (metrics/src/cow.rs): the three-word copy-on-write pointer
`(ptr, Metadata(len, capacity))` whose kind is *decoded from the capacity word alone*
(`usize::MAX` ⇒ Shared, `0` ⇒ Borrowed, anything else ⇒ Owned).

The heap.  Three families of allocations, each cell carrying what the allocator / `Arc` would know:
  * `statics`  — `&'static` data, immortal;
  * `vecs`     — buffers of `Vec<T>` / `String` (capacity, content, live flag, number of times freed);
  * `arcs`     — `ArcInner<T>` blocks (strong count, content, live flag, number of times freed) plus one
                 ghost field `ext` = how many strong references the *caller* (not a `Cow`) holds.
A pointer carries its provenance (`Ptr.stat/vec/arc i`, or `dangling` = `NonNull::dangling()` of a
capacity-0 `Vec`).  The code never looks at provenance — it only looks at the capacity word — so every
primitive checks that what the code is about to do fits what the pointer really is, and returns an error
state otherwise: `doubleFree`, `foreignFree` (free of something that is not a live Vec buffer),
`badLayout` (`from_raw_parts` with a capacity / length that is not the buffer's), `readFreed`, `wildRead`,
`strongUnderflow` / `arcUseAfterFree` (`Arc::from_raw` / `increment_strong_count` on a dead or foreign block).

The value table `vals` is the caller's set of variables: entry `h` is the `Cow` (or, after `into_owned`,
the `String`/`Vec` — same three words, same drop behaviour, see `intoOwned`) bound to handle `h`, together
with the ghost `built` = the content it was constructed from.  `none` = moved-from / dropped.

The model is sequential: sending a value to another thread and dropping it there performs the same heap
operations (the atomicity of `Arc`'s counter and the thread-safety of the allocator are trusted, DESIGN §2).
Element types with destructors: a `Vec` buffer reconstituted with a length smaller than its content leaks
the remaining elements (`leaked` counts them); a larger length is `badLayout`.
-/
namespace MetricsVerif.Cow

abbrev Content := List Nat

/-- `usize::MAX` on the 64-bit targets the harness runs on -/
def usizeMax : Nat := 18446744073709551615

/-- `enum Kind` -/
inductive Kind
  | owned | borrowed | shared
  deriving DecidableEq, Repr

inductive Ptr
  | dangling
  | stat (i : Nat)
  | vec (i : Nat)
  | arc (i : Nat)
  deriving DecidableEq, Repr

structure VecCell where
  cap : Nat
  content : Content
  live : Bool
  frees : Nat
  deriving Repr

structure ArcCell where
  strong : Nat
  ext : Nat
  content : Content
  live : Bool
  frees : Nat
  deriving Repr

/-- the three words of a `Cow` (`ptr`, `Metadata(len, capacity)`) -/
structure CowVal where
  ptr : Ptr
  len : Nat
  cap : Nat
  deriving DecidableEq, Repr

/-- `Metadata::kind` -/
def kindOf (cap : Nat) : Kind :=
  if cap = usizeMax then .shared else if cap = 0 then .borrowed else .owned

def CowVal.kind (v : CowVal) : Kind := kindOf v.cap

structure Entry where
  val : CowVal
  built : Content
  deriving Repr

inductive Err
  -- memory errors
  | doubleFree | foreignFree | badLayout | readFreed | wildRead | strongUnderflow | arcUseAfterFree
  -- caller errors that safe Rust cannot express (use of a moved value, cloning an `Arc` one does not hold,
  -- a `Vec` with len > capacity, an object of `usize::MAX` or more elements) or that panic before any unsafe
  -- code runs (`capacity == usize::MAX`)
  | deadHandle | noArcHeld | notAVec | invalidCapacity | tooLarge
  deriving DecidableEq, Repr

def Err.isMisuse : Err → Bool
  | .deadHandle | .noArcHeld | .notAVec | .invalidCapacity | .tooLarge => true
  | _ => false

structure St where
  statics : List Content := []
  vecs : List VecCell := []
  arcs : List ArcCell := []
  vals : List (Option Entry) := []
  leaked : Nat := 0
  deriving Repr

def init : St := {}

/-! ## heap primitives -/

/-- `&*slice_from_raw_parts(ptr, len)` — what `borrowed_from_parts` + a read does -/
def readPtr (s : St) (p : Ptr) (len : Nat) : Except Err Content :=
  match p with
  | .dangling => if len = 0 then .ok [] else .error .wildRead
  | .stat i =>
    match s.statics[i]? with
    | some c => if len ≤ c.length then .ok (c.take len) else .error .wildRead
    | none => .error .wildRead
  | .vec i =>
    match s.vecs[i]? with
    | some c =>
      if c.live then (if len ≤ c.content.length then .ok (c.content.take len) else .error .wildRead)
      else .error .readFreed
    | none => .error .wildRead
  | .arc i =>
    match s.arcs[i]? with
    | some c =>
      if c.live then (if len ≤ c.content.length then .ok (c.content.take len) else .error .wildRead)
      else .error .readFreed
    | none => .error .wildRead

/-- a `Vec`/`String` with this content and capacity comes into being (`to_owned`, `to_vec`, `to_string`, or
    the caller's own value): capacity 0 allocates nothing and its pointer dangles -/
def allocVec (s : St) (c : Content) (cap : Nat) : St × Ptr :=
  if cap = 0 then (s, .dangling)
  else ({ s with vecs := s.vecs ++ [{ cap, content := c, live := true, frees := 0 }] }, .vec s.vecs.length)

/-- `drop(Vec::from_raw_parts(ptr, len, cap))` -/
def freeVec (s : St) (p : Ptr) (len cap : Nat) : Except Err St :=
  if cap = 0 then (if len = 0 then .ok s else .error .wildRead) else
  match p with
  | .vec i =>
    match s.vecs[i]? with
    | some c =>
      if c.live then
        if c.cap = cap ∧ len ≤ c.content.length then
          .ok { s with vecs := s.vecs.set i { c with live := false, frees := c.frees + 1 },
                       leaked := s.leaked + (c.content.length - len) }
        else .error .badLayout
      else .error .doubleFree
    | none => .error .foreignFree
  | _ => .error .foreignFree

/-- `Arc::increment_strong_count(ptr)` / `Arc::clone` -/
def incStrong (s : St) (p : Ptr) : Except Err St :=
  match p with
  | .arc i =>
    match s.arcs[i]? with
    | some c =>
      if c.live then .ok { s with arcs := s.arcs.set i { c with strong := c.strong + 1 } }
      else .error .arcUseAfterFree
    | none => .error .arcUseAfterFree
  | _ => .error .arcUseAfterFree

/-- the block after one strong reference is given back (`dext` = 1 when it was the caller's own) -/
def ArcCell.dec (c : ArcCell) (dext : Nat) : ArcCell :=
  { c with strong := c.strong - 1, ext := c.ext - dext, live := decide (1 < c.strong),
           frees := if c.strong = 1 then c.frees + 1 else c.frees }

def decArc (s : St) (i : Nat) (dext : Nat) : Except Err St :=
  match s.arcs[i]? with
  | some c =>
    if c.live then
      if c.strong = 0 then .error .strongUnderflow
      else .ok { s with arcs := s.arcs.set i (c.dec dext) }
    else .error .arcUseAfterFree
  | none => .error .arcUseAfterFree

/-- `drop(Arc::from_raw(ptr))`: decrement, free the block when the count reaches zero -/
def decStrong (s : St) (p : Ptr) : Except Err St :=
  match p with
  | .arc i => decArc s i 0
  | _ => .error .arcUseAfterFree

/-! ## `Cowable` (identical for `str` and `[T]`) -/

/-- `Cowable::borrowed_into_parts` on a fresh `&'static` value -/
def borrowedIntoParts (s : St) (c : Content) : St × CowVal :=
  ({ s with statics := s.statics ++ [c] }, { ptr := .stat s.statics.length, len := c.length, cap := 0 })

/-- `Cowable::owned_into_parts`: the caller's `Vec` (content, capacity) is taken apart without being dropped -/
def ownedIntoParts (s : St) (c : Content) (cap : Nat) : St × CowVal :=
  let (s', p) := allocVec s c cap
  (s', { ptr := p, len := c.length, cap := cap })

/-- `Cowable::clone_from_parts` (with `clone_shared`) -/
def cloneFromParts (s : St) (v : CowVal) : Except Err (St × CowVal) :=
  match v.kind with
  | .borrowed => .ok (s, v)
  | .owned => do
    let c ← readPtr s v.ptr v.len
    .ok (ownedIntoParts s c c.length)      -- `to_string()` / `to_vec()`: exact capacity
  | .shared => do
    let s' ← incStrong s v.ptr
    .ok (s', v)

/-- `Cowable::drop_from_parts` -/
def dropFromParts (s : St) (v : CowVal) : Except Err St :=
  match v.kind with
  | .borrowed => .ok s
  | .owned => freeVec s v.ptr v.len v.cap
  | .shared => decStrong s v.ptr

/-- capacity of a freshly made copy (`to_owned`, `to_vec`, `to_string`): the standard library's choice, any
    value ≥ the length.  `fc` is what the library really chose (reported by the harness; e.g. `Arc<str>::to_string`
    goes through `Display` and ends up with `max 8 len`); a value that cannot be a capacity is replaced by the
    exact length. -/
def freshCap (len fc : Nat) : Nat := if len ≤ fc ∧ fc < usizeMax then fc else len

/-- `Cowable::owned_from_parts`: the three words of the `String`/`Vec` handed to the caller -/
def ownedFromParts (s : St) (v : CowVal) (fc : Nat) : Except Err (St × CowVal) :=
  match v.kind with
  | .borrowed => do
    let c ← readPtr s v.ptr v.len
    .ok (ownedIntoParts s c (freshCap c.length fc))
  | .owned => .ok (s, v)                    -- `from_raw_parts(ptr, len, capacity)`
  | .shared => do
    let c ← readPtr s v.ptr v.len           -- `Arc::from_raw(..)`, then `to_string()` / `to_vec()` …
    let (s1, o) := ownedIntoParts s c (freshCap c.length fc)
    let s2 ← decStrong s1 v.ptr             -- … then the reconstituted `Arc` goes out of scope
    .ok (s2, o)

/-- `Cowable::owned_from_parts` when the copy of the elements UNWINDS (`to_vec()` / `to_owned()` run the
    element type's `Clone`, which may panic): the partially built copy is released by `Vec`'s own guard
    (it never becomes a buffer of the model), and the `Arc` that the Shared arm re-materialised with
    `Arc::from_raw` BEFORE the copy goes out of scope during unwinding — one strong reference is given back.
    `none`: no user code runs on this path (Owned: `from_raw_parts`), so nothing can unwind. -/
def ownedFromPartsUnwind (s : St) (v : CowVal) : Except Err (Option St) :=
  match v.kind with
  | .borrowed => do
    let _ ← readPtr s v.ptr v.len
    .ok (some s)
  | .owned => .ok none
  | .shared => do
    let _ ← readPtr s v.ptr v.len           -- `Arc::from_raw(..)`, `to_vec()` starts reading …
    let s2 ← decStrong s v.ptr              -- … and unwinds: the reconstituted `Arc` is dropped by the landing pad
    .ok (some s2)

/-- `Cowable::clone_from_parts` when the copy of the elements unwinds: only the Owned arm runs user code
    (`to_vec()`); the partial copy is released, the source is untouched.  `true` = it unwound. -/
def cloneFromPartsUnwind (s : St) (v : CowVal) : Except Err Bool :=
  match v.kind with
  | .owned => do
    let _ ← readPtr s v.ptr v.len
    .ok true
  | .borrowed => .ok false
  | .shared => .ok false

/-! ## the value table -/

def getVal (s : St) (h : Nat) : Except Err Entry :=
  match s.vals[h]? with
  | some (some e) => .ok e
  | _ => .error .deadHandle

def pushVal (s : St) (v : CowVal) (g : Content) : St := { s with vals := s.vals ++ [some ⟨v, g⟩] }

def killVal (s : St) (h : Nat) : St := { s with vals := s.vals.set h none }

/-! ## operations -/

def heldArc (s : St) (a : Nat) : Bool :=
  match s.arcs[a]? with
  | some c => decide (0 < c.ext)
  | none => false


inductive Op
  | newArc (c : Content)                 -- caller: `Arc::<T>::from(..)`
  | dropArc (a : Nat)                    -- caller drops its own reference
  | fromBorrowed (c : Content)           -- `Cow::from_borrowed` / `const_str` / `const_slice`
  | fromOwned (c : Content) (cap : Nat)  -- `Cow::from_owned`
  | fromShared (a : Nat)                 -- `Cow::from_shared(Arc::clone(&a))`
  | clone (h : Nat)                      -- `Clone::clone`
  | deref (h : Nat)                      -- `Deref::deref` (also `Hash`, `Debug`, `Display`, `AsRef`, `Borrow`)
  | eq (h1 h2 : Nat)                     -- `PartialEq` / `Ord`: two derefs
  | intoOwned (h : Nat) (fc : Nat)       -- `Cow::into_owned` (`fc`: see `freshCap`)
  | intoStdCow (h : Nat) (fc : Nat)      -- `From<Cow<T>> for std::borrow::Cow<T>`
  | drop (h : Nat)                       -- `Drop::drop`
  | intoOwnedUnwind (h : Nat) (fc : Nat) -- `Cow::into_owned` while the element type's `Clone` panics (caught by the caller)
  | cloneUnwind (h : Nat)                -- `Clone::clone` while the element type's `Clone` panics (caught by the caller)
  | cloneFrom (hd hs : Nat)              -- `Clone::clone_from` — std's provided method, `impl Clone for Cow` defines only `clone`
  | cloneFromUnwind (hd hs : Nat)        -- `Clone::clone_from` while the element type's `Clone` panics (caught by the caller)
  | readUnwind (h1 h2 : Nat)             -- a comparison / hash (`eq ne lt le gt ge partial_cmp cmp hash hash_slice`, all of them
                                         -- two `deref`s) while the element type's `PartialEq`/`PartialOrd`/`Ord`/`Hash` panics
  deriving DecidableEq, Repr

inductive Ans
  | handle (h : Nat) (c : Content)
  | owned (h : Nat) (c : Content) (cap : Nat)
  | std (h : Nat) (isBorrowed : Bool) (c : Content)
  | content (c : Content)
  | bool (b : Bool)
  | arc (a : Nat)
  | unit
  | unwound                              -- the call did not return: it unwound (no new value exists)
  deriving DecidableEq, Repr

/-- `Cow::from_owned` -/
def fromOwned (s : St) (c : Content) (cap : Nat) : Except Err (St × CowVal) :=
  if cap < c.length then .error .notAVec else
  if usizeMax < cap then .error .tooLarge else
  let (s', v) := ownedIntoParts s c cap
  if v.cap = usizeMax then .error .invalidCapacity     -- panic!("Invalid capacity of `usize::MAX` …")
  else .ok (s', v)

/-- `Cow::into_owned`: `ManuallyDrop::new(self)` then `owned_from_parts` — `self`'s destructor does not run -/
def intoOwned (s : St) (v : CowVal) (fc : Nat) : Except Err (St × CowVal) := ownedFromParts s v fc

/-- bind a freshly made value to a new handle and read it back (what the caller sees) -/
def bindNew (s : St) (v : CowVal) (g : Content) : Except Err (St × Nat × Content) := do
  let s' := pushVal s v g
  let c ← readPtr s' v.ptr v.len
  .ok (s', s.vals.length, c)

/-- the `Clone::clone` arm of `step`, named so that the unwinding variant can fall back to it -/
def stepClone (s : St) (h : Nat) : Except Err (St × Ans) := do
  let e ← getVal s h
  let (s1, v) ← cloneFromParts s e.val
  let (s2, h', r) ← bindNew s1 v e.built
  .ok (s2, .handle h' r)

/-- the `Cow::into_owned` arm of `step`, named so that the unwinding variant can fall back to it -/
def stepIntoOwned (s : St) (h fc : Nat) : Except Err (St × Ans) := do
  let e ← getVal s h
  let (s1, o) ← intoOwned s e.val fc
  let (s2, h', r) ← bindNew (killVal s1 h) o e.built
  .ok (s2, .owned h' r o.cap)

/-- `Cow::into_owned` with a panicking element `Clone`: `ManuallyDrop::new(self)` comes FIRST, so `self`'s
    destructor does not run while the panic unwinds through `into_owned` — the value is consumed, and what
    `owned_from_parts` had taken so far is given back by its own locals (`ownedFromPartsUnwind`).  Where no
    user code runs (Owned) the call cannot unwind and returns normally. -/
def stepIntoOwnedUnwind (s : St) (h fc : Nat) : Except Err (St × Ans) :=
  match getVal s h with
  | .error er => .error er
  | .ok e =>
    match ownedFromPartsUnwind s e.val with
    | .error er => .error er
    | .ok (some s1) => .ok (killVal s1 h, .unwound)
    | .ok none => stepIntoOwned s h fc

/-- `Clone::clone` with a panicking element `Clone`: nothing has been taken when `to_vec()` unwinds, the source
    keeps its buffer, no new value exists.  Borrowed / Shared clones run no user code and return normally. -/
def stepCloneUnwind (s : St) (h : Nat) : Except Err (St × Ans) :=
  match getVal s h with
  | .error er => .error er
  | .ok e =>
    match cloneFromPartsUnwind s e.val with
    | .error er => .error er
    | .ok true => .ok (s, .unwound)
    | .ok false => stepClone s h

/-- `Clone::clone_from` as the standard library provides it (`impl Clone for Cow` defines only `clone`, pinned by
    `src_trait_methods`): `*self = source.clone()` — the clone is made FIRST, then the old value of `*self` is
    dropped (`Cow::drop`), then the new one is moved in.  The destination variable is rebound: its old handle dies,
    the fresh handle of the clone is what the variable holds from now on. -/
def stepCloneFrom (s : St) (hd hs : Nat) : Except Err (St × Ans) :=
  match getVal s hd with
  | .error er => .error er
  | .ok ed =>
    match stepClone s hs with
    | .error er => .error er
    | .ok (s1, a) =>
      match dropFromParts s1 ed.val with
      | .error er => .error er
      | .ok s2 => .ok (killVal s2 hd, a)

/-- `Clone::clone_from` with a panicking element `Clone`: the only user code runs inside `source.clone()`, BEFORE
    anything of `*self` is touched — the destination keeps its value, its buffer and its elements, no new value
    exists.  Borrowed / Shared sources run no user code: the call returns normally. -/
def stepCloneFromUnwind (s : St) (hd hs : Nat) : Except Err (St × Ans) :=
  match getVal s hd with
  | .error er => .error er
  | .ok _ =>
    match getVal s hs with
    | .error er => .error er
    | .ok e =>
      match cloneFromPartsUnwind s e.val with
      | .error er => .error er
      | .ok true => .ok (s, .unwound)
      | .ok false => stepCloneFrom s hd hs

/-- a comparison or hash of two values whose element operation panics: both values are read through `deref`
    (shared references), nothing is owned by the call, nothing changes -/
def stepReadUnwind (s : St) (h1 h2 : Nat) : Except Err (St × Ans) :=
  match getVal s h1 with
  | .error er => .error er
  | .ok e1 =>
    match getVal s h2 with
    | .error er => .error er
    | .ok e2 =>
      match readPtr s e1.val.ptr e1.val.len with
      | .error er => .error er
      | .ok _ =>
        match readPtr s e2.val.ptr e2.val.len with
        | .error er => .error er
        | .ok _ => .ok (s, .unwound)

def step (s : St) : Op → Except Err (St × Ans)
  | .newArc c =>
    if usizeMax ≤ c.length then .error .tooLarge else
    .ok ({ s with arcs := s.arcs ++ [{ strong := 1, ext := 1, content := c, live := true, frees := 0 }] },
         .arc s.arcs.length)
  | .dropArc a =>
    if heldArc s a then do
      let s1 ← decArc s a 1
      .ok (s1, .unit)
    else .error .noArcHeld
  | .fromBorrowed c =>
    if usizeMax ≤ c.length then .error .tooLarge else do
    let (s1, v) := borrowedIntoParts s c
    let (s2, h, r) ← bindNew s1 v c
    .ok (s2, .handle h r)
  | .fromOwned c cap => do
    let (s1, v) ← fromOwned s c cap
    let (s2, h, r) ← bindNew s1 v c
    .ok (s2, .handle h r)
  | .fromShared a =>
    match s.arcs[a]? with
    | some c =>
      if c.ext = 0 then .error .noArcHeld else do
      let s1 ← incStrong s (.arc a)                      -- the caller's `Arc::clone`
      -- `shared_into_parts`: `Arc::into_raw`, `Metadata::shared(len)`
      let (s2, h, r) ← bindNew s1 { ptr := .arc a, len := c.content.length, cap := usizeMax } c.content
      .ok (s2, .handle h r)
    | none => .error .noArcHeld
  | .clone h => stepClone s h
  | .deref h => do
    let e ← getVal s h
    let c ← readPtr s e.val.ptr e.val.len
    .ok (s, .content c)
  | .eq h1 h2 => do
    let e1 ← getVal s h1
    let e2 ← getVal s h2
    let c1 ← readPtr s e1.val.ptr e1.val.len
    let c2 ← readPtr s e2.val.ptr e2.val.len
    .ok (s, .bool (c1 == c2))
  | .intoOwned h fc => stepIntoOwned s h fc
  | .intoStdCow h fc => do
    let e ← getVal s h
    match e.val.kind with
    | .borrowed =>
      -- `Self::Borrowed(&*borrowed_from_parts(..))`; `value` is dropped afterwards (a no-op for Borrowed)
      let s1 ← dropFromParts s e.val
      let (s2, h', r) ← bindNew (killVal s1 h) e.val e.built
      .ok (s2, .std h' true r)
    | _ => do
      let (s1, o) ← intoOwned s e.val fc
      let (s2, h', r) ← bindNew (killVal s1 h) o e.built
      .ok (s2, .std h' false r)
  | .drop h => do
    let e ← getVal s h
    let s1 ← dropFromParts s e.val
    .ok (killVal s1 h, .unit)
  | .intoOwnedUnwind h fc => stepIntoOwnedUnwind s h fc
  | .cloneUnwind h => stepCloneUnwind s h
  | .cloneFrom hd hs => stepCloneFrom s hd hs
  | .cloneFromUnwind hd hs => stepCloneFromUnwind s hd hs
  | .readUnwind h1 h2 => stepReadUnwind s h1 h2

def run (s : St) : List Op → Except Err St
  | [] => .ok s
  | op :: ops =>
    match step s op with
    | .ok (s', _) => run s' ops
    | .error e => .error e

/-- number of live heap allocations (what the tracking allocator of the harness counts) -/
def liveAllocs (s : St) : Nat :=
  (s.vecs.filter (·.live)).length + (s.arcs.filter (·.live)).length

/-! ## well-formed op sequences: every op refers to a live handle / a held `Arc`, owned values are `Vec`s -/

def liveHandle (s : St) (h : Nat) : Bool :=
  match s.vals[h]? with
  | some (some _) => true
  | _ => false

def wfOp (s : St) : Op → Bool
  | .newArc c => decide (c.length < usizeMax)
  | .dropArc a => heldArc s a
  | .fromBorrowed c => decide (c.length < usizeMax)
  | .fromOwned c cap => decide (c.length ≤ cap) && decide (cap < usizeMax)
  | .fromShared a => heldArc s a
  | .clone h => liveHandle s h
  | .deref h => liveHandle s h
  | .eq h1 h2 => liveHandle s h1 && liveHandle s h2
  | .intoOwned h _ => liveHandle s h
  | .intoStdCow h _ => liveHandle s h
  | .drop h => liveHandle s h
  | .intoOwnedUnwind h _ => liveHandle s h
  | .cloneUnwind h => liveHandle s h
  | .cloneFrom hd hs => liveHandle s hd && liveHandle s hs
  | .cloneFromUnwind hd hs => liveHandle s hd && liveHandle s hs
  | .readUnwind h1 h2 => liveHandle s h1 && liveHandle s h2

/-- each op is well-formed in the state in which it executes (nothing is demanded after an error — the
    safety theorem shows there is none) -/
def wfRun (s : St) : List Op → Bool
  | [] => true
  | op :: ops =>
    wfOp s op &&
    match step s op with
    | .ok (s', _) => wfRun s' ops
    | .error _ => true

end MetricsVerif.Cow
