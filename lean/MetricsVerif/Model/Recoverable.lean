import MetricsVerif.Model.Sched
/-
Model of `RecoverableRecorder` / `RecoveryHandle` / `WeakRecorder` (metrics-util/src/recoverable.rs) as a
step machine over the `Arc` strong count.

  emission through the wrapper:  weak.upgrade  → (strong > 0) strong += 1, enter the recorder → rec.inside
                                                  → leave, drop the strong reference (last one drops the recorder)
                                               → (strong = 0) ignored, inert handle
  into_inner:                    spin0:recover.try_unwrap → (strong = 1) take the recorder out | retry
  drop(handle):                  h.drop → strong -= 1 (last one drops the recorder)
  emission in which the recorder panics:  as an emission; the unwind drops the strong reference (the `Arc` local of
                                 the `if let Some(recorder) = upgrade()` arm), the thread survives (catch_unwind)
  re-entrant emission:           the wrapped recorder, while executing the forwarded call, itself emits through the
                                 same wrapper (exporter telemetry): weak.upgrade → weak.upgrade (nested) → rec.inside
                                 (nested) → rec.inside (outer) — the thread then holds TWO strong references
  kept handle:                   a `register_*` through the wrapper whose returned Counter / Gauge / Histogram the caller KEEPS
                                 (`let c = counter!(..)`): upgrade → inside → leave exactly as an emission — the arm
                                 `recorder.register_counter(key, metadata)` hands the recorder's own handle on, the `Arc`
                                 local is dropped at the end of the arm; the thread's `kept` list remembers the handle
                                 (live = it came from the recorder, inert = `Counter::noop()`).  Writing through kept
                                 handles (`k.use`) and dropping them (`k.drop`) touches no field of the pair.
  deeper re-entrancy:            `emitDeep d`: the recorder's own emission re-enters the recorder, which emits again … `d` levels
                                 (the thread holds up to d + 1 references); `emitDropInside`: the recorder drops the
                                 RecoveryHandle from inside a forwarded call (count ≥ 2 → ≥ 1: finalisation waits for the
                                 return of that call); `emitIntoInside`: the recorder calls `into_inner` from inside a
                                 forwarded call — the count is ≥ 2 for as long as it tries: it never returns
  install:                       build, `set_global_recorder(wrapper)`; cell taken → wrapper dropped (weak only),
                                 `handle.into_inner()` with no emitter, recorder handed back in the error

`Arc` is trusted as the counting protocol: `Weak::upgrade` succeeds iff strong > 0, `Arc::try_unwrap`
succeeds iff strong = 1, the value is dropped exactly when the count reaches 0 without having been unwrapped.
-/
namespace MetricsVerif.Recoverable

inductive Call
  | emit               -- one describe_* / register_* through the installed wrapper
  | intoInner          -- RecoveryHandle::into_inner
  | dropHandle         -- drop(RecoveryHandle)
  | emitPanic          -- an emission during which the wrapped recorder panics (the thread survives the unwind)
  | emitNested         -- an emission during which the wrapped recorder emits once more through the same wrapper
  | emitKeep           -- a register_* through the wrapper whose returned handle the caller keeps
  | useKept            -- the caller writes through every handle it kept
  | dropKept           -- the caller drops every handle it kept
  | emitDeep (d : Nat) -- an emission during which the wrapped recorder emits again through the wrapper, `d` levels deep
                       -- (the recorder's own emission re-enters the recorder, which emits again, …: depth `d + 1`)
  | emitDropInside     -- an emission during which the wrapped recorder, inside the forwarded call, drops the RecoveryHandle
  | emitIntoInside     -- an emission during which the wrapped recorder, inside the forwarded call, calls `into_inner`
  deriving Repr, DecidableEq

inductive Res
  | delivered          -- the call reached the wrapped recorder
  | ignored            -- upgrade failed: no-op / inert handle
  | recovered          -- into_inner returned the recorder
  | dropped            -- handle dropped
  | panicked           -- the call reached the wrapped recorder, which panicked; the unwind released the reference
  | nestedDelivered    -- the re-entrant (inner) call of an `emitNested` reached the wrapped recorder
  | nestedIgnored      -- the re-entrant (inner) call of an `emitNested` was answered with an inert handle
  | used (live inert : Nat)   -- wrote through the kept handles: so many reached the recorder's storage, so many were inert
  | keptDropped (n : Nat)     -- dropped `n` kept handles
  deriving Repr, DecidableEq

inductive PC
  | start | upgrade | inside | tryUnwrap | hdrop | done
  | nUpgrade           -- inside the recorder (outer call), about to upgrade again for the re-entrant call
  | nInside            -- inside the recorder twice (outer and re-entrant call)
  | use                -- about to write through the kept handles
  | kdrop              -- about to drop the kept handles
  | dUp (k : Nat)      -- `emitDeep`: inside the recorder `k` times, about to upgrade once more (re-entrant call number `k`)
  | dIn (k : Nat)      -- `emitDeep`: inside the recorder `k` times (k ≥ 2), the innermost call about to return
  | iHdrop             -- inside the recorder (once), about to drop the RecoveryHandle from there
  | iTry               -- inside the recorder (once), at the head of `into_inner`'s retry loop
  deriving Repr, DecidableEq

structure Thread where
  calls : List Call
  pc : PC
  results : List Res
  kept : List Bool := []       -- metric handles the caller kept, oldest first: `true` live (the recorder's), `false` inert (no-op)
  deriving Repr, DecidableEq

structure Sys where
  strong : Nat                 -- Arc strong count
  handle : Bool                -- the RecoveryHandle still exists (it owns one strong reference)
  inside : Nat                 -- emissions currently executing inside the recorder
  finalised : Nat              -- how many times the recorder's destructor ran
  recovered : Bool             -- into_inner handed the recorder back to the caller
  enteredAfterEnd : Bool       -- some call entered the recorder after finalisation / recovery (must stay false)
  unwrapBusy : Bool            -- into_inner returned while a call was inside (must stay false)
  threads : List Thread
  deriving Repr, DecidableEq

def pcOfCall : Call → PC
  | .emit => .upgrade
  | .intoInner => .tryUnwrap
  | .dropHandle => .hdrop
  | .emitPanic => .upgrade
  | .emitNested => .upgrade
  | .emitKeep => .upgrade
  | .useKept => .use
  | .dropKept => .kdrop
  | .emitDeep _ => .upgrade
  | .emitDropInside => .upgrade
  | .emitIntoInside => .upgrade

def Thread.advance (t : Thread) (r : Res) : Thread :=
  let rest := t.calls.tail
  { t with calls := rest, results := t.results ++ [r],
           pc := match rest with | [] => .done | c :: _ => pcOfCall c }

def mkThread (calls : List Call) : Thread := { calls, pc := .start, results := [] }

def init (progs : List (List Call)) : Sys :=
  { strong := 1, handle := true, inside := 0, finalised := 0, recovered := false,
    enteredAfterEnd := false, unwrapBusy := false, threads := progs.map mkThread }

/-- dropping one strong reference; the last one runs the recorder's destructor -/
def release (s : Sys) : Sys :=
  if s.strong = 1 then { s with strong := 0, finalised := s.finalised + 1 } else { s with strong := s.strong - 1 }

/-- `Weak::upgrade` succeeded: one more strong reference, one more call inside the recorder -/
def enter (s : Sys) : Sys :=
  { s with strong := s.strong + 1, inside := s.inside + 1,
           enteredAfterEnd := s.enteredAfterEnd || decide (s.finalised > 0) || s.recovered }

/-- the `weak.upgrade` step of an emission: enter the recorder (next pc `pc'`) or answer with an inert handle -/
def upgradeStep (s : Sys) (t : Thread) (pc' : PC) : Sys × Thread :=
  if s.strong > 0 then (enter s, { t with pc := pc' }) else (s, t.advance .ignored)

/-- the call returns (or unwinds): leave the recorder and drop the strong reference -/
def leaveStep (s : Sys) (t : Thread) (r : Res) : Sys × Thread :=
  (release { s with inside := s.inside - 1 }, t.advance r)

/-- the `weak.upgrade` step of a registration whose handle is kept: enter the recorder, or keep the inert
    handle (`Counter::noop()`) the wrapper answers with -/
def keepUpgradeStep (s : Sys) (t : Thread) : Sys × Thread :=
  if s.strong > 0 then (enter s, { t with pc := .inside })
  else (s, { (t.advance .ignored) with kept := t.kept ++ [false] })

/-- the registration returns: the strong reference of the call is dropped as for every emission; what the
    caller keeps is the wrapped recorder's own handle, which holds no reference to the `Arc` of the pair -/
def keepLeaveStep (s : Sys) (t : Thread) : Sys × Thread :=
  (release { s with inside := s.inside - 1 }, { (t.advance .delivered) with kept := t.kept ++ [true] })

/-- writing through the kept handles: live ones reach the storage the recorder handed out, inert ones nothing;
    neither enters the recorder nor touches the count -/
def useStep (s : Sys) (t : Thread) : Sys × Thread :=
  (s, t.advance (.used (t.kept.filter (· == true)).length (t.kept.filter (· == false)).length))

/-- dropping the kept handles: no field of the pair changes (in particular nothing is finalised by it) -/
def kdropStep (s : Sys) (t : Thread) : Sys × Thread :=
  (s, { (t.advance (.keptDropped t.kept.length)) with kept := [] })

/-- `emitDeep d`, the thread is inside the recorder `k` times (k ≥ 1) and the recorder emits once more through
    the wrapper: `Weak::upgrade` — it cannot fail in a reachable state (the thread itself holds `k` references) —
    then either one more level follows (`k < d`) or the innermost call is reached -/
def deepUpStep (s : Sys) (t : Thread) (k d : Nat) : Sys × Thread :=
  if k = 0 then (s, t) else
  if s.strong > 0 then (enter s, { t with pc := if k + 1 > d then .dIn (k + 1) else .dUp (k + 1) })
  else (s, { t with pc := (if k = 1 then .inside else .dIn k), results := t.results ++ [.nestedIgnored] })

/-- `emitDeep`: the innermost of `k ≥ 2` calls of the thread returns to the one around it and drops its reference -/
def deepLeaveStep (s : Sys) (t : Thread) (k : Nat) : Sys × Thread :=
  if k < 2 then (s, t) else
  (release { s with inside := s.inside - 1 },
   { t with pc := (if k = 2 then .inside else .dIn (k - 1)), results := t.results ++ [.nestedDelivered] })

/-- `drop(handle)` issued by the wrapped recorder from inside a forwarded call: the handle's reference goes, the
    one of the call stays (so this is never the last one in a reachable state); what is left of the call is the
    return of an ordinary emission -/
def dropInsideStep (s : Sys) (t : Thread) (rest : List Call) : Sys × Thread :=
  let t' : Thread := { t with pc := .inside, calls := .emit :: rest, results := t.results ++ [.dropped] }
  if s.handle then (release { s with handle := false }, t') else (s, t')

/-- one `Arc::try_unwrap` attempt of an `into_inner` called by the wrapped recorder from inside a forwarded call;
    the success arm is there for totality only (theorem `into_inner_from_inside_never_returns`) -/
def intoInsideStep (s : Sys) (t : Thread) (rest : List Call) : Sys × Thread :=
  if s.handle && s.strong = 1 then
    ({ s with strong := 0, handle := false, recovered := true, unwrapBusy := s.unwrapBusy || decide (s.inside > 0) },
     { t with pc := .inside, calls := .emit :: rest, results := t.results ++ [.recovered] })
  else (s, t)                                     -- retry

def stepThread (s : Sys) (t : Thread) : Sys × Thread :=
  match t.pc, t.calls with
  | .start, [] => (s, { t with pc := .done })
  | .start, c :: _ => (s, { t with pc := pcOfCall c })
  | .upgrade, .emit :: _ => upgradeStep s t .inside
  | .upgrade, .emitPanic :: _ => upgradeStep s t .inside
  | .upgrade, .emitNested :: _ => upgradeStep s t .nUpgrade
  | .inside, .emit :: _ => leaveStep s t .delivered
  | .inside, .emitPanic :: _ => leaveStep s t .panicked
  | .inside, .emitNested :: _ => leaveStep s t .delivered
  | .nUpgrade, .emitNested :: _ =>
    if s.strong > 0 then (enter s, { t with pc := .nInside })
    else (s, { t with pc := .inside, results := t.results ++ [.nestedIgnored] })
  | .nInside, .emitNested :: _ =>
    (release { s with inside := s.inside - 1 }, { t with pc := .inside, results := t.results ++ [.nestedDelivered] })
  | .tryUnwrap, .intoInner :: _ =>
    if s.handle && s.strong = 1 then
      ({ s with strong := 0, handle := false, recovered := true, unwrapBusy := s.unwrapBusy || decide (s.inside > 0) },
       t.advance .recovered)
    else (s, t)                                   -- retry
  | .hdrop, .dropHandle :: _ =>
    if s.handle then (release { s with handle := false }, t.advance .dropped) else (s, t.advance .dropped)
  | .upgrade, .emitKeep :: _ => keepUpgradeStep s t
  | .inside, .emitKeep :: _ => keepLeaveStep s t
  | .use, .useKept :: _ => useStep s t
  | .kdrop, .dropKept :: _ => kdropStep s t
  | .upgrade, .emitDeep d :: _ => upgradeStep s t (if d = 0 then .inside else .dUp 1)
  | .inside, .emitDeep _ :: _ => leaveStep s t .delivered
  | .dUp k, .emitDeep d :: _ => deepUpStep s t k d
  | .dIn k, .emitDeep _ :: _ => deepLeaveStep s t k
  | .upgrade, .emitDropInside :: _ => upgradeStep s t .iHdrop
  | .iHdrop, .emitDropInside :: rest => dropInsideStep s t rest
  | .upgrade, .emitIntoInside :: _ => upgradeStep s t .iTry
  | .iTry, .emitIntoInside :: rest => intoInsideStep s t rest
  | _, _ => (s, t)

def step (s : Sys) (tid : Nat) : Sys :=
  match s.threads[tid]? with
  | none => s
  | some t =>
    let (s', t') := stepThread s t
    { s' with threads := setAt s'.threads tid t' }

def run (s : Sys) (sched : List Nat) : Sys := sched.foldl step s

def PC.label : PC → String
  | .start => "start" | .upgrade => "weak.upgrade" | .inside => "rec.inside"
  | .tryUnwrap => "spin0:recover.try_unwrap" | .hdrop => "h.drop" | .done => "done"
  | .nUpgrade => "weak.upgrade" | .nInside => "rec.inside"
  | .use => "k.use" | .kdrop => "k.drop"
  | .dUp _ => "weak.upgrade" | .dIn _ => "rec.inside"
  | .iHdrop => "h.drop" | .iTry => "spin0:recover.try_unwrap"

/-! ### what every complete schedule ends with (theorem `C20.complete_outcome`) -/

/-- calls that consume the handle through `into_inner` (an `into_inner` from inside a forwarded call never returns:
    no complete schedule has executed one) / that drop it -/
def isII : Call → Bool
  | .intoInner => true | _ => false
def isDH : Call → Bool
  | .dropHandle => true | .emitDropInside => true | _ => false
def iiTotal (progs : List (List Call)) : Nat := (progs.map (fun p => (p.filter isII).length)).sum
def dhTotal (progs : List (List Call)) : Nat := (progs.map (fun p => (p.filter isDH).length)).sum

/-- (finalised, recovered) once every thread has run its program to the end — whatever the schedule was -/
def completeOutcome (progs : List (List Call)) : Nat × Bool :=
  if iiTotal progs > 0 then (0, true) else if dhTotal progs > 0 then (1, false) else (0, false)

/-! ### `RecoverableRecorder::install` against the process-wide recorder cell

`cell` is the id of the recorder whose wrapper already sits in the global cell (`none` = empty).  `install`
builds the pair (one strong reference, held by the handle; the wrapper holds only a weak one) and calls
`metrics::set_global_recorder(wrapper)`.  On success the handle is returned and the pair starts its life
(`init`).  On failure the wrapper comes back inside the error and is dropped there (a weak reference: the
strong count is untouched, nobody can ever emit through it), then `handle.into_inner()` runs — the step
machine with the single program `[intoInner]` and no emitter — and the recorder travels back in
`SetRecorderError`. -/

inductive InstallOut
  | installed                                        -- `Ok(handle)`
  | handedBack (id : Nat) (finalised : Nat) (recovered : Bool)   -- `Err(SetRecorderError(recorder))`
  deriving Repr, DecidableEq

/-- the pair as `install` uses it on its error path: only the installing thread, which calls `into_inner` -/
def failedInstallSys (sched : List Nat) : Sys := run (init [[.intoInner]]) sched

def install (cell : Option Nat) (id : Nat) : Option Nat × InstallOut :=
  match cell with
  | none => (some id, .installed)
  | some g =>
    let s := failedInstallSys [0, 0]       -- start, one `Arc::try_unwrap`
    (some g, .handedBack id s.finalised s.recovered)

end MetricsVerif.Recoverable
