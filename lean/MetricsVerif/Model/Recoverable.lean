import MetricsVerif.Model.Sched
/-
Model of `RecoverableRecorder` / `RecoveryHandle` / `WeakRecorder` (metrics-util/src/recoverable.rs) as a
step machine over the `Arc` strong count.

  emission through the wrapper:  weak.upgrade  → (strong > 0) strong += 1, enter the recorder → rec.inside
                                                  → leave, drop the strong reference (last one drops the recorder)
                                               → (strong = 0) ignored, inert handle
  into_inner:                    spin0:recover.try_unwrap → (strong = 1) take the recorder out | retry
  drop(handle):                  h.drop → strong -= 1 (last one drops the recorder)

`Arc` is trusted as the counting protocol: `Weak::upgrade` succeeds iff strong > 0, `Arc::try_unwrap`
succeeds iff strong = 1, the value is dropped exactly when the count reaches 0 without having been unwrapped.
-/
namespace MetricsVerif.Recoverable

inductive Call
  | emit               -- one describe_* / register_* through the installed wrapper
  | intoInner          -- RecoveryHandle::into_inner
  | dropHandle         -- drop(RecoveryHandle)
  deriving Repr, DecidableEq

inductive Res
  | delivered          -- the call reached the wrapped recorder
  | ignored            -- upgrade failed: no-op / inert handle
  | recovered          -- into_inner returned the recorder
  | dropped            -- handle dropped
  deriving Repr, DecidableEq

inductive PC
  | start | upgrade | inside | tryUnwrap | hdrop | done
  deriving Repr, DecidableEq

structure Thread where
  calls : List Call
  pc : PC
  results : List Res
  deriving Repr, DecidableEq

structure Sys where
  strong : Nat                 -- Arc strong count
  handle : Bool                -- the RecoveryHandle still exists (it owns one strong reference)
  inside : Nat                 -- emissions currently executing inside the recorder
  finalised : Nat              -- how many times the recorder's destructor ran
  recovered : Bool             -- into_inner handed the recorder back to the caller
  enteredAfterEnd : Bool       -- some call entered the recorder after finalisation / recovery (must stay false)
  unwrapBusy : Bool            -- into_inner returned while a call was inside (must stay false)
  threads : List Thread
  deriving Repr, DecidableEq

def pcOfCall : Call → PC
  | .emit => .upgrade
  | .intoInner => .tryUnwrap
  | .dropHandle => .hdrop

def Thread.advance (t : Thread) (r : Res) : Thread :=
  let rest := t.calls.tail
  { t with calls := rest, results := t.results ++ [r],
           pc := match rest with | [] => .done | c :: _ => pcOfCall c }

def mkThread (calls : List Call) : Thread := { calls, pc := .start, results := [] }

def init (progs : List (List Call)) : Sys :=
  { strong := 1, handle := true, inside := 0, finalised := 0, recovered := false,
    enteredAfterEnd := false, unwrapBusy := false, threads := progs.map mkThread }

/-- dropping one strong reference; the last one runs the recorder's destructor -/
def release (s : Sys) : Sys :=
  if s.strong = 1 then { s with strong := 0, finalised := s.finalised + 1 } else { s with strong := s.strong - 1 }

def stepThread (s : Sys) (t : Thread) : Sys × Thread :=
  match t.pc, t.calls with
  | .start, [] => (s, { t with pc := .done })
  | .start, c :: _ => (s, { t with pc := pcOfCall c })
  | .upgrade, .emit :: _ =>
    if s.strong > 0 then
      ({ s with strong := s.strong + 1, inside := s.inside + 1,
                enteredAfterEnd := s.enteredAfterEnd || decide (s.finalised > 0) || s.recovered },
       { t with pc := .inside })
    else (s, t.advance .ignored)
  | .inside, .emit :: _ => (release { s with inside := s.inside - 1 }, t.advance .delivered)
  | .tryUnwrap, .intoInner :: _ =>
    if s.handle && s.strong = 1 then
      ({ s with strong := 0, handle := false, recovered := true, unwrapBusy := s.unwrapBusy || decide (s.inside > 0) },
       t.advance .recovered)
    else (s, t)                                   -- retry
  | .hdrop, .dropHandle :: _ =>
    if s.handle then (release { s with handle := false }, t.advance .dropped) else (s, t.advance .dropped)
  | _, _ => (s, t)

def step (s : Sys) (tid : Nat) : Sys :=
  match s.threads[tid]? with
  | none => s
  | some t =>
    let (s', t') := stepThread s t
    { s' with threads := setAt s'.threads tid t' }

def run (s : Sys) (sched : List Nat) : Sys := sched.foldl step s

def PC.label : PC → String
  | .start => "start" | .upgrade => "weak.upgrade" | .inside => "rec.inside"
  | .tryUnwrap => "spin0:recover.try_unwrap" | .hdrop => "h.drop" | .done => "done"

end MetricsVerif.Recoverable
