import MetricsVerif.Model.Sched
/-
Model of `RecoverableRecorder` / `RecoveryHandle` / `WeakRecorder` (metrics-util/src/recoverable.rs) as a
step machine over the `Arc` strong count.

  emission through the wrapper:  weak.upgrade  → (strong > 0) strong += 1, enter the recorder → rec.inside
                                                  → leave, drop the strong reference (last one drops the recorder)
                                               → (strong = 0) ignored, inert handle
  into_inner:                    spin0:recover.try_unwrap → (strong = 1) take the recorder out | retry
  drop(handle):                  h.drop → strong -= 1 (last one drops the recorder)
  emission in which the recorder panics:  as an emission; the unwind drops the strong reference (the `Arc` local of
                                 the `if let Some(recorder) = upgrade()` arm), the thread survives (catch_unwind)
  re-entrant emission:           the wrapped recorder, while executing the forwarded call, itself emits through the
                                 same wrapper (exporter telemetry): weak.upgrade → weak.upgrade (nested) → rec.inside
                                 (nested) → rec.inside (outer) — the thread then holds TWO strong references
  kept handle:                   a `register_*` through the wrapper whose returned Counter / Gauge / Histogram the caller KEEPS
                                 (`let c = counter!(..)`): upgrade → inside → leave exactly as an emission — the arm
                                 `recorder.register_counter(key, metadata)` hands the recorder's own handle on, the `Arc`
                                 local is dropped at the end of the arm; the thread's `kept` list remembers the handle
                                 (live = it came from the recorder, inert = `Counter::noop()`).  Writing through kept
                                 handles (`k.use`) and dropping them (`k.drop`) touches no field of the pair.
  install:                       build, `set_global_recorder(wrapper)`; cell taken → wrapper dropped (weak only),
                                 `handle.into_inner()` with no emitter, recorder handed back in the error

`Arc` is trusted as the counting protocol: `Weak::upgrade` succeeds iff strong > 0, `Arc::try_unwrap`
succeeds iff strong = 1, the value is dropped exactly when the count reaches 0 without having been unwrapped.
-/
namespace MetricsVerif.Recoverable

inductive Call
  | emit               -- one describe_* / register_* through the installed wrapper
  | intoInner          -- RecoveryHandle::into_inner
  | dropHandle         -- drop(RecoveryHandle)
  | emitPanic          -- an emission during which the wrapped recorder panics (the thread survives the unwind)
  | emitNested         -- an emission during which the wrapped recorder emits once more through the same wrapper
  | emitKeep           -- a register_* through the wrapper whose returned handle the caller keeps
  | useKept            -- the caller writes through every handle it kept
  | dropKept           -- the caller drops every handle it kept
  deriving Repr, DecidableEq

inductive Res
  | delivered          -- the call reached the wrapped recorder
  | ignored            -- upgrade failed: no-op / inert handle
  | recovered          -- into_inner returned the recorder
  | dropped            -- handle dropped
  | panicked           -- the call reached the wrapped recorder, which panicked; the unwind released the reference
  | nestedDelivered    -- the re-entrant (inner) call of an `emitNested` reached the wrapped recorder
  | nestedIgnored      -- the re-entrant (inner) call of an `emitNested` was answered with an inert handle
  | used (live inert : Nat)   -- wrote through the kept handles: so many reached the recorder's storage, so many were inert
  | keptDropped (n : Nat)     -- dropped `n` kept handles
  deriving Repr, DecidableEq

inductive PC
  | start | upgrade | inside | tryUnwrap | hdrop | done
  | nUpgrade           -- inside the recorder (outer call), about to upgrade again for the re-entrant call
  | nInside            -- inside the recorder twice (outer and re-entrant call)
  | use                -- about to write through the kept handles
  | kdrop              -- about to drop the kept handles
  deriving Repr, DecidableEq

structure Thread where
  calls : List Call
  pc : PC
  results : List Res
  kept : List Bool := []       -- metric handles the caller kept, oldest first: `true` live (the recorder's), `false` inert (no-op)
  deriving Repr, DecidableEq

structure Sys where
  strong : Nat                 -- Arc strong count
  handle : Bool                -- the RecoveryHandle still exists (it owns one strong reference)
  inside : Nat                 -- emissions currently executing inside the recorder
  finalised : Nat              -- how many times the recorder's destructor ran
  recovered : Bool             -- into_inner handed the recorder back to the caller
  enteredAfterEnd : Bool       -- some call entered the recorder after finalisation / recovery (must stay false)
  unwrapBusy : Bool            -- into_inner returned while a call was inside (must stay false)
  threads : List Thread
  deriving Repr, DecidableEq

def pcOfCall : Call → PC
  | .emit => .upgrade
  | .intoInner => .tryUnwrap
  | .dropHandle => .hdrop
  | .emitPanic => .upgrade
  | .emitNested => .upgrade
  | .emitKeep => .upgrade
  | .useKept => .use
  | .dropKept => .kdrop

def Thread.advance (t : Thread) (r : Res) : Thread :=
  let rest := t.calls.tail
  { t with calls := rest, results := t.results ++ [r],
           pc := match rest with | [] => .done | c :: _ => pcOfCall c }

def mkThread (calls : List Call) : Thread := { calls, pc := .start, results := [] }

def init (progs : List (List Call)) : Sys :=
  { strong := 1, handle := true, inside := 0, finalised := 0, recovered := false,
    enteredAfterEnd := false, unwrapBusy := false, threads := progs.map mkThread }

/-- dropping one strong reference; the last one runs the recorder's destructor -/
def release (s : Sys) : Sys :=
  if s.strong = 1 then { s with strong := 0, finalised := s.finalised + 1 } else { s with strong := s.strong - 1 }

/-- `Weak::upgrade` succeeded: one more strong reference, one more call inside the recorder -/
def enter (s : Sys) : Sys :=
  { s with strong := s.strong + 1, inside := s.inside + 1,
           enteredAfterEnd := s.enteredAfterEnd || decide (s.finalised > 0) || s.recovered }

/-- the `weak.upgrade` step of an emission: enter the recorder (next pc `pc'`) or answer with an inert handle -/
def upgradeStep (s : Sys) (t : Thread) (pc' : PC) : Sys × Thread :=
  if s.strong > 0 then (enter s, { t with pc := pc' }) else (s, t.advance .ignored)

/-- the call returns (or unwinds): leave the recorder and drop the strong reference -/
def leaveStep (s : Sys) (t : Thread) (r : Res) : Sys × Thread :=
  (release { s with inside := s.inside - 1 }, t.advance r)

/-- the `weak.upgrade` step of a registration whose handle is kept: enter the recorder, or keep the inert
    handle (`Counter::noop()`) the wrapper answers with -/
def keepUpgradeStep (s : Sys) (t : Thread) : Sys × Thread :=
  if s.strong > 0 then (enter s, { t with pc := .inside })
  else (s, { (t.advance .ignored) with kept := t.kept ++ [false] })

/-- the registration returns: the strong reference of the call is dropped as for every emission; what the
    caller keeps is the wrapped recorder's own handle, which holds no reference to the `Arc` of the pair -/
def keepLeaveStep (s : Sys) (t : Thread) : Sys × Thread :=
  (release { s with inside := s.inside - 1 }, { (t.advance .delivered) with kept := t.kept ++ [true] })

/-- writing through the kept handles: live ones reach the storage the recorder handed out, inert ones nothing;
    neither enters the recorder nor touches the count -/
def useStep (s : Sys) (t : Thread) : Sys × Thread :=
  (s, t.advance (.used (t.kept.filter (· == true)).length (t.kept.filter (· == false)).length))

/-- dropping the kept handles: no field of the pair changes (in particular nothing is finalised by it) -/
def kdropStep (s : Sys) (t : Thread) : Sys × Thread :=
  (s, { (t.advance (.keptDropped t.kept.length)) with kept := [] })

def stepThread (s : Sys) (t : Thread) : Sys × Thread :=
  match t.pc, t.calls with
  | .start, [] => (s, { t with pc := .done })
  | .start, c :: _ => (s, { t with pc := pcOfCall c })
  | .upgrade, .emit :: _ => upgradeStep s t .inside
  | .upgrade, .emitPanic :: _ => upgradeStep s t .inside
  | .upgrade, .emitNested :: _ => upgradeStep s t .nUpgrade
  | .inside, .emit :: _ => leaveStep s t .delivered
  | .inside, .emitPanic :: _ => leaveStep s t .panicked
  | .inside, .emitNested :: _ => leaveStep s t .delivered
  | .nUpgrade, .emitNested :: _ =>
    if s.strong > 0 then (enter s, { t with pc := .nInside })
    else (s, { t with pc := .inside, results := t.results ++ [.nestedIgnored] })
  | .nInside, .emitNested :: _ =>
    (release { s with inside := s.inside - 1 }, { t with pc := .inside, results := t.results ++ [.nestedDelivered] })
  | .tryUnwrap, .intoInner :: _ =>
    if s.handle && s.strong = 1 then
      ({ s with strong := 0, handle := false, recovered := true, unwrapBusy := s.unwrapBusy || decide (s.inside > 0) },
       t.advance .recovered)
    else (s, t)                                   -- retry
  | .hdrop, .dropHandle :: _ =>
    if s.handle then (release { s with handle := false }, t.advance .dropped) else (s, t.advance .dropped)
  | .upgrade, .emitKeep :: _ => keepUpgradeStep s t
  | .inside, .emitKeep :: _ => keepLeaveStep s t
  | .use, .useKept :: _ => useStep s t
  | .kdrop, .dropKept :: _ => kdropStep s t
  | _, _ => (s, t)

def step (s : Sys) (tid : Nat) : Sys :=
  match s.threads[tid]? with
  | none => s
  | some t =>
    let (s', t') := stepThread s t
    { s' with threads := setAt s'.threads tid t' }

def run (s : Sys) (sched : List Nat) : Sys := sched.foldl step s

def PC.label : PC → String
  | .start => "start" | .upgrade => "weak.upgrade" | .inside => "rec.inside"
  | .tryUnwrap => "spin0:recover.try_unwrap" | .hdrop => "h.drop" | .done => "done"
  | .nUpgrade => "weak.upgrade" | .nInside => "rec.inside"
  | .use => "k.use" | .kdrop => "k.drop"

/-! ### `RecoverableRecorder::install` against the process-wide recorder cell

`cell` is the id of the recorder whose wrapper already sits in the global cell (`none` = empty).  `install`
builds the pair (one strong reference, held by the handle; the wrapper holds only a weak one) and calls
`metrics::set_global_recorder(wrapper)`.  On success the handle is returned and the pair starts its life
(`init`).  On failure the wrapper comes back inside the error and is dropped there (a weak reference: the
strong count is untouched, nobody can ever emit through it), then `handle.into_inner()` runs — the step
machine with the single program `[intoInner]` and no emitter — and the recorder travels back in
`SetRecorderError`. -/

inductive InstallOut
  | installed                                        -- `Ok(handle)`
  | handedBack (id : Nat) (finalised : Nat) (recovered : Bool)   -- `Err(SetRecorderError(recorder))`
  deriving Repr, DecidableEq

/-- the pair as `install` uses it on its error path: only the installing thread, which calls `into_inner` -/
def failedInstallSys (sched : List Nat) : Sys := run (init [[.intoInner]]) sched

def install (cell : Option Nat) (id : Nat) : Option Nat × InstallOut :=
  match cell with
  | none => (some id, .installed)
  | some g =>
    let s := failedInstallSys [0, 0]       -- start, one `Arc::try_unwrap`
    (some g, .handedBack id s.finalised s.recovered)

end MetricsVerif.Recoverable
