import MetricsVerif.Model.Sched
/-
Model of the lock-free `AtomicBucket` / `Block` (metrics-util/src/storage/bucket.rs) as a step machine at the
granularity of one shared-memory operation; PC names are the `metrics::verif::point` ids in bucket.rs.

Block.  `write` is the claim counter (`fetch_add`, may exceed the block size `B`).  `cells` are the claimed
slots in claim order (so `cells.length = min write B`): a claim appends a `written v` cell (slot written, bit not
yet set), the publish step (`read.fetch_or(1 << idx)`) turns it into `published v`.  `len` (trailing ones of the
read bitmap) is the length of the longest all-published prefix; `data()` returns that prefix; `is_quiesced` is
"every claimed slot is published".

Bucket.  `blocks` in allocation order, `tail : Option BlockId`, `next` links written by the pusher that
installed a block BEFORE its CAS (since the `fix:` commit; previously after it — the hand-over window).  Readers: `data_with` (snapshot), `clear_with`
(detach by CAS — retried from the tail load when the CAS fails, since the `fix:` commit "clear_with retries its detach …" —
then walk), `is_empty`.  Reclamation (crossbeam-epoch) is not modelled: blocks are never reused.

Ghost state: `completed` pushes per thread, values `delivered` to clear callbacks, per-call results.
-/
namespace MetricsVerif.Bucket

inductive Cell
  | written (v : Nat)        -- slot claimed and written, bit not yet published
  | published (v : Nat)
  deriving Repr, DecidableEq

def Cell.val : Cell → Nat
  | .written v => v
  | .published v => v
def Cell.isPub : Cell → Bool
  | .published _ => true
  | .written _ => false

structure Block where
  write : Nat
  cells : List Cell
  next : Option Nat
  deriving Repr, DecidableEq

/-- `Block::len`: number of trailing ones of the read bitmap = longest all-published prefix -/
def Block.len (b : Block) : Nat := (b.cells.takeWhile Cell.isPub).length
/-- `Block::data` -/
def Block.data (b : Block) : List Nat := (b.cells.takeWhile Cell.isPub).map Cell.val
/-- `Block::is_quiesced` (for block size `B`): `len == B || min(write, B) == len` -/
def Block.quiesced (B : Nat) (b : Block) : Bool := b.len == B || min b.write B == b.len

inductive Call
  | push (v : Nat)
  | data               -- data() / data_with
  | clear              -- clear() / clear_with
  | isEmpty
  deriving Repr, DecidableEq

inductive Res
  | pushed
  | snapshot (vs : List Nat)     -- what data_with handed to its callback, block by block, in order
  | cleared (vs : List Nat)      -- what clear_with handed to its callback
  | empty (b : Bool)
  deriving Repr, DecidableEq

inductive PC
  | start
  -- push
  | pLoadTail | pCasFirst | pClaim (blk : Nat) (retry : Bool) | pPublish (blk idx : Nat) | pCasNew (old : Nat)
  -- data_with
  | dLoadTail | dQuiesced (blk : Nat) | dWait (blk : Nat) | dRead (blk : Nat) | dNext (blk : Nat)
  -- clear_with
  | cLoadTail | cCas (old : Nat) | cQuiesced (blk : Nat) | cWait (blk : Nat) | cRead (blk : Nat) | cNext (blk : Nat)
  -- is_empty
  | eLoadTail | eLen (blk : Nat)
  | done
  deriving Repr, DecidableEq

structure Thread where
  calls : List Call
  pc : PC
  acc : List Nat            -- values collected so far by the running data/clear call
  results : List Res
  deriving Repr, DecidableEq

structure Sys where
  B : Nat                    -- block size (64 in the source on 64-bit targets)
  blocks : List Block
  tail : Option Nat
  threads : List Thread
  deriving Repr, DecidableEq

def pcOfCall : Call → PC
  | .push _ => .pLoadTail
  | .data => .dLoadTail
  | .clear => .cLoadTail
  | .isEmpty => .eLoadTail

/-- where a thread continues with the given remaining calls -/
def startPC : List Call → PC
  | [] => .done
  | c :: _ => pcOfCall c

def Thread.advance (t : Thread) (r : Res) : Thread :=
  { t with calls := t.calls.tail, results := t.results ++ [r], acc := [], pc := startPC t.calls.tail }

def mkThread (calls : List Call) : Thread := { calls, pc := .start, acc := [], results := [] }

def init (B : Nat) (progs : List (List Call)) : Sys :=
  { B, blocks := [], tail := none, threads := progs.map mkThread }

def newBlock : Block := { write := 0, cells := [], next := none }

def getBlock (s : Sys) (i : Nat) : Block := (s.blocks[i]?).getD newBlock
def setBlock (s : Sys) (i : Nat) (b : Block) : Sys := { s with blocks := setAt s.blocks i b }

def publishCell : List Cell → Nat → List Cell
  | [], _ => []
  | c :: cs, 0 => .published c.val :: cs
  | c :: cs, n + 1 => c :: publishCell cs n

/-- value of the push call the thread is executing -/
def curVal (t : Thread) : Nat := match t.calls with | .push v :: _ => v | _ => 0

/-- one step of thread `t` (what the code does between two consecutive yield points) -/
def stepThread (s : Sys) (t : Thread) : Sys × Thread :=
  match t.pc with
  | .start => (s, { t with pc := startPC t.calls })
  | .done => (s, t)
  -- ---------------------------------------------------------------- AtomicBucket::push
  | .pLoadTail =>
    match s.tail with
    | none => (s, { t with pc := .pCasFirst })
    | some b => (s, { t with pc := .pClaim b false })
  | .pCasFirst =>
    match s.tail with
    | none =>       -- CAS(null → fresh block) succeeds
      let id := s.blocks.length
      ({ s with blocks := s.blocks ++ [newBlock], tail := some id }, { t with pc := .pClaim id false })
    | some b => (s, { t with pc := .pClaim b false })      -- somebody else installed one: use it
  | .pClaim blk retry =>      -- Block::push: fetch_add, then (if in range) the slot write
    let b := getBlock s blk
    let s' := setBlock s blk { b with write := b.write + 1,
                                      cells := if b.write < s.B then b.cells ++ [.written (curVal t)] else b.cells }
    if b.write < s.B then (s', { t with pc := .pPublish blk b.write })
    else if retry then (s', { t with pc := .pLoadTail })    -- fresh block already full: start over
    else (s', { t with pc := .pCasNew blk })
  | .pPublish blk idx =>
    let b := getBlock s blk
    (setBlock s blk { b with cells := publishCell b.cells idx }, t.advance .pushed)
  | .pCasNew old =>
    -- the new block is linked to `old` before the CAS publishes it (fix: commit "link a new bucket block …")
    if s.tail = some old then
      let id := s.blocks.length
      ({ s with blocks := s.blocks ++ [{ newBlock with next := some old }], tail := some id },
       { t with pc := .pClaim id true })
    else (s, { t with pc := .pLoadTail })
  -- ---------------------------------------------------------------- data_with
  | .dLoadTail =>
    match s.tail with
    | none => (s, t.advance (.snapshot t.acc))
    | some b => (s, { t with pc := .dQuiesced b })
  | .dQuiesced blk => (s, { t with pc := if (getBlock s blk).quiesced s.B then .dRead blk else .dWait blk })
  | .dWait blk => (s, { t with pc := if (getBlock s blk).quiesced s.B then .dRead blk else .dWait blk })
  | .dRead blk => (s, { t with acc := t.acc ++ (getBlock s blk).data, pc := .dNext blk })
  | .dNext blk =>
    match (getBlock s blk).next with
    | none => (s, t.advance (.snapshot t.acc))
    | some n => (s, { t with pc := .dQuiesced n })
  -- ---------------------------------------------------------------- clear_with
  | .cLoadTail =>
    match s.tail with
    | none => (s, t.advance (.cleared []))
    | some b => (s, { t with pc := .cCas b })
  | .cCas old =>
    if s.tail = some old then ({ s with tail := none }, { t with pc := .cQuiesced old })
    else (s, { t with pc := .cLoadTail })      -- CAS failed: load the tail again and retry (fix: commit "clear_with retries its detach …")
  | .cQuiesced blk => (s, { t with pc := if (getBlock s blk).quiesced s.B then .cRead blk else .cWait blk })
  | .cWait blk => (s, { t with pc := if (getBlock s blk).quiesced s.B then .cRead blk else .cWait blk })
  | .cRead blk => (s, { t with acc := t.acc ++ (getBlock s blk).data, pc := .cNext blk })
  | .cNext blk =>
    match (getBlock s blk).next with
    | none => (s, t.advance (.cleared t.acc))
    | some n => (s, { t with pc := .cQuiesced n })
  -- ---------------------------------------------------------------- is_empty
  | .eLoadTail =>
    match s.tail with
    | none => (s, t.advance (.empty true))
    | some b => (s, { t with pc := .eLen b })
  | .eLen blk =>
    -- emptiness is decided on claimed slots (fix: commit "decide AtomicBucket::is_empty on claimed slots …")
    let b := getBlock s blk
    let nextUnclaimed := match b.next with | none => true | some n => (getBlock s n).write == 0
    (s, t.advance (.empty (b.write == 0 && nextUnclaimed)))

def step (s : Sys) (tid : Nat) : Sys :=
  match s.threads[tid]? with
  | none => s
  | some t =>
    let (s', t') := stepThread s t
    { s' with threads := setAt s'.threads tid t' }

def run (s : Sys) (sched : List Nat) : Sys := sched.foldl step s

/-! ### legacy variant: `clear_with` before the fix "clear_with retries its detach when the tail moved under it"

Identical to `stepThread` except for one branch: a detaching CAS that FAILS (the tail is no longer the loaded block)
ended the call with nothing delivered, instead of going back to the tail load.  Kept only so that the witnesses of
the repaired defect stay kernel-checked theorems (`Props/C05.lean`: `legacy_failed_detach_witness`;
`Props/C07Conc.lean`: `legacy_render_misses_completed_record`); nothing else refers to it. -/

def stepThreadLegacy (s : Sys) (t : Thread) : Sys × Thread :=
  match t.pc with
  | .cCas old => if s.tail = some old then stepThread s t else (s, t.advance (.cleared []))
  | _ => stepThread s t

def stepLegacy (s : Sys) (tid : Nat) : Sys :=
  match s.threads[tid]? with
  | none => s
  | some t =>
    let (s', t') := stepThreadLegacy s t
    { s' with threads := setAt s'.threads tid t' }

def runLegacy (s : Sys) (sched : List Nat) : Sys := sched.foldl stepLegacy s

/-- the point id the implementation is parked at.  `cCas` is the yield point `bkt.clear.cas` between the tail load
    of `clear_with` and its detaching CAS (verification hook; reached only when the loaded tail was non-null, exactly
    as the model enters `cCas` only then): one scheduler grant = one model step, for every PC -/
def PC.label : PC → String
  | .start => "start" | .done => "done"
  | .pLoadTail => "bkt.push.load_tail" | .pCasFirst => "bkt.push.cas_first" | .pClaim _ _ => "blk.push.claim"
  | .pPublish _ _ => "blk.push.publish" | .pCasNew _ => "bkt.push.cas_new"
  | .dLoadTail => "bkt.data.load_tail" | .dQuiesced _ => "bkt.data.quiesced" | .dWait _ => "spin:bkt.data.wait"
  | .dRead _ => "bkt.data.read" | .dNext _ => "bkt.data.next"
  | .cLoadTail => "bkt.clear.load_tail" | .cCas _ => "bkt.clear.cas" | .cQuiesced _ => "bkt.clear.quiesced"
  | .cWait _ => "spin:bkt.clear.wait" | .cRead _ => "bkt.clear.read" | .cNext _ => "bkt.clear.next"
  | .eLoadTail => "bkt.empty.load_tail" | .eLen _ => "bkt.empty.len"

/-! ### observations used by the specifications -/

/-- walk the chain from block `i` through `next`, at most `fuel` blocks; what a snapshot started now at a
    quiescent moment would return -/
def chainData (s : Sys) : Nat → Option Nat → List Nat
  | 0, _ => []
  | _, none => []
  | fuel + 1, some i => (getBlock s i).data ++ chainData s fuel (getBlock s i).next

def visible (s : Sys) : List Nat := chainData s s.blocks.length s.tail

def completedPushes (s : Sys) : Nat := (s.threads.map (fun t => t.results.countP (· = Res.pushed))).sum

def delivered (s : Sys) : List Nat :=
  s.threads.flatMap (fun t => t.results.flatMap (fun r => match r with | .cleared vs => vs | _ => []))

def quiescent (s : Sys) : Bool := s.threads.all (fun t => t.pc == .done)

end MetricsVerif.Bucket
