import MetricsVerif.Model.Sched
/-
Model of the standard atomic metric storage and of the handle layer
(metrics/src/atomics.rs, metrics/src/handles.rs, metrics/src/common.rs `IntoF64`).

(a) The storage cell (`AtomicU64`) as a step machine.  One shared `cell : Nat` (the u64), any number of
    threads, each with a program of calls made through a handle.  EACH update is ONE atomic
    read-modify-write step:

      CounterFn::increment  = fetch_add      (wrapping mod 2^64)
      CounterFn::absolute   = fetch_max
      GaugeFn::increment    = fetch_update(|c| Some((from_bits(c) + v).to_bits()))   (std's CAS loop = one
      GaugeFn::decrement    = fetch_update(|c| Some((from_bits(c) - v).to_bits()))    linearizable RMW)
      GaugeFn::set          = swap

    (`Model/AtomicsCas.lean`, round 4, runs the two `fetch_update`s as the load + compare-exchange loop they are
    and `C04.cas_refines_rmw` proves that machine refines this one.)

    Which updates are a single RMW is a parameter (`Shape`), instantiated from the source by the translator
    (`Generated/SourceFacts.lean`).  Where the shape says "not one RMW" the machine executes the update as
    `load; store` in two steps (the *split* variant) — on which the exactly-once theorems are false
    (`C04.split_loses_update`).  Gauge arithmetic is over an abstract carrier `F` (`Carrier`: add, sub and the
    `to_bits`/`from_bits` codec); the driver instantiates exact dyadics (`Val`, below).

(b) The handle layer: a handle is `Option inner`; `noop()` = `none`; clones share the inner; every method is
    `if let Some(c) = &self.inner { c.op(value) }`.  `HistogramFn::record_many` default = the `for` loop.
    The histogram inner of the model is the log of delivered values.

(c) `IntoF64`: the finite table of `impl IntoF64 for T` in common.rs and the conversions, executable on bits.

Ghost state (not in the code, for the statements only): `log` (effective updates, NEWEST FIRST, i.e. in reverse
linearization order) and `wrapped` (some increment overflowed 2^64).
-/
namespace MetricsVerif.Atomics

def two64 : Nat := 18446744073709551616

/-- what the storage needs of `f64`: `+`, `-`, `f64::to_bits`, `f64::from_bits` -/
structure Carrier (F : Type) where
  add : F → F → F
  sub : F → F → F
  toBits : F → Nat
  ofBits : Nat → F

/-- one update call on the storage -/
inductive Op (F : Type)
  | inc (n : Nat)        -- CounterFn::increment(n)
  | abs (n : Nat)        -- CounterFn::absolute(n)
  | gInc (d : F)         -- GaugeFn::increment(d)
  | gDec (d : F)         -- GaugeFn::decrement(d)
  | gSet (v : F)         -- GaugeFn::set(v)
  deriving Repr, DecidableEq

/-- `impl CounterFn for AtomicU64 :: increment` — `fetch_add(value)`: wrapping addition -/
def counterIncrement (c n : Nat) : Nat := (c + n) % two64

/-- `impl CounterFn for AtomicU64 :: absolute` — `fetch_max(value)` -/
def counterAbsolute (c n : Nat) : Nat := max c n

/-- `impl GaugeFn for AtomicU64 :: increment` — the closure of `fetch_update`, applied to the current value -/
def gaugeIncrement {F : Type} (A : Carrier F) (c : Nat) (d : F) : Nat := A.toBits (A.add (A.ofBits c) d)

/-- `impl GaugeFn for AtomicU64 :: decrement` -/
def gaugeDecrement {F : Type} (A : Carrier F) (c : Nat) (d : F) : Nat := A.toBits (A.sub (A.ofBits c) d)

/-- `impl GaugeFn for AtomicU64 :: set` — `swap(value.to_bits())` -/
def gaugeSet {F : Type} (A : Carrier F) (_c : Nat) (v : F) : Nat := A.toBits v

/-- the new cell value an update computes from the value it saw -/
def applyOp {F : Type} (A : Carrier F) : Op F → Nat → Nat
  | .inc n, c => counterIncrement c n
  | .abs n, c => counterAbsolute c n
  | .gInc d, c => gaugeIncrement A c d
  | .gDec d, c => gaugeDecrement A c d
  | .gSet v, c => gaugeSet A c v

/-- ghost: does this update, applied to `seen`, overflow 2^64 -/
def wraps {F : Type} : Op F → Nat → Bool
  | .inc n, seen => decide (two64 ≤ seen + n)
  | _, _ => false

/-- per update function: is it ONE atomic read-modify-write call (`true`) or a `load; store` pair (`false`) -/
structure Shape where
  inc : Bool
  abs : Bool
  gInc : Bool
  gDec : Bool
  gSet : Bool
  deriving Repr, DecidableEq

def Shape.rmw {F : Type} (sh : Shape) : Op F → Bool
  | .inc _ => sh.inc
  | .abs _ => sh.abs
  | .gInc _ => sh.gInc
  | .gDec _ => sh.gDec
  | .gSet _ => sh.gSet

/-- the shape atomics.rs is expected to have: every update one RMW -/
def allRmw : Shape := { inc := true, abs := true, gInc := true, gDec := true, gSet := true }

/-! ### handle layer -/

/-- `Counter`/`Gauge`/`Histogram { inner: Option<Arc<dyn …Fn + Send + Sync>> }`; `I` stands for the `Arc`
    (a reference: copying it shares the storage) -/
abbrev Handle (I : Type) := Option I

/-- `Counter::noop` / `Gauge::noop` / `Histogram::noop` -/
def Handle.noop {I : Type} : Handle I := none
/-- `Counter::from_arc` / `Gauge::from_arc` / `Histogram::from_arc` -/
def Handle.fromArc {I : Type} (a : I) : Handle I := some a
/-- `#[derive(Clone)]`: the clone holds the same `Arc` -/
def Handle.clone {I : Type} (h : Handle I) : Handle I := h

/-- a call in a thread's program: the handle it is made through (`some ()` = any clone of the handle onto the
    machine's storage cell, `none` = a no-op handle) and the update -/
structure Call (F : Type) where
  h : Handle Unit
  op : Op F
  deriving Repr, DecidableEq

/-- `Counter::increment`, `Counter::absolute`, `Gauge::increment`, `Gauge::decrement`, `Gauge::set`
    called sequentially: `if let Some(c) = &self.inner { c.op(value) }` -/
def handleApply {F : Type} (A : Carrier F) (h : Handle Unit) (op : Op F) (c : Nat) : Nat :=
  match h with
  | none => c
  | some _ => applyOp A op c

/-- the updates of a program that reach the storage (calls through no-op handles do not) -/
def effOps {F : Type} : List (Call F) → List (Op F)
  | [] => []
  | c :: rest => match c.h with
    | none => effOps rest
    | some _ => c.op :: effOps rest

/-! ### the step machine -/

structure Thread (F : Type) where
  prog : List (Call F)          -- remaining calls, head = current
  tmp : Option Nat              -- split variant only: the value loaded by the first half of the update
  deriving Repr, DecidableEq

structure Sys (F : Type) where
  cell : Nat
  threads : List (Thread F)
  log : List (Nat × Op F)       -- ghost: (thread, update) in the order they took effect, NEWEST FIRST
  wrapped : Bool                -- ghost: some increment overflowed
  deriving Repr, DecidableEq

def mkThread {F : Type} (p : List (Call F)) : Thread F := { prog := p, tmp := none }

def init {F : Type} (c0 : Nat) (progs : List (List (Call F))) : Sys F :=
  { cell := c0, threads := progs.map mkThread, log := [], wrapped := false }

/-- the update takes effect: computed from the value `seen`, written to the cell -/
def commit {F : Type} (A : Carrier F) (s : Sys F) (tid : Nat) (op : Op F) (seen : Nat) : Sys F :=
  { s with cell := applyOp A op seen, log := (tid, op) :: s.log, wrapped := s.wrapped || wraps op seen }

/-- one step of a thread: one shared-memory operation -/
def stepThread {F : Type} (A : Carrier F) (sh : Shape) (s : Sys F) (tid : Nat) (t : Thread F) : Sys F × Thread F :=
  match t.prog with
  | [] => (s, t)
  | c :: rest =>
    match c.h with
    | none => (s, { prog := rest, tmp := none })                 -- no-op handle: returns, nothing touched
    | some _ =>
      if sh.rmw c.op then
        (commit A s tid c.op s.cell, { prog := rest, tmp := none })           -- ONE read-modify-write
      else
        match t.tmp with
        | none => (s, { t with tmp := some s.cell })                              -- split: load
        | some v => (commit A s tid c.op v, { prog := rest, tmp := none })        -- split: store(f(loaded))

def step {F : Type} (A : Carrier F) (sh : Shape) (s : Sys F) (tid : Nat) : Sys F :=
  match s.threads[tid]? with
  | none => s
  | some t =>
    let r := stepThread A sh s tid t
    { r.1 with threads := setAt r.1.threads tid r.2 }

def run {F : Type} (A : Carrier F) (sh : Shape) (s : Sys F) (sched : List Nat) : Sys F := sched.foldl (step A sh) s

/-- every thread has returned from all its calls -/
def AllDone {F : Type} (s : Sys F) : Prop := ∀ t ∈ s.threads, t.prog = []

/-- the cell value obtained by applying a log (newest first) to `c0`, oldest update first -/
def replay {F : Type} (A : Carrier F) (c0 : Nat) (log : List (Nat × Op F)) : Nat :=
  log.foldr (fun e c => applyOp A e.2 c) c0

/-- the updates of thread `tid` in a log, in the log's order -/
def proj {F : Type} (tid : Nat) : List (Nat × Op F) → List (Op F)
  | [] => []
  | e :: rest => if e.1 = tid then e.2 :: proj tid rest else proj tid rest

/-! ### histograms -/

/-- `HistogramFn::record_many` default body: `for _ in 0..count { self.record(value); }` -/
def recordManyDefault {σ F : Type} (record : σ → F → σ) (st : σ) (v : F) : Nat → σ
  | 0 => st
  | n + 1 => recordManyDefault record (record st v) v n

/-- an implementation of `HistogramFn` over a state `σ` -/
structure HistFn (σ F : Type) where
  record : σ → F → σ
  recordMany : σ → F → Nat → σ

/-- an implementation that only defines `record` (gets the default `record_many`) -/
def HistFn.ofRecord {σ F : Type} (record : σ → F → σ) : HistFn σ F :=
  { record := record, recordMany := recordManyDefault record }

/-- `impl<T: HistogramFn> HistogramFn for Arc<T>`: forwards `record` ONLY, so its `record_many` is the default
    loop over the forwarded `record` (not `T::record_many`) -/
def HistFn.arc {σ F : Type} (inner : HistFn σ F) : HistFn σ F := HistFn.ofRecord inner.record

/-- `k` nested `Arc`s around an implementation -/
def HistFn.arcN {σ F : Type} (inner : HistFn σ F) : Nat → HistFn σ F
  | 0 => inner
  | k + 1 => HistFn.arc (HistFn.arcN inner k)

/-- the model's histogram storage: the delivered values, oldest first -/
def logRecord {F : Type} (log : List F) (v : F) : List F := log ++ [v]

/-- the logging implementation (only `record`) -/
def logFn {F : Type} : HistFn (List F) F := HistFn.ofRecord logRecord

/-- `Histogram::record` (after `into_f64`) -/
def histRecord {σ F : Type} (h : Handle (HistFn σ F)) (st : σ) (v : F) : σ :=
  match h with
  | none => st
  | some f => f.record st v

/-- `Histogram::record_many` (after `into_f64`) -/
def histRecordMany {σ F : Type} (h : Handle (HistFn σ F)) (st : σ) (v : F) (n : Nat) : σ :=
  match h with
  | none => st
  | some f => f.recordMany st v n

/-! ### `IntoF64` (metrics/src/common.rs) -/

/-- the types with an `impl IntoF64` -/
inductive SrcTy
  | f64 | duration | i8 | u8 | i16 | u16 | i32 | u32 | f32
  deriving Repr, DecidableEq

def SrcTy.all : List SrcTy := [.f64, .duration, .i8, .u8, .i16, .u16, .i32, .u32, .f32]

def SrcTy.name : SrcTy → String
  | .f64 => "f64" | .duration => "core::time::Duration"
  | .i8 => "i8" | .u8 => "u8" | .i16 => "i16" | .u16 => "u16" | .i32 => "i32" | .u32 => "u32" | .f32 => "f32"

/-- the body of `into_f64` for the type -/
def SrcTy.conv : SrcTy → String
  | .f64 => "self"
  | .duration => "self.as_secs_f64()"
  | _ => "f64::from(self)"

/-- the finite table `type ↦ conversion`, in source order.  There is NO impl for u64, usize, i64, i128, …:
    such arguments do not compile (this version of the crate documents no conversion for them). -/
def intoF64Table : List (String × String) := SrcTy.all.map (fun t => (t.name, t.conv))

/-- value range of the integer types (lossless in f64: all are within ±2^32) -/
def SrcTy.intRange : SrcTy → Option (Int × Int)
  | .i8 => some (-128, 127) | .u8 => some (0, 255)
  | .i16 => some (-32768, 32767) | .u16 => some (0, 65535)
  | .i32 => some (-2147483648, 2147483647) | .u32 => some (0, 4294967295)
  | _ => none

/-! ### exact dyadic carrier (what the driver instantiates `F` with)

`Val.dy n` = the f64 `n/1024` with `|n| ≤ 2^53` (exactly representable, and so are sums that stay in range);
everything else keeps its bit pattern.  IEEE rounding is outside the model: arithmetic whose result the model
does not determine yields `unk`, encoded out of band as 2^64 so that it can never be mistaken for a bit
pattern (the correspondence generator never produces such a sequence). -/

inductive Val
  | dy (n : Int)
  | inf (neg : Bool)
  | nan (b : Nat)          -- a NaN, with its bit pattern
  | raw (b : Nat)          -- any other finite f64: -0.0, subnormals, > 10 fractional bits, magnitude > 2^43
  | unk
  deriving Repr, DecidableEq, Inhabited

def defaultNaN : Nat := 0x7ff8000000000000

/-- bits of the f64 `n/1024` (exact for |n| ≤ 2^53; truncating beyond) -/
def encodeDy (n : Int) : Nat :=
  if n = 0 then 0 else
  let m := n.natAbs
  let e := m.log2
  let mant := if e ≤ 52 then (m - 2 ^ e) * 2 ^ (52 - e) else (m - 2 ^ e) / 2 ^ (e - 52)
  (if n < 0 then 2 ^ 63 else 0) + (e + 1013) * 2 ^ 52 + mant

/-- `f64::from_bits`, classified -/
def decodeF64 (b : Nat) : Val :=
  if two64 ≤ b then .unk else
  let neg : Bool := decide (2 ^ 63 ≤ b)
  let e := (b / 2 ^ 52) % 2048
  let m := b % 2 ^ 52
  let sgn (k : Nat) : Int := if neg then - (Int.ofNat k) else Int.ofNat k
  if e = 2047 then (if m = 0 then .inf neg else .nan b)
  else if e = 0 then (if m = 0 ∧ neg = false then .dy 0 else .raw b)
  else
    let sig := 2 ^ 52 + m
    if 1065 ≤ e then
      (if sig * 2 ^ (e - 1065) ≤ 2 ^ 53 then .dy (sgn (sig * 2 ^ (e - 1065))) else .raw b)
    else
      (if sig % 2 ^ (1065 - e) = 0 then .dy (sgn (sig / 2 ^ (1065 - e))) else .raw b)

/-- `f64::to_bits` -/
def Val.toBits : Val → Nat
  | .dy n => encodeDy n
  | .inf neg => (if neg then 2 ^ 63 else 0) + 0x7ff0000000000000
  | .nan b => b
  | .raw b => b
  | .unk => two64

/-- `input + value` -/
def Val.add : Val → Val → Val
  | .nan b, _ => .nan b
  | _, .nan b => .nan b
  | .unk, _ => .unk
  | _, .unk => .unk
  | .inf s, .inf s' => if s = s' then .inf s else .nan defaultNaN
  | .inf s, _ => .inf s
  | _, .inf s => .inf s
  | .dy a, .dy b => if (a + b).natAbs ≤ 2 ^ 53 then .dy (a + b) else .unk
  | _, _ => .unk

/-- `input - value` -/
def Val.sub : Val → Val → Val
  | .nan b, _ => .nan b
  | _, .nan b => .nan b
  | .unk, _ => .unk
  | _, .unk => .unk
  | .inf s, .inf s' => if s = s' then .nan defaultNaN else .inf s
  | .inf s, _ => .inf s
  | _, .inf s => .inf (!s)
  | .dy a, .dy b => if (a - b).natAbs ≤ 2 ^ 53 then .dy (a - b) else .unk
  | _, _ => .unk

/-- the carrier of the correspondence runs -/
def dyCarrier : Carrier Val := { add := Val.add, sub := Val.sub, toBits := Val.toBits, ofBits := decodeF64 }

/-- `nan`, `+inf`, `-inf`, `fin` (finite), `unk` -/
def Val.cls : Val → String
  | .nan _ => "nan"
  | .inf false => "+inf"
  | .inf true => "-inf"
  | .unk => "unk"
  | _ => "fin"

/-- `f64::from(x: f32)` on bit patterns (lossless widening; NaN payloads widened) -/
def f32ToF64Bits (b : Nat) : Nat :=
  let sign := (b / 2 ^ 31) % 2
  let e := (b / 2 ^ 23) % 256
  let m := b % 2 ^ 23
  let mag :=
    if e = 255 then 2047 * 2 ^ 52 + m * 2 ^ 29
    else if e = 0 then
      (if m = 0 then 0 else (m.log2 + 874) * 2 ^ 52 + (m - 2 ^ m.log2) * 2 ^ (52 - m.log2))
    else (e + 896) * 2 ^ 52 + m * 2 ^ 29
  sign * 2 ^ 63 + mag

/-- `f64::from(x)` for the integer types: exact -/
def intToF64Bits (n : Int) : Nat := encodeDy (n * 1024)

/-- `Duration::as_secs_f64` = `secs as f64 + nanos as f64 / 1e9`, where that is exact: `nanos` a multiple of
    1e9/512 (so the quotient has ≤ 9 fractional bits) and `secs < 2^43`; `none` = not determined by the model -/
def durationToF64Bits (secs nanos : Nat) : Option Nat :=
  if nanos < 1000000000 ∧ (nanos * 1024) % 1000000000 = 0 ∧ secs < 2 ^ 43 then
    some (encodeDy (Int.ofNat (secs * 1024 + nanos * 1024 / 1000000000)))
  else none

/-- an argument of a handle method, by its Rust type -/
inductive Arg
  | f64 (bits : Nat)
  | f32 (bits : Nat)
  | int (ty : SrcTy) (n : Int)
  | dur (secs nanos : Nat)
  deriving Repr, DecidableEq

/-- `IntoF64::into_f64`, as f64 bits (`none`: ill-typed argument, or a `Duration` outside the exact domain) -/
def intoF64Bits : Arg → Option Nat
  | .f64 b => if b < two64 then some b else none
  | .f32 b => if b < 2 ^ 32 then some (f32ToF64Bits b) else none
  | .int ty n =>
    match ty.intRange with
    | some (lo, hi) => if lo ≤ n ∧ n ≤ hi then some (intToF64Bits n) else none
    | none => none
  | .dur s n => durationToF64Bits s n

/-- `pub fn __into_f64<V: IntoF64>(value: V) -> f64 { value.into_f64() }` (the helper the `histogram!` macro
    calls): nothing but the trait method -/
def dunderIntoF64Bits (a : Arg) : Option Nat := intoF64Bits a

/-! ### `GaugeValue::update_value` (metrics/src/common.rs) -/

/-- `enum GaugeValue { Absolute(f64), Increment(f64), Decrement(f64) }` -/
inductive GaugeValue (F : Type)
  | absolute (v : F)
  | increment (v : F)
  | decrement (v : F)
  deriving Repr, DecidableEq

/-- `GaugeValue::update_value(&self, input: f64) -> f64`:
    `Absolute(val) => *val`, `Increment(val) => input + val`, `Decrement(val) => input - val` -/
def GaugeValue.updateValue {F : Type} (A : Carrier F) : GaugeValue F → F → F
  | .absolute v, _ => v
  | .increment v, input => A.add input v
  | .decrement v, input => A.sub input v

/-- the storage update a recorder makes for a gauge value: `Gauge::set` / `increment` / `decrement` -/
def GaugeValue.toOp {F : Type} : GaugeValue F → Op F
  | .absolute v => .gSet v
  | .increment v => .gInc v
  | .decrement v => .gDec v

/-- the arms of `update_value` as the translator prints them: (variant, expression) in source order -/
def updateValueArms : List (String × String) :=
  [("Absolute", "*val"), ("Increment", "input + val"), ("Decrement", "input - val")]

/-! ### `impl CounterFn / GaugeFn / HistogramFn for Arc<T>`, `from_arc`, `From<Arc<T>>` (handles.rs)

Every method of the `Arc<T>` impls is `(**self).<the same method>(<the same arguments>)`; `from_arc(a)` is
`Self { inner: Some(a) }` (`Handle.fromArc`) and `From<Arc<T>>::from(inner)` is `<Handle>::from_arc(inner)`.
So a handle on `Arc<Arc<…<T>>>` applies exactly `T`'s update: in the step machine every live handle is `some ()`
whatever its nesting. -/

/-- an implementation of `CounterFn`/`GaugeFn` over a storage `σ`: what each update does to it -/
structure UpdFn (σ F : Type) where
  apply : Op F → σ → σ

/-- `impl<T: CounterFn> CounterFn for Arc<T>`, `impl<T: GaugeFn> GaugeFn for Arc<T>` -/
def UpdFn.arc {σ F : Type} (inner : UpdFn σ F) : UpdFn σ F := { apply := fun op s => inner.apply op s }

/-- `k` nested `Arc`s -/
def UpdFn.arcN {σ F : Type} (inner : UpdFn σ F) : Nat → UpdFn σ F
  | 0 => inner
  | k + 1 => UpdFn.arc (UpdFn.arcN inner k)

/-- the `AtomicU64` storage as an `UpdFn` -/
def cellFn {F : Type} (A : Carrier F) : UpdFn Nat F := { apply := applyOp A }

/-- the forwarding bodies as the translator prints them: (trait::method, body) in source order -/
def arcForwardTable : List (String × String) :=
  [("CounterFn::increment", "(**self).increment(value)"), ("CounterFn::absolute", "(**self).absolute(value)"),
   ("GaugeFn::increment", "(**self).increment(value)"), ("GaugeFn::decrement", "(**self).decrement(value)"),
   ("GaugeFn::set", "(**self).set(value)"), ("HistogramFn::record", "(**self).record(value)")]

/-- `from_arc` of the three handles and the three `From<Arc<T>>` impls, as the translator prints them -/
def ctorTable : List (String × String) :=
  [("Counter::from_arc", "Self { inner: Some(a) }"), ("Gauge::from_arc", "Self { inner: Some(a) }"),
   ("Histogram::from_arc", "Self { inner: Some(a) }"),
   ("From<Arc<T>> for Counter", "Counter::from_arc(inner)"), ("From<Arc<T>> for Gauge", "Gauge::from_arc(inner)"),
   ("From<Arc<T>> for Histogram", "Histogram::from_arc(inner)")]

/-! ### IEEE-754 binary64 `+` and `-` on bit patterns (round to nearest, ties to even)

What `input + value` / `input - value` compute in the `fetch_update` closures and in `update_value`, for ALL
operands: a finite f64 is an integer multiple of 2^-1074, the sum of two is formed exactly (as a `Nat` magnitude
with a sign) and rounded once.  NaN results are represented by `defaultNaN` (which NaN the hardware produces is
not specified by Rust; the correspondence compares NaN-ness only). -/

def f64Exp (b : Nat) : Nat := (b / 2 ^ 52) % 2048
def f64Frac (b : Nat) : Nat := b % 2 ^ 52
def f64Sign (b : Nat) : Bool := decide ((b / 2 ^ 63) % 2 = 1)
def f64IsNaN (b : Nat) : Bool := f64Exp b == 2047 && f64Frac b != 0
def f64IsInf (b : Nat) : Bool := f64Exp b == 2047 && f64Frac b == 0

/-- magnitude of a finite f64 in units of 2^-1074 (subnormals: the fraction itself) -/
def f64Mag (b : Nat) : Nat :=
  if f64Exp b = 0 then f64Frac b else (2 ^ 52 + f64Frac b) * 2 ^ (f64Exp b - 1)

def signBit (neg : Bool) : Nat := if neg then 2 ^ 63 else 0

/-- the bits (without sign) of the f64 nearest to `s · 2^-1074`, ties to even; overflow gives +∞'s bits.
    Below 2^53 every magnitude is representable and IS its own bit pattern (subnormals and exponent 1). -/
def roundMag (s : Nat) : Nat :=
  if s < 2 ^ 53 then s
  else
    let sh := s.log2 - 52
    let q := s / 2 ^ sh
    let rem := s % 2 ^ sh
    let half := 2 ^ (sh - 1)
    let q' := if half < rem ∨ (rem = half ∧ q % 2 = 1) then q + 1 else q
    let bits := (sh + 1) * 2 ^ 52 + (q' - 2 ^ 52)
    if 2047 * 2 ^ 52 ≤ bits then 2047 * 2 ^ 52 else bits

/-- `a + b` on f64 bit patterns -/
def f64Add (a b : Nat) : Nat :=
  if f64IsNaN a || f64IsNaN b then defaultNaN
  else if f64IsInf a then (if f64IsInf b && (f64Sign a != f64Sign b) then defaultNaN else a)
  else if f64IsInf b then b
  else if f64Sign a = f64Sign b then signBit (f64Sign a) + roundMag (f64Mag a + f64Mag b)
  else if f64Mag a = f64Mag b then 0
  else if f64Mag b < f64Mag a then signBit (f64Sign a) + roundMag (f64Mag a - f64Mag b)
  else signBit (f64Sign b) + roundMag (f64Mag b - f64Mag a)

/-- `-b` on bit patterns (flip the sign bit) -/
def f64NegBits (b : Nat) : Nat := if f64Sign b then b - 2 ^ 63 else b + 2 ^ 63

/-- `a - b` = `a + (-b)` (an IEEE identity, signs of zeros included) -/
def f64Sub (a b : Nat) : Nat := f64Add a (f64NegBits b)

/-- the bit-level carrier: `F` = the 64 bits themselves, so `to_bits`/`from_bits` are the identity -/
def ieeeCarrier : Carrier Nat := { add := f64Add, sub := f64Sub, toBits := id, ofBits := id }

end MetricsVerif.Atomics
