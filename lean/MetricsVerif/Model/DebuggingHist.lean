import MetricsVerif.Model.Bucket
import MetricsVerif.Model.BucketGhost
/-
Model of ONE histogram of a `DebuggingRecorder` under concurrency, on top of the step machine of the lock-free bucket
(`Model/Bucket.lean`: one step = one shared-memory operation, PC names = yield-point ids in bucket.rs).

  the handle is `Histogram::from_arc(Arc<AtomicBucket<f64>>)` (debugging.rs `register_histogram`), so
  `Histogram::record(v)`            = `<AtomicBucket<f64> as HistogramFn>::record` = `AtomicBucket::push(v)`
                                                                              (metrics-util/src/storage/mod.rs; C19.src_hist_handle_path)
  `Histogram::record_many(v, n)`    = the trait's default: `n` times `record(v)`         (same source fact)
  `Snapshotter::snapshot()`         = for this histogram ONE `clear_with` whose callback appends every block it is handed
                                      to the `Vec` that becomes `DebugValue::Histogram` (debugging.rs `snapshot`;
                                      C19.src_snapshot_shape): what the snapshot shows for the key IS the `cleared`
                                      result of that call, block by block in walk order (newest block first)

Threads: any number of recording threads (each a list of values) and any number of snapshotting threads (each a number
of snapshots; clones of one `Snapshotter` or the same one used from several threads).  `Model/DebuggingConc.lean` takes
`record` and `snapshot` as ONE step each; this model is the refinement of those two steps to the granularity of the bucket.

K1 (known finding K-C05-K1, here K-C19-K1): a slot claim that lands on a block a snapshot has already detached
(`Bucket.k1Step`).  `k1Vals` is the ghost list of the VALUES of these claims along a schedule (its length is
`k1Count`, `Props/C19Hist.lean`): the harness compares it with the values its own trace analysis blames, and excuses a
lost value only when it is one of them.
-/
namespace MetricsVerif.DebuggingHist
open MetricsVerif.Bucket

/-- a recording thread: `record(v)` for every `v` of the list -/
def recCalls (vs : List Nat) : List Call := vs.map .push

/-- `record_many(v, n)` as the values a recording thread records: `n` times `v` (trait default of `HistogramFn`) -/
def recordMany (v n : Nat) : List Nat := List.replicate n v

/-- a snapshotting thread: `n` calls of `Snapshotter::snapshot()`, each ONE `clear_with` on the histogram's bucket -/
def snapCalls (n : Nat) : List Call := List.replicate n .clear

/-- recording threads `0 … recs.length-1`, snapshotting threads after them -/
def progsOf (recs : List (List Nat)) (snaps : List Nat) : List (List Call) :=
  recs.map recCalls ++ snaps.map snapCalls

/-- every value any thread records -/
def recorded (recs : List (List Nat)) : List Nat := recs.flatten

def clearedOf : Res → Option (List Nat)
  | .cleared vs => some vs
  | _ => none

/-- what the snapshots a thread has taken so far showed for the histogram, in the order it took them -/
def snapsOfThread (t : Thread) : List (List Nat) := t.results.filterMap clearedOf

/-- all snapshots returned so far (thread by thread) -/
def snapshots (s : Sys) : List (List Nat) := s.threads.flatMap snapsOfThread

/-- every value shown by some returned snapshot, with multiplicity -/
def shown (s : Sys) : List Nat := (snapshots s).flatten

/-- what the next snapshot will show if nothing else runs: the values reachable from the tail, newest block first -/
def pending (s : Sys) : List Nat := visible s

/-- the value a thread is recording (0 when it is not inside a `record`) -/
def curValOf (s : Sys) (tid : Nat) : Nat :=
  match s.threads[tid]? with
  | some t => curVal t
  | none => 0

/-- ghost: the values whose slot claim is a K1 step, in schedule order (threaded next to `grun` like `k1Count`) -/
def k1Vals : Sys → (Nat → Owner) → List Nat → List Nat
  | _, _, [] => []
  | s, own, tid :: rest =>
    (if k1Step s own tid then [curValOf s tid] else []) ++ k1Vals (step s tid) (gown s own tid) rest

/-- `k1Vals` with an accumulator (tail recursive, for the driver; `Props/C19Hist.lean`: `k1ValsAcc_eq`) -/
def k1ValsAcc : Sys → (Nat → Owner) → List Nat → List Nat → List Nat
  | _, _, acc, [] => acc.reverse
  | s, own, acc, tid :: rest =>
    k1ValsAcc (step s tid) (gown s own tid) (if k1Step s own tid then curValOf s tid :: acc else acc) rest

/-- the steps of a thread that runs `n` pushes alone from its start (the values the harness records before the scheduled
    threads start): at most 6 steps per push; steps of a finished thread change nothing -/
def prefillSched (tid n : Nat) : List Nat := List.replicate (6 * n + 2) tid

end MetricsVerif.DebuggingHist
