/-
Model of metrics-tracing-context (src/lib.rs, src/tracing_integration.rs, src/label_filter.rs) on top of
the parts of `tracing_subscriber::Registry` it relies on (parent resolution in `new_span`, the per-thread
`SpanStack` behind `current_span`).

* `FMap`            = `IndexMap<SharedString, SharedString>`: association list in insertion order.
* a span            = its `Labels` extension (the merged map).  Spans are numbered in creation order; the
                      harness never lets a span close during a case, so registry ids are never reused.
* per-thread stack  = `registry::stack::SpanStack` (entries carry the `duplicate` flag; `current` is the
                      topmost non-duplicate entry; `pop` removes the topmost entry with that id).
* field values      = what the `Visit` impl of `Labels` makes of them: `record_str`, `record_bool`,
                      `record_i64`, `record_u64` are modelled; everything that ends in `record_debug`
                      (f64, i128, `?x`, `%x`, errors) arrives as its already rendered text (`Value.dbg`);
                      `Empty` records nothing.

The model follows the code, it is not the specification; the specification is `Props/C17.lean`.
-/
namespace MetricsVerif.Tracing

abbrev Str := List Char

/-- `IndexMap<SharedString, SharedString>` -/
abbrev FMap := List (Str × Str)

namespace FMap

/-- `IndexMap::get` -/
def get? : FMap → Str → Option Str
  | [], _ => none
  | (k', v') :: r, k => if k' = k then some v' else get? r k

/-- `IndexMap::insert`: an existing key keeps its position and gets the new value, a new key is appended -/
def insert : FMap → Str → Str → FMap
  | [], k, v => [(k, v)]
  | (k', v') :: r, k, v => if k' = k then (k', v) :: r else (k', v') :: insert r k v

/-- `map.entry(k).or_insert_with(|| v)`: an existing key is left alone, a new key is appended -/
def insertIfAbsent : FMap → Str → Str → FMap
  | [], k, v => [(k, v)]
  | (k', v') :: r, k, v => if k' = k then (k', v') :: r else (k', v') :: insertIfAbsent r k v

def keys (m : FMap) : List Str := m.map Prod.fst

end FMap

/-- a span field value as handed to `Visit for Labels` -/
inductive Value
  | str (s : Str)
  | bool (b : Bool)
  | i64 (i : Int)
  | u64 (n : Nat)
  | dbg (rendered : Str)
  | empty
  deriving DecidableEq, Repr

/-- `record_str` / `record_bool` / `record_i64` / `record_u64` / `record_debug`; `Empty` is skipped by
    `ValueSet::record` -/
def Value.render : Value → Option Str
  | .str s => some s
  | .bool b => some (if b then ['t', 'r', 'u', 'e'] else ['f', 'a', 'l', 's', 'e'])
  | .i64 i => some (toString i).toList
  | .u64 n => some (toString n).toList
  | .dbg s => some s
  | .empty => none

/-- one `Visit::record_*` call on a `Labels` -/
def visit (m : FMap) (kv : Str × Value) : FMap :=
  match kv.2.render with
  | some s => m.insert kv.1 s
  | none => m

/-- `Labels::from_record` -/
def fromRecord (fields : List (Str × Value)) : FMap := fields.foldl visit []

def insertIfAbsentPair (m : FMap) (kv : Str × Str) : FMap := m.insertIfAbsent kv.1 kv.2
def insertPair (m : FMap) (kv : Str × Str) : FMap := m.insert kv.1 kv.2

/-- `Labels::extend_from_labels` -/
def extendFromLabels (self other : FMap) : FMap := other.foldl insertIfAbsentPair self

/-- `Labels::extend_from_labels_overwrite` -/
def extendFromLabelsOverwrite (self other : FMap) : FMap := other.foldl insertPair self

/-! ### the registry's per-thread span stack (top of the stack = head of the list) -/

structure Ctx where
  id : Nat
  dup : Bool
  deriving DecidableEq, Repr

abbrev Stack := List Ctx

/-- `SpanStack::push` -/
def Stack.push (st : Stack) (id : Nat) : Stack := ⟨id, st.any (fun c => c.id == id)⟩ :: st

/-- `SpanStack::pop`: removes the topmost entry with this id (nothing if there is none) -/
def Stack.pop : Stack → Nat → Stack
  | [], _ => []
  | c :: r, id => if c.id = id then r else c :: Stack.pop r id

/-- `SpanStack::current` -/
def Stack.current (st : Stack) : Option Nat := (st.find? (fun c => !c.dup)).map (·.id)

/-! ### label filters -/

inductive Filter
  | includeAll
  | allowlist (names : List Str)
  | custom (p : Str → Str → Str → Bool)      -- metric name, label key, label value

/-- `LabelFilter::should_include_label` -/
def Filter.shouldInclude : Filter → Str → Str → Str → Bool
  | .includeAll, _, _, _ => true
  | .allowlist names, _, k, _ => names.contains k
  | .custom p, n, k, v => p n k v

/-! ### names as bytes

A Rust `String` / `&str` IS its UTF-8 bytes: `str::len`, and the `Hash` + `Eq` behind
`HashSet<String>::contains(&str)`, work on these.  The model keeps names as code-point lists; `utf8` is the bridge
(`Props/C17`: it is injective, so comparing code points is comparing bytes, byte for byte, and no length enters). -/

/-- the bytes of a name (`str::as_bytes`) -/
def utf8 (s : Str) : ByteArray := (String.ofList s).toByteArray

/-- `str::len()`: length in BYTES -/
def byteLen (s : Str) : Nat := (utf8 s).size

/-- `str::chars().count()`: length in code points -/
def charLen (s : Str) : Nat := s.length

/-! ### state -/

structure State where
  spans : List FMap := []                 -- span number ↦ its `Labels` extension
  stacks : Nat → Stack := fun _ => []     -- thread ↦ `current_spans` of that thread

inductive Parent
  | root
  | contextual
  | explicit (id : Nat)
  deriving DecidableEq, Repr

/-- `Registry::current_span` on thread `t` -/
def current (s : State) (t : Nat) : Option Nat := (s.stacks t).current

/-- parent resolution of `Registry::new_span` -/
def resolveParent (s : State) (t : Nat) : Parent → Option Nat
  | .root => none
  | .contextual => current s t
  | .explicit id => some id

def parentLabels (s : State) (p : Option Nat) : Option FMap :=
  match p with
  | none => none
  | some pid => s.spans[pid]?

/-- the map `MetricsLayer::on_new_span` stores: own fields first, then the parent's merged map without
    overwriting -/
def newSpanLabels (fields : List (Str × Value)) (parent : Option FMap) : FMap :=
  match parent with
  | some pl => extendFromLabels (fromRecord fields) pl
  | none => fromRecord fields

def modifyAt {α : Type} (l : List α) (i : Nat) (f : α → α) : List α :=
  match l, i with
  | [], _ => []
  | m :: r, 0 => f m :: r
  | m :: r, i + 1 => m :: modifyAt r i f

def setStack (s : State) (t : Nat) (st : Stack) : State :=
  { s with stacks := fun u => if u = t then st else s.stacks u }

inductive Op
  | newSpan (t : Nat) (parent : Parent) (fields : List (Str × Value))
  | record (t : Nat) (id : Nat) (fields : List (Str × Value))
  | enter (t : Nat) (id : Nat)
  | exit (t : Nat) (id : Nat)
  deriving Repr

/-- `MetricsLayer::on_new_span` (after `Registry::new_span`) -/
def onNewSpan (s : State) (t : Nat) (parent : Parent) (fields : List (Str × Value)) : State :=
  { s with spans := s.spans ++ [newSpanLabels fields (parentLabels s (resolveParent s t parent))] }

/-- `MetricsLayer::on_record` (every span has a `Labels` extension, so always the overwrite branch) -/
def onRecord (s : State) (id : Nat) (fields : List (Str × Value)) : State :=
  { s with spans := modifyAt s.spans id (fun m => extendFromLabelsOverwrite m (fromRecord fields)) }

/-- one subscriber call.  `enter` of a span number that does not exist cannot be expressed through the
    `tracing` API; the model ignores it (the driver rejects it as `bad-op`). -/
def step (s : State) : Op → State
  | .newSpan t p fields => onNewSpan s t p fields
  | .record _ id fields => onRecord s id fields
  | .enter t id => if id < s.spans.length then setStack s t ((s.stacks t).push id) else s
  | .exit t id => setStack s t ((s.stacks t).pop id)

def run (s : State) (ops : List Op) : State := ops.foldl step s

/-! ### `TracingContext::enhance_key` -/

def admits (f : Filter) (name : Str) (kv : Str × Str) : Bool := f.shouldInclude name kv.1 kv.2

/-- the closure inside `enhance_key`: `retain` by the filter, then `extend` with the metric's own labels
    (`IndexMap::extend` = `insert` one by one) -/
def enhanceLabels (f : Filter) (name : Str) (span : FMap) (labels : List (Str × Str)) : List (Str × Str) :=
  labels.foldl insertPair (span.filter (admits f name))

/-- `enhance_key`: `none` when there is no current span or its map is empty -/
def enhanceKey (s : State) (f : Filter) (t : Nat) (name : Str) (labels : List (Str × Str)) :
    Option (List (Str × Str)) :=
  match parentLabels s (current s t) with
  | none => none
  | some m => if m.isEmpty then none else some (enhanceLabels f name m labels)

/-- labels of the key the inner recorder receives from `register_*` on thread `t` -/
def emit (s : State) (f : Filter) (t : Nat) (name : Str) (labels : List (Str × Str)) : List (Str × Str) :=
  (enhanceKey s f t name labels).getD labels

/-! ### the process-wide `LinearObjectPool<Map>` behind `Labels::default()`, and spans that close

`get_pool()` = `LinearObjectPool::new(Map::new, Map::clear)`.  `Labels::default()` pulls a map out of the pool
(`pull_owned`: a free slot if there is one, otherwise a slot made by the `init` callback); `Drop for
LinearOwnedReusable` runs the `reset` callback on the map and then frees the slot.  A `Labels` is dropped when
the temporary of `on_record` goes out of scope and when the registry clears the extensions of a span that
closed.  Everything above this section reads `Labels::from_record` as "starts from an empty map"; this section
models what the code does — start from whatever the pool hands out — and `Props/C17` proves the two agree
(`pooled_run_base`), the invariant being that every free map of the pool is empty.

What is abstracted: WHICH free slot `LinearPage::alloc` hands out (lowest free bit of the first page with
one); the free maps are kept as a list and the head is taken.  The theorems hold for every free map.
Closed spans keep their number (numbers are creation order, the registry's id reuse is not modelled); their
last map stays in `base.spans` as a tombstone that no operation reads again, because the registry only closes
a span that is on no thread's stack, has no live child and no handle (`closable`). -/

/-- `Map::new`: the pool's `init` callback -/
def poolInit : FMap := []

/-- `Map::clear`: the pool's `reset` callback -/
def poolReset (_ : FMap) : FMap := []

/-- `LinearObjectPool::pull_owned` -/
def pull (pool : List FMap) : FMap × List FMap :=
  match pool with
  | [] => (poolInit, [])
  | m :: r => (m, r)

/-- `Drop for LinearOwnedReusable<Map>`: reset, then free the slot -/
def release (pool : List FMap) (m : FMap) : List FMap := poolReset m :: pool

/-- `Labels::from_record`: `Labels::default()` (= the pulled map `m0`), then one `Visit` call per field -/
def fromRecordIn (m0 : FMap) (fields : List (Str × Value)) : FMap := fields.foldl visit m0

/-- `on_new_span` on the pulled map -/
def newSpanLabelsIn (m0 : FMap) (fields : List (Str × Value)) (parent : Option FMap) : FMap :=
  match parent with
  | some pl => extendFromLabels (fromRecordIn m0 fields) pl
  | none => fromRecordIn m0 fields

structure PState where
  base : State := {}
  pool : List FMap := []               -- the free maps of the pool, as `reset` left them
  parents : List (Option Nat) := []    -- span number ↦ the parent `Registry::new_span` resolved
  closed : List Nat := []              -- spans the registry has closed

inductive POp
  | base (op : Op)
  | close (id : Nat)                   -- the last reference to span `id` goes away: `Registry::try_close`
  deriving Repr

/-- `MetricsLayer::on_new_span` with the pool -/
def pOnNewSpan (p : PState) (t : Nat) (parent : Parent) (fields : List (Str × Value)) : PState :=
  let par := resolveParent p.base t parent
  { p with
    base := { p.base with spans := p.base.spans ++ [newSpanLabelsIn (pull p.pool).1 fields (parentLabels p.base par)] }
    pool := (pull p.pool).2
    parents := p.parents ++ [par] }

/-- `MetricsLayer::on_record` with the pool: the temporary `Labels::from_record(values)` is pulled, merged into
    the span's map and dropped at the end of the function -/
def pOnRecord (p : PState) (id : Nat) (fields : List (Str × Value)) : PState :=
  let tmp := fromRecordIn (pull p.pool).1 fields
  { p with
    base := { p.base with spans := modifyAt p.base.spans id (fun m => extendFromLabelsOverwrite m tmp) }
    pool := release (pull p.pool).2 tmp }

/-- the registry clears the extensions of the closed span, which drops its `Labels` -/
def pClose (p : PState) (id : Nat) : PState :=
  match p.base.spans[id]? with
  | some m => if p.closed.contains id then p else { p with pool := release p.pool m, closed := id :: p.closed }
  | none => p

def pstep (p : PState) : POp → PState
  | .base (.newSpan t par fields) => pOnNewSpan p t par fields
  | .base (.record _ id fields) => pOnRecord p id fields
  | .base op => { p with base := step p.base op }
  | .close id => pClose p id

def prun (p : PState) (ops : List POp) : PState := ops.foldl pstep p

/-- the subscriber calls of a program, without the closings -/
def baseOps : List POp → List Op
  | [] => []
  | .base op :: r => op :: baseOps r
  | .close _ :: r => baseOps r

/-- what keeps a span alive in the registry besides its handle: an entry on the stack of one of the threads
    `0 .. nthreads-1`, or a child that has not closed -/
def pinned (p : PState) (nthreads : Nat) (id : Nat) : Bool :=
  (List.range nthreads).any (fun t => (p.base.stacks t).any (fun c => c.id == id))
  || (List.range p.parents.length).any (fun j => p.parents[j]? == some (some id) && !p.closed.contains j)

/-- `dispatch.downcast_ref::<MetricsLayer>()?` in `enhance_key`: with a subscriber that has no `MetricsLayer`
    the key is handed on as it is -/
def emitCfg (hasLayer : Bool) (s : State) (f : Filter) (t : Nat) (name : Str) (labels : List (Str × Str)) :
    List (Str × Str) :=
  if hasLayer then emit s f t name labels else labels

/-- `Registry::new_span` under a subscriber WITHOUT a `MetricsLayer`: the span exists (it gets a number, it can
    be entered and be a parent) but no `Labels` extension is ever made for it and the pool is not touched; the
    `[]` in `base.spans` only keeps the numbering (nothing reads it: `emitCfg false`) -/
def pNewSpanNoLayer (p : PState) (t : Nat) (parent : Parent) : PState :=
  { p with
    base := { p.base with spans := p.base.spans ++ [[]] }
    parents := p.parents ++ [resolveParent p.base t parent] }

/-- the end of a subscriber's life: every span still open is dropped, its `Labels` goes back to the pool, which
    outlives the subscriber (it is a process-wide static) -/
def poolAfterDrop (p : PState) : List FMap :=
  (List.range p.base.spans.length).foldl
    (fun pool i => if p.closed.contains i then pool else
      match p.base.spans[i]? with
      | some m => release pool m
      | none => pool) p.pool

/-! ### registry slots: the id of a closed span is handed out again

`Registry::new_span` takes a slot of a `sharded_slab::Pool`; `Span::id()` is that slot's index (plus a generation).
When a span closes, the slot's `DataInner` is cleared (its extensions, hence its `Labels`, are dropped — the
`release` of the pool section) and the slot goes back to the free list; a later span gets it again.  Everything above
numbers spans by creation and keeps closed spans as tombstones.  This section stores the `Labels` where the code stores
them, in the registry slot, and reads them through the slot, as `MetricsLayer` does (`ctx.span(id)`, `extensions()`);
`base.spans` is carried along as the creation-numbered reading, and `Props/C17` (`slots_agree`) proves that the two
readings agree for every live span as long as the registry only hands out slots that no live span occupies.

WHICH free slot is handed out (per-thread shards, local and remote free lists) is not modelled: the slot is part of
the operation, as observed on the real registry. -/

structure RState where
  base : State := {}                            -- spans by creation number, closed ones as tombstones
  closed : List Nat := []
  slotOf : Nat → Nat := fun _ => 0               -- creation number ↦ registry slot
  ext : Nat → Option FMap := fun _ => none       -- registry slot ↦ the `Labels` extension stored in it

/-- `ctx.span(id)` + `extensions().get::<Labels>()` -/
def rLookup (r : RState) : Option Nat → Option FMap
  | none => none
  | some pid => r.ext (r.slotOf pid)

def liveR (r : RState) (id : Nat) : Bool := id < r.base.spans.length && !r.closed.contains id

/-- no live span occupies the slot -/
def slotFree (r : RState) (slot : Nat) : Bool :=
  (List.range r.base.spans.length).all (fun id => r.closed.contains id || r.slotOf id != slot)

inductive ROp
  | new (t : Nat) (parent : Parent) (fields : List (Str × Value)) (slot : Nat)
  | record (t : Nat) (id : Nat) (fields : List (Str × Value))
  | enter (t : Nat) (id : Nat)
  | exit (t : Nat) (id : Nat)
  | close (id : Nat)

def recordFn (fields : List (Str × Value)) (m : FMap) : FMap := extendFromLabelsOverwrite m (fromRecord fields)

def rstep (r : RState) : ROp → RState
  | .new t par fields slot =>
    { r with
      base := { r.base with spans := r.base.spans ++ [newSpanLabels fields (rLookup r (resolveParent r.base t par))] }
      slotOf := fun i => if i = r.base.spans.length then slot else r.slotOf i
      ext := fun s => if s = slot then some (newSpanLabels fields (rLookup r (resolveParent r.base t par))) else r.ext s }
  | .record _ id fields =>
    { r with
      base := { r.base with spans := modifyAt r.base.spans id (recordFn fields) }
      ext := fun s => if s = r.slotOf id then (r.ext s).map (recordFn fields) else r.ext s }
  | .enter t id => { r with base := step r.base (.enter t id) }
  | .exit t id => { r with base := step r.base (.exit t id) }
  | .close id =>
    if liveR r id then { r with closed := id :: r.closed, ext := fun s => if s = r.slotOf id then none else r.ext s }
    else r

/-- what the registry guarantees and the harness observes: a new span gets a slot no live span occupies; parents and
    recorded spans are alive (a handle or a stack entry keeps them so) -/
def legal (r : RState) : ROp → Bool
  | .new t par _ slot =>
    slotFree r slot && (match resolveParent r.base t par with | none => true | some pid => liveR r pid)
  | .record _ id _ => liveR r id
  | _ => true

/-- the same operation in the creation-numbered reading (closing does nothing there) -/
def ROp.toBase : ROp → Option Op
  | .new t par fields _ => some (.newSpan t par fields)
  | .record t id fields => some (.record t id fields)
  | .enter t id => some (.enter t id)
  | .exit t id => some (.exit t id)
  | .close _ => none

def baseStepOpt (s : State) : Option Op → State
  | some op => step s op
  | none => s

/-- the key an emission on thread `t` gets when the current span's labels are read from its registry slot -/
def rEmit (r : RState) (f : Filter) (t : Nat) (name : Str) (labels : List (Str × Str)) : List (Str × Str) :=
  match rLookup r (current r.base t) with
  | none => labels
  | some m => if m.isEmpty then labels else enhanceLabels f name m labels

/-! ### other subscriber compositions: a per-layer filter on the `MetricsLayer`, events, `follows_from`

`MetricsLayer::new().with_filter(f)` (`tracing_subscriber::filter::Filtered`): a span whose metadata the filter turns
down still exists in the registry (it gets an id, can be entered, is `current_span()`, can be a parent) but the layer
is told nothing about it: no `on_new_span`, no `on_record`, hence no `Labels` extension (HIDDEN span).  For an enabled
span `on_new_span` runs with a `Context` that carries the filter, and `span.parent()` (`SpanRef::parent`) walks up to
the closest ancestor that is enabled for the layer.  `enhance_key` asks the registry for `current_span()`, which knows
nothing of per-layer filters: when the current span is hidden, `ext.get::<Labels>()?` is `None` and the key passes
unchanged.  (The same state describes a global `LevelFilter`: a span it disables does not exist at all; the harness
creates it as a hidden span that is never entered and never a parent.)

`MetricsLayer` implements `on_layer`, `on_new_span`, `on_record` only (`Generated.tracing_layer_fns`): an event
(`on_event`) and `Span::follows_from` (`on_follows_from`) reach the default, empty callbacks. -/

structure FState where
  base : State := {}
  hidden : List Nat := []                -- spans the layer's filter turned down
  parents : List (Option Nat) := []      -- span number ↦ the parent `Registry::new_span` resolved

def isHidden (f : FState) (id : Nat) : Bool := f.hidden.contains id

/-- `SpanRef::parent()` under a per-layer filter: from the registry parent upwards, the first span that is enabled for
    the layer (`fuel`: a parent is older than its child, so the number of spans bounds the walk) -/
def enabledFrom (f : FState) : Nat → Option Nat → Option Nat
  | 0, _ => none
  | _ + 1, none => none
  | fuel + 1, some p => if isHidden f p then enabledFrom f fuel (f.parents[p]?).join else some p

inductive FOp
  | new (t : Nat) (parent : Parent) (fields : List (Str × Value)) (enabled : Bool)
  | record (t : Nat) (id : Nat) (fields : List (Str × Value))
  | enter (t : Nat) (id : Nat)
  | exit (t : Nat) (id : Nat)
  | event (t : Nat) (parent : Parent) (fields : List (Str × Value))   -- `tracing::event!`: `Layer::on_event`
  | followsFrom (id other : Nat)                                      -- `Span::follows_from`: `Layer::on_follows_from`

/-- the parent whose `Labels` `on_new_span` merges in -/
def labelParent (f : FState) (t : Nat) (parent : Parent) : Option Nat :=
  enabledFrom f f.base.spans.length (resolveParent f.base t parent)

def fstep (f : FState) : FOp → FState
  | .new t par fields true =>
    { f with
      base := { f.base with spans := f.base.spans ++ [newSpanLabels fields (parentLabels f.base (labelParent f t par))] }
      parents := f.parents ++ [resolveParent f.base t par] }
  | .new t par _ false =>
    { base := { f.base with spans := f.base.spans ++ [[]] }          -- `[]` only keeps the numbering
      hidden := f.base.spans.length :: f.hidden
      parents := f.parents ++ [resolveParent f.base t par] }
  | .record t id fields => if isHidden f id then f else { f with base := step f.base (.record t id fields) }
  | .enter t id => { f with base := step f.base (.enter t id) }
  | .exit t id => { f with base := step f.base (.exit t id) }
  | .event _ _ _ => f
  | .followsFrom _ _ => f

def frun (f : FState) (ops : List FOp) : FState := ops.foldl fstep f

/-- `enhance_key` under the filtered layer: the registry's current span; hidden → `get::<Labels>()?` is `None` -/
def fEmit (f : FState) (flt : Filter) (t : Nat) (name : Str) (labels : List (Str × Str)) : List (Str × Str) :=
  match current f.base t with
  | none => labels
  | some c => if isHidden f c then labels else emit f.base flt t name labels

/-- the `Labels` extension of span `id` as the layer (or anyone) finds it: none on a hidden span -/
def fLabels (f : FState) (id : Nat) : Option FMap := if isHidden f id then none else f.base.spans[id]?

def optParent : Option Nat → Parent
  | none => .root
  | some q => .explicit q

/-- the same subscriber calls as seen by an UNFILTERED layer that yields the same maps: an enabled span is created
    under its closest enabled ancestor, a hidden span is a field-less root span, records on hidden spans, events and
    `follows_from` vanish -/
def ftransOp (f : FState) : FOp → List Op
  | .new t par fields true => [.newSpan t (optParent (labelParent f t par)) fields]
  | .new t _ _ false => [.newSpan t .root []]
  | .record t id fields => if isHidden f id then [] else [.record t id fields]
  | .enter t id => [.enter t id]
  | .exit t id => [.exit t id]
  | .event _ _ _ => []
  | .followsFrom _ _ => []

def ftrans : FState → List FOp → List Op
  | _, [] => []
  | f, op :: r => ftransOp f op ++ ftrans (fstep f op) r

/-- an operation no callback of `MetricsLayer` sees -/
def FOp.silent : FOp → Bool
  | .event _ _ _ => true
  | .followsFrom _ _ => true
  | _ => false

/-- the operations of an unfiltered subscriber, as `FOp`s -/
def FOp.ofOp : Op → FOp
  | .newSpan t p fields => .new t p fields true
  | .record t id fields => .record t id fields
  | .enter t id => .enter t id
  | .exit t id => .exit t id

end MetricsVerif.Tracing
