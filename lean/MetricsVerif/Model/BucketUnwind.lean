import MetricsVerif.Model.Bucket
/-
`AtomicBucket::clear_with` whose user callback UNWINDS (panics) — metrics-util/src/storage/bucket.rs.

`clear_with` detaches the whole chain with one CAS (`cCas`), then walks it and calls `f(data)` once per block (`cRead`).
`f` is user code (`FnMut(&[T])`); when it unwinds while being called for block `blk`, the unwind leaves `clear_with` from
inside the grant of `bkt.clear.read`: the locals are dropped — the epoch guard (unpin), the `Backoff`, and `freeable_blocks`,
a `Vec<Shared<Block<T>>>` of raw pointers whose drop frees nothing — and nothing else happens.  In particular the code has
no unwind guard: the tail stays what it is (null, or whatever pushers installed since the detach), the blocks behind `blk`
are neither handed to `f`, nor re-attached, nor retired.

In the step machine: the thread has just taken its `cRead blk` step (the callback was handed the block: `acc` holds the
data) and is at `cNext blk`; the unwind ends the call there.  What the callbacks were handed is recorded as the result of
the call (`Res.cleared acc`) so that `delivered` counts it.  No shared state changes.
-/
namespace MetricsVerif.Bucket

/-- the call of thread `t` ends by unwinding out of the callback it has just been running (it is at `cNext`, i.e. right
    after `f(data)` in the `bkt.clear.read` grant); any other PC: no callback is running, nothing to unwind -/
def unwindThread (t : Thread) : Thread :=
  match t.pc with
  | .cNext _ => t.advance (.cleared t.acc)
  | _ => t

/-- the callback of thread `tid`'s running `clear_with` unwinds: only that thread changes -/
def unwindStep (s : Sys) (tid : Nat) : Sys :=
  match s.threads[tid]? with
  | none => s
  | some t => { s with threads := setAt s.threads tid (unwindThread t) }

/-- the blocks of the detached chain the walk of `t` has not reached yet: what is left behind if the callback unwinds now -/
def orphanedBy (s : Sys) (t : Thread) : List Nat :=
  match t.pc with
  | .cNext blk => chainData s s.blocks.length (getBlock s blk).next
  | _ => []

/-- a schedule in which some grants are marked "the callback called in this grant unwinds" -/
def runMarked (s : Sys) : List (Nat × Bool) → Sys
  | [] => s
  | (tid, u) :: r =>
    let s' := step s tid
    runMarked (if u then unwindStep s' tid else s') r

/-- values orphaned at the marked grants of a run, in the order in which it happened -/
def orphansOfRun (s : Sys) : List (Nat × Bool) → List Nat
  | [] => []
  | (tid, u) :: r =>
    let s' := step s tid
    if u then
      (match s'.threads[tid]? with | some t => orphanedBy s' t | none => []) ++ orphansOfRun (unwindStep s' tid) r
    else orphansOfRun s' r

end MetricsVerif.Bucket
