import MetricsVerif.Model.OnceCell
/-
Model of the lookup layer ABOVE the cell (metrics/src/recorder/mod.rs), i.e. the path every macro takes:

  set_global_recorder(r)  =  GLOBAL_RECORDER.set(r)                      (forwards, nothing else)
  with_recorder(f)        =  if the thread-local slot holds l      → f(l)
                             else if GLOBAL_RECORDER.try_load() = Some g → f(g)
                             else                                        → f(&NOOP_RECORDER)

The layer has NO state of its own: whatever it answers is a function of the thread-local slot and of what
the cell answered to THIS call (`dispatch`). A thread's program of API calls (`GCall`) is therefore projected
onto the calls it makes on the cell (`toCell`; an emission under a local recorder makes none), run on the
cell step machine (`Model/OnceCell.lean`), and what the API user observes is read back with `observe`.
The shape of the two functions (branch order, the single forward, no other use of the global cell, no other
thread-local) is pinned by the translator (`Generated.global_*`, theorem `C02.src_global_layer`).
-/
namespace MetricsVerif.GlobalRec
open MetricsVerif.OnceCell

/-- one API call of a thread -/
inductive GCall
  | install (r : Nat)        -- `set_global_recorder(recorder r)`
  | emit                     -- an emission (macro / `with_recorder`) with no local recorder installed
  | emitLocal (l : Nat)      -- an emission inside `with_local_recorder(&l, ..)`
  deriving Repr, DecidableEq

/-- where an emission is dispatched -/
inductive Target
  | noop | global (r : Nat) | localRec (l : Nat)
  deriving Repr, DecidableEq

/-- `with_recorder`: local recorder first, else what `GLOBAL_RECORDER.try_load()` answered, else no-op.
    (`torn` = the cell answered `None` after `INITIALIZED`; the code would fall through to the no-op too.) -/
def dispatch (loc : Option Nat) (g : Res) : Target :=
  match loc with
  | some l => .localRec l
  | none => match g with
    | .some r => .global r
    | _ => .noop

/-- what the API user observes for one call -/
inductive GRes
  | installed | rejected (r : Nat) | sent (t : Target)
  deriving Repr, DecidableEq

/-- the calls a thread makes on the global cell -/
def toCell : List GCall → List Call
  | [] => []
  | .install r :: cs => .set r :: toCell cs
  | .emit :: cs => .load :: toCell cs
  | .emitLocal _ :: cs => toCell cs

/-- observation of a completed cell call (no local recorder in scope) -/
def ofRes : Res → GRes
  | .ok => .installed
  | .err r => .rejected r
  | r => .sent (dispatch none r)

/-- a thread's observations: its program walked along the answers of its cell calls (oldest first) -/
def observe : List GCall → List Res → List GRes
  | [], _ => []
  | .emitLocal l :: cs, rs => .sent (dispatch (some l) .none) :: observe cs rs
  | _ :: _, [] => []
  | _ :: cs, r :: rs => ofRes r :: observe cs rs

/-- the process: every thread's API program projected onto the cell machine -/
def ginit (progs : List (List GCall)) : Sys := init (progs.map toCell)

def grun (o : Ord) (progs : List (List GCall)) (sched : List Nat) : Sys := run o (ginit progs) sched

/-- per-thread observations after a run -/
def gobserve (progs : List (List GCall)) (s : Sys) : List (List GRes) :=
  (progs.zip s.threads).map (fun (p, t) => observe p t.results)

end MetricsVerif.GlobalRec
