import MetricsVerif.Model.OnceCell
/-
Model of the lookup layer ABOVE the cell (metrics/src/recorder/mod.rs), i.e. the path every macro takes:

  set_global_recorder(r)  =  GLOBAL_RECORDER.set(r)                      (forwards, nothing else)
  with_recorder(f)        =  if the thread-local slot holds l      → f(l)
                             else if GLOBAL_RECORDER.try_load() = Some g → f(g)
                             else                                        → f(&NOOP_RECORDER)

The layer has NO state of its own: whatever it answers is a function of the thread-local slot and of what
the cell answered to THIS call (`dispatch`). A thread's program of API calls (`GCall`) is therefore projected
onto the calls it makes on the cell (`toCell`; an emission under a local recorder makes none), run on the
cell step machine (`Model/OnceCell.lean`), and what the API user observes is read back with `observe`.
The shape of the two functions (branch order, the single forward, no other use of the global cell, no other
thread-local) is pinned by the translator (`Generated.global_*`, theorem `C02.src_global_layer`).

Round 3 — what happens INSIDE and AFTER `f(recorder)`: the call into the recorder may panic (the panic unwinds
through `with_recorder` and is caught by the caller, which goes on emitting), and the recorder (or the closure
handed to `with_recorder`) may emit again while the outer dispatch is on the stack. Because the layer keeps
nothing across a call, a panicking emission projects onto the cell exactly like a plain one (`emitPanic` ↦ one
lookup), and an emission from inside a dispatched call is one more lookup of the same thread — made only if the
enclosing lookup found a recorder (`Call.nested`, `settle` in Model/OnceCell.lean: the no-op recorder emits
nothing). Pinned by `C02.src_dispatch_is_bare_call`.
-/
namespace MetricsVerif.GlobalRec
open MetricsVerif.OnceCell

/-- one API call of a thread -/
inductive GCall
  | install (r : Nat)        -- `set_global_recorder(recorder r)`
  | emit                     -- an emission (macro / `with_recorder`) with no local recorder installed
  | emitLocal (l : Nat)      -- an emission inside `with_local_recorder(&l, ..)`
  | emitPanic                -- an emission (no local recorder) whose call into the recorder PANICS if it reaches a
                             -- real recorder; the panic unwinds through `with_recorder` and is caught by the
                             -- caller (`catch_unwind`, a worker pool, an async runtime), the thread goes on
  | emitNested (k : Nat)     -- an emission (no local recorder) handled by a recorder that emits again from INSIDE
                             -- the call, `k` levels deep (an exporter counting its own registrations)
  | emitIn                   -- `with_recorder(|r| { r.…; <a second emission> })`: the closure handed to
                             -- `with_recorder` emits while the outer dispatch is still on the stack
  | emitLocalPanic (l : Nat) -- an emission inside `with_local_recorder(&l, ..)` whose recorder panics; the panic
                             -- unwinds through `with_recorder` AND the local scope and is caught outside it
  | installIn (r : Nat)      -- round 7: an INSTALLATION made from inside a dispatched call:
                             -- `with_recorder(|rec| { rec.…; set_global_recorder(r); <an emission> })` — the closure
                             -- runs whatever the outer lookup found (also on the no-op recorder), installs while the
                             -- outer dispatch is on the stack and emits again: lookup, `set`, lookup
  | installLocal (l r : Nat) -- round 7: `with_local_recorder(&l, || { set_global_recorder(r); <an emission> })`:
                             -- the installation goes to the GLOBAL cell whatever the local slot holds (the layer
                             -- forwards, `src_global_layer`), the emission to the local recorder (no lookup)
  deriving Repr, DecidableEq

/-- does the call (try to) install a global recorder -/
def GCall.installs : GCall → Bool
  | .install _ => true
  | .installIn _ => true
  | .installLocal _ _ => true
  | _ => false

/-- where an emission is dispatched -/
inductive Target
  | noop | global (r : Nat) | localRec (l : Nat)
  deriving Repr, DecidableEq

/-- `with_recorder`: local recorder first, else what `GLOBAL_RECORDER.try_load()` answered, else no-op.
    (`torn` = the cell answered `None` after `INITIALIZED`; the code would fall through to the no-op too.) -/
def dispatch (loc : Option Nat) (g : Res) : Target :=
  match loc with
  | some l => .localRec l
  | none => match g with
    | .some r => .global r
    | _ => .noop

/-- what the API user observes for one call -/
inductive GRes
  | installed | rejected (r : Nat) | sent (t : Target)
  | unwound (t : Target)          -- dispatched to `t`, whose method panicked; caught by the caller
  | sentAll (ts : List Target)    -- outer emission first, then the emissions made from inside it
  | closureInstall (outer : Target) (inst : Res) (inner : Target)
                                  -- `installIn`: where the outer emission went, what `set` answered (`ok`/`err r`),
                                  -- where the emission made after it (same closure) went
  | scopedInstall (inst : Res) (l : Nat)
                                  -- `installLocal`: what `set` answered, and the emission went to local recorder `l`
  deriving Repr, DecidableEq

/-- the calls a thread makes on the global cell -/
def toCell : List GCall → List Call
  | [] => []
  | .install r :: cs => .set r :: toCell cs
  | .emit :: cs => .load :: toCell cs
  | .emitLocal _ :: cs => toCell cs
  | .emitPanic :: cs => .load :: toCell cs
  | .emitNested k :: cs => .load :: (List.replicate k .nested ++ toCell cs)
  | .emitIn :: cs => .load :: .load :: toCell cs
  | .emitLocalPanic _ :: cs => toCell cs
  | .installIn r :: cs => .load :: .set r :: .load :: toCell cs
  | .installLocal _ r :: cs => .set r :: toCell cs

/-- observation of a completed cell call (no local recorder in scope) -/
def ofRes : Res → GRes
  | .ok => .installed
  | .err r => .rejected r
  | r => .sent (dispatch none r)

/-- observation of a completed lookup whose dispatched call panics when it reaches a real recorder
    (`with_recorder` has no state and no clean-up of its own: the unwinding changes nothing) -/
def ofResPanic : Res → GRes
  | .some r => .unwound (.global r)
  | r => ofRes r

/-- the answers belonging to one emission with up to `n` lookups, each made only if the one before it
    answered `Some`; and the answers that are left -/
def takeNested : Nat → List Res → List Res × List Res
  | 0, rs => ([], rs)
  | _ + 1, [] => ([], [])
  | n + 1, r :: rs =>
    if r.isSome then ((r :: (takeNested n rs).1), (takeNested n rs).2) else ([r], rs)

/-- a thread's observations: its program walked along the answers of its cell calls (oldest first) -/
def observe : List GCall → List Res → List GRes
  | [], _ => []
  | .emitLocal l :: cs, rs => .sent (dispatch (some l) .none) :: observe cs rs
  | .emitLocalPanic l :: cs, rs => .unwound (dispatch (some l) .none) :: observe cs rs
  | _ :: _, [] => []
  | .emitPanic :: cs, r :: rs => ofResPanic r :: observe cs rs
  | .emitNested k :: cs, r :: rs =>
    .sentAll ((takeNested (k + 1) (r :: rs)).1.map (dispatch none)) :: observe cs (takeNested (k + 1) (r :: rs)).2
  | .emitIn :: _, [_] => []
  | .emitIn :: cs, r₁ :: r₂ :: rs => .sentAll [dispatch none r₁, dispatch none r₂] :: observe cs rs
  | .installIn _ :: _, [_] => []
  | .installIn _ :: _, [_, _] => []
  | .installIn _ :: cs, r₁ :: r₂ :: r₃ :: rs =>
    .closureInstall (dispatch none r₁) r₂ (dispatch none r₃) :: observe cs rs
  | .installLocal l _ :: cs, r :: rs => .scopedInstall r l :: observe cs rs
  | _ :: cs, r :: rs => ofRes r :: observe cs rs

/-- the process: every thread's API program projected onto the cell machine -/
def ginit (progs : List (List GCall)) : Sys := init (progs.map toCell)

def grun (o : Ord) (progs : List (List GCall)) (sched : List Nat) : Sys := run o (ginit progs) sched

/-- per-thread observations after a run -/
def gobserve (progs : List (List GCall)) (s : Sys) : List (List GRes) :=
  (progs.zip s.threads).map (fun (p, t) => observe p t.results)

end MetricsVerif.GlobalRec
