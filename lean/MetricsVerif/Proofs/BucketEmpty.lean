/-
C05, `is_empty` completeness for programs without clears: an `is_empty` that began after some value's publish step
answers `false`, in every interleaving.  Ingredients: claim counters only grow; every block that is not the newest
has had a slot claimed (a new block is only installed by a pusher whose claim on the old tail failed, i.e. after
that claim counter was incremented); `is_empty` looks at the claim counter of the tail it loaded and of its
predecessor (the `fix:` for the former K3 — on the published length this would be false).
-/
import MetricsVerif.Proofs.BucketSnap

namespace MetricsVerif.Bucket

/-! ### claim counters only grow -/

theorem writeStep_setBlock (s : Sys) (blk : Nat) (b' : Block) (k : Nat) (h : (getBlock s blk).write ≤ b'.write) :
    (getBlock s k).write ≤ (getBlock (setBlock s blk b') k).write := by
  rw [getBlock_setBlock]
  split
  · rename_i hc; obtain ⟨rfl, _⟩ := hc; exact h
  · exact Nat.le_refl _

theorem writeStep_append (s : Sys) (nb : Block) (tl : Option Nat) (k : Nat) :
    (getBlock s k).write ≤ (getBlock { s with blocks := s.blocks ++ [nb], tail := tl } k).write := by
  rw [getBlock_append]
  by_cases h1 : k < s.blocks.length
  · simp only [h1, if_true]; exact Nat.le_refl _
  · rw [getBlock_of_ge s k (by omega)]; exact Nat.zero_le _

theorem stepThread_write (s : Sys) (t : Thread) (k : Nat) :
    (getBlock s k).write ≤ (getBlock (stepThread s t).1 k).write := by
  unfold stepThread
  cases hp : t.pc with
  | pCasFirst =>
    simp only
    split
    · exact writeStep_append s newBlock _ k
    · exact Nat.le_refl _
  | pClaim blk r =>
    simp only
    split
    · exact writeStep_setBlock _ _ _ _ (Nat.le_succ _)
    · split <;> exact writeStep_setBlock _ _ _ _ (Nat.le_succ _)
  | pPublish blk idx =>
    simp only
    exact writeStep_setBlock _ _ _ _ (Nat.le_refl _)
  | pCasNew old =>
    simp only
    split
    · exact writeStep_append s { newBlock with next := some old } _ k
    · exact Nat.le_refl _
  | start => exact Nat.le_refl _
  | done => exact Nat.le_refl _
  | pLoadTail => simp only; split <;> exact Nat.le_refl _
  | dLoadTail => simp only; split <;> exact Nat.le_refl _
  | dQuiesced blk => exact Nat.le_refl _
  | dWait blk => exact Nat.le_refl _
  | dRead blk => exact Nat.le_refl _
  | dNext blk => simp only; split <;> exact Nat.le_refl _
  | cLoadTail => simp only; split <;> exact Nat.le_refl _
  | cCas old => simp only; split <;> exact Nat.le_refl _
  | cQuiesced blk => exact Nat.le_refl _
  | cWait blk => exact Nat.le_refl _
  | cRead blk => exact Nat.le_refl _
  | cNext blk => simp only; split <;> exact Nat.le_refl _
  | eLoadTail => simp only; split <;> exact Nat.le_refl _
  | eLen blk => exact Nat.le_refl _

theorem step_write (s : Sys) (tid k : Nat) : (getBlock s k).write ≤ (getBlock (step s tid) k).write := by
  cases hg : s.threads[tid]? with
  | none => unfold step; rw [hg]; exact Nat.le_refl _
  | some t =>
    rw [step_eq s tid t hg]
    exact stepThread_write s t k

/-! ### every block below the newest has had a slot claimed -/

theorem startPC_ne_casnew (calls : List Call) (old : Nat) : startPC calls ≠ .pCasNew old := by
  cases calls with
  | nil => simp [startPC]
  | cons c r => cases c <;> simp [startPC, pcOfCall]

/-- the stepping thread: blocks below the newest stay claimed, and a thread that arrives at the hand-over CAS has
    just incremented the claim counter of the block it wants to replace -/
theorem wstep_thread (s : Sys) (t : Thread) (hc : CInv s)
    (hnt : ∀ k, k + 1 < s.blocks.length → 1 ≤ (getBlock s k).write)
    (hcn : ∀ old, t.pc = .pCasNew old → 1 ≤ (getBlock s old).write)
    (hclaim : ∀ blk r, t.pc = .pClaim blk r → blk < s.blocks.length) (hn : NoClrT t) :
    (∀ k, k + 1 < (stepThread s t).1.blocks.length → 1 ≤ (getBlock (stepThread s t).1 k).write)
    ∧ (∀ old, (stepThread s t).2.pc = .pCasNew old → 1 ≤ (getBlock (stepThread s t).1 old).write) := by
  have hadv : ∀ (r : Res) (old : Nat), (t.advance r).pc = .pCasNew old → 1 ≤ (getBlock s old).write :=
    fun r old h => absurd h (startPC_ne_casnew _ old)
  unfold stepThread
  cases hp : t.pc with
  | start => exact ⟨hnt, fun old h => absurd h (startPC_ne_casnew _ old)⟩
  | done => exact ⟨hnt, fun old h => by rw [hp] at h; cases h⟩
  | pLoadTail => simp only; split <;> exact ⟨hnt, fun old h => by cases h⟩
  | pCasFirst =>
    simp only
    split
    · rename_i ht
      have hz := tail_none_len hc ht
      refine ⟨fun k hk => ?_, fun old h => by cases h⟩
      simp only [List.length_append, List.length_singleton] at hk
      omega
    · exact ⟨hnt, fun old h => by cases h⟩
  | pClaim blk r =>
    have hlt := hclaim blk r hp
    simp only
    have hset : ∀ (b' : Block), (getBlock s blk).write + 1 = b'.write →
        (∀ k, k + 1 < (setBlock s blk b').blocks.length → 1 ≤ (getBlock (setBlock s blk b') k).write)
        ∧ 1 ≤ (getBlock (setBlock s blk b') blk).write := by
      intro b' hw
      refine ⟨fun k hk => ?_, ?_⟩
      · rw [setBlock_blocks, setAt_length] at hk
        exact Nat.le_trans (hnt k hk) (writeStep_setBlock s blk b' k (by omega))
      · rw [getBlock_setBlock]; simp only [hlt, and_self, if_true]; omega
    split
    · exact ⟨(hset _ rfl).1, fun old h => by cases h⟩
    · split
      · exact ⟨(hset _ rfl).1, fun old h => by cases h⟩
      · refine ⟨(hset _ rfl).1, fun old h => ?_⟩
        injection h with h; subst h
        exact (hset _ rfl).2
  | pPublish blk idx =>
    simp only
    refine ⟨fun k hk => ?_, fun old h => absurd h (startPC_ne_casnew _ old)⟩
    rw [setBlock_blocks, setAt_length] at hk
    exact Nat.le_trans (hnt k hk) (writeStep_setBlock s blk _ k (Nat.le_refl _))
  | pCasNew old =>
    simp only
    split
    · rename_i ht
      have hb := tail_some_len hc ht
      have hw := hcn old hp
      refine ⟨fun k hk => ?_, fun o h => by cases h⟩
      simp only [List.length_append, List.length_singleton] at hk
      rw [getBlock_append]
      have hk' : k < s.blocks.length := by omega
      simp only [hk', if_true]
      by_cases hko : k = old
      · subst hko; exact hw
      · exact hnt k (by omega)
    · exact ⟨hnt, fun o h => by cases h⟩
  | dLoadTail =>
    simp only
    split
    · exact ⟨hnt, hadv _⟩
    · exact ⟨hnt, fun old h => by cases h⟩
  | dQuiesced blk => exact ⟨hnt, fun old h => by simp only at h; split at h <;> cases h⟩
  | dWait blk => exact ⟨hnt, fun old h => by simp only at h; split at h <;> cases h⟩
  | dRead blk => exact ⟨hnt, fun old h => by cases h⟩
  | dNext blk =>
    simp only
    split
    · exact ⟨hnt, hadv _⟩
    · exact ⟨hnt, fun old h => by cases h⟩
  | cLoadTail => exact absurd hn.2 (by rw [hp]; simp [isClearPC])
  | cCas old => exact absurd hn.2 (by rw [hp]; simp [isClearPC])
  | cQuiesced blk => exact absurd hn.2 (by rw [hp]; simp [isClearPC])
  | cWait blk => exact absurd hn.2 (by rw [hp]; simp [isClearPC])
  | cRead blk => exact absurd hn.2 (by rw [hp]; simp [isClearPC])
  | cNext blk => exact absurd hn.2 (by rw [hp]; simp [isClearPC])
  | eLoadTail =>
    simp only
    split
    · exact ⟨hnt, hadv _⟩
    · exact ⟨hnt, fun old h => by cases h⟩
  | eLen blk => exact ⟨hnt, hadv _⟩

/-- the claim-counter invariant of programs without clears -/
structure WInv (s : Sys) : Prop where
  base : AInv s
  chain : CInv s
  nontail : ∀ k, k + 1 < s.blocks.length → 1 ≤ (getBlock s k).write
  casnew : ∀ (i : Nat) (t : Thread) (old : Nat), s.threads[i]? = some t → t.pc = .pCasNew old →
      1 ≤ (getBlock s old).write

theorem wstep (s : Sys) (tid : Nat) (h : WInv s) : WInv (step s tid) := by
  cases hg : s.threads[tid]? with
  | none =>
    have : step s tid = s := by unfold step; rw [hg]
    rw [this]; exact h
  | some t =>
    have hw := wstep_thread s t h.chain h.nontail (fun old hp => h.casnew tid t old hg hp)
      (fun blk r hp => (h.base.thr tid t hg).claim_lt blk r hp) (h.chain.thr tid t hg)
    refine ⟨astep_inv s tid h.base, cstep s tid h.chain, ?_, ?_⟩
    · rw [step_eq s tid t hg]; exact hw.1
    · rw [step_eq s tid t hg]
      intro i u old hu hpc
      rcases threads_after hg i u hu with ⟨_, rfl⟩ | ⟨_, hu'⟩
      · exact hw.2 old hpc
      · exact Nat.le_trans (h.casnew i u old hu' hpc) (stepThread_write s t old)

theorem wrun (sched : List Nat) : ∀ s, WInv s → WInv (run s sched) := by
  induction sched with
  | nil => intro s h; exact h
  | cons t ts ih => intro s h; exact ih _ (wstep s t h)

theorem init_winv (B : Nat) (progs : List (List Call)) (hnc : ∀ p ∈ progs, Call.clear ∉ p) : WInv (init B progs) := by
  refine ⟨init_ainv B progs, init_cinv B progs hnc, ?_, ?_⟩
  · intro k hk; simp [init] at hk
  · intro i t old ht hpc
    have hm : t ∈ (init B progs).threads := List.mem_of_getElem? ht
    simp only [init, List.mem_map] at hm
    obtain ⟨p, _, rfl⟩ := hm
    cases hpc

/-! ### the `is_empty` caller's invariant, relative to the blocks `bs0` of the state in which the call began -/

theorem pubc_pos_len (v : Nat) (cs : List Cell) (h : 1 ≤ pubc v cs) : 1 ≤ cs.length := by
  have h1 : pubc v cs ≤ (pubVals cs).length := List.count_le_length
  have h2 : (pubVals cs).length ≤ cs.length := List.length_filterMap_le _ _
  omega

theorem blk0_pos_lt (v : Nat) (bs0 : List Block) (j : Nat) (h : 1 ≤ pubc v (blk0 bs0 j).cells) : j < bs0.length := by
  by_cases hj : j < bs0.length
  · exact hj
  · exfalso
    have : blk0 bs0 j = newBlock := by unfold blk0; rw [List.getElem?_eq_none (by omega)]; rfl
    rw [this] at h
    simp [newBlock, pubc, pubVals] at h

theorem needFrom_pos (v : Nat) (bs0 : List Block) : ∀ (n k : Nat), bs0.length ≤ k + n → 1 ≤ needFrom v bs0 k →
    ∃ j, 1 ≤ pubc v (blk0 bs0 j).cells := by
  intro n
  induction n with
  | zero => intro k hk h; rw [needFrom_ge v bs0 k (by omega)] at h; omega
  | succ n ih =>
    intro k hk h
    rw [needFrom_succ] at h
    by_cases h1 : 1 ≤ pubc v (blk0 bs0 k).cells
    · exact ⟨k, h1⟩
    · exact ih (k + 1) (by omega) (by omega)

def EPC (bs0 : List Block) (s : Sys) : PC → Prop
  | .eLoadTail => True
  | .eLen b => b < s.blocks.length ∧ bs0.length ≤ b + 1
  | _ => False

/-- the call that began in `S0` is still running, or it has answered — `false` if anything was published in `S0` -/
def EInv (bs0 : List Block) (r0 : List Res) (s : Sys) (t : Thread) : Prop :=
  (t.results = r0 ∧ EPC bs0 s t.pc)
  ∨ ∃ e rest, t.results = r0 ++ Res.empty e :: rest ∧ ((∃ j v, 1 ≤ pubc v (blk0 bs0 j).cells) → e = false)

theorem EInv.mono {bs0 : List Block} {r0 : List Res} {s s' : Sys} {t : Thread}
    (hl : s.blocks.length ≤ s'.blocks.length) (h : EInv bs0 r0 s t) : EInv bs0 r0 s' t := by
  rcases h with ⟨h1, h2⟩ | h
  · refine Or.inl ⟨h1, ?_⟩
    cases hp : t.pc with
    | eLoadTail => trivial
    | eLen b => rw [hp] at h2; simp only [EPC] at h2 ⊢; exact ⟨Nat.lt_of_lt_of_le h2.1 hl, h2.2⟩
    | _ => rw [hp] at h2; simp only [EPC] at h2
  · exact Or.inr h

structure EmpInv (bs0 : List Block) (r0 : List Res) (i : Nat) (s : Sys) : Prop where
  w : WInv s
  len : bs0.length ≤ s.blocks.length
  mono : ∀ k v, pubc v (blk0 bs0 k).cells ≤ pubc v (getBlock s k).cells
  rd : ∃ t, s.threads[i]? = some t ∧ EInv bs0 r0 s t

/-- a block that holds a published value has had a slot claimed -/
theorem write_pos_of_pub {s : Sys} (h : AInv s) {j v : Nat} (hj : j < s.blocks.length)
    (hp : 1 ≤ pubc v (getBlock s j).cells) : 1 ≤ (getBlock s j).write := by
  have hb : s.blocks[j]? = some (getBlock s j) := by
    rw [List.getElem?_eq_getElem hj]; unfold getBlock; rw [List.getElem?_eq_getElem hj]; rfl
  have h1 := h.cells_len j _ hb
  have h2 := pubc_pos_len v _ hp
  omega

theorem e_own_step {bs0 : List Block} {r0 : List Res} {i : Nat} {s : Sys} (h : EmpInv bs0 r0 i s) (t : Thread)
    (hr : EInv bs0 r0 s t) : EInv bs0 r0 (stepThread s t).1 (stepThread s t).2 := by
  rcases hr with ⟨hres, hpc⟩ | ⟨e, rest, hres, hv⟩
  · unfold stepThread
    cases hp : t.pc with
    | eLoadTail =>
      simp only
      split
      · rename_i ht
        have hz := tail_none_len h.w.chain ht
        refine Or.inr ⟨true, [], by simp [Thread.advance, hres], fun hex => ?_⟩
        obtain ⟨j, v, hjv⟩ := hex
        have := blk0_pos_lt v bs0 j hjv
        have := h.len
        omega
      · rename_i b ht
        have hb := tail_some_len h.w.chain ht
        refine Or.inl ⟨hres, ?_⟩
        simp only [EPC]
        have := h.len
        exact ⟨by omega, by omega⟩
    | eLen b =>
      rw [hp] at hpc; simp only [EPC] at hpc
      obtain ⟨hb, hlen⟩ := hpc
      simp only
      refine Or.inr ⟨?e, [], ?h1, fun hex => ?h2⟩
      case h1 => exact congrArg (fun l => l ++ [_]) hres
      obtain ⟨j, v, hjv⟩ := hex
      have hj := blk0_pos_lt v bs0 j hjv
      have hjs : j < s.blocks.length := by omega
      have hwj := write_pos_of_pub h.w.base hjs (Nat.le_trans hjv (h.mono j v))
      by_cases hjb : j = b
      · subst hjb
        have : ((getBlock s j).write == 0) = false := by
          simp only [beq_eq_false_iff_ne, ne_eq]; omega
        rw [this, Bool.false_and]
      · have hb0 : b ≠ 0 := by omega
        have hnx := next_of_chain h.w.chain hb
        simp only [hb0, if_false] at hnx
        have hwp := h.w.nontail (b - 1) (by omega)
        have : ((getBlock s (b - 1)).write == 0) = false := by
          simp only [beq_eq_false_iff_ne, ne_eq]; omega
        simp only [hnx, this, Bool.and_false]
    | start => rw [hp] at hpc; simp only [EPC] at hpc
    | done => rw [hp] at hpc; simp only [EPC] at hpc
    | pLoadTail => rw [hp] at hpc; simp only [EPC] at hpc
    | pCasFirst => rw [hp] at hpc; simp only [EPC] at hpc
    | pClaim blk r => rw [hp] at hpc; simp only [EPC] at hpc
    | pPublish blk idx => rw [hp] at hpc; simp only [EPC] at hpc
    | pCasNew old => rw [hp] at hpc; simp only [EPC] at hpc
    | dLoadTail => rw [hp] at hpc; simp only [EPC] at hpc
    | dQuiesced blk => rw [hp] at hpc; simp only [EPC] at hpc
    | dWait blk => rw [hp] at hpc; simp only [EPC] at hpc
    | dRead blk => rw [hp] at hpc; simp only [EPC] at hpc
    | dNext blk => rw [hp] at hpc; simp only [EPC] at hpc
    | cLoadTail => rw [hp] at hpc; simp only [EPC] at hpc
    | cCas old => rw [hp] at hpc; simp only [EPC] at hpc
    | cQuiesced blk => rw [hp] at hpc; simp only [EPC] at hpc
    | cWait blk => rw [hp] at hpc; simp only [EPC] at hpc
    | cRead blk => rw [hp] at hpc; simp only [EPC] at hpc
    | cNext blk => rw [hp] at hpc; simp only [EPC] at hpc
  · rcases stepThread_results s t with e' | ⟨r, e'⟩
    · exact Or.inr ⟨e, rest, by rw [e', hres], hv⟩
    · exact Or.inr ⟨e, rest ++ [r], by rw [e', hres]; simp, hv⟩

theorem emp_step {bs0 : List Block} {r0 : List Res} {i : Nat} (s : Sys) (tid : Nat) (h : EmpInv bs0 r0 i s) :
    EmpInv bs0 r0 i (step s tid) := by
  refine ⟨wstep s tid h.w, Nat.le_trans h.len (step_len s tid),
    fun k v => Nat.le_trans (h.mono k v) (pubc_of_cellsStep v _ _ (step_cells s tid k)), ?_⟩
  obtain ⟨t, ht, hr⟩ := h.rd
  cases hg : s.threads[tid]? with
  | none =>
    have : step s tid = s := by unfold step; rw [hg]
    rw [this]; exact ⟨t, ht, hr⟩
  | some u =>
    have hthr := (step_threads s tid u hg).1
    by_cases hi : tid = i
    · subst hi
      rw [ht] at hg; injection hg with hg; subst hg
      refine ⟨(stepThread s t).2, ?_, ?_⟩
      · rw [hthr, getElem?_setAt]; simp [lt_of_getElem?_some ht]
      · have h1 := e_own_step h t hr
        have hb : (step s tid).blocks = (stepThread s t).1.blocks := by rw [step_eq s tid t ht]
        exact h1.mono (by rw [hb]; exact Nat.le_refl _)
    · refine ⟨t, ?_, hr.mono (step_len s tid)⟩
      rw [hthr, getElem?_setAt]; simp [hi, ht]

theorem emp_run {bs0 : List Block} {r0 : List Res} {i : Nat} (sched : List Nat) :
    ∀ s, EmpInv bs0 r0 i s → EmpInv bs0 r0 i (run s sched) := by
  induction sched with
  | nil => intro s h; exact h
  | cons t ts ih => intro s h; exact ih _ (emp_step s t h)

end MetricsVerif.Bucket
