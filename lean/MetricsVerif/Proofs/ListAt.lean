/-
Generic lemmas about replacing one element of a thread list (`setAt`), shared by the step-machine proofs.
-/
import MetricsVerif.Model.Sched

namespace MetricsVerif

theorem setAt_length {α : Type} (l : List α) (i : Nat) (a : α) : (setAt l i a).length = l.length := by
  induction l generalizing i with
  | nil => rfl
  | cons x xs ih => cases i <;> simp [setAt, ih]

theorem mem_setAt {α : Type} {l : List α} {i : Nat} {a u : α} (h : u ∈ setAt l i a) : u = a ∨ u ∈ l := by
  induction l generalizing i with
  | nil => simp [setAt] at h
  | cons x xs ih =>
    cases i with
    | zero =>
      simp only [setAt, List.mem_cons] at h
      rcases h with h | h
      · exact Or.inl h
      · exact Or.inr (List.mem_cons_of_mem _ h)
    | succ n =>
      simp only [setAt, List.mem_cons] at h
      rcases h with h | h
      · exact Or.inr (by simp [h])
      · rcases ih h with h | h
        · exact Or.inl h
        · exact Or.inr (List.mem_cons_of_mem _ h)

theorem mem_setAt_self {α : Type} {l : List α} {i : Nat} {a x : α} (h : l[i]? = some x) : a ∈ setAt l i a := by
  induction l generalizing i with
  | nil => simp at h
  | cons y ys ih =>
    cases i with
    | zero => simp [setAt]
    | succ n =>
      simp only [List.getElem?_cons_succ] at h
      simp only [setAt, List.mem_cons]
      exact Or.inr (ih h)

theorem getElem?_setAt {α : Type} (l : List α) (i j : Nat) (a : α) :
    (setAt l i a)[j]? = if i = j ∧ j < l.length then some a else l[j]? := by
  induction l generalizing i j with
  | nil => simp [setAt]
  | cons x xs ih =>
    cases i with
    | zero =>
      cases j with
      | zero => simp [setAt]
      | succ m => simp [setAt]
    | succ n =>
      cases j with
      | zero => simp [setAt]
      | succ m =>
        simp only [setAt, List.getElem?_cons_succ, ih, List.length_cons]
        by_cases h : n = m <;> simp [h]

/-- weighted count: replacing element `x` at position `i` by `a` moves the total by `f a - f x` -/
theorem sum_map_setAt {α : Type} (f : α → Nat) (l : List α) (i : Nat) (a x : α) (h : l[i]? = some x) :
    ((setAt l i a).map f).sum + f x = (l.map f).sum + f a := by
  induction l generalizing i with
  | nil => simp at h
  | cons y ys ih =>
    cases i with
    | zero =>
      simp only [List.getElem?_cons_zero, Option.some.injEq] at h
      subst h
      simp only [setAt, List.map_cons, List.sum_cons]; omega
    | succ n =>
      simp only [List.getElem?_cons_succ] at h
      have := ih n h
      simp only [setAt, List.map_cons, List.sum_cons]; omega

theorem mem_of_getElem? {α : Type} {l : List α} {i : Nat} {x : α} (h : l[i]? = some x) : x ∈ l := by
  exact List.mem_of_getElem? h

theorem setAt_same' {α : Type} (l : List α) (i : Nat) (x : α) (h : l[i]? = some x) : setAt l i x = l := by
  induction l generalizing i with
  | nil => rfl
  | cons y ys ih =>
    cases i with
    | zero => simp only [List.getElem?_cons_zero, Option.some.injEq] at h; subst h; rfl
    | succ n => simp only [List.getElem?_cons_succ] at h; simp only [setAt, ih n h]

end MetricsVerif
