/-
Helper lemmas for C03 (`Props/C03.lean`): comparison functions that are linear orders (`GoodOrd`), closed under
lexicographic lists and `then`; the canonical form of a key; sortedness / permutation of the stable sort;
the inductive invariant of the `get_hash` memo.
-/
import MetricsVerif.Model.Key

namespace MetricsVerif.Key

/-! ## comparison functions that are linear orders -/

/-- `c` is the three-way comparison of a linear order whose `.eq` is identity -/
structure GoodOrd {α : Type} (c : α → α → Ordering) : Prop where
  eq_iff : ∀ a b, c a b = .eq ↔ a = b
  swap : ∀ a b, c b a = (c a b).swap
  lt_trans : ∀ a b d, c a b = .lt → c b d = .lt → c a d = .lt

theorem GoodOrd.refl {c : α → α → Ordering} (g : GoodOrd c) (a : α) : c a a = .eq := (g.eq_iff a a).2 rfl

theorem GoodOrd.gt_iff {c : α → α → Ordering} (g : GoodOrd c) (a b : α) : c a b = .gt ↔ c b a = .lt := by
  rw [g.swap a b]; cases c a b <;> simp [Ordering.swap]

/-- `≤` is transitive -/
theorem GoodOrd.le_trans {c : α → α → Ordering} (g : GoodOrd c) {a b d : α}
    (h1 : c a b ≠ .gt) (h2 : c b d ≠ .gt) : c a d ≠ .gt := by
  cases e1 : c a b with
  | gt => exact absurd e1 h1
  | eq => have := (g.eq_iff a b).1 e1; subst this; exact h2
  | lt =>
    cases e2 : c b d with
    | gt => exact absurd e2 h2
    | eq => have := (g.eq_iff b d).1 e2; subst this; simp [e1]
    | lt => simp [g.lt_trans a b d e1 e2]

theorem cmpNat_lt (a b : Nat) : cmpNat a b = .lt ↔ a < b := by
  unfold cmpNat
  by_cases h1 : a < b
  · simp [h1]
  · by_cases h2 : b < a <;> simp [h1, h2]

theorem goodNat : GoodOrd cmpNat := by
  refine ⟨?_, ?_, ?_⟩
  · intro a b; unfold cmpNat
    by_cases h1 : a < b
    · simp [h1]; omega
    · by_cases h2 : b < a
      · simp [h1, h2]; omega
      · simp [h1, h2]; omega
  · intro a b; unfold cmpNat
    by_cases h1 : a < b
    · have : ¬ b < a := by omega
      simp [h1, this, Ordering.swap]
    · by_cases h2 : b < a
      · simp [h1, h2, Ordering.swap]
      · simp [h1, h2, Ordering.swap]
  · intro a b d h1 h2
    rw [cmpNat_lt] at *
    omega

/-- the pure-`Ordering` core of "lexicographic `<` is transitive" -/
theorem then_lt_trans {x1 x2 x3 y1 y2 y3 : Ordering}
    (hx : x1 = .lt → x2 = .lt → x3 = .lt) (he1 : x1 = .eq → x3 = x2) (he2 : x2 = .eq → x3 = x1)
    (hy : x1 = .eq → x2 = .eq → y1 = .lt → y2 = .lt → y3 = .lt) :
    x1.then y1 = .lt → x2.then y2 = .lt → x3.then y3 = .lt := by
  cases x1 <;> cases x2 <;> simp_all [Ordering.then]

/-- two comparisons chained with `then`, pulled back along two projections that together are injective -/
theorem goodThen {α β γ : Type} {c1 : α → α → Ordering} {c2 : β → β → Ordering} (g1 : GoodOrd c1) (g2 : GoodOrd c2)
    (f : γ → α) (g : γ → β) (inj : ∀ x y, f x = f y → g x = g y → x = y) :
    GoodOrd (fun x y => (c1 (f x) (f y)).then (c2 (g x) (g y))) := by
  refine ⟨?_, ?_, ?_⟩
  · intro x y
    simp only [Ordering.then_eq_eq, g1.eq_iff, g2.eq_iff]
    constructor
    · intro ⟨h1, h2⟩; exact inj x y h1 h2
    · intro h; subst h; exact ⟨rfl, rfl⟩
  · intro x y
    show (c1 (f y) (f x)).then (c2 (g y) (g x)) = ((c1 (f x) (f y)).then (c2 (g x) (g y))).swap
    rw [Ordering.swap_then, ← g1.swap, ← g2.swap]
  · intro x y z
    apply then_lt_trans
    · exact g1.lt_trans _ _ _
    · intro h; rw [(g1.eq_iff _ _).1 h]
    · intro h; rw [(g1.eq_iff _ _).1 h]
    · intro _ _; exact g2.lt_trans _ _ _

theorem goodList {α : Type} {c : α → α → Ordering} (g : GoodOrd c) : GoodOrd (cmpList c) := by
  refine ⟨?_, ?_, ?_⟩
  · intro a
    induction a with
    | nil => intro b; cases b <;> simp [cmpList]
    | cons x xs ih =>
      intro b
      cases b with
      | nil => simp [cmpList]
      | cons y ys => simp [cmpList, Ordering.then_eq_eq, g.eq_iff, ih]
  · intro a
    induction a with
    | nil => intro b; cases b <;> simp [cmpList, Ordering.swap]
    | cons x xs ih =>
      intro b
      cases b with
      | nil => simp [cmpList, Ordering.swap]
      | cons y ys => simp only [cmpList]; rw [Ordering.swap_then, ← g.swap, ← ih]
  · intro a
    induction a with
    | nil =>
      intro b d h1 h2
      cases b with
      | nil => simp [cmpList] at h1
      | cons y ys => cases d <;> simp_all [cmpList]
    | cons x xs ih =>
      intro b d
      cases b with
      | nil => simp [cmpList]
      | cons y ys =>
        cases d with
        | nil => simp [cmpList]
        | cons z zs =>
          simp only [cmpList]
          apply then_lt_trans
          · exact g.lt_trans _ _ _
          · intro h; rw [(g.eq_iff _ _).1 h]
          · intro h; rw [(g.eq_iff _ _).1 h]
          · intro _ _; exact ih ys zs

theorem goodStr : GoodOrd cmpStr := goodList goodNat

theorem goodLabel : GoodOrd Label.cmp :=
  goodThen goodStr goodStr Label.key Label.value (by intro x y h1 h2; cases x; cases y; simp_all)

/-! ## `Label::lt` and the two-label order -/

theorem Label.lt_asymm (a b : Label) : a.lt b = true → b.lt a = false := by
  unfold Label.lt; rw [goodLabel.swap a b]; cases a.cmp b <;> simp [Ordering.swap]

theorem Label.lt_total (a b : Label) (h : a ≠ b) : a.lt b = true ∨ b.lt a = true := by
  unfold Label.lt; rw [goodLabel.swap a b]
  have := goodLabel.eq_iff a b
  cases e : a.cmp b <;> simp_all [Ordering.swap]

theorem order2_comm (a b : Label) : order2 a b = order2 b a := by
  by_cases h : a = b
  · subst h; rfl
  · unfold order2
    rcases Label.lt_total a b h with h1 | h1
    · simp [h1, Label.lt_asymm a b h1]
    · simp [h1, Label.lt_asymm b a h1]

theorem order2_cases (a b : Label) : order2 a b = [a, b] ∨ order2 a b = [b, a] := by
  unfold order2; split <;> simp

/-! ## the stable sort by label name -/

theorem keyLe_total (a b : Label) : keyLe a b = true ∨ keyLe b a = true := by
  unfold keyLe; rw [goodStr.swap a.key b.key]; cases cmpStr a.key b.key <;> simp [Ordering.swap]

theorem keyLe_trans {a b c : Label} (h1 : keyLe a b = true) (h2 : keyLe b c = true) : keyLe a c = true := by
  unfold keyLe at *
  simp only [bne_iff_ne, ne_eq] at *
  exact goodStr.le_trans h1 h2

theorem keyLe_antisymm {a b : Label} (h1 : keyLe a b = true) (h2 : keyLe b a = true) : a.key = b.key := by
  unfold keyLe at *
  rw [goodStr.swap a.key b.key] at h2
  apply (goodStr.eq_iff _ _).1
  cases e : cmpStr a.key b.key <;> simp_all [Ordering.swap]

theorem insertByKey_perm (x : Label) (l : List Label) : (insertByKey x l).Perm (x :: l) := by
  induction l with
  | nil => exact List.Perm.refl _
  | cons y ys ih =>
    unfold insertByKey
    split
    · exact List.Perm.refl _
    · exact ((List.Perm.cons y ih).trans (List.Perm.swap x y ys))

theorem sortByKey_perm (l : List Label) : (sortByKey l).Perm l := by
  induction l with
  | nil => exact List.Perm.refl _
  | cons x xs ih => exact (insertByKey_perm x _).trans (List.Perm.cons x ih)

theorem sortByKey_length (l : List Label) : (sortByKey l).length = l.length := (sortByKey_perm l).length_eq

theorem insertByKey_sorted (x : Label) (l : List Label) (h : l.Pairwise (fun a b => keyLe a b = true)) :
    (insertByKey x l).Pairwise (fun a b => keyLe a b = true) := by
  induction l with
  | nil => simp [insertByKey]
  | cons y ys ih =>
    unfold insertByKey
    rw [List.pairwise_cons] at h
    split
    · rename_i hxy
      refine List.Pairwise.cons ?_ (List.Pairwise.cons h.1 h.2)
      intro z hz
      rcases List.mem_cons.1 hz with rfl | hz
      · exact hxy
      · exact keyLe_trans hxy (h.1 z hz)
    · rename_i hxy
      have hyx : keyLe y x = true := by
        rcases keyLe_total x y with h' | h'
        · exact absurd h' hxy
        · exact h'
      refine List.Pairwise.cons ?_ (ih h.2)
      intro z hz
      rcases List.mem_cons.1 ((insertByKey_perm x ys).subset hz) with rfl | hz
      · exact hyx
      · exact h.1 z hz

theorem sortByKey_sorted (l : List Label) : (sortByKey l).Pairwise (fun a b => keyLe a b = true) := by
  induction l with
  | nil => exact List.Pairwise.nil
  | cons x xs ih => exact insertByKey_sorted x _ ih

theorem eq_of_key_eq_of_nodup {l : List Label} (hd : (l.map (·.key)).Nodup) {a b : Label}
    (ha : a ∈ l) (hb : b ∈ l) (h : a.key = b.key) : a = b := by
  induction l with
  | nil => cases ha
  | cons x xs ih =>
    simp only [List.map_cons, List.nodup_cons, List.mem_map, not_exists, not_and] at hd
    rcases List.mem_cons.1 ha with ha' | ha' <;> rcases List.mem_cons.1 hb with hb' | hb'
    · rw [ha', hb']
    · subst ha'; exact absurd h.symm (hd.1 b hb')
    · subst hb'; exact absurd h (hd.1 a ha')
    · exact ih hd.2 ha' hb'

/-- with pairwise distinct label names, the sorted order does not depend on the given order -/
theorem sortByKey_eq_of_perm {l₁ l₂ : List Label} (hp : l₁.Perm l₂) (hd : (l₁.map (·.key)).Nodup) :
    sortByKey l₁ = sortByKey l₂ := by
  apply List.Perm.eq_of_pairwise (le := fun a b => keyLe a b = true) _ (sortByKey_sorted l₁) (sortByKey_sorted l₂)
    ((sortByKey_perm l₁).trans (hp.trans (sortByKey_perm l₂).symm))
  intro a b ha hb h1 h2
  have ha' : a ∈ l₁ := (sortByKey_perm l₁).subset ha
  have hb' : b ∈ l₁ := hp.symm.subset ((sortByKey_perm l₂).subset hb)
  exact eq_of_key_eq_of_nodup hd ha' hb' (keyLe_antisymm h1 h2)

/-! ## canonical form -/

theorem hashOrder_length (l : List Label) : (hashOrder l).length = l.length := by
  match l with
  | [] => rfl
  | [_] => rfl
  | [a, b] => rcases order2_cases a b with h | h <;> simp [hashOrder, h]
  | a :: b :: c :: rest => simp only [hashOrder]; exact sortByKey_length _

/-- what `==`, `cmp` and `hash` all look at: name, number of labels, labels in canonical order -/
def canon (k : Key) : Str × Nat × List Label := (k.name, k.labels.length, hashOrder k.labels)

/-- lexicographic comparison of canonical forms -/
def cmpCanon (p q : Str × Nat × List Label) : Ordering :=
  ((cmpStr p.1 q.1).then (cmpNat p.2.1 q.2.1)).then (cmpList Label.cmp p.2.2 q.2.2)

theorem goodCanon : GoodOrd cmpCanon := by
  have h1 : GoodOrd (fun (x y : Str × Nat) => (cmpStr x.1 y.1).then (cmpNat x.2 y.2)) :=
    goodThen goodStr goodNat Prod.fst Prod.snd (by intro x y h1 h2; cases x; cases y; simp_all)
  exact goodThen (γ := Str × Nat × List Label) h1 (goodList goodLabel) (fun p => (p.1, p.2.1)) (fun p => p.2.2)
    (by intro x y h1 h2; obtain ⟨a, b, c⟩ := x; obtain ⟨a', b', c'⟩ := y; simp_all)

theorem eqArm_iff (la lb : List Label) (hl : la.length = lb.length) :
    eqArm la lb = true ↔ hashOrder la = hashOrder lb := by
  match la, lb, hl with
  | [], [], _ => simp [eqArm, hashOrder]
  | [x], [y], _ => simp [eqArm, hashOrder]
  | [x0, x1], [y0, y1], _ =>
    simp only [eqArm, hashOrder]
    by_cases h0 : x0 = y0
    · subst h0
      simp only [beq_self_eq_true, if_true, beq_iff_eq]
      constructor
      · intro h; subst h; rfl
      · intro h
        rcases order2_cases x0 x1 with e1 | e1 <;> rcases order2_cases x0 y1 with e2 | e2 <;>
          rw [e1, e2] at h <;> simp_all
    · by_cases h1 : x0 = y1
      · subst h1
        have hne : (x0 == y0) = false := by simp [h0]
        simp only [hne, beq_self_eq_true, if_true, Bool.false_eq_true, if_false, beq_iff_eq]
        constructor
        · intro h; subst h; exact order2_comm _ _
        · intro h
          rcases order2_cases x0 x1 with e1 | e1 <;> rcases order2_cases y0 x0 with e2 | e2 <;>
            rw [e1, e2] at h <;> simp_all
      · have hne0 : (x0 == y0) = false := by simp [h0]
        have hne1 : (x0 == y1) = false := by simp [h1]
        simp only [hne0, hne1, Bool.false_eq_true, if_false]
        constructor
        · intro h; cases h
        · intro h
          rcases order2_cases x0 x1 with e1 | e1 <;> rcases order2_cases y0 y1 with e2 | e2 <;>
            rw [e1, e2] at h <;> simp_all
  | x0 :: x1 :: x2 :: xs, y0 :: y1 :: y2 :: ys, _ => simp [eqArm, hashOrder]

theorem cmpArm_eq (la lb : List Label) (hl : la.length = lb.length) :
    cmpArm la lb = cmpList Label.cmp (hashOrder la) (hashOrder lb) := by
  match la, lb, hl with
  | [], [], _ => simp [cmpArm, hashOrder, cmpList]
  | [x], [y], _ => simp [cmpArm, hashOrder, cmpList]
  | [x0, x1], [y0, y1], _ => simp [cmpArm, hashOrder]
  | x0 :: x1 :: x2 :: xs, y0 :: y1 :: y2 :: ys, _ => simp [cmpArm, hashOrder]

/-! ## the `get_hash` / `clone` memo: inductive invariant -/

/-- what the invariant says about one thread; `h` is the true hash -/
def Good (h : Nat) (s : Sys) (t : Nat) : Prop :=
  match s.pc t with
  | .storeHash v => v = h
  | .storeFlag v => v = h
  | .done v => v = h
  | .loadHash => s.synced t = true ∧ s.hashed = true
  | .cloneHash f => f = true → (s.synced t = true ∧ s.hashed = true)
  | .cloned f v => f = true → v = h
  | .cloneHashFirst => False
  | .cloneFlagSecond _ => False
  | _ => True

/-- invariant of the memo under the code's orderings; `h` is the true hash -/
structure Inv (h : Nat) (s : Sys) : Prop where
  /-- every value a thread carries or has returned is the true hash; a thread about to load `hash` after
      reading `hashed == true` has synchronised; a finished clone that copied `hashed == true` copied the true
      hash; no thread loads `hash` before `hashed` -/
  good : ∀ t, Good h s t
  /-- `hash` holds the true hash from the first store on -/
  hashOk : s.hash = h ∨ (s.hashed = false ∧ ∀ t v, s.pc t ≠ .storeFlag v)
  /-- a visible `true` was released -/
  rel : s.hashed = true → s.flagReleased = true

theorem Inv.vals {h : Nat} {s : Sys} (inv : Inv h s) (t v : Nat)
    (hv : s.pc t = .storeHash v ∨ s.pc t = .storeFlag v ∨ s.pc t = .done v) : v = h := by
  have g := inv.good t
  unfold Good at g
  rcases hv with e | e | e <;> simpa [e] using g

theorem Inv.cvals {h : Nat} {s : Sys} (inv : Inv h s) (t v : Nat) (hv : s.pc t = .cloned true v) : v = h := by
  have g := inv.good t
  unfold Good at g
  simpa [hv] using g

theorem Inv.hash_of_hashed {h : Nat} {s : Sys} (inv : Inv h s) (hh : s.hashed = true) : s.hash = h := by
  rcases inv.hashOk with e | ⟨e, _⟩
  · exact e
  · rw [hh] at e; cases e

theorem step_pc_other (o : Ords) (h : Nat) (s : Sys) (t u : Nat) (hu : u ≠ t) : (step o h s t).pc u = s.pc u := by
  unfold MetricsVerif.Key.step
  cases hpc : s.pc t with
  | idle => rfl
  | done v => rfl
  | cloned f v => rfl
  | loadFlag =>
    by_cases hh : s.hashed = true
    · by_cases hr : (o.flagLoadAcquire && s.flagReleased) = true <;> simp [hh, hr, setPc, hu]
    · simp [hh, setPc, hu]
  | loadHash => simp [setPc, hu]
  | storeHash v => simp [setPc, hu]
  | storeFlag v => simp [setPc, hu]
  | cloneName => simp [setPc, hu]
  | cloneLabels => simp [setPc, hu]
  | cloneFlag => simp only [syncIf]; split <;> simp [setPc, hu]
  | cloneHash f => simp [setPc, hu]
  | cloneHashFirst => simp [setPc, hu]
  | cloneFlagSecond v => simp only [syncIf]; split <;> simp [setPc, hu]

theorem step_synced_other (o : Ords) (h : Nat) (s : Sys) (t u : Nat) (hu : u ≠ t) :
    (step o h s t).synced u = s.synced u := by
  unfold MetricsVerif.Key.step
  cases hpc : s.pc t with
  | idle => rfl
  | done v => rfl
  | cloned f v => rfl
  | loadFlag =>
    by_cases hh : s.hashed = true
    · by_cases hr : (o.flagLoadAcquire && s.flagReleased) = true <;> simp [hh, hr, setPc, hu]
    · simp [hh, setPc]
  | loadHash => simp [setPc]
  | storeHash v => simp [setPc]
  | storeFlag v => simp [setPc]
  | cloneName => simp [setPc]
  | cloneLabels => simp [setPc]
  | cloneFlag => simp only [syncIf]; split <;> simp [setPc, hu]
  | cloneHash f => simp [setPc]
  | cloneHashFirst => simp [setPc]
  | cloneFlagSecond v => simp only [syncIf]; split <;> simp [setPc, hu]

theorem step_hashed_mono (o : Ords) (h : Nat) (s : Sys) (t : Nat) (hh : s.hashed = true) :
    (step o h s t).hashed = true := by
  unfold MetricsVerif.Key.step
  cases hpc : s.pc t with
  | idle => exact hh
  | done v => exact hh
  | cloned f v => exact hh
  | loadFlag => by_cases hr : (o.flagLoadAcquire && s.flagReleased) = true <;> simp [hh, hr, setPc]
  | loadHash => simpa [setPc] using hh
  | storeHash v => simpa [setPc] using hh
  | storeFlag v => simp [setPc]
  | cloneName => simpa [setPc] using hh
  | cloneLabels => simpa [setPc] using hh
  | cloneFlag => simp only [syncIf]; split <;> simpa [setPc] using hh
  | cloneHash f => simpa [setPc] using hh
  | cloneHashFirst => simpa [setPc] using hh
  | cloneFlagSecond v => simp only [syncIf]; split <;> simpa [setPc] using hh

/-- the other threads' part of the invariant is not disturbed by a step of `t` -/
theorem Good.frame {h : Nat} {s s' : Sys} {u : Nat} (hpc : s'.pc u = s.pc u) (hsy : s'.synced u = s.synced u)
    (hmono : s.hashed = true → s'.hashed = true) (g : Good h s u) : Good h s' u := by
  unfold Good at *
  rw [hpc, hsy]
  cases e : s.pc u <;> simp only [e] at g ⊢ <;> first | exact g | exact ⟨g.1, hmono g.2⟩ | (intro hf; exact ⟨(g hf).1, hmono (g hf).2⟩)

theorem Inv.step {h : Nat} {s : Sys} (inv : Inv h s) (t : Nat) : Inv h (step codeOrds h s t) := by
  have gt := inv.good t
  have others : ∀ u, u ≠ t → Good h (MetricsVerif.Key.step codeOrds h s t) u := fun u hu =>
    Good.frame (step_pc_other _ _ _ _ _ hu) (step_synced_other _ _ _ _ _ hu) (step_hashed_mono _ _ _ _) (inv.good u)
  have noFlagStore : ∀ (s' : Sys), (∀ u, u ≠ t → s'.pc u = s.pc u) → (∀ v, s'.pc t ≠ .storeFlag v) →
      (∀ u v, s.pc u ≠ .storeFlag v) → ∀ u v, s'.pc u ≠ .storeFlag v := by
    intro s' h1 h2 h3 u v
    by_cases hu : u = t
    · subst hu; exact h2 v
    · rw [h1 u hu]; exact h3 u v
  unfold Good at gt
  refine ⟨fun u => if hu : u = t then ?_ else others u hu, ?_, ?_⟩
  · -- thread `t` itself
    subst hu
    unfold Good MetricsVerif.Key.step
    cases hpc : s.pc u with
    | idle => simp [hpc]
    | done v => simpa [hpc] using gt
    | cloned f v => simpa [hpc] using gt
    | loadFlag =>
      by_cases hh : s.hashed = true
      · have hr := inv.rel hh
        simp [hh, hr, codeOrds, setPc]
      · simp [hh, setPc]
    | loadHash =>
      rw [hpc] at gt
      simp [setPc, gt.1, inv.hash_of_hashed gt.2]
    | storeHash v => rw [hpc] at gt; simpa [setPc] using gt
    | storeFlag v => rw [hpc] at gt; simpa [setPc] using gt
    | cloneName => simp [setPc]
    | cloneLabels => simp [setPc, codeOrds]
    | cloneFlag =>
      by_cases hh : s.hashed = true
      · have hr := inv.rel hh
        simp [hh, hr, codeOrds, setPc, syncIf]
      · simp [hh, setPc, syncIf]
    | cloneHash f =>
      rw [hpc] at gt
      simp only [setPc, readHash, if_true]
      intro hf
      have := gt hf
      simp [this.1, inv.hash_of_hashed this.2]
    | cloneHashFirst => rw [hpc] at gt; exact gt.elim
    | cloneFlagSecond v => rw [hpc] at gt; exact gt.elim
  · -- `hash` is right from the first store on
    unfold MetricsVerif.Key.step
    cases hpc : s.pc t with
    | idle => exact inv.hashOk
    | done v => exact inv.hashOk
    | cloned f v => exact inv.hashOk
    | loadFlag =>
      by_cases hh : s.hashed = true
      · have hr := inv.rel hh
        simp only [hh, hr, codeOrds, Bool.and_self, if_true]
        exact Or.inl (inv.hash_of_hashed hh)
      · simp only [hh, if_false, Bool.false_eq_true]
        rcases inv.hashOk with e | ⟨e, e2⟩
        · exact Or.inl e
        · refine Or.inr ⟨e, noFlagStore _ (fun u hu => by simp [setPc, hu]) (fun v => by simp [setPc]) e2⟩
    | loadHash =>
      rcases inv.hashOk with e | ⟨e, e2⟩
      · exact Or.inl e
      · refine Or.inr ⟨e, noFlagStore _ (fun u hu => by simp [setPc, hu]) (fun v => by simp [setPc]) e2⟩
    | storeHash v => rw [hpc] at gt; exact Or.inl (by simpa [setPc] using gt)
    | storeFlag v =>
      rw [hpc] at gt
      rcases inv.hashOk with e | ⟨_, e2⟩
      · exact Or.inl (by simpa [setPc] using e)
      · exact absurd hpc (e2 t v)
    | cloneName =>
      rcases inv.hashOk with e | ⟨e, e2⟩
      · exact Or.inl e
      · refine Or.inr ⟨e, noFlagStore _ (fun u hu => by simp [setPc, hu]) (fun v => by simp [setPc]) e2⟩
    | cloneLabels =>
      rcases inv.hashOk with e | ⟨e, e2⟩
      · exact Or.inl e
      · refine Or.inr ⟨e, noFlagStore _ (fun u hu => by simp [setPc, hu]) (fun v => by simp [setPc, codeOrds]) e2⟩
    | cloneFlag =>
      rcases inv.hashOk with e | ⟨e, e2⟩
      · left; simp only [syncIf]; split <;> simpa [setPc] using e
      · right
        simp only [e, Bool.false_and, syncIf, Bool.false_eq_true, if_false]
        exact ⟨e, noFlagStore _ (fun u hu => by simp [setPc, hu]) (fun v => by simp [setPc]) e2⟩
    | cloneHash f =>
      rcases inv.hashOk with e | ⟨e, e2⟩
      · exact Or.inl e
      · refine Or.inr ⟨e, noFlagStore _ (fun u hu => by simp [setPc, hu]) (fun v => by simp [setPc]) e2⟩
    | cloneHashFirst => rw [hpc] at gt; exact gt.elim
    | cloneFlagSecond v => rw [hpc] at gt; exact gt.elim
  · -- a visible `true` was released
    unfold MetricsVerif.Key.step
    cases hpc : s.pc t with
    | idle => exact inv.rel
    | done v => exact inv.rel
    | cloned f v => exact inv.rel
    | loadFlag =>
      by_cases hh : s.hashed = true
      · have hr := inv.rel hh
        simp [hh, hr, codeOrds, setPc]
      · simp [hh, setPc]
    | loadHash => simpa [setPc] using inv.rel
    | storeHash v => simpa [setPc] using inv.rel
    | storeFlag v => simp [setPc, codeOrds]
    | cloneName => simpa [setPc] using inv.rel
    | cloneLabels => simpa [setPc] using inv.rel
    | cloneFlag => simp only [syncIf]; split <;> simpa [setPc] using inv.rel
    | cloneHash f => simpa [setPc] using inv.rel
    | cloneHashFirst => simpa [setPc] using inv.rel
    | cloneFlagSecond v => simp only [syncIf]; split <;> simpa [setPc] using inv.rel

theorem Inv.run {h : Nat} (sched : List Nat) : ∀ {s : Sys}, Inv h s → Inv h (run codeOrds h s sched) := by
  induction sched with
  | nil => intro s inv; exact inv
  | cons t ts ih => intro s inv; exact ih (inv.step t)

theorem inv_freshStatic (h n : Nat) : Inv h (freshStatic n) := by
  refine ⟨?_, ?_, ?_⟩
  · intro t; by_cases ht : t < n <;> simp [Good, freshStatic, ht]
  · refine Or.inr ⟨rfl, ?_⟩
    intro t v; simp only [freshStatic]; split <;> simp
  · intro e; simp [freshStatic] at e

theorem inv_freshBuilt (h n : Nat) : Inv h (freshBuilt h n) := by
  refine ⟨?_, Or.inl rfl, fun _ => rfl⟩
  intro t; by_cases ht : t < n <;> simp [Good, freshBuilt, ht]

/-- any key whose memo was constructed consistently (`hashed = true` only together with the true hash), shared
    by any number of `get_hash()` and `clone()` callers -/
theorem inv_freshOf (h : Nat) (f : Bool) (v : Nat) (roles : Nat → Role) (hfv : f = true → v = h) :
    Inv h (freshOf f v roles) := by
  refine ⟨?_, ?_, ?_⟩
  · intro t; unfold Good; simp only [freshOf]; cases roles t <;> simp [Role.start]
  · cases f with
    | true => exact Or.inl (hfv rfl)
    | false =>
      refine Or.inr ⟨rfl, ?_⟩
      intro t w; simp only [freshOf]; cases roles t <;> simp [Role.start]
  · intro e; simpa [freshOf] using e

/-! ### every call finishes within a bounded number of its own steps -/

/-- own steps still needed -/
def PC.rank : PC → Nat
  | .idle => 0 | .loadFlag => 3 | .storeHash _ => 2 | .loadHash => 1 | .storeFlag _ => 1 | .done _ => 0
  | .cloneName => 4 | .cloneLabels => 3 | .cloneFlag => 2 | .cloneHash _ => 1
  | .cloneHashFirst => 2 | .cloneFlagSecond _ => 1 | .cloned _ _ => 0

/-- the thread is inside (or has finished) a `clone()` -/
def PC.isClone : PC → Bool
  | .cloneName | .cloneLabels | .cloneFlag | .cloneHash _ | .cloneHashFirst | .cloneFlagSecond _ | .cloned _ _ => true
  | _ => false

theorem step_rank (o : Ords) (h : Nat) (s : Sys) (t : Nat) :
    ((step o h s t).pc t).rank ≤ (s.pc t).rank - 1 ∧ ((step o h s t).pc t = .idle ↔ s.pc t = .idle)
    ∧ ((step o h s t).pc t).isClone = (s.pc t).isClone := by
  unfold MetricsVerif.Key.step
  cases hpc : s.pc t with
  | idle => simp [hpc, PC.rank, PC.isClone]
  | done v => simp [hpc, PC.rank, PC.isClone]
  | cloned f v => simp [hpc, PC.rank, PC.isClone]
  | loadFlag =>
    by_cases hh : s.hashed = true
    · by_cases hr : (o.flagLoadAcquire && s.flagReleased) = true <;> simp [hh, hr, setPc, PC.rank, PC.isClone]
    · simp [hh, setPc, PC.rank, PC.isClone]
  | loadHash => simp [setPc, PC.rank, PC.isClone]
  | storeHash v => simp [setPc, PC.rank, PC.isClone]
  | storeFlag v => simp [setPc, PC.rank, PC.isClone]
  | cloneName => simp [setPc, PC.rank, PC.isClone]
  | cloneLabels => cases o.cloneFlagFirst <;> simp [setPc, PC.rank, PC.isClone]
  | cloneFlag => simp only [syncIf]; split <;> simp [setPc, PC.rank, PC.isClone]
  | cloneHash f => simp [setPc, PC.rank, PC.isClone]
  | cloneHashFirst => simp [setPc, PC.rank, PC.isClone]
  | cloneFlagSecond v => simp only [syncIf]; split <;> simp [setPc, PC.rank, PC.isClone]

end MetricsVerif.Key
