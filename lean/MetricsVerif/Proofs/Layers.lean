/-
Helper lemmas for C13 (layers): strings, the trie model, the route builder, list forms of the mutually
recursive model functions, handle-tree counting.
-/
import MetricsVerif.Model.Layers

namespace MetricsVerif.Layers

/-! ### strings -/

theorem isPrefixOf_iff (p s : Str) : isPrefixOf p s = true ↔ p <+: s := by
  induction p generalizing s with
  | nil => simp [isPrefixOf]
  | cons a as ih =>
    cases s with
    | nil => simp [isPrefixOf]
    | cons b bs =>
      simp only [isPrefixOf, Bool.and_eq_true, beq_iff_eq, ih, List.prefix_cons_iff]
      constructor
      · rintro ⟨rfl, h⟩; exact Or.inr ⟨as, rfl, h⟩
      · rintro (h | ⟨t, h, ht⟩)
        · cases h
        · cases h; exact ⟨rfl, ht⟩

theorem isInfixOf_iff (p s : Str) : isInfixOf p s = true ↔ p <:+: s := by
  induction s with
  | nil => simp [isInfixOf, isPrefixOf_iff]
  | cons c cs ih =>
    simp only [isInfixOf, Bool.or_eq_true, isPrefixOf_iff, ih, List.infix_cons_iff]

/-! ### the trie model -/

theorem Trie.get_child (t : Trie) (c : Char) (k : Str) :
    Trie.get (Trie.child t c) k = Trie.get t (c :: k) := by
  induction t with
  | nil => simp [Trie.child, Trie.get]
  | cons e rest ih =>
    obtain ⟨k', v⟩ := e
    cases k' with
    | nil => simp [Trie.child, Trie.get, ih]
    | cons c' k'' =>
      simp only [Trie.child]
      by_cases hc : c' = c
      · subst hc
        simp only [if_true, Trie.get, ih, List.cons.injEq, true_and]
      · have : ¬ (c' :: k'' = c :: k) := fun h => hc (List.cons.inj h).1
        simp [hc, Trie.get, ih, this]

/-- `get_ancestor` finds nothing only when no prefix of the name carries a value -/
theorem Trie.getAncestor_none (t : Trie) (name : Str) (h : Trie.getAncestor t name = none) :
    ∀ k', k' <+: name → Trie.get t k' = none := by
  induction name generalizing t with
  | nil =>
    intro k' hk'
    rw [List.prefix_nil] at hk'
    subst hk'
    simpa [Trie.getAncestor] using h
  | cons c cs ih =>
    intro k' hk'
    simp only [Trie.getAncestor] at h
    cases hr : Trie.getAncestor (Trie.child t c) cs with
    | some kv => rw [hr] at h; simp at h
    | none =>
      rw [hr] at h
      rcases List.prefix_cons_iff.mp hk' with rfl | ⟨t', rfl, ht'⟩
      · simpa using h
      · rw [← Trie.get_child]; exact ih _ hr t' ht'

/-- `get_ancestor` returns a key that is a prefix of the name, carries that value, and no longer prefix of
    the name carries a value -/
theorem Trie.getAncestor_some (t : Trie) (name k : Str) (v : Nat)
    (h : Trie.getAncestor t name = some (k, v)) :
    k <+: name ∧ Trie.get t k = some v ∧
      ∀ k', k' <+: name → (Trie.get t k').isSome = true → k'.length ≤ k.length := by
  induction name generalizing t k v with
  | nil =>
    simp only [Trie.getAncestor, Option.map_eq_some_iff, Prod.mk.injEq] at h
    obtain ⟨v', hv, rfl, rfl⟩ := h
    refine ⟨List.prefix_refl _, hv, ?_⟩
    intro k' hk' _
    rw [List.prefix_nil] at hk'
    subst hk'; simp
  | cons c cs ih =>
    simp only [Trie.getAncestor] at h
    cases hr : Trie.getAncestor (Trie.child t c) cs with
    | some kv =>
      obtain ⟨k0, v0⟩ := kv
      rw [hr] at h
      simp only [Option.some.injEq, Prod.mk.injEq] at h
      obtain ⟨rfl, rfl⟩ := h
      obtain ⟨h1, h2, h3⟩ := ih _ _ _ hr
      refine ⟨?_, ?_, ?_⟩
      · exact List.prefix_cons_iff.mpr (Or.inr ⟨k0, rfl, h1⟩)
      · rw [← Trie.get_child]; exact h2
      · intro k' hk' hs
        rcases List.prefix_cons_iff.mp hk' with rfl | ⟨t', rfl, ht'⟩
        · simp
        · have := h3 t' ht' (by rw [Trie.get_child]; exact hs)
          simp only [List.length_cons]; omega
    | none =>
      rw [hr] at h
      simp only [Option.map_eq_some_iff, Prod.mk.injEq] at h
      obtain ⟨v', hv, rfl, rfl⟩ := h
      refine ⟨List.nil_prefix, hv, ?_⟩
      intro k' hk' hs
      rcases List.prefix_cons_iff.mp hk' with rfl | ⟨t', rfl, ht'⟩
      · simp
      · exfalso
        have hn := Trie.getAncestor_none (Trie.child t c) cs hr t' ht'
        rw [Trie.get_child] at hn
        rw [hn] at hs
        simp at hs

/-! ### the route builder -/

/-- position of the last route (in `add_route` order) that covers kind `k` and has exactly the pattern `p` -/
def lastIdx (k : Kind) (p : Str) : List (Mask × Str) → Option Nat
  | [] => none
  | (m, q) :: rest =>
    match lastIdx k p rest with
    | some j => some (j + 1)
    | none => if m.covers k = true ∧ q = p then some 0 else none

theorem lastIdx_none (k : Kind) (p : Str) (rs : List (Mask × Str)) (h : lastIdx k p rs = none) :
    ∀ m, (m, p) ∈ rs → ¬ m.covers k = true := by
  induction rs with
  | nil => intro m hm; simp at hm
  | cons r rest ih =>
    obtain ⟨m0, q⟩ := r
    simp only [lastIdx] at h
    cases hr : lastIdx k p rest with
    | some j0 => rw [hr] at h; simp at h
    | none =>
      rw [hr] at h
      intro m hm hc
      rcases List.mem_cons.mp hm with heq | hmem
      · simp only [Prod.mk.injEq] at heq
        obtain ⟨rfl, rfl⟩ := heq
        simp [hc] at h
      · exact ih hr m hmem hc

theorem lastIdx_some (k : Kind) (p : Str) (rs : List (Mask × Str)) (j : Nat) (h : lastIdx k p rs = some j) :
    ∃ m, rs[j]? = some (m, p) ∧ m.covers k = true ∧
      ∀ j' m', rs[j']? = some (m', p) → m'.covers k = true → j' ≤ j := by
  induction rs generalizing j with
  | nil => simp [lastIdx] at h
  | cons r rest ih =>
    obtain ⟨m, q⟩ := r
    cases hr : lastIdx k p rest with
    | some j0 =>
      have hj : j = j0 + 1 := by
        have h' := h
        simp only [lastIdx, hr, Option.some.injEq] at h'
        omega
      subst hj
      obtain ⟨m0, h1, h2, h3⟩ := ih j0 hr
      refine ⟨m0, by simpa using h1, h2, ?_⟩
      intro j' m' hj' hc
      cases j' with
      | zero => omega
      | succ j'' =>
        have := h3 j'' m' (by simpa using hj') hc
        omega
    | none =>
      by_cases hc : m.covers k = true ∧ q = p
      · have hj : j = 0 := by
          have h' := h
          simp only [lastIdx, hr, if_pos hc, Option.some.injEq] at h'
          omega
        subst hj
        obtain ⟨hc1, rfl⟩ := hc
        refine ⟨m, by simp, hc1, ?_⟩
        intro j' m' hj' hc'
        cases j' with
        | zero => omega
        | succ j'' =>
          exfalso
          have hmem : (m', q) ∈ rest := List.mem_iff_getElem?.mpr ⟨j'', by simpa using hj'⟩
          exact lastIdx_none k q rest hr m' hmem hc'
      · exfalso
        simp only [lastIdx, hr, if_neg hc] at h
        cases h

theorem Builder.nTargets_addRoute (b : Builder) (m : Mask) (q : Str) :
    (b.addRoute m q).nTargets = b.nTargets + 1 := by
  cases m <;> rfl

theorem Builder.get_addRoute (b : Builder) (m : Mask) (q : Str) (k : Kind) (p : Str) :
    Trie.get ((b.addRoute m q).routes k) p
      = if m.covers k = true ∧ q = p then some b.nTargets else Trie.get (b.routes k) p := by
  cases m <;> cases k <;>
    simp [Builder.addRoute, Builder.routes, Mask.covers, Trie.insert, Trie.get]

theorem Builder.maskCovers_addRoute (b : Builder) (m : Mask) (q : Str) (k : Kind) :
    (b.addRoute m q).maskCovers k = (b.maskCovers k || m.covers k) := by
  cases m <;> cases k <;> simp [Builder.addRoute, Builder.maskCovers, Mask.covers]

theorem Builder.get_addRoutes (rs : List (Mask × Str)) (b : Builder) (k : Kind) (p : Str) :
    Trie.get ((b.addRoutes rs).routes k) p
      = match lastIdx k p rs with
        | some j => some (b.nTargets + j)
        | none => Trie.get (b.routes k) p := by
  induction rs generalizing b with
  | nil => simp [Builder.addRoutes, lastIdx]
  | cons r rest ih =>
    obtain ⟨m, q⟩ := r
    simp only [Builder.addRoutes, lastIdx]
    rw [ih]
    cases hr : lastIdx k p rest with
    | some j => simp only [Builder.nTargets_addRoute]; congr 1; omega
    | none =>
      simp only [Builder.get_addRoute]
      split <;> simp

theorem Builder.maskCovers_addRoutes (rs : List (Mask × Str)) (b : Builder) (k : Kind) :
    (b.addRoutes rs).maskCovers k = (b.maskCovers k || rs.any (fun r => r.1.covers k)) := by
  induction rs generalizing b with
  | nil => simp [Builder.addRoutes]
  | cons r rest ih =>
    obtain ⟨m, q⟩ := r
    simp only [Builder.addRoutes, ih, Builder.maskCovers_addRoute, List.any_cons, Bool.or_assoc]

/-- what the finished router's trie for kind `k` holds under key `p` -/
theorem get_built (rs : List (Mask × Str)) (k : Kind) (p : Str) :
    Trie.get ((Builder.addRoutes {} rs).routes k) p = lastIdx k p rs := by
  rw [Builder.get_addRoutes]
  cases lastIdx k p rs with
  | some j => simp
  | none => cases k <;> simp [Builder.routes, Trie.get]

/-! ### list forms of the mutually recursive functions -/

theorem deliverAll_eq (rs : List Rec) (op : Op) : deliverAll rs op = rs.flatMap (·.deliver op) := by
  induction rs with
  | nil => simp [deliverAll]
  | cons r rs ih => simp [deliverAll, ih]

theorem handleAll_eq (rs : List Rec) (op : Op) : handleAll rs op = rs.map (·.handle op) := by
  induction rs with
  | nil => simp [handleAll]
  | cons r rs ih => simp [handleAll, ih]

theorem deliverNth_of_get (ts : List Rec) (i : Nat) (t : Rec) (op : Op) (h : ts[i]? = some t) :
    deliverNth ts i op = t.deliver op := by
  induction ts generalizing i with
  | nil => simp at h
  | cons r rs ih =>
    cases i with
    | zero => simp at h; subst h; simp [deliverNth]
    | succ i => simp at h; simp [deliverNth, ih i h]

theorem handleNth_of_get (ts : List Rec) (i : Nat) (t : Rec) (op : Op) (h : ts[i]? = some t) :
    handleNth ts i op = t.handle op := by
  induction ts generalizing i with
  | nil => simp at h
  | cons r rs ih =>
    cases i with
    | zero => simp at h; subst h; simp [handleNth]
    | succ i => simp at h; simp [handleNth, ih i h]

theorem applyAll_eq (hs : List Handle) (u : Upd) : applyAll hs u = hs.flatMap (·.apply u) := by
  induction hs with
  | nil => simp [applyAll]
  | cons h hs ih => simp [applyAll, ih]

/-! ### handle trees -/

mutual
/-- the leaf handles of a handle tree, left to right (with multiplicity) -/
def Handle.leaves : Handle → List (Nat × Op)
  | .noop => []
  | .leaf b op => [(b, op)]
  | .fan hs => leavesAll hs
def leavesAll : List Handle → List (Nat × Op)
  | [] => []
  | h :: hs => h.leaves ++ leavesAll hs
end

theorem leavesAll_eq (hs : List Handle) : leavesAll hs = hs.flatMap (·.leaves) := by
  induction hs with
  | nil => simp [leavesAll]
  | cons h hs ih => simp [leavesAll, ih]

theorem count_pair_map (l l' : Nat × Op) (e : Upd) (es : List Upd) :
    (es.map (fun x => (l', x))).count (l, e) = if l' = l then es.count e else 0 := by
  induction es with
  | nil => simp
  | cons x xs ih =>
    simp only [List.map_cons, List.count_cons, ih, beq_iff_eq, Prod.mk.injEq]
    by_cases h : l' = l <;> simp [h]

theorem rounds_flatMap {α β : Type} (f : α → List β) (n : Nat) (one : List α) :
    (rounds n one).flatMap f = rounds n (one.flatMap f) := by
  induction n with
  | zero => simp [rounds]
  | succ n ih => simp [rounds, List.flatMap_append, ih]

theorem count_rounds {α : Type} [BEq α] (a : α) (n : Nat) (one : List α) :
    (rounds n one).count a = n * one.count a := by
  induction n with
  | zero => simp [rounds]
  | succ n ih => simp [rounds, List.count_append, ih, Nat.succ_mul, Nat.add_comm]

theorem norm_hrec_count (v : Nat) (e : Upd) : (norm (.hrec v)).count e = if Upd.hrec v = e then 1 else 0 := by
  simp [norm, List.count_singleton]

/-! ### the `FilterLayer` builder -/

theorem FilterCfg.run_nil (c : FilterCfg) : c.run [] = c := rfl

theorem FilterCfg.run_cons (c : FilterCfg) (o : FOp) (ops : List FOp) : c.run (o :: ops) = (c.step o).run ops := rfl

theorem FilterCfg.run_append (c : FilterCfg) (a b : List FOp) : c.run (a ++ b) = (c.run a).run b := by
  simp [FilterCfg.run, List.foldl_append]

theorem cfgOps_append (a b : List LStep) : cfgOps (a ++ b) = cfgOps a ++ cfgOps b := by
  induction a with
  | nil => rfl
  | cons st rest ih => cases st <;> simp [cfgOps, ih]

theorem Handle.applySeq_cons (h : Handle) (u : Upd) (us : List Upd) :
    h.applySeq (u :: us) = h.apply u ++ h.applySeq us := by
  simp [Handle.applySeq]

theorem Handle.applySeq_append (h : Handle) (us vs : List Upd) :
    h.applySeq (us ++ vs) = h.applySeq us ++ h.applySeq vs := by
  simp [Handle.applySeq]

end MetricsVerif.Layers
