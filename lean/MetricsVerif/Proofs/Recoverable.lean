/-
Inductive invariant of the recoverable-recorder step machine (helper lemmas for C20).
-/
import MetricsVerif.Model.Recoverable
import MetricsVerif.Proofs.ListAt

namespace MetricsVerif.Recoverable

/-- strong references held by a thread at a given pc (= calls it has inside the recorder) -/
def pcIns : PC → Nat
  | .inside => 1 | .nUpgrade => 1 | .nInside => 2 | _ => 0
def insN (t : Thread) : Nat := pcIns t.pc
def insCount (s : Sys) : Nat := (s.threads.map insN).sum

structure Inv (s : Sys) : Prop where
  strong_eq : s.strong = (if s.handle then 1 else 0) + s.inside
  inside_eq : s.inside = insCount s
  once : s.finalised + (if s.recovered then 1 else 0) ≤ 1
  ended : (s.finalised > 0 ∨ s.recovered = true) → s.strong = 0
  handle_live : s.handle = true → s.finalised = 0 ∧ s.recovered = false
  gone : s.strong = 0 → s.handle = false → (s.finalised > 0 ∨ s.recovered = true)
  no_late_entry : s.enteredAfterEnd = false
  no_busy_unwrap : s.unwrapBusy = false

theorem release_threads (s : Sys) : (release s).threads = s.threads := by
  unfold release; split <;> rfl

theorem upgradeStep_threads (s : Sys) (t : Thread) (pc' : PC) : (upgradeStep s t pc').1.threads = s.threads := by
  unfold upgradeStep; split <;> rfl

theorem leaveStep_threads (s : Sys) (t : Thread) (r : Res) : (leaveStep s t r).1.threads = s.threads := by
  unfold leaveStep; rw [release_threads]

theorem stepThread_threads (s : Sys) (t : Thread) : (stepThread s t).1.threads = s.threads := by
  unfold stepThread
  split
  · rfl
  · rfl
  · exact upgradeStep_threads ..
  · exact upgradeStep_threads ..
  · exact upgradeStep_threads ..
  · exact leaveStep_threads ..
  · exact leaveStep_threads ..
  · exact leaveStep_threads ..
  · split <;> rfl
  · simp only [release_threads]
  · split <;> rfl
  · split
    · simp only [release_threads]
    · rfl
  · unfold keepUpgradeStep; split <;> rfl
  · unfold keepLeaveStep; simp only [release_threads]
  · rfl
  · rfl
  · rfl

theorem pcOfCall_ins (c : Call) : pcIns (pcOfCall c) = 0 := by cases c <;> rfl

theorem insN_advance (t : Thread) (r : Res) : insN (t.advance r) = 0 := by
  unfold Thread.advance insN
  cases h : t.calls.tail with
  | nil => rfl
  | cons c rest => exact pcOfCall_ins c

theorem insCount_set (s s' : Sys) (tid : Nat) (t t' : Thread) (hg : s.threads[tid]? = some t)
    (hth : s'.threads = s.threads) :
    insCount { s' with threads := setAt s'.threads tid t' } + insN t = insCount s + insN t' := by
  simp only [insCount, hth]; exact sum_map_setAt insN s.threads tid t' t hg

theorem insN_le_insCount (s : Sys) (tid : Nat) (t : Thread) (hg : s.threads[tid]? = some t) :
    insN t ≤ insCount s := by
  have h2 : ∀ (l : List Thread) (i : Nat) (x : Thread), l[i]? = some x → insN x ≤ (l.map insN).sum := by
    intro l; induction l with
    | nil => intro i x h; simp at h
    | cons y ys ih =>
      intro i x h
      cases i with
      | zero => simp at h; subst h; simp
      | succ n => simp at h; have := ih n x h; simp only [List.map_cons, List.sum_cons]; omega
  exact h2 _ _ _ hg

theorem setAt_same {α : Type} (l : List α) (i : Nat) (x : α) (h : l[i]? = some x) : setAt l i x = l := by
  induction l generalizing i with
  | nil => rfl
  | cons y ys ih =>
    cases i with
    | zero => simp at h; subst h; rfl
    | succ n => simp at h; simp [setAt, ih n h]

/-- effects of one thread step; `insN` of the thread before / after tells how many strong references it holds -/
inductive Eff (s : Sys) (t : Thread) : Sys → Thread → Prop
  | noop : Eff s t s t
  | start (t' : Thread) : insN t = 0 → insN t' = 0 → Eff s t s t'
  | enter (t' : Thread) : insN t' = insN t + 1 → s.strong > 0 → Eff s t (enter s) t'
  | ignored (t' : Thread) : insN t' = insN t → s.strong = 0 → Eff s t s t'
  | leaveLast (t' : Thread) : insN t = insN t' + 1 → s.strong = 1 →
      Eff s t { s with inside := s.inside - 1, strong := 0, finalised := s.finalised + 1 } t'
  | leaveMore (t' : Thread) : insN t = insN t' + 1 → s.strong ≠ 1 →
      Eff s t { s with inside := s.inside - 1, strong := s.strong - 1 } t'
  | unwrap : insN t = 0 → s.handle = true → s.strong = 1 →
      Eff s t { s with strong := 0, handle := false, recovered := true,
                       unwrapBusy := s.unwrapBusy || decide (s.inside > 0) } (t.advance .recovered)
  | hdropLast : insN t = 0 → s.handle = true → s.strong = 1 →
      Eff s t { s with handle := false, strong := 0, finalised := s.finalised + 1 } (t.advance .dropped)
  | hdropMore : insN t = 0 → s.handle = true → s.strong ≠ 1 →
      Eff s t { s with handle := false, strong := s.strong - 1 } (t.advance .dropped)
  | hdropGone : insN t = 0 → s.handle = false → Eff s t s (t.advance .dropped)

theorem upgradeStep_eff (s : Sys) (t : Thread) (pc' : PC) (h0 : insN t = 0) (h1 : pcIns pc' = 1) :
    Eff s t (upgradeStep s t pc').1 (upgradeStep s t pc').2 := by
  unfold upgradeStep
  split
  · rename_i h; exact .enter _ (by simp only [insN] at h0 ⊢; rw [h0, h1]) h
  · rename_i h; exact .ignored _ (by rw [insN_advance, h0]) (by omega)

theorem leaveStep_eff (s : Sys) (t : Thread) (r : Res) (h1 : insN t = 1) :
    Eff s t (leaveStep s t r).1 (leaveStep s t r).2 := by
  unfold leaveStep release
  split
  · rename_i h; exact .leaveLast _ (by rw [insN_advance, h1]) h
  · rename_i h; exact .leaveMore _ (by rw [insN_advance, h1]) h

theorem insN_kept (t : Thread) (k : List Bool) : insN { t with kept := k } = insN t := rfl

theorem keepUpgradeStep_eff (s : Sys) (t : Thread) (h0 : insN t = 0) :
    Eff s t (keepUpgradeStep s t).1 (keepUpgradeStep s t).2 := by
  unfold keepUpgradeStep
  split
  · rename_i h; exact .enter _ (by simp only [insN] at h0 ⊢; rw [h0]; rfl) h
  · rename_i h
    exact .ignored _ (by have := insN_advance t .ignored; simp only [insN] at this h0 ⊢; omega) (by omega)

theorem keepLeaveStep_eff (s : Sys) (t : Thread) (h1 : insN t = 1) :
    Eff s t (keepLeaveStep s t).1 (keepLeaveStep s t).2 := by
  unfold keepLeaveStep release
  split
  · rename_i h
    exact .leaveLast _ (by have := insN_advance t .delivered; simp only [insN] at this h1 ⊢; omega) h
  · rename_i h
    exact .leaveMore _ (by have := insN_advance t .delivered; simp only [insN] at this h1 ⊢; omega) h

theorem stepThread_eff (s : Sys) (t : Thread) : Eff s t (stepThread s t).1 (stepThread s t).2 := by
  unfold stepThread
  split
  · rename_i hp hc; exact .start _ (by simp [insN, pcIns, hp]) (by simp [insN, pcIns])
  · rename_i c rest hp hc; exact .start _ (by simp [insN, pcIns, hp]) (by simp [insN, pcOfCall_ins])
  · rename_i rest hp hc; exact upgradeStep_eff s t _ (by simp [insN, pcIns, hp]) rfl
  · rename_i rest hp hc; exact upgradeStep_eff s t _ (by simp [insN, pcIns, hp]) rfl
  · rename_i rest hp hc; exact upgradeStep_eff s t _ (by simp [insN, pcIns, hp]) rfl
  · rename_i rest hp hc; exact leaveStep_eff s t _ (by simp [insN, pcIns, hp])
  · rename_i rest hp hc; exact leaveStep_eff s t _ (by simp [insN, pcIns, hp])
  · rename_i rest hp hc; exact leaveStep_eff s t _ (by simp [insN, pcIns, hp])
  · rename_i rest hp hc
    split
    · rename_i h; exact .enter _ (by simp [insN, pcIns, hp]) h
    · rename_i h; exact .ignored _ (by simp [insN, pcIns, hp]) (by omega)
  · rename_i rest hp hc
    unfold release
    split
    · rename_i h1; exact .leaveLast _ (by simp [insN, pcIns, hp]) h1
    · rename_i h1; exact .leaveMore _ (by simp [insN, pcIns, hp]) h1
  · rename_i rest hp hc
    split
    · rename_i h
      simp only [Bool.and_eq_true, decide_eq_true_eq] at h
      exact .unwrap (by simp [insN, pcIns, hp]) h.1 h.2
    · exact .noop
  · rename_i rest hp hc
    split
    · rename_i h
      unfold release
      split
      · rename_i h1; exact .hdropLast (by simp [insN, pcIns, hp]) h h1
      · rename_i h1; exact .hdropMore (by simp [insN, pcIns, hp]) h h1
    · rename_i h; exact .hdropGone (by simp [insN, pcIns, hp]) (by simpa using h)
  · rename_i rest hp hc; exact keepUpgradeStep_eff s t (by simp [insN, pcIns, hp])
  · rename_i rest hp hc; exact keepLeaveStep_eff s t (by simp [insN, pcIns, hp])
  · rename_i rest hp hc; exact .start _ (by simp [insN, pcIns, hp]) (insN_advance t _)
  · rename_i rest hp hc
    exact .start _ (by simp [insN, pcIns, hp])
      (by have := insN_advance t (.keptDropped t.kept.length); simp only [insN, kdropStep] at this ⊢; omega)
  · exact .noop

theorem init_inv (progs : List (List Call)) : Inv (init progs) := by
  have hz : ∀ l : List (List Call), ((l.map mkThread).map insN).sum = 0 := by
    intro l; induction l with
    | nil => rfl
    | cons x xs ih => simp only [List.map_cons, List.sum_cons, ih]; simp [insN, mkThread, pcIns]
  exact { strong_eq := by simp [init], inside_eq := by simp only [init, insCount, hz],
          once := by simp [init], ended := by simp [init], handle_live := by simp [init],
          gone := by simp [init], no_late_entry := rfl, no_busy_unwrap := rfl }

theorem step_inv (s : Sys) (tid : Nat) (h : Inv s) : Inv (step s tid) := by
  unfold step
  cases hg : s.threads[tid]? with
  | none => exact h
  | some t =>
    simp only
    have hth := stepThread_threads s t
    have e := stepThread_eff s t
    generalize (stepThread s t).1 = s' at hth e
    generalize (stepThread s t).2 = t' at e
    have hic := insCount_set s s' tid t t' hg hth
    have hle := insN_le_insCount s tid t hg
    have hse := h.strong_eq
    have hie := h.inside_eq
    have honce := h.once
    cases e with
    | noop => rw [setAt_same _ _ _ hg]; exact h
    | start t' c0 c1 =>
      exact { strong_eq := hse, inside_eq := by simp only at hic ⊢; omega, once := honce, ended := h.ended,
              handle_live := h.handle_live, gone := h.gone, no_late_entry := h.no_late_entry,
              no_busy_unwrap := h.no_busy_unwrap }
    | enter t' c1 hpos =>
      have hnotended : ¬ (s.finalised > 0 ∨ s.recovered = true) := fun x => by have := h.ended x; omega
      have hf : s.finalised = 0 := by omega
      have hr : s.recovered = false := by
        cases hrec : s.recovered with
        | false => rfl
        | true => exact absurd (Or.inr hrec) hnotended
      simp only [enter] at hic ⊢
      refine { strong_eq := by simp only; omega, inside_eq := by simp only at hic ⊢; omega,
               once := honce, ended := ?_, handle_live := h.handle_live, gone := ?_,
               no_late_entry := ?_, no_busy_unwrap := h.no_busy_unwrap }
      · intro x; exact absurd x hnotended
      · intro x; simp only at x; omega
      · simp [h.no_late_entry, hf, hr]
    | ignored t' c1 h0 =>
      exact { strong_eq := hse, inside_eq := by simp only at hic ⊢; omega, once := honce, ended := h.ended,
              handle_live := h.handle_live, gone := h.gone, no_late_entry := h.no_late_entry,
              no_busy_unwrap := h.no_busy_unwrap }
    | leaveLast t' c0 h1 =>
      have hnotended : ¬ (s.finalised > 0 ∨ s.recovered = true) := fun x => by have := h.ended x; omega
      have hf : s.finalised = 0 := by omega
      have hr : s.recovered = false := by
        cases hrec : s.recovered with
        | false => rfl
        | true => exact absurd (Or.inr hrec) hnotended
      have hh : s.handle = false := by
        cases hh : s.handle with
        | false => rfl
        | true => rw [hh] at hse; simp at hse; omega
      rw [hh] at hse
      simp only [Bool.false_eq_true, if_false] at hse
      exact { strong_eq := (by simp only [hh]; simp; omega),
              inside_eq := (by simp only at hic ⊢; omega),
              once := (by simp only [hf, hr]; simp),
              ended := (fun _ => rfl),
              handle_live := (by simp only [hh]; intro x; cases x),
              gone := (fun _ _ => Or.inl (by simp only [hf]; omega)),
              no_late_entry := h.no_late_entry, no_busy_unwrap := h.no_busy_unwrap }
    | leaveMore t' c0 h1 =>
      have hnotended : ¬ (s.finalised > 0 ∨ s.recovered = true) := fun x => by have := h.ended x; omega
      exact { strong_eq := (by simp only; omega), inside_eq := (by simp only at hic ⊢; omega),
              once := honce,
              ended := (fun x => absurd x hnotended),
              handle_live := h.handle_live,
              gone := (by simp only; intro x; omega),
              no_late_entry := h.no_late_entry, no_busy_unwrap := h.no_busy_unwrap }
    | unwrap c0 hh h1 =>
      have c1 := insN_advance t .recovered
      have hl := h.handle_live hh
      have hins : s.inside = 0 := by rw [hh] at hse; simp at hse; omega
      exact { strong_eq := by simp only; simp [hins], inside_eq := by simp only at hic ⊢; omega,
              once := by simp only [hl.1]; simp,
              ended := fun _ => rfl,
              handle_live := by simp,
              gone := fun _ _ => Or.inr rfl,
              no_late_entry := h.no_late_entry,
              no_busy_unwrap := by simp [h.no_busy_unwrap, hins] }
    | hdropLast c0 hh h1 =>
      have c1 := insN_advance t .dropped
      have hl := h.handle_live hh
      rw [hh] at hse
      simp only [if_true] at hse
      exact { strong_eq := (by simp only; simp; omega), inside_eq := (by simp only at hic ⊢; omega),
              once := (by simp only [hl.1, hl.2]; simp),
              ended := (fun _ => rfl),
              handle_live := (by simp),
              gone := (fun _ _ => Or.inl (by simp only [hl.1]; omega)),
              no_late_entry := h.no_late_entry, no_busy_unwrap := h.no_busy_unwrap }
    | hdropMore c0 hh h1 =>
      have c1 := insN_advance t .dropped
      have hl := h.handle_live hh
      rw [hh] at hse
      simp only [if_true] at hse
      exact { strong_eq := (by simp only; simp; omega), inside_eq := (by simp only at hic ⊢; omega),
              once := honce,
              ended := (by simp only [hl.1, hl.2]; simp),
              handle_live := (by simp),
              gone := (by simp only; intro x; omega),
              no_late_entry := h.no_late_entry, no_busy_unwrap := h.no_busy_unwrap }
    | hdropGone c0 hh =>
      have c1 := insN_advance t .dropped
      exact { strong_eq := hse, inside_eq := by simp only at hic ⊢; omega, once := honce, ended := h.ended,
              handle_live := h.handle_live, gone := h.gone, no_late_entry := h.no_late_entry,
              no_busy_unwrap := h.no_busy_unwrap }

/-- no thread is between its upgrade and its return ⇒ nothing is counted inside -/
theorem insCount_zero_of_quiet (s : Sys) (hq : ∀ u ∈ s.threads, insN u = 0) : insCount s = 0 := by
  unfold insCount
  generalize s.threads = l at hq
  induction l with
  | nil => rfl
  | cons x xs ih =>
    simp only [List.map_cons, List.sum_cons]
    rw [hq x (by simp), ih (fun u hu => hq u (by simp [hu]))]

theorem run_inv (sched : List Nat) : ∀ s, Inv s → Inv (run s sched) := by
  induction sched with
  | nil => intro s h; exact h
  | cons t ts ih => intro s h; exact ih _ (step_inv s t h)

end MetricsVerif.Recoverable
