/-
Inductive invariant of the recoverable-recorder step machine (helper lemmas for C20).
-/
import MetricsVerif.Model.Recoverable
import MetricsVerif.Proofs.ListAt

namespace MetricsVerif.Recoverable

/-- strong references held by a thread at a given pc (= calls it has inside the recorder) -/
def pcIns : PC → Nat
  | .inside => 1 | .nUpgrade => 1 | .nInside => 2 | .dUp k => k | .dIn k => k | .iHdrop => 1 | .iTry => 1 | _ => 0
def insN (t : Thread) : Nat := pcIns t.pc
def insCount (s : Sys) : Nat := (s.threads.map insN).sum

structure Inv (s : Sys) : Prop where
  strong_eq : s.strong = (if s.handle then 1 else 0) + s.inside
  inside_eq : s.inside = insCount s
  once : s.finalised + (if s.recovered then 1 else 0) ≤ 1
  ended : (s.finalised > 0 ∨ s.recovered = true) → s.strong = 0
  handle_live : s.handle = true → s.finalised = 0 ∧ s.recovered = false
  gone : s.strong = 0 → s.handle = false → (s.finalised > 0 ∨ s.recovered = true)
  no_late_entry : s.enteredAfterEnd = false
  no_busy_unwrap : s.unwrapBusy = false

theorem release_threads (s : Sys) : (release s).threads = s.threads := by
  unfold release; split <;> rfl

theorem upgradeStep_threads (s : Sys) (t : Thread) (pc' : PC) : (upgradeStep s t pc').1.threads = s.threads := by
  unfold upgradeStep; split <;> rfl

theorem leaveStep_threads (s : Sys) (t : Thread) (r : Res) : (leaveStep s t r).1.threads = s.threads := by
  unfold leaveStep; rw [release_threads]

theorem stepThread_threads (s : Sys) (t : Thread) : (stepThread s t).1.threads = s.threads := by
  unfold stepThread
  split
  · rfl
  · rfl
  · exact upgradeStep_threads ..
  · exact upgradeStep_threads ..
  · exact upgradeStep_threads ..
  · exact leaveStep_threads ..
  · exact leaveStep_threads ..
  · exact leaveStep_threads ..
  · split <;> rfl
  · simp only [release_threads]
  · split <;> rfl
  · split
    · simp only [release_threads]
    · rfl
  · unfold keepUpgradeStep; split <;> rfl
  · unfold keepLeaveStep; simp only [release_threads]
  · rfl
  · rfl
  · exact upgradeStep_threads ..
  · exact leaveStep_threads ..
  · unfold deepUpStep; split
    · rfl
    · split <;> rfl
  · unfold deepLeaveStep; split
    · rfl
    · simp only [release_threads]
  · exact upgradeStep_threads ..
  · unfold dropInsideStep; split
    · simp only [release_threads]
    · rfl
  · exact upgradeStep_threads ..
  · unfold intoInsideStep; split <;> rfl
  · rfl

theorem pcOfCall_ins (c : Call) : pcIns (pcOfCall c) = 0 := by cases c <;> rfl

theorem insN_advance (t : Thread) (r : Res) : insN (t.advance r) = 0 := by
  unfold Thread.advance insN
  cases h : t.calls.tail with
  | nil => rfl
  | cons c rest => exact pcOfCall_ins c

theorem insCount_set (s s' : Sys) (tid : Nat) (t t' : Thread) (hg : s.threads[tid]? = some t)
    (hth : s'.threads = s.threads) :
    insCount { s' with threads := setAt s'.threads tid t' } + insN t = insCount s + insN t' := by
  simp only [insCount, hth]; exact sum_map_setAt insN s.threads tid t' t hg

theorem insN_le_insCount (s : Sys) (tid : Nat) (t : Thread) (hg : s.threads[tid]? = some t) :
    insN t ≤ insCount s := by
  have h2 : ∀ (l : List Thread) (i : Nat) (x : Thread), l[i]? = some x → insN x ≤ (l.map insN).sum := by
    intro l; induction l with
    | nil => intro i x h; simp at h
    | cons y ys ih =>
      intro i x h
      cases i with
      | zero => simp at h; subst h; simp
      | succ n => simp at h; have := ih n x h; simp only [List.map_cons, List.sum_cons]; omega
  exact h2 _ _ _ hg

theorem setAt_same {α : Type} (l : List α) (i : Nat) (x : α) (h : l[i]? = some x) : setAt l i x = l := by
  induction l generalizing i with
  | nil => rfl
  | cons y ys ih =>
    cases i with
    | zero => simp at h; subst h; rfl
    | succ n => simp at h; simp [setAt, ih n h]

/-- effects of one thread step; `insN` of the thread before / after tells how many strong references it holds -/
inductive Eff (s : Sys) (t : Thread) : Sys → Thread → Prop
  | noop : Eff s t s t
  | start (t' : Thread) : insN t = 0 → insN t' = 0 → Eff s t s t'
  | enter (t' : Thread) : insN t' = insN t + 1 → s.strong > 0 → Eff s t (enter s) t'
  | ignored (t' : Thread) : insN t' = insN t → s.strong = 0 → Eff s t s t'
  | leaveLast (t' : Thread) : insN t = insN t' + 1 → s.strong = 1 →
      Eff s t { s with inside := s.inside - 1, strong := 0, finalised := s.finalised + 1 } t'
  | leaveMore (t' : Thread) : insN t = insN t' + 1 → s.strong ≠ 1 →
      Eff s t { s with inside := s.inside - 1, strong := s.strong - 1 } t'
  | unwrap (t' : Thread) : insN t' = insN t → s.handle = true → s.strong = 1 →
      Eff s t { s with strong := 0, handle := false, recovered := true,
                       unwrapBusy := s.unwrapBusy || decide (s.inside > 0) } t'
  | hdropLast (t' : Thread) : insN t' = insN t → s.handle = true → s.strong = 1 →
      Eff s t { s with handle := false, strong := 0, finalised := s.finalised + 1 } t'
  | hdropMore (t' : Thread) : insN t' = insN t → s.handle = true → s.strong ≠ 1 →
      Eff s t { s with handle := false, strong := s.strong - 1 } t'
  | hdropGone (t' : Thread) : insN t' = insN t → s.handle = false → Eff s t s t'

theorem upgradeStep_eff (s : Sys) (t : Thread) (pc' : PC) (h0 : insN t = 0) (h1 : pcIns pc' = 1) :
    Eff s t (upgradeStep s t pc').1 (upgradeStep s t pc').2 := by
  unfold upgradeStep
  split
  · rename_i h; exact .enter _ (by simp only [insN] at h0 ⊢; rw [h0, h1]) h
  · rename_i h; exact .ignored _ (by rw [insN_advance, h0]) (by omega)

theorem leaveStep_eff (s : Sys) (t : Thread) (r : Res) (h1 : insN t = 1) :
    Eff s t (leaveStep s t r).1 (leaveStep s t r).2 := by
  unfold leaveStep release
  split
  · rename_i h; exact .leaveLast _ (by rw [insN_advance, h1]) h
  · rename_i h; exact .leaveMore _ (by rw [insN_advance, h1]) h

theorem insN_kept (t : Thread) (k : List Bool) : insN { t with kept := k } = insN t := rfl

theorem keepUpgradeStep_eff (s : Sys) (t : Thread) (h0 : insN t = 0) :
    Eff s t (keepUpgradeStep s t).1 (keepUpgradeStep s t).2 := by
  unfold keepUpgradeStep
  split
  · rename_i h; exact .enter _ (by simp only [insN] at h0 ⊢; rw [h0]; rfl) h
  · rename_i h
    exact .ignored _ (by have := insN_advance t .ignored; simp only [insN] at this h0 ⊢; omega) (by omega)

theorem keepLeaveStep_eff (s : Sys) (t : Thread) (h1 : insN t = 1) :
    Eff s t (keepLeaveStep s t).1 (keepLeaveStep s t).2 := by
  unfold keepLeaveStep release
  split
  · rename_i h
    exact .leaveLast _ (by have := insN_advance t .delivered; simp only [insN] at this h1 ⊢; omega) h
  · rename_i h
    exact .leaveMore _ (by have := insN_advance t .delivered; simp only [insN] at this h1 ⊢; omega) h

theorem stepThread_eff (s : Sys) (t : Thread) : Eff s t (stepThread s t).1 (stepThread s t).2 := by
  unfold stepThread
  split
  · rename_i hp hc; exact .start _ (by simp [insN, pcIns, hp]) (by simp [insN, pcIns])
  · rename_i c rest hp hc; exact .start _ (by simp [insN, pcIns, hp]) (by simp [insN, pcOfCall_ins])
  · rename_i rest hp hc; exact upgradeStep_eff s t _ (by simp [insN, pcIns, hp]) rfl
  · rename_i rest hp hc; exact upgradeStep_eff s t _ (by simp [insN, pcIns, hp]) rfl
  · rename_i rest hp hc; exact upgradeStep_eff s t _ (by simp [insN, pcIns, hp]) rfl
  · rename_i rest hp hc; exact leaveStep_eff s t _ (by simp [insN, pcIns, hp])
  · rename_i rest hp hc; exact leaveStep_eff s t _ (by simp [insN, pcIns, hp])
  · rename_i rest hp hc; exact leaveStep_eff s t _ (by simp [insN, pcIns, hp])
  · rename_i rest hp hc
    split
    · rename_i h; exact .enter _ (by simp [insN, pcIns, hp]) h
    · rename_i h; exact .ignored _ (by simp [insN, pcIns, hp]) (by omega)
  · rename_i rest hp hc
    unfold release
    split
    · rename_i h1; exact .leaveLast _ (by simp [insN, pcIns, hp]) h1
    · rename_i h1; exact .leaveMore _ (by simp [insN, pcIns, hp]) h1
  · rename_i rest hp hc
    split
    · rename_i h
      simp only [Bool.and_eq_true, decide_eq_true_eq] at h
      exact .unwrap _ (by rw [insN_advance]; simp [insN, pcIns, hp]) h.1 h.2
    · exact .noop
  · rename_i rest hp hc
    split
    · rename_i h
      unfold release
      split
      · rename_i h1; exact .hdropLast _ (by rw [insN_advance]; simp [insN, pcIns, hp]) h h1
      · rename_i h1; exact .hdropMore _ (by rw [insN_advance]; simp [insN, pcIns, hp]) h h1
    · rename_i h; exact .hdropGone _ (by rw [insN_advance]; simp [insN, pcIns, hp]) (by simpa using h)
  · rename_i rest hp hc; exact keepUpgradeStep_eff s t (by simp [insN, pcIns, hp])
  · rename_i rest hp hc; exact keepLeaveStep_eff s t (by simp [insN, pcIns, hp])
  · rename_i rest hp hc; exact .start _ (by simp [insN, pcIns, hp]) (insN_advance t _)
  · rename_i rest hp hc
    exact .start _ (by simp [insN, pcIns, hp])
      (by have := insN_advance t (.keptDropped t.kept.length); simp only [insN, kdropStep] at this ⊢; omega)
  · rename_i d rest hp hc
    exact upgradeStep_eff s t _ (by simp [insN, pcIns, hp]) (by by_cases h0 : d = 0 <;> simp [h0, pcIns])
  · rename_i rest hp hc; exact leaveStep_eff s t _ (by simp [insN, pcIns, hp])
  · rename_i k d rest hp hc
    unfold deepUpStep
    split
    · exact .noop
    · rename_i hk
      split
      · rename_i h; exact .enter _ (by by_cases h0 : k + 1 > d <;> simp [insN, hp, pcIns, h0]) h
      · rename_i h
        refine .ignored _ ?_ (by omega)
        by_cases h1 : k = 1 <;> simp [insN, hp, pcIns, h1]
  · rename_i k d rest hp hc
    unfold deepLeaveStep
    split
    · exact .noop
    · rename_i hk
      have hins : ∀ (r : List Res), insN t = insN ({ t with pc := (if k = 2 then PC.inside else PC.dIn (k - 1)), results := r } : Thread) + 1 := by
        intro r
        by_cases h2 : k = 2
        · simp [insN, hp, pcIns, h2]
        · simp only [insN, hp, pcIns, h2, if_false]; omega
      unfold release
      split
      · rename_i h1; exact .leaveLast _ (hins _) h1
      · rename_i h1; exact .leaveMore _ (hins _) h1
  · rename_i rest hp hc; exact upgradeStep_eff s t _ (by simp [insN, pcIns, hp]) rfl
  · rename_i rest hp hc
    unfold dropInsideStep
    simp only
    split
    · rename_i h
      unfold release
      split
      · rename_i h1; exact .hdropLast _ (by simp [insN, pcIns, hp]) h h1
      · rename_i h1; exact .hdropMore _ (by simp [insN, pcIns, hp]) h h1
    · rename_i h; exact .hdropGone _ (by simp [insN, pcIns, hp]) (by simpa using h)
  · rename_i rest hp hc; exact upgradeStep_eff s t _ (by simp [insN, pcIns, hp]) rfl
  · rename_i rest hp hc
    unfold intoInsideStep
    split
    · rename_i h
      simp only [Bool.and_eq_true, decide_eq_true_eq] at h
      exact .unwrap _ (by simp [insN, pcIns, hp]) h.1 h.2
    · exact .noop
  · exact .noop

theorem init_inv (progs : List (List Call)) : Inv (init progs) := by
  have hz : ∀ l : List (List Call), ((l.map mkThread).map insN).sum = 0 := by
    intro l; induction l with
    | nil => rfl
    | cons x xs ih => simp only [List.map_cons, List.sum_cons, ih]; simp [insN, mkThread, pcIns]
  exact { strong_eq := by simp [init], inside_eq := by simp only [init, insCount, hz],
          once := by simp [init], ended := by simp [init], handle_live := by simp [init],
          gone := by simp [init], no_late_entry := rfl, no_busy_unwrap := rfl }

theorem step_inv (s : Sys) (tid : Nat) (h : Inv s) : Inv (step s tid) := by
  unfold step
  cases hg : s.threads[tid]? with
  | none => exact h
  | some t =>
    simp only
    have hth := stepThread_threads s t
    have e := stepThread_eff s t
    generalize (stepThread s t).1 = s' at hth e
    generalize (stepThread s t).2 = t' at e
    have hic := insCount_set s s' tid t t' hg hth
    have hle := insN_le_insCount s tid t hg
    have hse := h.strong_eq
    have hie := h.inside_eq
    have honce := h.once
    cases e with
    | noop => rw [setAt_same _ _ _ hg]; exact h
    | start t' c0 c1 =>
      exact { strong_eq := hse, inside_eq := by simp only at hic ⊢; omega, once := honce, ended := h.ended,
              handle_live := h.handle_live, gone := h.gone, no_late_entry := h.no_late_entry,
              no_busy_unwrap := h.no_busy_unwrap }
    | enter t' c1 hpos =>
      have hnotended : ¬ (s.finalised > 0 ∨ s.recovered = true) := fun x => by have := h.ended x; omega
      have hf : s.finalised = 0 := by omega
      have hr : s.recovered = false := by
        cases hrec : s.recovered with
        | false => rfl
        | true => exact absurd (Or.inr hrec) hnotended
      simp only [enter] at hic ⊢
      refine { strong_eq := by simp only; omega, inside_eq := by simp only at hic ⊢; omega,
               once := honce, ended := ?_, handle_live := h.handle_live, gone := ?_,
               no_late_entry := ?_, no_busy_unwrap := h.no_busy_unwrap }
      · intro x; exact absurd x hnotended
      · intro x; simp only at x; omega
      · simp [h.no_late_entry, hf, hr]
    | ignored t' c1 h0 =>
      exact { strong_eq := hse, inside_eq := by simp only at hic ⊢; omega, once := honce, ended := h.ended,
              handle_live := h.handle_live, gone := h.gone, no_late_entry := h.no_late_entry,
              no_busy_unwrap := h.no_busy_unwrap }
    | leaveLast t' c0 h1 =>
      have hnotended : ¬ (s.finalised > 0 ∨ s.recovered = true) := fun x => by have := h.ended x; omega
      have hf : s.finalised = 0 := by omega
      have hr : s.recovered = false := by
        cases hrec : s.recovered with
        | false => rfl
        | true => exact absurd (Or.inr hrec) hnotended
      have hh : s.handle = false := by
        cases hh : s.handle with
        | false => rfl
        | true => rw [hh] at hse; simp at hse; omega
      rw [hh] at hse
      simp only [Bool.false_eq_true, if_false] at hse
      exact { strong_eq := (by simp only [hh]; simp; omega),
              inside_eq := (by simp only at hic ⊢; omega),
              once := (by simp only [hf, hr]; simp),
              ended := (fun _ => rfl),
              handle_live := (by simp only [hh]; intro x; cases x),
              gone := (fun _ _ => Or.inl (by simp only [hf]; omega)),
              no_late_entry := h.no_late_entry, no_busy_unwrap := h.no_busy_unwrap }
    | leaveMore t' c0 h1 =>
      have hnotended : ¬ (s.finalised > 0 ∨ s.recovered = true) := fun x => by have := h.ended x; omega
      exact { strong_eq := (by simp only; omega), inside_eq := (by simp only at hic ⊢; omega),
              once := honce,
              ended := (fun x => absurd x hnotended),
              handle_live := h.handle_live,
              gone := (by simp only; intro x; omega),
              no_late_entry := h.no_late_entry, no_busy_unwrap := h.no_busy_unwrap }
    | unwrap t' c1 hh h1 =>
      have hl := h.handle_live hh
      have hins : s.inside = 0 := by rw [hh] at hse; simp at hse; omega
      exact { strong_eq := by simp only; simp [hins], inside_eq := by simp only at hic ⊢; omega,
              once := by simp only [hl.1]; simp,
              ended := fun _ => rfl,
              handle_live := by simp,
              gone := fun _ _ => Or.inr rfl,
              no_late_entry := h.no_late_entry,
              no_busy_unwrap := by simp [h.no_busy_unwrap, hins] }
    | hdropLast t' c1 hh h1 =>
      have hl := h.handle_live hh
      rw [hh] at hse
      simp only [if_true] at hse
      exact { strong_eq := (by simp only; simp; omega), inside_eq := (by simp only at hic ⊢; omega),
              once := (by simp only [hl.1, hl.2]; simp),
              ended := (fun _ => rfl),
              handle_live := (by simp),
              gone := (fun _ _ => Or.inl (by simp only [hl.1]; omega)),
              no_late_entry := h.no_late_entry, no_busy_unwrap := h.no_busy_unwrap }
    | hdropMore t' c1 hh h1 =>
      have hl := h.handle_live hh
      rw [hh] at hse
      simp only [if_true] at hse
      exact { strong_eq := (by simp only; simp; omega), inside_eq := (by simp only at hic ⊢; omega),
              once := honce,
              ended := (by simp only [hl.1, hl.2]; simp),
              handle_live := (by simp),
              gone := (by simp only; intro x; omega),
              no_late_entry := h.no_late_entry, no_busy_unwrap := h.no_busy_unwrap }
    | hdropGone t' c1 hh =>
      exact { strong_eq := hse, inside_eq := by simp only at hic ⊢; omega, once := honce, ended := h.ended,
              handle_live := h.handle_live, gone := h.gone, no_late_entry := h.no_late_entry,
              no_busy_unwrap := h.no_busy_unwrap }

set_option linter.unusedSimpArgs false

/-! ### which end calls were executed: results against remaining calls

`recN` / `drpN` count the `recovered` / `dropped` answers a thread has got, `iiLeft` / `dhLeft` the `into_inner` /
handle-drop calls it still has to make.  Every step keeps `recN + iiLeft` and `drpN + dhLeft` of the stepping thread,
and it adds a `recovered` (`dropped`) answer exactly when the system took the unwrap (handle-drop) transition. -/

def isRec : Res → Bool
  | .recovered => true | _ => false
def isDrp : Res → Bool
  | .dropped => true | _ => false
def recN (t : Thread) : Nat := (t.results.filter isRec).length
def drpN (t : Thread) : Nat := (t.results.filter isDrp).length
def iiLeft (t : Thread) : Nat := (t.calls.filter isII).length
def dhLeft (t : Thread) : Nat := (t.calls.filter isDH).length
/-- a thread at `done` has no call left -/
def doneOk (t : Thread) : Prop := t.pc = .done → t.calls = []

/-- thread `t` became `t'`, getting `dr` more `recovered` and `dd` more `dropped` answers; `lost` handle-dropping
    calls were consumed without being executed (an `emitDropInside` answered with an inert handle) -/
structure TE (t t' : Thread) (dr dd lost : Nat) : Prop where
  r : recN t' = recN t + dr
  d : drpN t' = drpN t + dd
  ii : iiLeft t' + dr = iiLeft t
  dh : dhLeft t' + dd + lost = dhLeft t
  dn : doneOk t → doneOk t'

/-- what the step did to the handle / the recovered flag, matching the answers the thread got -/
def SysEnds (s s' : Sys) (dr dd : Nat) : Prop :=
  (dr = 0 ∧ dd = 0 ∧ s'.handle = s.handle ∧ s'.recovered = s.recovered)
  ∨ (dr = 1 ∧ dd = 0 ∧ s.handle = true ∧ s'.handle = false ∧ s'.recovered = true)
  ∨ (dr = 0 ∧ dd = 1 ∧ s'.handle = false ∧ s'.recovered = s.recovered)

theorem pcOfCall_ne_done (c : Call) : pcOfCall c ≠ .done := by cases c <;> simp [pcOfCall]

theorem advance_doneOk (t : Thread) (r : Res) : doneOk (t.advance r) := by
  unfold doneOk Thread.advance
  cases h : t.calls.tail with
  | nil => intro _; rfl
  | cons c rest => simp only; intro hd; exact absurd hd (pcOfCall_ne_done c)

theorem filt_rr : List.filter isRec [Res.recovered] = [Res.recovered] := rfl
theorem filt_rd : List.filter isRec [Res.dropped] = [] := rfl
theorem filt_dr : List.filter isDrp [Res.recovered] = [] := rfl
theorem filt_dd : List.filter isDrp [Res.dropped] = [Res.dropped] := rfl

theorem te_noop (t : Thread) : TE t t 0 0 0 := ⟨rfl, rfl, rfl, rfl, id⟩

theorem te_pc (t : Thread) (pc' : PC) (h : pc' ≠ .done) : TE t { t with pc := pc' } 0 0 0 :=
  ⟨rfl, rfl, rfl, rfl, fun _ hd => absurd hd h⟩

theorem te_res (t : Thread) (pc' : PC) (r : Res) (h : pc' ≠ .done) (h1 : isRec r = false) (h2 : isDrp r = false) :
    TE t { t with pc := pc', results := t.results ++ [r] } 0 0 0 :=
  ⟨by simp [recN, List.filter_append, h1], by simp [drpN, List.filter_append, h2], rfl, rfl, fun _ hd => absurd hd h⟩

theorem te_adv (t : Thread) (r : Res) (c : Call) (rest : List Call) (hc : t.calls = c :: rest)
    (c1 : isII c = false) (c2 : isDH c = false) (h1 : isRec r = false) (h2 : isDrp r = false) :
    TE t (t.advance r) 0 0 0 :=
  ⟨by simp [recN, Thread.advance, List.filter_append, h1], by simp [drpN, Thread.advance, List.filter_append, h2],
   by simp [iiLeft, Thread.advance, hc, List.filter_cons, c1], by simp [dhLeft, Thread.advance, hc, List.filter_cons, c2],
   fun _ => advance_doneOk t r⟩

theorem te_adv_lost (t : Thread) (r : Res) (c : Call) (rest : List Call) (hc : t.calls = c :: rest)
    (c1 : isII c = false) (c2 : isDH c = true) (h1 : isRec r = false) (h2 : isDrp r = false) :
    TE t (t.advance r) 0 0 1 :=
  ⟨by simp [recN, Thread.advance, List.filter_append, h1], by simp [drpN, Thread.advance, List.filter_append, h2],
   by simp [iiLeft, Thread.advance, hc, List.filter_cons, c1], by simp [dhLeft, Thread.advance, hc, List.filter_cons, c2],
   fun _ => advance_doneOk t r⟩

theorem te_adv_rec (t : Thread) (rest : List Call) (hc : t.calls = .intoInner :: rest) : TE t (t.advance .recovered) 1 0 0 :=
  ⟨by simp [recN, Thread.advance, List.filter_append, filt_rr, filt_rd], by simp [drpN, Thread.advance, List.filter_append, filt_dr, filt_dd],
   by simp [iiLeft, Thread.advance, hc, List.filter_cons, isII], by simp [dhLeft, Thread.advance, hc, List.filter_cons, isDH],
   fun _ => advance_doneOk t _⟩

theorem te_adv_drp (t : Thread) (rest : List Call) (hc : t.calls = .dropHandle :: rest) : TE t (t.advance .dropped) 0 1 0 :=
  ⟨by simp [recN, Thread.advance, List.filter_append, filt_rr, filt_rd], by simp [drpN, Thread.advance, List.filter_append, filt_dr, filt_dd],
   by simp [iiLeft, Thread.advance, hc, List.filter_cons, isII], by simp [dhLeft, Thread.advance, hc, List.filter_cons, isDH],
   fun _ => advance_doneOk t _⟩

theorem te_in_drp (t : Thread) (rest : List Call) (hc : t.calls = .emitDropInside :: rest) :
    TE t { t with pc := .inside, calls := .emit :: rest, results := t.results ++ [.dropped] } 0 1 0 :=
  ⟨by simp [recN, List.filter_append, filt_rr, filt_rd], by simp [drpN, List.filter_append, filt_dr, filt_dd],
   by simp [iiLeft, hc, List.filter_cons, isII], by simp [dhLeft, hc, List.filter_cons, isDH],
   fun _ hd => by simp at hd⟩

theorem te_kept {t x : Thread} {a b c : Nat} (k : List Bool) (h : TE t x a b c) : TE t { x with kept := k } a b c :=
  ⟨h.r, h.d, h.ii, h.dh, h.dn⟩

theorem release_hr (s : Sys) : (release s).handle = s.handle ∧ (release s).recovered = s.recovered := by
  unfold release; split <;> exact ⟨rfl, rfl⟩

theorem se_same (s : Sys) : SysEnds s s 0 0 := Or.inl ⟨rfl, rfl, rfl, rfl⟩
theorem se_enter (s : Sys) : SysEnds s (enter s) 0 0 := Or.inl ⟨rfl, rfl, rfl, rfl⟩
theorem se_leave (s : Sys) : SysEnds s (release { s with inside := s.inside - 1 }) 0 0 :=
  Or.inl ⟨rfl, rfl, (release_hr _).1, (release_hr _).2⟩

/-- the claim about one thread step -/
def StepEnds (s : Sys) (t : Thread) (s' : Sys) (t' : Thread) : Prop :=
  ∃ dr dd lost, TE t t' dr dd lost ∧ SysEnds s s' dr dd ∧ (lost > 0 → s.strong = 0)

theorem upgradeStep_ends (s : Sys) (t : Thread) (pc' : PC) (c : Call) (rest : List Call) (hc : t.calls = c :: rest)
    (hpc : pc' ≠ .done) (c1 : isII c = false) :
    StepEnds s t (upgradeStep s t pc').1 (upgradeStep s t pc').2 := by
  unfold upgradeStep
  split
  · exact ⟨0, 0, 0, te_pc t pc' hpc, se_enter s, fun h => absurd h (by omega)⟩
  · rename_i h
    cases c2 : isDH c with
    | false => exact ⟨0, 0, 0, te_adv t .ignored c rest hc c1 c2 rfl rfl, se_same s, fun h => absurd h (by omega)⟩
    | true => exact ⟨0, 0, 1, te_adv_lost t .ignored c rest hc c1 c2 rfl rfl, se_same s, fun _ => by omega⟩

theorem leaveStep_ends (s : Sys) (t : Thread) (r : Res) (c : Call) (rest : List Call) (hc : t.calls = c :: rest)
    (c1 : isII c = false) (c2 : isDH c = false) (h1 : isRec r = false) (h2 : isDrp r = false) :
    StepEnds s t (leaveStep s t r).1 (leaveStep s t r).2 :=
  ⟨0, 0, 0, te_adv t r c rest hc c1 c2 h1 h2, se_leave s, fun h => absurd h (by omega)⟩

/-- every step of a thread of a state satisfying `Inv`: answers and remaining calls stay in balance -/
theorem stepThread_ends (s : Sys) (t : Thread) (tid : Nat) (hinv : Inv s) (hg : s.threads[tid]? = some t) :
    StepEnds s t (stepThread s t).1 (stepThread s t).2 := by
  have hle := insN_le_insCount s tid t hg
  have hse := hinv.strong_eq
  have hie := hinv.inside_eq
  have z : ∀ n : Nat, (0 < 0 → n = 0) := fun _ h => absurd h (by omega)
  unfold stepThread
  split
  · rename_i hp hc; exact ⟨0, 0, 0, ⟨rfl, rfl, rfl, rfl, fun _ _ => hc⟩, se_same s, z _⟩
  · rename_i c rest hp hc; exact ⟨0, 0, 0, te_pc t _ (pcOfCall_ne_done c), se_same s, z _⟩
  · rename_i rest hp hc; exact upgradeStep_ends s t _ _ rest hc (by simp) rfl
  · rename_i rest hp hc; exact upgradeStep_ends s t _ _ rest hc (by simp) rfl
  · rename_i rest hp hc; exact upgradeStep_ends s t _ _ rest hc (by simp) rfl
  · rename_i rest hp hc; exact leaveStep_ends s t _ _ rest hc rfl rfl rfl rfl
  · rename_i rest hp hc; exact leaveStep_ends s t _ _ rest hc rfl rfl rfl rfl
  · rename_i rest hp hc; exact leaveStep_ends s t _ _ rest hc rfl rfl rfl rfl
  · rename_i rest hp hc
    split
    · exact ⟨0, 0, 0, te_pc t _ (by simp), se_enter s, z _⟩
    · exact ⟨0, 0, 0, te_res t _ _ (by simp) rfl rfl, se_same s, z _⟩
  · rename_i rest hp hc; exact ⟨0, 0, 0, te_res t _ _ (by simp) rfl rfl, se_leave s, z _⟩
  · rename_i rest hp hc
    split
    · rename_i h
      simp only [Bool.and_eq_true, decide_eq_true_eq] at h
      exact ⟨1, 0, 0, te_adv_rec t rest hc, Or.inr (Or.inl ⟨rfl, rfl, h.1, rfl, rfl⟩), z _⟩
    · exact ⟨0, 0, 0, te_noop t, se_same s, z _⟩
  · rename_i rest hp hc
    split
    · rename_i h
      exact ⟨0, 1, 0, te_adv_drp t rest hc, Or.inr (Or.inr ⟨rfl, rfl, (release_hr _).1, (release_hr _).2⟩), z _⟩
    · rename_i h
      exact ⟨0, 1, 0, te_adv_drp t rest hc, Or.inr (Or.inr ⟨rfl, rfl, by simpa using h, rfl⟩), z _⟩
  · rename_i rest hp hc
    unfold keepUpgradeStep
    split
    · exact ⟨0, 0, 0, te_pc t _ (by simp), se_enter s, z _⟩
    · exact ⟨0, 0, 0, te_kept _ (te_adv t .ignored _ rest hc rfl rfl rfl rfl), se_same s, z _⟩
  · rename_i rest hp hc
    unfold keepLeaveStep
    exact ⟨0, 0, 0, te_kept _ (te_adv t .delivered _ rest hc rfl rfl rfl rfl), se_leave s, z _⟩
  · rename_i rest hp hc
    unfold useStep
    exact ⟨0, 0, 0, te_adv t _ _ rest hc rfl rfl rfl rfl, se_same s, z _⟩
  · rename_i rest hp hc
    unfold kdropStep
    exact ⟨0, 0, 0, te_kept _ (te_adv t (.keptDropped t.kept.length) _ rest hc rfl rfl rfl rfl), se_same s, z _⟩
  · rename_i d rest hp hc
    exact upgradeStep_ends s t _ _ rest hc (by by_cases h0 : d = 0 <;> simp [h0]) rfl
  · rename_i d rest hp hc; exact leaveStep_ends s t _ _ rest hc rfl rfl rfl rfl
  · rename_i k d rest hp hc
    unfold deepUpStep
    split
    · exact ⟨0, 0, 0, te_noop t, se_same s, z _⟩
    · split
      · exact ⟨0, 0, 0, te_pc t _ (by by_cases h0 : k + 1 > d <;> simp [h0]), se_enter s, z _⟩
      · exact ⟨0, 0, 0, te_res t _ _ (by by_cases h1 : k = 1 <;> simp [h1]) rfl rfl, se_same s, z _⟩
  · rename_i k d rest hp hc
    unfold deepLeaveStep
    split
    · exact ⟨0, 0, 0, te_noop t, se_same s, z _⟩
    · exact ⟨0, 0, 0, te_res t _ _ (by by_cases h2 : k = 2 <;> simp [h2]) rfl rfl, se_leave s, z _⟩
  · rename_i rest hp hc; exact upgradeStep_ends s t _ _ rest hc (by simp) rfl
  · rename_i rest hp hc
    unfold dropInsideStep
    simp only
    split
    · exact ⟨0, 1, 0, te_in_drp t rest hc, Or.inr (Or.inr ⟨rfl, rfl, (release_hr _).1, (release_hr _).2⟩), z _⟩
    · rename_i h
      exact ⟨0, 1, 0, te_in_drp t rest hc, Or.inr (Or.inr ⟨rfl, rfl, by simpa using h, rfl⟩), z _⟩
  · rename_i rest hp hc; exact upgradeStep_ends s t _ _ rest hc (by simp) rfl
  · rename_i rest hp hc
    unfold intoInsideStep
    split
    · -- unreachable: the thread itself holds a reference, so the count is not 1 while the handle exists
      rename_i h
      simp only [Bool.and_eq_true, decide_eq_true_eq] at h
      have h1 : insN t = 1 := by simp [insN, pcIns, hp]
      rw [h.1] at hse
      simp only [if_true] at hse
      omega
    · exact ⟨0, 0, 0, te_noop t, se_same s, z _⟩
  · exact ⟨0, 0, 0, te_noop t, se_same s, z _⟩

/-- no thread is between its upgrade and its return ⇒ nothing is counted inside -/
theorem insCount_zero_of_quiet (s : Sys) (hq : ∀ u ∈ s.threads, insN u = 0) : insCount s = 0 := by
  unfold insCount
  generalize s.threads = l at hq
  induction l with
  | nil => rfl
  | cons x xs ih =>
    simp only [List.map_cons, List.sum_cons]
    rw [hq x (by simp), ih (fun u hu => hq u (by simp [hu]))]

theorem run_inv (sched : List Nat) : ∀ s, Inv s → Inv (run s sched) := by
  induction sched with
  | nil => intro s h; exact h
  | cons t ts ih => intro s h; exact ih _ (step_inv s t h)

/-! ### the invariant "handle = false ⇔ an end call was executed", with the balance against the programs -/

def sumT (f : Thread → Nat) (s : Sys) : Nat := (s.threads.map f).sum

structure EndInv (progs : List (List Call)) (s : Sys) : Prop where
  inv : Inv s
  /-- `into_inner` calls: answered `recovered` + still to make = what the programs contain -/
  ii_bal : sumT (fun t => recN t + iiLeft t) s = iiTotal progs
  /-- handle drops: answered `dropped` + still to make ≤ what the programs contain, with equality unless … -/
  dh_le : sumT (fun t => drpN t + dhLeft t) s ≤ dhTotal progs
  /-- … one was answered with an inert handle, which needs the handle to be gone already -/
  dh_eq : sumT (fun t => drpN t + dhLeft t) s = dhTotal progs ∨ s.handle = false
  /-- the recorder was recovered iff some thread got the answer `recovered` (exactly one) -/
  rec_flag : sumT recN s = if s.recovered then 1 else 0
  /-- **the handle is gone iff an end call was executed** -/
  handle_iff : s.handle = false ↔ sumT (fun t => recN t + drpN t) s > 0
  done_ok : ∀ t ∈ s.threads, doneOk t

theorem sum_init (f : Thread → Nat) (g : List Call → Nat) (h : ∀ p, f (mkThread p) = g p) (progs : List (List Call)) :
    sumT f (init progs) = (progs.map g).sum := by
  unfold sumT init
  simp only
  induction progs with
  | nil => rfl
  | cons p ps ih => simp only [List.map_cons, List.sum_cons, ih, h]

theorem init_endInv (progs : List (List Call)) : EndInv progs (init progs) := by
  have hz : ∀ f : Thread → Nat, (∀ p, f (mkThread p) = 0) → sumT f (init progs) = 0 := by
    intro f hf
    rw [sum_init f (fun _ => 0) hf]
    induction progs with
    | nil => rfl
    | cons p ps ih => simp only [List.map_cons, List.sum_cons, ih]
  have h2 : sumT (fun t => drpN t + dhLeft t) (init progs) = dhTotal progs :=
    sum_init _ (fun p => (p.filter isDH).length) (fun p => by simp [drpN, dhLeft, mkThread]) progs
  refine { inv := init_inv progs,
           ii_bal := sum_init _ (fun p => (p.filter isII).length) (fun p => by simp [recN, iiLeft, mkThread]) progs,
           dh_le := by rw [h2]; exact Nat.le_refl _,
           dh_eq := Or.inl h2,
           rec_flag := by rw [hz recN (fun p => by simp [recN, mkThread])]; rfl,
           handle_iff := by rw [hz _ (fun p => by simp [recN, drpN, mkThread])]; simp [init],
           done_ok := ?_ }
  intro t ht hd
  simp only [init, List.mem_map] at ht
  obtain ⟨p, _, rfl⟩ := ht
  simp [mkThread] at hd

theorem step_some (s : Sys) (tid : Nat) (t : Thread) (hg : s.threads[tid]? = some t) :
    step s tid = { (stepThread s t).1 with threads := setAt (stepThread s t).1.threads tid (stepThread s t).2 } := by
  unfold step; rw [hg]

theorem step_endInv (progs : List (List Call)) (s : Sys) (tid : Nat) (h : EndInv progs s) : EndInv progs (step s tid) := by
  have hinv' := step_inv s tid h.inv
  cases hg : s.threads[tid]? with
  | none => have : step s tid = s := by unfold step; rw [hg]
            rw [this]; exact h
  | some t =>
    have e := step_some s tid t hg
    have hth := stepThread_threads s t
    obtain ⟨dr, dd, lost, te, se, hl⟩ := stepThread_ends s t tid h.inv hg
    generalize (stepThread s t).1 = s' at e hth se
    generalize (stepThread s t).2 = t' at e te
    have hH : (step s tid).handle = s'.handle := by rw [e]
    have hR : (step s tid).recovered = s'.recovered := by rw [e]
    have hT : (step s tid).threads = setAt s.threads tid t' := by rw [e]; simp only [hth]
    have hS : ∀ f : Thread → Nat, sumT f (step s tid) + f t = sumT f s + f t' := by
      intro f; unfold sumT; rw [hT]; exact sum_map_setAt f s.threads tid t' t hg
    have S1 := hS (fun t => recN t + iiLeft t)
    have S2 := hS (fun t => drpN t + dhLeft t)
    have S3 := hS recN
    have S4 := hS (fun t => recN t + drpN t)
    try simp only at S1 S2 S4
    have tr := te.r
    have td := te.d
    have ti := te.ii
    have tdh := te.dh
    have a1 := h.ii_bal
    have a2 := h.dh_le
    have a3 := h.rec_flag
    have a4 := h.handle_iff
    have hdone : ∀ u ∈ (step s tid).threads, doneOk u := by
      intro u hu
      rw [hT] at hu
      rcases mem_setAt hu with hu | hu
      · rw [hu]; exact te.dn (h.done_ok t (mem_of_getElem? hg))
      · exact h.done_ok u hu
    rcases se with ⟨r0, d0, k1, k2⟩ | ⟨r1, d0, k1, k2, k3⟩ | ⟨r0, d1, k1, k2⟩
    · subst r0; subst d0
      refine { inv := hinv', ii_bal := by omega, dh_le := by omega, dh_eq := ?_, rec_flag := by rw [hR, k2]; omega,
               handle_iff := by rw [hH, k1]; constructor
                                · intro x; have := a4.1 x; omega
                                · intro x; exact a4.2 (by omega),
               done_ok := hdone }
      by_cases hl0 : lost = 0
      · rcases h.dh_eq with x | x
        · left; omega
        · right; rw [hH, k1]; exact x
      · right
        have h0 := hl (by omega)
        have hse := h.inv.strong_eq
        rw [hH, k1]
        cases hh : s.handle with
        | false => rfl
        | true => rw [hh] at hse; simp at hse; omega
    · subst r1; subst d0
      have hl' := h.inv.handle_live k1
      have hs0 : sumT recN s = 0 := by rw [a3, hl'.2]; rfl
      refine { inv := hinv', ii_bal := by omega, dh_le := by omega, dh_eq := Or.inr (by rw [hH]; exact k2),
               rec_flag := by rw [hR, k3]; simp only [if_true]; omega,
               handle_iff := by rw [hH, k2]; constructor
                                · intro _; omega
                                · intro _; rfl,
               done_ok := hdone }
    · subst r0; subst d1
      refine { inv := hinv', ii_bal := by omega, dh_le := by omega, dh_eq := Or.inr (by rw [hH]; exact k1),
               rec_flag := by rw [hR, k2]; omega,
               handle_iff := by rw [hH, k1]; constructor
                                · intro _; omega
                                · intro _; rfl,
               done_ok := hdone }

theorem run_endInv (progs : List (List Call)) (sched : List Nat) : ∀ s, EndInv progs s → EndInv progs (run s sched) := by
  induction sched with
  | nil => intro s h; exact h
  | cons t ts ih => intro s h; exact ih _ (step_endInv progs s t h)

end MetricsVerif.Recoverable
