/-
Helper lemmas for C05: the bucket step machine restricted to pushers — structural invariant, counting
invariants, and what a snapshot sees at quiescence.
-/
import MetricsVerif.Model.Bucket
import MetricsVerif.Proofs.ListAt

namespace MetricsVerif.Bucket

/-! ### blocks -/

theorem getBlock_eq {s : Sys} {i : Nat} {b : Block} (h : s.blocks[i]? = some b) : getBlock s i = b := by
  simp [getBlock, h]

theorem setBlock_blocks (s : Sys) (i : Nat) (b : Block) : (setBlock s i b).blocks = setAt s.blocks i b := rfl
theorem setBlock_tail (s : Sys) (i : Nat) (b : Block) : (setBlock s i b).tail = s.tail := rfl
theorem setBlock_threads (s : Sys) (i : Nat) (b : Block) : (setBlock s i b).threads = s.threads := rfl
theorem setBlock_B (s : Sys) (i : Nat) (b : Block) : (setBlock s i b).B = s.B := rfl

theorem publishCell_length (cs : List Cell) (i : Nat) : (publishCell cs i).length = cs.length := by
  induction cs generalizing i with
  | nil => rfl
  | cons c cs ih => cases i <;> simp [publishCell, ih]

theorem publishCell_vals (cs : List Cell) (i : Nat) : (publishCell cs i).map Cell.val = cs.map Cell.val := by
  induction cs generalizing i with
  | nil => rfl
  | cons c cs ih => cases i <;> simp [publishCell, ih, Cell.val]

theorem publishCell_get (cs : List Cell) (i j : Nat) :
    (publishCell cs i)[j]? = if i = j then (cs[j]?).map (fun c => Cell.published c.val) else cs[j]? := by
  induction cs generalizing i j with
  | nil => simp [publishCell]
  | cons c cs ih =>
    cases i with
    | zero => cases j <;> simp [publishCell]
    | succ n =>
      cases j with
      | zero => simp [publishCell]
      | succ m => simp only [publishCell, List.getElem?_cons_succ, ih]; by_cases h : n = m <;> simp [h]

/-- number of `written` (claimed, unpublished) cells -/
def wcount (cs : List Cell) : Nat := cs.countP (fun c => !c.isPub)

theorem wcount_append (a b : List Cell) : wcount (a ++ b) = wcount a + wcount b := by
  simp [wcount, List.countP_append]

theorem wcount_publish (cs : List Cell) (i : Nat) (v : Nat) (h : cs[i]? = some (.written v)) :
    wcount (publishCell cs i) + 1 = wcount cs := by
  induction cs generalizing i with
  | nil => simp at h
  | cons c cs ih =>
    cases i with
    | zero =>
      simp only [List.getElem?_cons_zero, Option.some.injEq] at h
      subst h
      simp [publishCell, wcount, List.countP_cons, Cell.isPub, Cell.val]
    | succ n =>
      simp only [List.getElem?_cons_succ] at h
      have := ih n h
      simp only [publishCell, wcount, List.countP_cons] at this ⊢
      omega

theorem takeWhile_all {α : Type} (p : α → Bool) (l : List α) (h : ∀ x ∈ l, p x = true) : l.takeWhile p = l := by
  induction l with
  | nil => rfl
  | cons x xs ih =>
    simp only [List.takeWhile_cons, h x (by simp), if_true]
    rw [ih (fun y hy => h y (by simp [hy]))]

theorem wcount_zero_all_pub (cs : List Cell) (h : wcount cs = 0) : ∀ c ∈ cs, c.isPub = true := by
  intro c hc
  simp only [wcount, List.countP_eq_zero] at h
  have := h c hc
  simpa using this

/-- a block with no unpublished cell hands out all its cells -/
theorem data_of_no_written (b : Block) (h : wcount b.cells = 0) : b.data = b.cells.map Cell.val := by
  simp only [Block.data]
  rw [takeWhile_all _ _ (wcount_zero_all_pub b.cells h)]

end MetricsVerif.Bucket

namespace MetricsVerif.Bucket

/-! ### the push fragment of the step machine -/

def isPushCall : Call → Bool
  | .push _ => true
  | _ => false

def PC.isPushPC : PC → Bool
  | .start | .pLoadTail | .pCasFirst | .pClaim _ _ | .pPublish _ _ | .pCasNew _ | .done => true
  | _ => false

/-- effects of one step of a pusher -/
inductive PEff (s : Sys) (t : Thread) : Sys → Thread → Prop
  | noop : t.pc = .done → PEff s t s t
  | startDone : t.pc = .start → t.calls = [] → PEff s t s { t with pc := .done }
  | startPush : t.pc = .start → t.calls ≠ [] → PEff s t s { t with pc := .pLoadTail }
  | loadNone : t.pc = .pLoadTail → s.tail = none → PEff s t s { t with pc := .pCasFirst }
  | loadSome (b : Nat) : t.pc = .pLoadTail → s.tail = some b → PEff s t s { t with pc := .pClaim b false }
  | casFirstWin : t.pc = .pCasFirst → s.tail = none →
      PEff s t { s with blocks := s.blocks ++ [newBlock], tail := some s.blocks.length }
        { t with pc := .pClaim s.blocks.length false }
  | casFirstLose (b : Nat) : t.pc = .pCasFirst → s.tail = some b → PEff s t s { t with pc := .pClaim b false }
  | claimOk (blk : Nat) (r : Bool) : t.pc = .pClaim blk r → (getBlock s blk).write < s.B →
      PEff s t (setBlock s blk { getBlock s blk with write := (getBlock s blk).write + 1,
                                                     cells := (getBlock s blk).cells ++ [.written (curVal t)] })
        { t with pc := .pPublish blk (getBlock s blk).write }
  | claimFull (blk : Nat) (r : Bool) (pc' : PC) : t.pc = .pClaim blk r → ¬ (getBlock s blk).write < s.B →
      (pc' = .pLoadTail ∨ pc' = .pCasNew blk) →
      PEff s t (setBlock s blk { getBlock s blk with write := (getBlock s blk).write + 1 }) { t with pc := pc' }
  | publish (blk idx : Nat) : t.pc = .pPublish blk idx →
      PEff s t (setBlock s blk { getBlock s blk with cells := publishCell (getBlock s blk).cells idx })
        (t.advance .pushed)
  | casNewWin (old : Nat) : t.pc = .pCasNew old → s.tail = some old →
      PEff s t { s with blocks := s.blocks ++ [{ newBlock with next := some old }], tail := some s.blocks.length }
        { t with pc := .pClaim s.blocks.length true }
  | casNewLose (old : Nat) : t.pc = .pCasNew old → s.tail ≠ some old → PEff s t s { t with pc := .pLoadTail }

theorem stepThread_peff (s : Sys) (t : Thread) (hpc : t.pc.isPushPC = true)
    (hcalls : ∀ c ∈ t.calls, isPushCall c = true) :
    PEff s t (stepThread s t).1 (stepThread s t).2 := by
  unfold stepThread
  cases hp : t.pc with
  | start =>
    simp only
    by_cases hc : t.calls = []
    · have e : startPC t.calls = PC.done := by rw [hc]; rfl
      rw [e]; exact .startDone hp hc
    · have e : startPC t.calls = PC.pLoadTail := by
        cases hcc : t.calls with
        | nil => exact absurd hcc hc
        | cons c rest =>
          have := hcalls c (by simp [hcc])
          cases c <;> simp_all [isPushCall, pcOfCall, startPC]
      rw [e]; exact .startPush hp hc
  | done => exact .noop hp
  | pLoadTail =>
    simp only
    cases ht : s.tail with
    | none => exact .loadNone hp ht
    | some b => exact .loadSome b hp ht
  | pCasFirst =>
    simp only
    cases ht : s.tail with
    | none => exact .casFirstWin hp ht
    | some b => exact .casFirstLose b hp ht
  | pClaim blk r =>
    simp only
    by_cases hw : (getBlock s blk).write < s.B
    · simp only [hw, if_true]; exact .claimOk blk r hp hw
    · simp only [hw, if_false]
      cases r with
      | true => simp only [if_true]; exact .claimFull blk true _ hp hw (Or.inl rfl)
      | false => simp only [Bool.false_eq_true, if_false]; exact .claimFull blk false _ hp hw (Or.inr rfl)
  | pPublish blk idx => exact .publish blk idx hp
  | pCasNew old =>
    simp only
    by_cases ht : s.tail = some old
    · simp only [ht, if_true]; exact .casNewWin old hp ht
    · simp only [ht, if_false]; exact .casNewLose old hp ht
  | dLoadTail => simp [hp, PC.isPushPC] at hpc
  | dQuiesced b => simp [hp, PC.isPushPC] at hpc
  | dWait b => simp [hp, PC.isPushPC] at hpc
  | dRead b => simp [hp, PC.isPushPC] at hpc
  | dNext b => simp [hp, PC.isPushPC] at hpc
  | cLoadTail => simp [hp, PC.isPushPC] at hpc
  | cCas b => simp [hp, PC.isPushPC] at hpc
  | cQuiesced b => simp [hp, PC.isPushPC] at hpc
  | cWait b => simp [hp, PC.isPushPC] at hpc
  | cRead b => simp [hp, PC.isPushPC] at hpc
  | cNext b => simp [hp, PC.isPushPC] at hpc
  | eLoadTail => simp [hp, PC.isPushPC] at hpc
  | eLen b => simp [hp, PC.isPushPC] at hpc

end MetricsVerif.Bucket

namespace MetricsVerif.Bucket

/-! ### the invariant of the push fragment -/

def pubN (t : Thread) : Nat := match t.pc with | .pPublish _ _ => 1 | _ => 0
def wSum (s : Sys) : Nat := (s.blocks.map (fun b => wcount b.cells)).sum
def pSum (s : Sys) : Nat := (s.threads.map pubN).sum

/-- the cell a publishing thread points to is claimed by it and not yet published -/
def PubCell (blocks : List Block) (blk idx v : Nat) : Prop :=
  ∃ b, blocks[blk]? = some b ∧ b.cells[idx]? = some (.written v)

structure TI (blocks : List Block) (t : Thread) : Prop where
  calls_push : ∀ c ∈ t.calls, isPushCall c = true
  pc_push : t.pc.isPushPC = true
  active : t.pc ≠ .start → t.pc ≠ .done → t.calls ≠ []
  done_empty : t.pc = .done → t.calls = []
  claim_lt : ∀ blk r, t.pc = .pClaim blk r → blk < blocks.length
  casnew_lt : ∀ old, t.pc = .pCasNew old → old < blocks.length
  pub_cell : ∀ blk idx, t.pc = .pPublish blk idx → PubCell blocks blk idx (curVal t)

structure PInv (s : Sys) : Prop where
  tail_nil : s.blocks = [] → s.tail = none
  tail_last : ∀ n, s.blocks.length = n + 1 → s.tail = some n
  links : ∀ (i : Nat) (b : Block), s.blocks[i]? = some b → b.next = (if i = 0 then none else some (i - 1))
  cells_len : ∀ (i : Nat) (b : Block), s.blocks[i]? = some b → b.cells.length = min b.write s.B
  thr : ∀ (i : Nat) (t : Thread), s.threads[i]? = some t → TI s.blocks t
  distinct : ∀ (i j : Nat) (ti tj : Thread) (blk idx : Nat), i ≠ j → s.threads[i]? = some ti → s.threads[j]? = some tj →
      ti.pc = .pPublish blk idx → tj.pc ≠ .pPublish blk idx
  wp : wSum s = pSum s

theorem tail_lt {s : Sys} (h : PInv s) {b : Nat} (ht : s.tail = some b) : b + 1 = s.blocks.length := by
  cases hb : s.blocks with
  | nil => have := h.tail_nil hb; rw [ht] at this; cases this
  | cons x xs =>
    have := h.tail_last xs.length (by simp [hb])
    rw [ht] at this; injection this with this; simp [this]

/-- transfer of a thread's invariant to a state whose blocks keep the thread's pointers valid -/
theorem TI.mono {bs bs' : List Block} {t : Thread} (h : TI bs t) (hlen : bs.length ≤ bs'.length)
    (hcell : ∀ blk idx, t.pc = .pPublish blk idx → PubCell bs blk idx (curVal t) →
      PubCell bs' blk idx (curVal t)) : TI bs' t :=
  { calls_push := h.calls_push, pc_push := h.pc_push, active := h.active, done_empty := h.done_empty
    claim_lt := fun blk r hp => Nat.lt_of_lt_of_le (h.claim_lt blk r hp) hlen
    casnew_lt := fun old hp => Nat.lt_of_lt_of_le (h.casnew_lt old hp) hlen
    pub_cell := fun blk idx hp => hcell blk idx hp (h.pub_cell blk idx hp) }

theorem PubCell.append {blocks : List Block} {blk idx v : Nat} (h : PubCell blocks blk idx v) (nb : Block) :
    PubCell (blocks ++ [nb]) blk idx v := by
  obtain ⟨b, hb, hc⟩ := h
  refine ⟨b, ?_, hc⟩
  have : blk < blocks.length := by
    rcases Nat.lt_or_ge blk blocks.length with h' | h'
    · exact h'
    · rw [List.getElem?_eq_none h'] at hb; cases hb
  rw [List.getElem?_append_left this]; exact hb

theorem pubN_advance (t : Thread) (r : Res) (h : ∀ c ∈ t.calls, isPushCall c = true) : pubN (t.advance r) = 0 := by
  unfold pubN Thread.advance
  simp only
  cases hc : t.calls.tail with
  | nil => rfl
  | cons c rest =>
    have : c ∈ t.calls := List.mem_of_mem_tail (by rw [hc]; simp)
    have := h c this
    cases c <;> simp_all [isPushCall, startPC, pcOfCall]

theorem startPC_push (calls : List Call) (h : ∀ c ∈ calls, isPushCall c = true) :
    (calls = [] ∧ startPC calls = .done) ∨ (calls ≠ [] ∧ startPC calls = .pLoadTail) := by
  cases calls with
  | nil => exact Or.inl ⟨rfl, rfl⟩
  | cons c rest =>
    have := h c (by simp)
    cases c <;> simp_all [isPushCall, startPC, pcOfCall]

/-- invariant of the thread that has just finished a push -/
theorem TI.advance {bs : List Block} {t : Thread} (h : TI bs t) : TI bs (t.advance .pushed) := by
  have htail : ∀ c ∈ t.calls.tail, isPushCall c = true := fun c hc => h.calls_push c (List.mem_of_mem_tail hc)
  rcases startPC_push t.calls.tail htail with ⟨he, hp⟩ | ⟨hne, hp⟩
  · exact { calls_push := htail, pc_push := by simp [Thread.advance, hp, PC.isPushPC],
            active := by simp [Thread.advance, hp], done_empty := fun _ => he,
            claim_lt := by simp [Thread.advance, hp], casnew_lt := by simp [Thread.advance, hp],
            pub_cell := by simp [Thread.advance, hp] }
  · exact { calls_push := htail, pc_push := by simp [Thread.advance, hp, PC.isPushPC],
            active := fun _ _ => hne, done_empty := by simp [Thread.advance, hp],
            claim_lt := by simp [Thread.advance, hp], casnew_lt := by simp [Thread.advance, hp],
            pub_cell := by simp [Thread.advance, hp] }

theorem wSum_set (s : Sys) (blk : Nat) (b b' : Block) (hg : s.blocks[blk]? = some b) :
    wSum (setBlock s blk b') + wcount b.cells = wSum s + wcount b'.cells := by
  simp only [wSum, setBlock_blocks]
  exact sum_map_setAt (fun b => wcount b.cells) s.blocks blk b' b hg

theorem pSum_set (s s' : Sys) (tid : Nat) (t t' : Thread) (hg : s.threads[tid]? = some t)
    (hth : s'.threads = s.threads) :
    pSum { s' with threads := setAt s'.threads tid t' } + pubN t = pSum s + pubN t' := by
  simp only [pSum, hth]; exact sum_map_setAt pubN s.threads tid t' t hg

end MetricsVerif.Bucket

namespace MetricsVerif.Bucket

theorem lt_of_getElem?_some {α : Type} {l : List α} {i : Nat} {x : α} (h : l[i]? = some x) : i < l.length := by
  rcases Nat.lt_or_ge i l.length with h' | h'
  · exact h'
  · rw [List.getElem?_eq_none h'] at h; cases h

/-- the thread list after a step: position `tid` holds the stepped thread, all others are unchanged -/
theorem threads_after {l : List Thread} {tid : Nat} {t t' : Thread} (hg : l[tid]? = some t) (i : Nat) (u : Thread)
    (h : (setAt l tid t')[i]? = some u) : (i = tid ∧ u = t') ∨ (i ≠ tid ∧ l[i]? = some u) := by
  rw [getElem?_setAt] at h
  by_cases hi : tid = i
  · subst hi
    simp only [true_and, lt_of_getElem?_some hg, if_true, Option.some.injEq] at h
    exact Or.inl ⟨rfl, h.symm⟩
  · simp only [hi, false_and, if_false] at h
    exact Or.inr ⟨fun e => hi e.symm, h⟩

/-- packaging: invariant of the state after thread `tid` took a step with effect on blocks/tail `bs'`/`tl'` -/
theorem pinv_after {s : Sys} {tid : Nat} {t t' : Thread} {bs' : List Block} {tl' : Option Nat}
    (hg : s.threads[tid]? = some t)
    (tail_nil : bs' = [] → tl' = none)
    (tail_last : ∀ n, bs'.length = n + 1 → tl' = some n)
    (links : ∀ (i : Nat) (b : Block), bs'[i]? = some b → b.next = (if i = 0 then none else some (i - 1)))
    (cells_len : ∀ (i : Nat) (b : Block), bs'[i]? = some b → b.cells.length = min b.write s.B)
    (hnew : TI bs' t')
    (hold : ∀ (i : Nat) (u : Thread), i ≠ tid → s.threads[i]? = some u → TI bs' u)
    (hdist : ∀ blk idx, t'.pc = .pPublish blk idx → ∀ (j : Nat) (u : Thread), j ≠ tid → s.threads[j]? = some u →
        u.pc ≠ .pPublish blk idx)
    (holddist : ∀ (i j : Nat) (ti tj : Thread) (blk idx : Nat), i ≠ j → s.threads[i]? = some ti →
        s.threads[j]? = some tj → ti.pc = .pPublish blk idx → tj.pc ≠ .pPublish blk idx)
    (wp : (bs'.map (fun b => wcount b.cells)).sum + pubN t = pSum s + pubN t') :
    PInv { B := s.B, blocks := bs', tail := tl', threads := setAt s.threads tid t' } := by
  refine { tail_nil := tail_nil, tail_last := tail_last, links := links, cells_len := cells_len,
           thr := ?_, distinct := ?_, wp := ?_ }
  · intro i u hu
    rcases threads_after hg i u hu with ⟨_, rfl⟩ | ⟨hi, hu'⟩
    · exact hnew
    · exact hold i u hi hu'
  · intro i j ti tj blk idx hij hi hj hpi
    rcases threads_after hg i ti hi with ⟨ei, rfl⟩ | ⟨hni, hi'⟩
    · rcases threads_after hg j tj hj with ⟨ej, rfl⟩ | ⟨hnj, hj'⟩
      · exact absurd (ei.trans ej.symm) hij
      · exact hdist blk idx hpi j tj hnj hj'
    · rcases threads_after hg j tj hj with ⟨ej, rfl⟩ | ⟨hnj, hj'⟩
      · intro hpj
        exact hdist blk idx hpj i ti hni hi' hpi
      · exact holddist i j ti tj blk idx hij hi' hj' hpi
  · have := sum_map_setAt pubN s.threads tid t' t hg
    simp only [wSum, pSum] at wp ⊢
    omega

theorem PubCell.set_other {blocks : List Block} {blk idx v blk' : Nat} {b' : Block}
    (h : PubCell blocks blk idx v) (hne : blk ≠ blk') : PubCell (setAt blocks blk' b') blk idx v := by
  obtain ⟨b, hb, hc⟩ := h
  refine ⟨b, ?_, hc⟩
  rw [getElem?_setAt]
  have : ¬ (blk' = blk ∧ blk < blocks.length) := fun x => hne x.1.symm
  simp [this, hb]

theorem setAt_same {α : Type} (l : List α) (i : Nat) (x : α) (h : l[i]? = some x) : setAt l i x = l := by
  induction l generalizing i with
  | nil => rfl
  | cons y ys ih =>
    cases i with
    | zero => simp at h; subst h; rfl
    | succ n => simp at h; simp [setAt, ih n h]

/-- steps that change only the stepping thread's pc (not to a publish pc) -/
theorem pinv_same {s : Sys} {tid : Nat} {t t'' : Thread} (h : PInv s) (hg : s.threads[tid]? = some t)
    (hnew : TI s.blocks t'') (hp : pubN t'' = pubN t)
    (hsame : ∀ blk idx, t''.pc = .pPublish blk idx → t.pc = .pPublish blk idx) :
    PInv { B := s.B, blocks := s.blocks, tail := s.tail, threads := setAt s.threads tid t'' } := by
  have hwp := h.wp
  refine pinv_after hg h.tail_nil h.tail_last h.links h.cells_len hnew
    (fun i u _ hu => h.thr i u hu) ?_ h.distinct (by simp only [wSum] at hwp; omega)
  intro blk idx hp' j u hj hu
  exact fun hpu => h.distinct tid j t u blk idx (fun e => hj e.symm) hg hu (hsame blk idx hp') hpu

/-- a fresh block appended and made the tail -/
theorem pinv_append {s : Sys} {tid : Nat} {t : Thread} {r : Bool} (h : PInv s) (hg : s.threads[tid]? = some t)
    (hT : TI s.blocks t) (hp0 : pubN t = 0) (hact : t.calls ≠ []) (nb : Block)
    (hnb : nb.cells = [] ∧ nb.write = 0)
    (hlink : nb.next = (if s.blocks.length = 0 then none else some (s.blocks.length - 1))) :
    PInv { B := s.B, blocks := s.blocks ++ [nb], tail := some s.blocks.length,
           threads := setAt s.threads tid { t with pc := .pClaim s.blocks.length r } } := by
  have hwp := h.wp
  refine pinv_after hg (by simp) ?_ ?_ ?_ ?_ ?_ ?_ h.distinct ?_
  · intro n hn; simp at hn; simp [hn]
  · intro i b hb
    by_cases hi : i < s.blocks.length
    · rw [List.getElem?_append_left hi] at hb; exact h.links i b hb
    · have hi' : i = s.blocks.length := by
        have := lt_of_getElem?_some hb; simp at this; omega
      subst hi'
      simp at hb; subst hb; exact hlink
  · intro i b hb
    by_cases hi : i < s.blocks.length
    · rw [List.getElem?_append_left hi] at hb; exact h.cells_len i b hb
    · have hi' : i = s.blocks.length := by
        have := lt_of_getElem?_some hb; simp at this; omega
      subst hi'
      simp at hb; subst hb; simp [hnb.1, hnb.2]
  · exact { calls_push := hT.calls_push, pc_push := rfl, active := fun _ _ => hact, done_empty := by simp,
            claim_lt := by intro blk r' hpc; simp at hpc; simp [hpc.1], casnew_lt := by simp, pub_cell := by simp }
  · intro i u _ hu
    exact (h.thr i u hu).mono (by simp) (fun blk idx _ hc => hc.append _)
  · simp
  · have p1 : pubN { t with pc := PC.pClaim s.blocks.length r } = 0 := rfl
    have w0 : wcount nb.cells = 0 := by rw [hnb.1]; rfl
    simp only [List.map_append, List.sum_append, List.map_cons, List.map_nil, List.sum_cons, List.sum_nil, w0, p1, hp0]
    simp only [wSum] at hwp
    omega

/-- obligations about the block list after replacing block `blk` by a block with the same `next` -/
theorem blocks_set_struct {s : Sys} (h : PInv s) {blk : Nat} {b b' : Block} (hb : s.blocks[blk]? = some b)
    (hnext : b'.next = b.next) (hlen : b'.cells.length = min b'.write s.B) :
    (setAt s.blocks blk b' = [] → s.tail = none)
    ∧ (∀ n, (setAt s.blocks blk b').length = n + 1 → s.tail = some n)
    ∧ (∀ (i : Nat) (x : Block), (setAt s.blocks blk b')[i]? = some x → x.next = (if i = 0 then none else some (i - 1)))
    ∧ (∀ (i : Nat) (x : Block), (setAt s.blocks blk b')[i]? = some x → x.cells.length = min x.write s.B) := by
  have hlt := lt_of_getElem?_some hb
  refine ⟨?_, ?_, ?_, ?_⟩
  · intro hn
    have : (setAt s.blocks blk b').length = s.blocks.length := setAt_length _ _ _
    rw [hn] at this; simp at this; omega
  · intro n hn; rw [setAt_length] at hn; exact h.tail_last n hn
  · intro i x hx
    rw [getElem?_setAt] at hx
    by_cases hi : blk = i ∧ i < s.blocks.length
    · simp only [hi, and_self, if_true, Option.some.injEq] at hx
      subst hx; rw [hnext, ← hi.1]; exact h.links blk b hb
    · simp only [hi, if_false] at hx; exact h.links i x hx
  · intro i x hx
    rw [getElem?_setAt] at hx
    by_cases hi : blk = i ∧ i < s.blocks.length
    · simp only [hi, and_self, if_true, Option.some.injEq] at hx
      subst hx; exact hlen
    · simp only [hi, if_false] at hx; exact h.cells_len i x hx

/-- other threads keep their invariant when block `blk` is replaced by one whose cells extend / keep the
    cells they point to -/
theorem TI.set_block {bs : List Block} {u : Thread} {blk : Nat} {b b' : Block} (hu : TI bs u)
    (hb : bs[blk]? = some b)
    (hkeep : ∀ idx, u.pc = .pPublish blk idx → b.cells[idx]? = some (.written (curVal u)) →
        b'.cells[idx]? = some (.written (curVal u))) : TI (setAt bs blk b') u := by
  have hlt := lt_of_getElem?_some hb
  refine hu.mono (by rw [setAt_length]; exact Nat.le_refl _) ?_
  intro blk' idx' hpc hc
  by_cases hbb : blk' = blk
  · subst hbb
    obtain ⟨b0, hb0, hc0⟩ := hc
    rw [hb] at hb0; injection hb0 with hb0; subst hb0
    exact ⟨b', by rw [getElem?_setAt]; simp [hlt], hkeep idx' hpc hc0⟩
  · exact hc.set_other hbb

end MetricsVerif.Bucket

namespace MetricsVerif.Bucket

theorem pinv_claimOk {s : Sys} {tid : Nat} {t : Thread} {blk : Nat} {r : Bool} {b : Block} (h : PInv s)
    (hg : s.threads[tid]? = some t) (hT : TI s.blocks t) (hp : t.pc = .pClaim blk r)
    (hb : s.blocks[blk]? = some b) (hw : b.write < s.B) :
    PInv { B := s.B,
           blocks := setAt s.blocks blk { b with write := b.write + 1, cells := b.cells ++ [.written (curVal t)] },
           tail := s.tail, threads := setAt s.threads tid { t with pc := .pPublish blk b.write } } := by
  have hwp := h.wp
  have hlt := lt_of_getElem?_some hb
  have hclen := h.cells_len blk b hb
  have hwlen : b.cells.length = b.write := by rw [hclen]; omega
  obtain ⟨s1, s2, s3, s4⟩ := blocks_set_struct h (b' := { b with write := b.write + 1, cells := b.cells ++ [.written (curVal t)] })
    hb rfl (by simp; omega)
  refine pinv_after hg s1 s2 s3 s4 ?_ ?_ ?_ h.distinct ?_
  · refine { calls_push := hT.calls_push, pc_push := rfl,
             active := fun _ _ => hT.active (by simp [hp]) (by simp [hp]), done_empty := by simp,
             claim_lt := by simp, casnew_lt := by simp, pub_cell := ?_ }
    intro blk' idx' hpc
    simp only [PC.pPublish.injEq] at hpc
    obtain ⟨rfl, rfl⟩ := hpc
    refine ⟨{ b with write := b.write + 1, cells := b.cells ++ [.written (curVal t)] },
      by rw [getElem?_setAt]; simp [hlt], ?_⟩
    show (b.cells ++ [Cell.written (curVal t)])[b.write]? = some (Cell.written (curVal t))
    rw [← hwlen]; simp
  · intro i u _ hu
    refine (h.thr i u hu).set_block hb ?_
    intro idx _ hc
    have := lt_of_getElem?_some hc
    show (b.cells ++ [Cell.written (curVal t)])[idx]? = _
    rw [List.getElem?_append_left this]; exact hc
  · intro blk' idx' hpc j u hj hu hpu
    simp only [PC.pPublish.injEq] at hpc
    obtain ⟨rfl, rfl⟩ := hpc
    obtain ⟨b0, hb0, hc0⟩ := (h.thr j u hu).pub_cell _ _ hpu
    rw [hb] at hb0; injection hb0 with hb0; subst hb0
    have := lt_of_getElem?_some hc0
    omega
  · have := sum_map_setAt (fun b => wcount b.cells) s.blocks blk
      { b with write := b.write + 1, cells := b.cells ++ [.written (curVal t)] } b hb
    simp only [wcount_append] at this
    have w1 : wcount [Cell.written (curVal t)] = 1 := by simp [wcount, Cell.isPub]
    have p0 : pubN t = 0 := by simp [pubN, hp]
    have p1 : pubN { t with pc := PC.pPublish blk b.write } = 1 := rfl
    simp only [wSum] at hwp
    rw [p0, p1]; omega

theorem pinv_claimFull {s : Sys} {tid : Nat} {t : Thread} {blk : Nat} {r : Bool} {b : Block} {pc' : PC} (h : PInv s)
    (hg : s.threads[tid]? = some t) (hT : TI s.blocks t) (hp : t.pc = .pClaim blk r)
    (hb : s.blocks[blk]? = some b) (hw : ¬ b.write < s.B) (hpc' : pc' = .pLoadTail ∨ pc' = .pCasNew blk) :
    PInv { B := s.B, blocks := setAt s.blocks blk { b with write := b.write + 1 },
           tail := s.tail, threads := setAt s.threads tid { t with pc := pc' } } := by
  have hwp := h.wp
  have hlt := lt_of_getElem?_some hb
  have hclen := h.cells_len blk b hb
  obtain ⟨s1, s2, s3, s4⟩ := blocks_set_struct h (b' := { b with write := b.write + 1 }) hb rfl (by simp; omega)
  refine pinv_after hg s1 s2 s3 s4 ?_ ?_ ?_ h.distinct ?_
  · rcases hpc' with rfl | rfl
    · exact { calls_push := hT.calls_push, pc_push := rfl,
              active := fun _ _ => hT.active (by simp [hp]) (by simp [hp]), done_empty := by simp,
              claim_lt := by simp, casnew_lt := by simp, pub_cell := by simp }
    · exact { calls_push := hT.calls_push, pc_push := rfl,
              active := fun _ _ => hT.active (by simp [hp]) (by simp [hp]), done_empty := by simp,
              claim_lt := by simp,
              casnew_lt := by intro old hpc; simp at hpc; subst hpc; rw [setAt_length]; exact hlt,
              pub_cell := by simp }
  · intro i u _ hu
    exact (h.thr i u hu).set_block hb (fun idx _ hc => hc)
  · intro blk' idx' hpc
    rcases hpc' with rfl | rfl <;> simp at hpc
  · have := sum_map_setAt (fun b => wcount b.cells) s.blocks blk { b with write := b.write + 1 } b hb
    have p0 : pubN t = 0 := by simp [pubN, hp]
    have p1 : pubN { t with pc := pc' } = 0 := by rcases hpc' with rfl | rfl <;> rfl
    simp only [wSum] at hwp
    rw [p0, p1]; simp only at this; omega

theorem pinv_publish {s : Sys} {tid : Nat} {t : Thread} {blk idx : Nat} {b : Block} (h : PInv s)
    (hg : s.threads[tid]? = some t) (hT : TI s.blocks t) (hp : t.pc = .pPublish blk idx)
    (hb : s.blocks[blk]? = some b) (hc : b.cells[idx]? = some (.written (curVal t))) :
    PInv { B := s.B, blocks := setAt s.blocks blk { b with cells := publishCell b.cells idx },
           tail := s.tail, threads := setAt s.threads tid (t.advance .pushed) } := by
  have hwp := h.wp
  have hlt := lt_of_getElem?_some hb
  obtain ⟨s1, s2, s3, s4⟩ := blocks_set_struct h (b' := { b with cells := publishCell b.cells idx }) hb rfl
    (by simp only [publishCell_length]; exact h.cells_len blk b hb)
  refine pinv_after hg s1 s2 s3 s4 ?_ ?_ ?_ h.distinct ?_
  · -- the stepped thread: its own facts do not depend on the blocks any more
    have hadv := hT.advance
    exact { calls_push := hadv.calls_push, pc_push := hadv.pc_push, active := hadv.active,
            done_empty := hadv.done_empty,
            claim_lt := fun blk' r hpc => by
              have htail : ∀ c ∈ t.calls.tail, isPushCall c = true := fun c hc => hT.calls_push c (List.mem_of_mem_tail hc)
              rcases startPC_push t.calls.tail htail with ⟨_, e⟩ | ⟨_, e⟩ <;> simp [Thread.advance, e] at hpc,
            casnew_lt := fun old hpc => by
              have htail : ∀ c ∈ t.calls.tail, isPushCall c = true := fun c hc => hT.calls_push c (List.mem_of_mem_tail hc)
              rcases startPC_push t.calls.tail htail with ⟨_, e⟩ | ⟨_, e⟩ <;> simp [Thread.advance, e] at hpc,
            pub_cell := fun blk' idx' hpc => by
              have htail : ∀ c ∈ t.calls.tail, isPushCall c = true := fun c hc => hT.calls_push c (List.mem_of_mem_tail hc)
              rcases startPC_push t.calls.tail htail with ⟨_, e⟩ | ⟨_, e⟩ <;> simp [Thread.advance, e] at hpc }
  · intro i u hi hu
    refine (h.thr i u hu).set_block hb ?_
    intro idx' hpu hcu
    have hne : idx ≠ idx' := by
      intro e; subst e
      exact h.distinct tid i t u blk idx (fun e => hi e.symm) hg hu hp hpu
    show (publishCell b.cells idx)[idx']? = _
    rw [publishCell_get]; simp [hne, hcu]
  · intro blk' idx' hpc
    have := pubN_advance t .pushed hT.calls_push
    simp [pubN, hpc] at this
  · have := sum_map_setAt (fun b => wcount b.cells) s.blocks blk { b with cells := publishCell b.cells idx } b hb
    have hw := wcount_publish b.cells idx (curVal t) hc
    have p0 : pubN t = 1 := by simp [pubN, hp]
    have p1 := pubN_advance t .pushed hT.calls_push
    simp only [wSum] at hwp
    rw [p0, p1]; simp only at this; omega

/-- one step of any thread preserves the invariant of the push fragment -/
theorem pstep_inv (s : Sys) (tid : Nat) (h : PInv s) : PInv (step s tid) := by
  unfold step
  cases hg : s.threads[tid]? with
  | none => exact h
  | some t =>
    simp only
    have hT := h.thr tid t hg
    have e := stepThread_peff s t hT.pc_push hT.calls_push
    generalize (stepThread s t).1 = s' at e
    generalize (stepThread s t).2 = t' at e
    cases e with
    | noop hp => rw [setAt_same _ _ _ hg]; exact h
    | startDone hp hc =>
      exact pinv_same h hg { calls_push := hT.calls_push, pc_push := rfl, active := by simp,
                             done_empty := fun _ => hc, claim_lt := by simp, casnew_lt := by simp, pub_cell := by simp }
        (by simp [pubN, hp]) (by simp)
    | startPush hp hc =>
      exact pinv_same h hg { calls_push := hT.calls_push, pc_push := rfl, active := fun _ _ => hc,
                             done_empty := by simp, claim_lt := by simp, casnew_lt := by simp, pub_cell := by simp }
        (by simp [pubN, hp]) (by simp)
    | loadNone hp ht =>
      exact pinv_same h hg { calls_push := hT.calls_push, pc_push := rfl,
                             active := fun _ _ => hT.active (by simp [hp]) (by simp [hp]),
                             done_empty := by simp, claim_lt := by simp, casnew_lt := by simp, pub_cell := by simp }
        (by simp [pubN, hp]) (by simp)
    | loadSome b hp ht =>
      have hb := tail_lt h ht
      exact pinv_same h hg { calls_push := hT.calls_push, pc_push := rfl,
                             active := fun _ _ => hT.active (by simp [hp]) (by simp [hp]),
                             done_empty := by simp, claim_lt := by intro blk r hpc; simp at hpc; omega,
                             casnew_lt := by simp, pub_cell := by simp }
        (by simp [pubN, hp]) (by simp)
    | casFirstLose b hp ht =>
      have hb := tail_lt h ht
      exact pinv_same h hg { calls_push := hT.calls_push, pc_push := rfl,
                             active := fun _ _ => hT.active (by simp [hp]) (by simp [hp]),
                             done_empty := by simp, claim_lt := by intro blk r hpc; simp at hpc; omega,
                             casnew_lt := by simp, pub_cell := by simp }
        (by simp [pubN, hp]) (by simp)
    | casNewLose old hp ht =>
      exact pinv_same h hg { calls_push := hT.calls_push, pc_push := rfl,
                             active := fun _ _ => hT.active (by simp [hp]) (by simp [hp]),
                             done_empty := by simp, claim_lt := by simp, casnew_lt := by simp, pub_cell := by simp }
        (by simp [pubN, hp]) (by simp)
    | casFirstWin hp ht =>
      have hnil : s.blocks.length = 0 := by
        cases hb : s.blocks with
        | nil => rfl
        | cons x xs => have := h.tail_last xs.length (by simp [hb]); rw [ht] at this; cases this
      exact pinv_append h hg hT (by simp [pubN, hp]) (hT.active (by simp [hp]) (by simp [hp])) newBlock ⟨rfl, rfl⟩
        (by simp [hnil, newBlock])
    | casNewWin old hp ht =>
      have hold := tail_lt h ht
      exact pinv_append h hg hT (by simp [pubN, hp]) (hT.active (by simp [hp]) (by simp [hp]))
        { newBlock with next := some old } ⟨rfl, rfl⟩
        (by have : s.blocks.length ≠ 0 := by omega
            simp [this]; omega)
    | claimOk blk r hp hw =>
      have hlt := hT.claim_lt blk r hp
      obtain ⟨b, hb⟩ : ∃ b, s.blocks[blk]? = some b := ⟨s.blocks[blk], List.getElem?_eq_getElem hlt⟩
      rw [getBlock_eq hb] at hw ⊢
      exact pinv_claimOk h hg hT hp hb hw
    | claimFull blk r pc' hp hw hpc' =>
      have hlt := hT.claim_lt blk r hp
      obtain ⟨b, hb⟩ : ∃ b, s.blocks[blk]? = some b := ⟨s.blocks[blk], List.getElem?_eq_getElem hlt⟩
      rw [getBlock_eq hb] at hw ⊢
      exact pinv_claimFull h hg hT hp hb hw hpc'
    | publish blk idx hp =>
      obtain ⟨b, hb, hc⟩ := hT.pub_cell blk idx hp
      rw [getBlock_eq hb]
      exact pinv_publish h hg hT hp hb hc

end MetricsVerif.Bucket

namespace MetricsVerif.Bucket

/-! ### reachability of the invariant -/

def PushOnly (progs : List (List Call)) : Prop := ∀ p ∈ progs, ∀ c ∈ p, isPushCall c = true

theorem init_pinv (B : Nat) (progs : List (List Call)) (hp : PushOnly progs) : PInv (init B progs) := by
  have hz : ∀ l : List (List Call), ((l.map mkThread).map pubN).sum = 0 := by
    intro l; induction l with
    | nil => rfl
    | cons x xs ih => simp only [List.map_cons, List.sum_cons, ih]; rfl
  refine { tail_nil := fun _ => rfl, tail_last := by simp [init], links := by simp [init],
           cells_len := by simp [init], thr := ?_, distinct := ?_,
           wp := by simp only [init, wSum, pSum, List.map_nil, List.sum_nil]; exact (hz progs).symm }
  · intro i t ht
    have hm : t ∈ (init B progs).threads := List.mem_of_getElem? ht
    simp only [init, List.mem_map] at hm
    obtain ⟨p, hpm, rfl⟩ := hm
    exact { calls_push := hp p hpm, pc_push := rfl, active := by simp [mkThread], done_empty := by simp [mkThread],
            claim_lt := by simp [mkThread], casnew_lt := by simp [mkThread], pub_cell := by simp [mkThread] }
  · intro i j ti tj blk idx _ hi _ hpi
    have hm : ti ∈ (init B progs).threads := List.mem_of_getElem? hi
    simp only [init, List.mem_map] at hm
    obtain ⟨p, _, rfl⟩ := hm
    simp [mkThread] at hpi

theorem prun_inv (sched : List Nat) : ∀ s, PInv s → PInv (run s sched) := by
  induction sched with
  | nil => intro s h; exact h
  | cons t ts ih => intro s h; exact ih _ (pstep_inv s t h)

/-! ### value accounting: every claimed cell is a push argument, each argument is claimed once -/

def cellsCount (v : Nat) (s : Sys) : Nat := (s.blocks.map (fun b => (b.cells.map Cell.val).count v)).sum

/-- pushes of `v` that thread `t` has not claimed a slot for yet -/
def todo (v : Nat) (t : Thread) : Nat :=
  match t.pc with
  | .pPublish _ _ => t.calls.tail.count (.push v)
  | _ => t.calls.count (.push v)

def todoSum (v : Nat) (s : Sys) : Nat := (s.threads.map (todo v)).sum

theorem todo_nonpub (v : Nat) (t : Thread) (pc' : PC) (h1 : ∀ b i, t.pc ≠ .pPublish b i) (h2 : ∀ b i, pc' ≠ .pPublish b i) :
    todo v { t with pc := pc' } = todo v t := by
  unfold todo
  cases hp : t.pc <;> cases hp' : pc' <;> simp_all

theorem curVal_head (t : Thread) (hne : t.calls ≠ []) (hpush : ∀ c ∈ t.calls, isPushCall c = true) :
    ∃ rest, t.calls = .push (curVal t) :: rest := by
  cases hc : t.calls with
  | nil => exact absurd hc hne
  | cons c rest =>
    have := hpush c (by simp [hc])
    cases c with
    | push v => exact ⟨rest, by simp [curVal, hc]⟩
    | data => simp [isPushCall] at this
    | clear => simp [isPushCall] at this
    | isEmpty => simp [isPushCall] at this

theorem cellsCount_set (v : Nat) (s : Sys) (blk : Nat) (b b' : Block) (hb : s.blocks[blk]? = some b) :
    ((setAt s.blocks blk b').map (fun b => (b.cells.map Cell.val).count v)).sum + (b.cells.map Cell.val).count v
      = cellsCount v s + (b'.cells.map Cell.val).count v :=
  sum_map_setAt (fun b => (b.cells.map Cell.val).count v) s.blocks blk b' b hb

theorem todoSum_set (v : Nat) (s : Sys) (tid : Nat) (t t' : Thread) (hg : s.threads[tid]? = some t) :
    ((setAt s.threads tid t').map (todo v)).sum + todo v t = todoSum v s + todo v t' :=
  sum_map_setAt (todo v) s.threads tid t' t hg

/-- claimed cells + unclaimed pushes of `v` is constant -/
theorem pstep_vals (v : Nat) (s : Sys) (tid : Nat) (h : PInv s) :
    cellsCount v (step s tid) + todoSum v (step s tid) = cellsCount v s + todoSum v s := by
  unfold step
  cases hg : s.threads[tid]? with
  | none => rfl
  | some t =>
    simp only
    have hT := h.thr tid t hg
    have e := stepThread_peff s t hT.pc_push hT.calls_push
    generalize (stepThread s t).1 = s' at e
    generalize (stepThread s t).2 = t' at e
    have hts := todoSum_set v s tid t
    -- steps that only move the thread between non-publish pcs and keep the blocks
    have same : ∀ pc', (∀ b i, t.pc ≠ .pPublish b i) → (∀ b i, pc' ≠ .pPublish b i) →
        cellsCount v { s with threads := setAt s.threads tid { t with pc := pc' } }
          + todoSum v { s with threads := setAt s.threads tid { t with pc := pc' } } = cellsCount v s + todoSum v s := by
      intro pc' h1 h2
      have := hts { t with pc := pc' } hg
      rw [todo_nonpub v t pc' h1 h2] at this
      simp only [cellsCount, todoSum] at this ⊢
      omega
    cases e with
    | noop hp => rw [setAt_same _ _ _ hg]
    | startDone hp hc => exact same _ (by simp [hp]) (by simp)
    | startPush hp hc => exact same _ (by simp [hp]) (by simp)
    | loadNone hp ht => exact same _ (by simp [hp]) (by simp)
    | loadSome b hp ht => exact same _ (by simp [hp]) (by simp)
    | casFirstLose b hp ht => exact same _ (by simp [hp]) (by simp)
    | casNewLose old hp ht => exact same _ (by simp [hp]) (by simp)
    | casFirstWin hp ht =>
      have := hts { t with pc := .pClaim s.blocks.length false } hg
      have h1 : ∀ b i, t.pc ≠ .pPublish b i := by simp [hp]
      rw [todo_nonpub v t (.pClaim s.blocks.length false) h1 (by simp)] at this
      simp only [cellsCount, todoSum, List.map_append, List.sum_append, List.map_cons, List.map_nil, List.sum_cons,
        List.sum_nil, newBlock, List.count_nil] at this ⊢
      omega
    | casNewWin old hp ht =>
      have := hts { t with pc := .pClaim s.blocks.length true } hg
      have h1 : ∀ b i, t.pc ≠ .pPublish b i := by simp [hp]
      rw [todo_nonpub v t (.pClaim s.blocks.length true) h1 (by simp)] at this
      simp only [cellsCount, todoSum, List.map_append, List.sum_append, List.map_cons, List.map_nil, List.sum_cons,
        List.sum_nil, newBlock, List.count_nil] at this ⊢
      omega
    | claimOk blk r hp hw =>
      have hlt := hT.claim_lt blk r hp
      obtain ⟨b, hb⟩ : ∃ b, s.blocks[blk]? = some b := ⟨s.blocks[blk], List.getElem?_eq_getElem hlt⟩
      rw [getBlock_eq hb]
      have hc := cellsCount_set v s blk b { b with write := b.write + 1, cells := b.cells ++ [.written (curVal t)] } hb
      have ht' := hts { t with pc := .pPublish blk b.write } hg
      obtain ⟨rest, hrest⟩ := curVal_head t (hT.active (by simp [hp]) (by simp [hp])) hT.calls_push
      have e1 : todo v t = (if curVal t = v then 1 else 0) + rest.count (.push v) := by
        simp only [todo, hp, hrest, List.count_cons]
        by_cases hv : curVal t = v <;> simp [hv] <;> omega
      have e2 : todo v { t with pc := PC.pPublish blk b.write } = rest.count (.push v) := by
        simp [todo, hrest]
      have e3 : ((b.cells ++ [Cell.written (curVal t)]).map Cell.val).count v
          = (b.cells.map Cell.val).count v + (if curVal t = v then 1 else 0) := by
        simp only [List.map_append, List.count_append, List.map_cons, List.map_nil, Cell.val, List.count_cons,
          List.count_nil]
        by_cases hv : curVal t = v <;> simp [hv]
      simp only [cellsCount, todoSum, setBlock] at hc ht' ⊢
      simp only [e3] at hc
      omega
    | claimFull blk r pc' hp hw hpc' =>
      have hlt := hT.claim_lt blk r hp
      obtain ⟨b, hb⟩ : ∃ b, s.blocks[blk]? = some b := ⟨s.blocks[blk], List.getElem?_eq_getElem hlt⟩
      rw [getBlock_eq hb]
      have hc := cellsCount_set v s blk b { b with write := b.write + 1 } hb
      have ht' := hts { t with pc := pc' } hg
      have h1 : ∀ b i, t.pc ≠ .pPublish b i := by simp [hp]
      have h2 : ∀ b i, pc' ≠ .pPublish b i := by rcases hpc' with rfl | rfl <;> simp
      rw [todo_nonpub v t pc' h1 h2] at ht'
      simp only [cellsCount, todoSum, setBlock] at hc ht' ⊢
      omega
    | publish blk idx hp =>
      obtain ⟨b, hb, hcell⟩ := hT.pub_cell blk idx hp
      rw [getBlock_eq hb]
      have hc := cellsCount_set v s blk b { b with cells := publishCell b.cells idx } hb
      have ht' := hts (t.advance .pushed) hg
      have e1 : todo v t = t.calls.tail.count (.push v) := by simp [todo, hp]
      have e2 : todo v (t.advance .pushed) = t.calls.tail.count (.push v) := by
        have htail : ∀ c ∈ t.calls.tail, isPushCall c = true := fun c hc => hT.calls_push c (List.mem_of_mem_tail hc)
        rcases startPC_push t.calls.tail htail with ⟨_, e⟩ | ⟨_, e⟩ <;> simp [todo, Thread.advance, e]
      simp only [cellsCount, todoSum, setBlock, publishCell_vals] at hc ht' ⊢
      omega

theorem prun_vals (v : Nat) (sched : List Nat) : ∀ s, PInv s →
    cellsCount v (run s sched) + todoSum v (run s sched) = cellsCount v s + todoSum v s := by
  induction sched with
  | nil => intro s _; rfl
  | cons t ts ih =>
    intro s h
    simp only [run, List.foldl_cons] at ih ⊢
    rw [ih _ (pstep_inv s t h), pstep_vals v s t h]

end MetricsVerif.Bucket

namespace MetricsVerif.Bucket

/-! ### what a snapshot sees at quiescence -/

theorem sum_zero_all {α : Type} (f : α → Nat) (l : List α) (h : (l.map f).sum = 0) : ∀ x ∈ l, f x = 0 := by
  induction l with
  | nil => intro x hx; cases hx
  | cons y ys ih =>
    simp only [List.map_cons, List.sum_cons] at h
    intro x hx
    simp only [List.mem_cons] at hx
    rcases hx with rfl | hx
    · omega
    · exact ih (by omega) x hx

theorem pSum_zero_of_quiescent (s : Sys) (hq : quiescent s = true) : pSum s = 0 := by
  simp only [quiescent, List.all_eq_true, beq_iff_eq] at hq
  have : ∀ l : List Thread, (∀ t ∈ l, t.pc = .done) → (l.map pubN).sum = 0 := by
    intro l; induction l with
    | nil => intro _; rfl
    | cons x xs ih =>
      intro hl
      simp only [List.map_cons, List.sum_cons, ih (fun t ht => hl t (by simp [ht]))]
      simp [pubN, hl x (by simp)]
  exact this _ hq

/-- walking the chain from block `k` (given the links of the push fragment and no unpublished cell) visits the
    blocks `k, k-1, …, 0` and hands out all their cells -/
theorem chain_count (s : Sys) (v : Nat)
    (links : ∀ (i : Nat) (b : Block), s.blocks[i]? = some b → b.next = (if i = 0 then none else some (i - 1)))
    (nowr : ∀ b ∈ s.blocks, wcount b.cells = 0) :
    ∀ k, k < s.blocks.length →
      (chainData s (k + 1) (some k)).count v
        = ((s.blocks.take (k + 1)).map (fun b => (b.cells.map Cell.val).count v)).sum := by
  intro k
  induction k with
  | zero =>
    intro hk
    obtain ⟨b, hb⟩ : ∃ b, s.blocks[0]? = some b := ⟨s.blocks[0], List.getElem?_eq_getElem hk⟩
    have hd := data_of_no_written b (nowr b (List.mem_of_getElem? hb))
    have hn := links 0 b hb
    simp only [if_true] at hn
    cases hbl : s.blocks with
    | nil => rw [hbl] at hk; simp at hk
    | cons x xs =>
      rw [hbl] at hb; simp at hb; subst hb
      simp [chainData, getBlock, hbl, hd, hn]
  | succ k ih =>
    intro hk
    obtain ⟨b, hb⟩ : ∃ b, s.blocks[k + 1]? = some b := ⟨s.blocks[k + 1], List.getElem?_eq_getElem hk⟩
    have hd := data_of_no_written b (nowr b (List.mem_of_getElem? hb))
    have hn := links (k + 1) b hb
    simp only [Nat.add_one_ne_zero, if_false, Nat.add_sub_cancel] at hn
    have ih' := ih (by omega)
    have htake : s.blocks.take (k + 1 + 1) = s.blocks.take (k + 1) ++ [b] := by
      rw [List.take_succ, hb]; rfl
    rw [htake]
    simp only [List.map_append, List.sum_append, List.map_cons, List.map_nil, List.sum_cons, List.sum_nil]
    show (List.count v (chainData s (k + 1 + 1) (some (k + 1)))) = _
    rw [show chainData s (k + 1 + 1) (some (k + 1)) = (getBlock s (k + 1)).data ++ chainData s (k + 1) (getBlock s (k + 1)).next from rfl]
    rw [getBlock_eq hb, hn, List.count_append, ih', hd]
    omega

/-- at quiescence of the push fragment a snapshot hands out every claimed cell exactly once -/
theorem visible_count_of_quiescent (s : Sys) (h : PInv s) (hq : quiescent s = true) (v : Nat) :
    (visible s).count v = cellsCount v s := by
  have hp0 := pSum_zero_of_quiescent s hq
  have hw0 : wSum s = 0 := by rw [h.wp, hp0]
  have nowr : ∀ b ∈ s.blocks, wcount b.cells = 0 := sum_zero_all (fun (b : Block) => wcount b.cells) s.blocks hw0
  unfold visible
  cases hb : s.blocks.length with
  | zero =>
    have hnil : s.blocks = [] := List.length_eq_zero_iff.mp hb
    simp [chainData, cellsCount, hnil]
  | succ n =>
    rw [h.tail_last n hb]
    have := chain_count s v h.links nowr n (by omega)
    rw [this, ← hb, List.take_length]
    rfl

theorem todoSum_zero_of_quiescent (s : Sys) (h : PInv s) (hq : quiescent s = true) (v : Nat) : todoSum v s = 0 := by
  simp only [quiescent, List.all_eq_true, beq_iff_eq] at hq
  have : ∀ (l : List Thread), (∀ t ∈ l, t.pc = .done ∧ t.calls = []) → (l.map (todo v)).sum = 0 := by
    intro l; induction l with
    | nil => intro _; rfl
    | cons x xs ih =>
      intro hl
      simp only [List.map_cons, List.sum_cons, ih (fun t ht => hl t (by simp [ht]))]
      have := hl x (by simp)
      simp [todo, this.1, this.2]
  apply this
  intro t ht
  obtain ⟨i, hi⟩ := List.getElem?_of_mem ht
  exact ⟨hq t ht, (h.thr i t hi).done_empty (hq t ht)⟩

theorem todoSum_init (B : Nat) (progs : List (List Call)) (v : Nat) :
    todoSum v (init B progs) = progs.flatten.count (.push v) := by
  simp only [todoSum, init]
  induction progs with
  | nil => rfl
  | cons p ps ih =>
    simp only [List.map_cons, List.sum_cons, List.flatten_cons, List.count_append, ih]
    simp [todo, mkThread]

end MetricsVerif.Bucket
