/-
Helper lemmas for C10: invariant of the counter-aggregation step machine for increment-only programs with a
single flusher thread.
-/
import MetricsVerif.Model.StatsdAgg
import MetricsVerif.Proofs.ListAt

namespace MetricsVerif.StatsdAgg

/-- deltas between consecutive marks (newest first), as the flusher computes them; the mark before the first
    flush is 0 -/
def deltasOf : List Nat → List Nat
  | [] => []
  | m :: r => ((m - r.head?.getD 0) % M) :: deltasOf r

/-- marks are non-increasing towards the past -/
def Desc : List Nat → Prop
  | [] => True
  | m :: r => (r.head?.getD 0) ≤ m ∧ Desc r

/-- telescoping: the deltas add up to the newest mark (mod 2^64) -/
theorem deltasOf_sum (l : List Nat) (h : Desc l) : (deltasOf l).sum % M = (l.head?.getD 0) % M := by
  induction l with
  | nil => rfl
  | cons m r ih =>
    have ih' := ih h.2
    have hle := h.1
    simp only [deltasOf, List.sum_cons, List.head?_cons, Option.getD_some]
    calc ((m - r.head?.getD 0) % M + (deltasOf r).sum) % M
        = ((m - r.head?.getD 0) % M + (deltasOf r).sum % M) % M := by rw [Nat.add_mod, Nat.mod_mod]
      _ = ((m - r.head?.getD 0) % M + (r.head?.getD 0) % M) % M := by rw [ih']
      _ = ((m - r.head?.getD 0) + r.head?.getD 0) % M := by rw [← Nat.add_mod]
      _ = m % M := by rw [Nat.sub_add_cancel hle]

/-- what the flusher computes from the two loaded words is the number of increments between the two loads -/
theorem delta_arith (m m' : Nat) (h : m' ≤ m) : (m % M + M - m' % M) % M = (m - m') % M := by
  have h1 : m' % M < M := Nat.mod_lt _ (by decide)
  have h2 : m % M + M - m' % M = m % M + (M - m' % M) := by omega
  rw [h2]
  have h3 : (m - m') % M = (m % M + (M - m' % M)) % M := by
    have : m = (m - m') + m' := by omega
    -- (m - m') ≡ m + (M - m' % M) (mod M) since m' ≡ m' % M
    have e1 : (m % M + (M - m' % M)) % M = ((m - m') % M + m' % M + (M - m' % M)) % M := by
      conv => lhs; rw [this, Nat.add_mod]
      rw [Nat.add_mod ((m - m') % M + m' % M), Nat.add_mod ((m - m') % M) (m' % M)]
      simp [Nat.mod_mod, Nat.add_mod]
    rw [e1]
    have e2 : (m - m') % M + m' % M + (M - m' % M) = (m - m') % M + M := by omega
    rw [e2, Nat.add_mod_right, Nat.mod_mod]
  exact h3.symm

def isFlushPC : PC → Bool
  | .fLoadCurrent | .fSwapLast | .fSwapUpdates => true
  | _ => false

def isAbsPC : PC → Bool
  | .aSwapAbs | .aStoreLast | .aStoreCurrent | .aAddUpdates => true
  | _ => false

def isIncFlushCall : Call → Bool
  | .abs _ => false
  | _ => true

def noFlush : Call → Bool
  | .flush => false
  | _ => true

theorem startPC_incflush (calls : List Call) (h : ∀ c ∈ calls, isIncFlushCall c = true) :
    isAbsPC (startPC calls) = false := by
  cases calls with
  | nil => rfl
  | cons c r => have := h c (by simp); cases c <;> simp_all [startPC, pcOfCall, isAbsPC, isIncFlushCall]

theorem startPC_noflush (calls : List Call) (h : ∀ c ∈ calls, noFlush c = true) :
    isFlushPC (startPC calls) = false := by
  cases calls with
  | nil => rfl
  | cons c r => have := h c (by simp); cases c <;> simp_all [startPC, pcOfCall, isFlushPC, noFlush]

end MetricsVerif.StatsdAgg

namespace MetricsVerif.StatsdAgg

/-- the send rule of the (fixed) idle logic over the sequence of flush outcomes, newest first -/
def Rule : List (Nat × Bool) → Prop
  | [] => True
  | (d2, b2) :: r => (b2 = !(d2 == 0 && (match r with | [] => false | (d1, _) :: _ => d1 == 0))) ∧ Rule r

def idleOf : List (Nat × Bool) → Bool
  | [] => false
  | (d, _) :: _ => d == 0

/-- how the flusher's registers relate to the marks, depending on where it is -/
def AlignT (s : Sys) (t : Thread) : Prop :=
  match t.pc with
  | .fSwapLast => ∃ m rest, s.marks = m :: rest ∧ t.tmpC = m % M ∧ s.last = (rest.head?.getD 0) % M
      ∧ s.outcomes.map (·.1) = deltasOf rest
  | .fSwapUpdates => ∃ m rest, s.marks = m :: rest ∧ s.last = m % M ∧ t.tmpDelta = (m - rest.head?.getD 0) % M
      ∧ s.outcomes.map (·.1) = deltasOf rest
  | _ => s.last = (s.marks.head?.getD 0) % M ∧ s.outcomes.map (·.1) = deltasOf s.marks

structure Inv (f : Nat) (s : Sys) : Prop where
  legacy_off : s.legacy = false
  cur : s.current = s.applied % M
  desc : Desc s.marks
  marks_le : (s.marks.head?.getD 0) ≤ s.applied
  others : ∀ (i : Nat) (t : Thread), i ≠ f → s.threads[i]? = some t →
      isFlushPC t.pc = false ∧ (∀ c ∈ t.calls, noFlush c = true)
  thr : ∀ (i : Nat) (t : Thread), s.threads[i]? = some t →
      isAbsPC t.pc = false ∧ (∀ c ∈ t.calls, isIncFlushCall c = true)
  align : ∀ t, s.threads[f]? = some t → AlignT s t
  align_none : s.threads[f]? = none → s.last = (s.marks.head?.getD 0) % M ∧ s.outcomes.map (·.1) = deltasOf s.marks
  idle_eq : s.idle = idleOf s.outcomes
  rule : Rule s.outcomes

theorem lt_of_getElem?_some' {α : Type} {l : List α} {i : Nat} {x : α} (h : l[i]? = some x) : i < l.length := by
  rcases Nat.lt_or_ge i l.length with h' | h'
  · exact h'
  · rw [List.getElem?_eq_none h'] at h; cases h

theorem get_setAt_ne {l : List Thread} {tid i : Nat} {t' : Thread} (h : i ≠ tid) :
    (setAt l tid t')[i]? = l[i]? := by
  rw [getElem?_setAt]
  have : ¬ (tid = i ∧ i < l.length) := fun x => h x.1.symm
  simp [this]

theorem get_setAt_eq {l : List Thread} {tid : Nat} {t t' : Thread} (hg : l[tid]? = some t) :
    (setAt l tid t')[tid]? = some t' := by
  rw [getElem?_setAt]; simp [lt_of_getElem?_some' hg]

/-- AlignT only looks at `marks`, `last`, `outcomes` of the state -/
theorem AlignT.congr {s s' : Sys} {t : Thread} (h : AlignT s t) (h1 : s'.marks = s.marks) (h2 : s'.last = s.last)
    (h3 : s'.outcomes = s.outcomes) : AlignT s' t := by
  unfold AlignT at h ⊢
  rw [h1, h2, h3]; exact h

/-- a thread whose pc is not one of the two "middle of flush" pcs is aligned in the plain way -/
theorem AlignT.plain {s : Sys} {t : Thread} (h1 : t.pc ≠ .fSwapLast) (h2 : t.pc ≠ .fSwapUpdates) :
    AlignT s t ↔ (s.last = (s.marks.head?.getD 0) % M ∧ s.outcomes.map (·.1) = deltasOf s.marks) := by
  unfold AlignT
  cases hp : t.pc <;> simp_all

theorem advance_pc (t : Thread) : t.advance.pc = startPC t.calls.tail := rfl
theorem advance_calls (t : Thread) : t.advance.calls = t.calls.tail := rfl

theorem startPC_not_mid (calls : List Call) : startPC calls ≠ .fSwapLast ∧ startPC calls ≠ .fSwapUpdates := by
  cases calls with
  | nil => simp [startPC]
  | cons c r => cases c <;> simp [startPC, pcOfCall]

end MetricsVerif.StatsdAgg

namespace MetricsVerif.StatsdAgg

/-- packaging: rebuild the invariant after thread `tid` stepped to `t'`, given the new shared state keeps or
    re-establishes each clause -/
theorem inv_after {f tid : Nat} {s s' : Sys} {t t' : Thread} (h : Inv f s) (hg : s.threads[tid]? = some t)
    (hth : s'.threads = s.threads) (hleg : s'.legacy = false)
    (hcur : s'.current = s'.applied % M) (hdesc : Desc s'.marks) (hml : (s'.marks.head?.getD 0) ≤ s'.applied)
    (hother : tid ≠ f → isFlushPC t'.pc = false ∧ (∀ c ∈ t'.calls, noFlush c = true))
    (hthr : isAbsPC t'.pc = false ∧ (∀ c ∈ t'.calls, isIncFlushCall c = true))
    (halign_self : tid = f → AlignT s' t')
    (halign_other : tid ≠ f → (s'.marks = s.marks ∧ s'.last = s.last ∧ s'.outcomes = s.outcomes))
    (hidle : s'.idle = idleOf s'.outcomes) (hrule : Rule s'.outcomes) :
    Inv f { s' with threads := setAt s'.threads tid t' } := by
  refine { legacy_off := hleg, cur := hcur, desc := hdesc, marks_le := hml, others := ?_, thr := ?_,
           align := ?_, align_none := ?_, idle_eq := hidle, rule := hrule }
  · intro i u hi hu
    simp only [hth] at hu
    by_cases e : i = tid
    · subst e; rw [get_setAt_eq hg] at hu; injection hu with hu; subst hu; exact hother hi
    · rw [get_setAt_ne e] at hu; exact h.others i u hi hu
  · intro i u hu
    simp only [hth] at hu
    by_cases e : i = tid
    · subst e; rw [get_setAt_eq hg] at hu; injection hu with hu; subst hu; exact hthr
    · rw [get_setAt_ne e] at hu; exact h.thr i u hu
  · intro u hu
    simp only [hth] at hu
    by_cases e : f = tid
    · subst e; rw [get_setAt_eq hg] at hu; injection hu with hu; subst hu
      exact (halign_self rfl).congr rfl rfl rfl
    · rw [get_setAt_ne e] at hu
      obtain ⟨a, b, c⟩ := halign_other (fun x => e x.symm)
      exact (h.align u hu).congr a b c
  · intro hn
    simp only [hth] at hn
    by_cases e : f = tid
    · subst e; rw [get_setAt_eq hg] at hn; cases hn
    · rw [get_setAt_ne e] at hn
      obtain ⟨a, b, c⟩ := halign_other (fun x => e x.symm)
      have := h.align_none hn
      simp only [a, b, c]; exact this

theorem setAt_same' {α : Type} (l : List α) (i : Nat) (x : α) (h : l[i]? = some x) : setAt l i x = l := by
  induction l generalizing i with
  | nil => rfl
  | cons y ys ih =>
    cases i with
    | zero => simp at h; subst h; rfl
    | succ n => simp at h; simp [setAt, ih n h]

/-- one step of any thread preserves the invariant -/
theorem step_inv (f : Nat) (s : Sys) (tid : Nat) (h : Inv f s) : Inv f (step s tid) := by
  unfold step
  cases hg : s.threads[tid]? with
  | none => exact h
  | some t =>
    simp only
    obtain ⟨hnabs, hcalls⟩ := h.thr tid t hg
    have htail : ∀ c ∈ t.calls.tail, isIncFlushCall c = true := fun c hc => hcalls c (List.mem_of_mem_tail hc)
    have hoth_tail : tid ≠ f → ∀ c ∈ t.calls.tail, noFlush c = true :=
      fun hne c hc => (h.others tid t hne hg).2 c (List.mem_of_mem_tail hc)
    -- facts about the thread after `advance`
    have adv_thr : isAbsPC t.advance.pc = false ∧ (∀ c ∈ t.advance.calls, isIncFlushCall c = true) :=
      ⟨by rw [advance_pc]; exact startPC_incflush _ htail, htail⟩
    have adv_other : tid ≠ f → isFlushPC t.advance.pc = false ∧ (∀ c ∈ t.advance.calls, noFlush c = true) :=
      fun hne => ⟨by rw [advance_pc]; exact startPC_noflush _ (hoth_tail hne), hoth_tail hne⟩
    -- alignment of the stepping thread when it is the flusher and only its pc changes to a plain pc
    have self_plain : ∀ (t'' : Thread), tid = f → t''.pc ≠ .fSwapLast → t''.pc ≠ .fSwapUpdates →
        t.pc ≠ .fSwapLast → t.pc ≠ .fSwapUpdates → AlignT s t'' := by
      intro t'' e h1 h2 h3 h4
      subst e
      exact (AlignT.plain h1 h2).mpr ((AlignT.plain h3 h4).mp (h.align t hg))
    unfold stepThread
    cases hp : t.pc with
    | start =>
      simp only
      have hnm := startPC_not_mid t.calls
      refine inv_after h hg rfl h.legacy_off h.cur h.desc h.marks_le ?_ ?_ ?_ (fun _ => ⟨rfl, rfl, rfl⟩) h.idle_eq h.rule
      · intro hne
        exact ⟨startPC_noflush _ (h.others tid t hne hg).2, (h.others tid t hne hg).2⟩
      · exact ⟨startPC_incflush _ hcalls, hcalls⟩
      · intro e; exact self_plain _ e hnm.1 hnm.2 (by simp [hp]) (by simp [hp])
    | done => simp only; rw [setAt_same' _ _ _ hg]; exact h
    | iStoreAbs =>
      simp only
      refine inv_after (s' := { s with isAbs := false }) h hg rfl h.legacy_off h.cur h.desc h.marks_le ?_ ?_ ?_
        (fun _ => ⟨rfl, rfl, rfl⟩) h.idle_eq h.rule
      · intro hne; exact ⟨rfl, (h.others tid t hne hg).2⟩
      · exact ⟨rfl, hcalls⟩
      · intro e; exact (self_plain _ e (by simp) (by simp) (by simp [hp]) (by simp [hp])).congr rfl rfl rfl
    | iAddCurrent =>
      simp only
      refine inv_after (s' := { s with current := (s.current + curArg t) % M, applied := s.applied + curArg t })
        h hg rfl h.legacy_off ?_ h.desc ?_ ?_ ?_ ?_ (fun _ => ⟨rfl, rfl, rfl⟩) h.idle_eq h.rule
      · show (s.current + curArg t) % M = (s.applied + curArg t) % M
        rw [h.cur, Nat.mod_add_mod]
      · show s.marks.head?.getD 0 ≤ s.applied + curArg t
        have := h.marks_le; omega
      · intro hne; exact ⟨rfl, (h.others tid t hne hg).2⟩
      · exact ⟨rfl, hcalls⟩
      · intro e; exact (self_plain _ e (by simp) (by simp) (by simp [hp]) (by simp [hp])).congr rfl rfl rfl
    | iAddUpdates =>
      simp only
      have hnm := startPC_not_mid t.calls.tail
      refine inv_after (s' := { s with updates := (s.updates + 1) % M }) h hg rfl h.legacy_off h.cur h.desc h.marks_le
        adv_other adv_thr ?_ (fun _ => ⟨rfl, rfl, rfl⟩) h.idle_eq h.rule
      intro e
      exact (self_plain _ e (by rw [advance_pc]; exact hnm.1) (by rw [advance_pc]; exact hnm.2) (by simp [hp]) (by simp [hp])).congr rfl rfl rfl
    | aSwapAbs => simp [hp, isAbsPC] at hnabs
    | aStoreLast => simp [hp, isAbsPC] at hnabs
    | aStoreCurrent => simp [hp, isAbsPC] at hnabs
    | aAddUpdates => simp [hp, isAbsPC] at hnabs
    | fLoadCurrent =>
      simp only
      have hf : tid = f := by
        by_cases e : tid = f
        · exact e
        · have := (h.others tid t e hg).1; simp [hp, isFlushPC] at this
      have hal := (AlignT.plain (by simp [hp]) (by simp [hp])).mp (h.align t (hf ▸ hg))
      refine inv_after (s' := { s with marks := s.applied :: s.marks }) h hg rfl h.legacy_off h.cur ?_ ?_ ?_ ?_ ?_
        (fun hne => absurd hf hne) h.idle_eq h.rule
      · exact ⟨h.marks_le, h.desc⟩
      · show (s.applied :: s.marks).head?.getD 0 ≤ s.applied
        simp
      · intro hne; exact absurd hf hne
      · exact ⟨rfl, hcalls⟩
      · intro _
        show AlignT _ { t with tmpC := s.current, pc := PC.fSwapLast }
        unfold AlignT
        exact ⟨s.applied, s.marks, rfl, h.cur, hal.1, hal.2⟩
    | fSwapLast =>
      simp only
      have hf : tid = f := by
        by_cases e : tid = f
        · exact e
        · have := (h.others tid t e hg).1; simp [hp, isFlushPC] at this
      have hal := h.align t (hf ▸ hg)
      unfold AlignT at hal
      rw [hp] at hal
      obtain ⟨m, rest, hm, hc, hl, ho⟩ := hal
      have hd := h.desc
      rw [hm] at hd
      refine inv_after (s' := { s with last := t.tmpC }) h hg rfl h.legacy_off h.cur h.desc h.marks_le ?_ ?_ ?_
        (fun hne => absurd hf hne) h.idle_eq h.rule
      · intro hne; exact absurd hf hne
      · exact ⟨rfl, hcalls⟩
      · intro _
        show AlignT _ { t with tmpDelta := (t.tmpC + M - s.last) % M, pc := PC.fSwapUpdates }
        unfold AlignT
        refine ⟨m, rest, hm, hc, ?_, ho⟩
        show (t.tmpC + M - s.last) % M = (m - rest.head?.getD 0) % M
        rw [hc, hl]; exact delta_arith m _ hd.1
    | fSwapUpdates =>
      simp only
      have hf : tid = f := by
        by_cases e : tid = f
        · exact e
        · have := (h.others tid t e hg).1; simp [hp, isFlushPC] at this
      have hal := h.align t (hf ▸ hg)
      unfold AlignT at hal
      rw [hp] at hal
      obtain ⟨m, rest, hm, hl, hdl, ho⟩ := hal
      have hnm := startPC_not_mid t.calls.tail
      have hleg := h.legacy_off
      have hdec : decide s.legacy s.idle t.tmpDelta s.updates
          = (!(t.tmpDelta == 0 && s.idle), t.tmpDelta == 0) := by
        unfold StatsdAgg.decide
        rw [hleg]
        cases hz : (t.tmpDelta == 0) <;> cases hi : s.idle <;> simp [hz]
      rw [hdec]
      simp only
      refine inv_after (s' := Sys.mk s.legacy s.isAbs s.last s.current 0 (t.tmpDelta == 0) s.applied s.marks
          ((t.tmpDelta, !(t.tmpDelta == 0 && s.idle)) :: s.outcomes) s.threads) h hg rfl h.legacy_off h.cur h.desc h.marks_le
        adv_other adv_thr ?_ (fun hne => absurd hf hne) rfl ?_
      · intro _
        refine (AlignT.plain (by rw [advance_pc]; exact hnm.1) (by rw [advance_pc]; exact hnm.2)).mpr ?_
        refine ⟨by show s.last = (s.marks.head?.getD 0) % M; rw [hm, hl]; rfl, ?_⟩
        show t.tmpDelta :: s.outcomes.map (·.1) = deltasOf s.marks
        rw [hm, ho, hdl]; rfl
      · show Rule ((t.tmpDelta, !(t.tmpDelta == 0 && s.idle)) :: s.outcomes)
        refine ⟨?_, h.rule⟩
        rw [h.idle_eq]
        cases s.outcomes with
        | nil => rfl
        | cons o r => obtain ⟨d1, b1⟩ := o; rfl

theorem run_inv (f : Nat) (sched : List Nat) : ∀ s, Inv f s → Inv f (run s sched) := by
  induction sched with
  | nil => intro s h; exact h
  | cons t ts ih => intro s h; exact ih _ (step_inv f s t h)

end MetricsVerif.StatsdAgg
