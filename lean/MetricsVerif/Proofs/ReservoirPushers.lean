/-
Helper lemmas for epochs of concurrent pushers on the reservoir machine (`Model/ReservoirConc.lean`): any number of
threads pushing, no `consume` step granted.  Part A: exact counts and "only pushed values, each at most once" under
EVERY schedule.  Part B: when the slot stores land in claim order, the side is the sequential Algorithm-R state of the
claim order.  Property statements live in `Props/C16.lean`.
-/
import MetricsVerif.Proofs.ReservoirConc

namespace MetricsVerif.Reservoir

/-! ## lists -/

theorem sum_map_set {α} (f : α → Nat) : ∀ (l : List α) (i : Nat) (a b : α), l[i]? = some a →
    ((l.set i b).map f).sum + f a = (l.map f).sum + f b := by
  intro l
  induction l with
  | nil => intro i a b h; simp at h
  | cons x l ih =>
    intro i a b h
    cases i with
    | zero =>
      simp at h; subst h
      simp only [List.set_cons_zero, List.map_cons, List.sum_cons]; omega
    | succ i =>
      simp at h
      have := ih i a b h
      simp only [List.set_cons_succ, List.map_cons, List.sum_cons]; omega

theorem count_flatMap_set {α} (f : α → List Nat) (x : Nat) : ∀ (l : List α) (i : Nat) (a b : α), l[i]? = some a →
    ((l.set i b).flatMap f).count x + (f a).count x = (l.flatMap f).count x + (f b).count x := by
  intro l
  induction l with
  | nil => intro i a b h; simp at h
  | cons y l ih =>
    intro i a b h
    cases i with
    | zero =>
      simp at h; subst h
      simp only [List.set_cons_zero, List.flatMap_cons, List.count_append]; omega
    | succ i =>
      simp at h
      have := ih i a b h
      simp only [List.set_cons_succ, List.flatMap_cons, List.count_append]; omega

theorem count_set_le' (l : List (Option Nat)) (j : Nat) (v x : Option Nat) :
    (l.set j v).count x ≤ l.count x + (if v = x then 1 else 0) := by
  by_cases h : j < l.length
  · rw [List.count_set h]
    simp only [beq_iff_eq]
    omega
  · rw [List.set_eq_of_length_le (by omega)]
    omega

theorem lt_length_of_getElem? {α} {l : List α} {i : Nat} {a : α} (h : l[i]? = some a) : i < l.length := by
  rcases Nat.lt_or_ge i l.length with h1 | h1
  · exact h1
  · rw [List.getElem?_eq_none h1] at h; cases h

theorem getElem?_set_self_of {α} {l : List α} {i : Nat} {a : α} (b : α) (h : l[i]? = some a) :
    (l.set i b)[i]? = some b := by
  have := lt_length_of_getElem? h
  simp [this]

theorem getElem?_set_ne' {α} (l : List α) {i j : Nat} (b : α) (h : i ≠ j) : (l.set i b)[j]? = l[j]? := by
  simp [h]

/-! ## sides and the store step -/

@[simp] theorem side_setSide_self (a : ASR) (p : Bool) (r : Res) : (a.setSide p r).side p = r := by
  cases p <;> rfl

/-- the store step leaves the slots alone (only possible over capacity) or writes the value into one slot — the slot
    of the claimed index while the reservoir fills -/
theorem storeAt_slots_cases (r : Res) (idx v c : Nat) :
    ((r.storeAt idx v c).slots = r.slots ∧ ¬ idx < r.slots.length) ∨
    ∃ j, j < r.slots.length ∧ (r.storeAt idx v c).slots = r.slots.set j v ∧ (idx < r.slots.length → j = idx) := by
  simp only [Res.storeAt, fastrandArg]
  by_cases h1 : idx < r.slots.length
  · right; exact ⟨idx, h1, by simp [h1], fun _ => rfl⟩
  · by_cases h3 : c % (idx + 1) < r.slots.length
    · right; exact ⟨_, h3, by simp [h1, h3], fun h => absurd h h1⟩
    · left; exact ⟨by simp [h1, h3], h1⟩

/-! ## Part A: counts, and only pushed values, under every schedule of pushers -/

/-- values of the pushes the threads still have to complete before their next `consume` -/
def pendingOf (ths : List Thread) : List Nat := ths.flatMap (fun th => pushPrefix th.prog)

/-- pushes of the thread (before its next `consume`) that have not executed their `fetch_add` yet -/
def Thread.unclaimed (th : Thread) : Nat :=
  (pushPrefix th.prog).length - (match th.pc with | .claimed _ _ => 1 | _ => 0)

def unclaimedOf (ths : List Thread) : Nat := (ths.map Thread.unclaimed).sum

/-- a thread during an epoch of pushes on side `p` -/
def Thread.pushOk (p : Bool) (th : Thread) : Prop :=
  match th.pc with
  | .idle => True
  | .selected q => q = p ∧ pushPrefix th.prog ≠ []
  | .claimed q _ => q = p ∧ pushPrefix th.prog ≠ []
  | .reading _ _ _ _ => False

/-- Invariant of an epoch of pushers on side `p`.  `tot`: the values to be pushed in the epoch.  `shadow`: ghost copy of
    the slots, `some v` where a push of this epoch has stored, `none` where the slot still has its old content. -/
structure PInv (p : Bool) (cap : Nat) (tot : List Nat) (a : ASR) (ths : List Thread)
    (shadow : List (Option Nat)) : Prop where
  up : a.usePrimary = p
  len : (a.side p).slots.length = cap
  shlen : shadow.length = cap
  agree : ∀ (j v : Nat), shadow[j]? = some (some v) → (a.side p).slots[j]? = some v
  sub : ∀ x, shadow.count (some x) + (pendingOf ths).count x ≤ tot.count x
  cnt : (a.side p).count + unclaimedOf ths = tot.length
  written : ∀ j, j < cap → j < (a.side p).count →
    (∃ v, shadow[j]? = some (some v)) ∨ ∃ (i : Nat) (th : Thread), ths[i]? = some th ∧ th.pc = .claimed p j
  pcs : ∀ th ∈ ths, th.pushOk p

theorem witness_keep {ths : List Thread} {i : Nat} {th : Thread} (th' : Thread) {pc : PC}
    (hget : ths[i]? = some th) (hne : th.pc ≠ pc) :
    (∃ (i' : Nat) (t' : Thread), ths[i']? = some t' ∧ t'.pc = pc) →
      ∃ (i' : Nat) (t' : Thread), (ths.set i th')[i']? = some t' ∧ t'.pc = pc := by
  rintro ⟨i', t', h1, h2⟩
  have hii : i ≠ i' := by
    rintro rfl
    rw [hget] at h1; cases h1; exact hne h2
  exact ⟨i', t', by rw [getElem?_set_ne' _ _ hii]; exact h1, h2⟩

theorem pcs_set {p : Bool} {ths : List Thread} (h : ∀ th ∈ ths, th.pushOk p) (i : Nat) (th' : Thread)
    (hth' : th'.pushOk p) : ∀ th ∈ ths.set i th', th.pushOk p := by
  intro th hm
  rcases mem_set_cases hm with h1 | rfl
  · exact h th h1
  · exact hth'

theorem pending_set {ths : List Thread} {i : Nat} {th : Thread} (th' : Thread) (x : Nat) (hget : ths[i]? = some th) :
    (pendingOf (ths.set i th')).count x + (pushPrefix th.prog).count x
      = (pendingOf ths).count x + (pushPrefix th'.prog).count x :=
  count_flatMap_set (fun th : Thread => pushPrefix th.prog) x ths i th th' hget

theorem unclaimed_set {ths : List Thread} {i : Nat} {th : Thread} (th' : Thread) (hget : ths[i]? = some th) :
    unclaimedOf (ths.set i th') + th.unclaimed = unclaimedOf ths + th'.unclaimed :=
  sum_map_set Thread.unclaimed ths i th th' hget

/-- step 1 of a push: `use_primary.load` -/
theorem PInv.select {p : Bool} {cap : Nat} {tot : List Nat} {a : ASR} {ths : List Thread} {sh : List (Option Nat)}
    (h : PInv p cap tot a ths sh) {i : Nat} {th : Thread} (hget : ths[i]? = some th) (hpc : th.pc = .idle)
    {v c : Nat} {rest : List COp} (hprog : th.prog = .push v c :: rest) :
    PInv p cap tot a (ths.set i { th with pc := .selected a.usePrimary }) sh := by
  refine ⟨h.up, h.len, h.shlen, h.agree, ?_, ?_, ?_, ?_⟩
  · intro x
    have := pending_set { th with pc := .selected a.usePrimary } x hget
    have := h.sub x
    simp only at *
    omega
  · have := unclaimed_set { th with pc := .selected a.usePrimary } hget
    have := h.cnt
    simp only [Thread.unclaimed, hpc] at *
    omega
  · intro j hj hjc
    rcases h.written j hj hjc with h1 | h1
    · exact Or.inl h1
    · exact Or.inr (witness_keep _ hget (by rw [hpc]; simp) h1)
  · exact pcs_set h.pcs i _ (by simp [Thread.pushOk, h.up, hprog, pushPrefix])

/-- step 2 of a push: `count.fetch_add` -/
theorem PInv.claim {p : Bool} {cap : Nat} {tot : List Nat} {a : ASR} {ths : List Thread} {sh : List (Option Nat)}
    (h : PInv p cap tot a ths sh) {i : Nat} {th : Thread} (hget : ths[i]? = some th) {q : Bool}
    (hpc : th.pc = .selected q) {v c : Nat} {rest : List COp} (hprog : th.prog = .push v c :: rest) :
    PInv p cap tot (a.setSide q (a.side q).claim.1) (ths.set i { th with pc := .claimed q (a.side q).claim.2 }) sh := by
  have hq : q = p := by
    have := h.pcs th (List.mem_of_getElem? hget)
    simp only [Thread.pushOk, hpc] at this
    exact this.1
  subst hq
  refine ⟨by simpa using h.up, by simpa [Res.claim] using h.len, h.shlen, ?_, ?_, ?_, ?_, ?_⟩
  · simpa [Res.claim] using h.agree
  · intro x
    have := pending_set { th with pc := .claimed q (a.side q).claim.2 } x hget
    have := h.sub x
    simp only at *
    omega
  · have := unclaimed_set { th with pc := .claimed q (a.side q).claim.2 } hget
    have := h.cnt
    simp only [Thread.unclaimed, hpc, hprog, pushPrefix, List.length_cons, side_setSide_self, Res.claim] at *
    omega
  · intro j hj hjc
    simp only [side_setSide_self, Res.claim] at hjc ⊢
    by_cases hlt : j < (a.side q).count
    · rcases h.written j hj hlt with h1 | h1
      · exact Or.inl h1
      · exact Or.inr (witness_keep _ hget (by rw [hpc]; simp) h1)
    · have e : j = (a.side q).count := by omega
      subst e
      exact Or.inr ⟨i, _, getElem?_set_self_of _ hget, rfl⟩
  · exact pcs_set h.pcs i _ (by simp [Thread.pushOk, hprog, pushPrefix])

/-- step 3 of a push: the slot store (or the replacement draw and store) -/
theorem PInv.store {p : Bool} {cap : Nat} {tot : List Nat} {a : ASR} {ths : List Thread} {sh : List (Option Nat)}
    (h : PInv p cap tot a ths sh) {i : Nat} {th : Thread} (hget : ths[i]? = some th) {q : Bool} {idx : Nat}
    (hpc : th.pc = .claimed q idx) {v c : Nat} {rest : List COp} (hprog : th.prog = .push v c :: rest)
    (asked : List (Option Nat)) :
    ∃ sh', PInv p cap tot (a.setSide q ((a.side q).storeAt idx v c))
      (ths.set i { prog := rest, pc := .idle, asked := asked }) sh' := by
  have hq : q = p := by
    have := h.pcs th (List.mem_of_getElem? hget)
    simp only [Thread.pushOk, hpc] at this
    exact this.1
  subst hq
  have hpend : ∀ x, (pendingOf (ths.set i { prog := rest, pc := .idle, asked := asked })).count x
      + (if v = x then 1 else 0) = (pendingOf ths).count x := by
    intro x
    have := pending_set { prog := rest, pc := .idle, asked := asked } x hget
    simp only [hprog, pushPrefix, List.count_cons, beq_iff_eq] at this
    omega
  have hcnt : ((a.setSide q ((a.side q).storeAt idx v c)).side q).count
      + unclaimedOf (ths.set i { prog := rest, pc := .idle, asked := asked }) = tot.length := by
    have := unclaimed_set { prog := rest, pc := .idle, asked := asked } hget
    have := h.cnt
    simp only [Thread.unclaimed, hpc, hprog, pushPrefix, List.length_cons, side_setSide_self, storeAt_count] at *
    omega
  have hpcs : ∀ th ∈ ths.set i { prog := rest, pc := .idle, asked := asked }, th.pushOk q :=
    pcs_set h.pcs i _ (by simp [Thread.pushOk])
  have hne : ∀ j, j ≠ idx → th.pc ≠ .claimed q j := by
    intro j hj; rw [hpc]; simp; exact fun e => hj e.symm
  rcases storeAt_slots_cases (a.side q) idx v c with ⟨hs, hidx⟩ | ⟨j, hj, hs, hji⟩
  · refine ⟨sh, by simpa using h.up, by simpa using h.len, h.shlen, ?_, ?_, hcnt, ?_, hpcs⟩
    · simpa [hs] using h.agree
    · intro x
      have := hpend x
      have := h.sub x
      omega
    · intro j hj hjc
      simp only [side_setSide_self, storeAt_count] at hjc
      rcases h.written j hj hjc with h1 | h1
      · exact Or.inl h1
      · refine Or.inr (witness_keep _ hget (hne j ?_) h1)
        have := h.len
        omega
  · have hjs : j < sh.length := by rw [h.shlen, ← h.len]; exact hj
    refine ⟨sh.set j (some v), by simpa using h.up, by simpa using h.len, by simpa using h.shlen, ?_, ?_, hcnt, ?_, hpcs⟩
    · intro j' v' hsh
      simp only [side_setSide_self, hs]
      by_cases e : j = j'
      · subst e
        rw [List.getElem?_set_self hjs] at hsh
        rw [List.getElem?_set_self hj]
        simpa using hsh
      · rw [getElem?_set_ne' _ _ e] at hsh
        rw [getElem?_set_ne' _ _ e]
        exact h.agree j' v' hsh
    · intro x
      have h1 := count_set_le' sh j (some v) (some x)
      have h2 := hpend x
      have h3 := h.sub x
      simp only [Option.some.injEq] at h1
      omega
    · intro j' hj' hjc
      simp only [side_setSide_self, storeAt_count] at hjc
      by_cases e : j = j'
      · subst e
        exact Or.inl ⟨v, List.getElem?_set_self hjs⟩
      · rcases h.written j' hj' hjc with ⟨w, hw⟩ | h1
        · exact Or.inl ⟨w, by rw [getElem?_set_ne' _ _ e]; exact hw⟩
        · refine Or.inr (witness_keep _ hget (hne j' ?_) h1)
          intro e2
          subst e2
          have := h.len
          exact e (hji (by omega))

/-- one grant that is not a step of `consume` -/
theorem PInv.step {p : Bool} {cap : Nat} {tot : List Nat} {s : Sys} {sh : List (Option Nat)}
    (h : PInv p cap tot s.asr s.threads sh) (i : Nat) (hn : noConsumeStep s i = true) :
    (∃ sh', PInv p cap tot (cstep s i).asr (cstep s i).threads sh')
      ∧ (cstep s i).locked = s.locked ∧ (cstep s i).drains = s.drains := by
  unfold cstep
  cases hget : s.threads[i]? with
  | none => exact ⟨⟨sh, h⟩, rfl, rfl⟩
  | some th =>
    simp only
    unfold threadStep
    cases hprog : th.prog with
    | nil => exact ⟨⟨sh, h⟩, rfl, rfl⟩
    | cons op rest =>
      cases op with
      | consume => simp [noConsumeStep, hget, hprog, COp.isConsume] at hn
      | consumeForget => simp [noConsumeStep, hget, hprog, COp.isConsume] at hn
      | push v c =>
        simp only
        unfold pushStep
        cases hpc : th.pc with
        | idle => exact ⟨⟨sh, h.select hget hpc hprog⟩, rfl, rfl⟩
        | selected q => exact ⟨⟨sh, h.claim hget hpc hprog⟩, rfl, rfl⟩
        | claimed q idx => exact ⟨h.store hget hpc hprog _, rfl, rfl⟩
        | reading q u l vs =>
          have := h.pcs th (List.mem_of_getElem? hget)
          simp [Thread.pushOk, hpc] at this

theorem PInv.run {p : Bool} {cap : Nat} {tot : List Nat} (sched : List Nat) : ∀ {s : Sys} {sh : List (Option Nat)},
    PInv p cap tot s.asr s.threads sh → pushOnlySched s sched = true →
    (∃ sh', PInv p cap tot (crun s sched).asr (crun s sched).threads sh')
      ∧ (crun s sched).locked = s.locked ∧ (crun s sched).drains = s.drains := by
  induction sched with
  | nil => intro s sh h _; exact ⟨⟨sh, h⟩, rfl, rfl⟩
  | cons i sched ih =>
    intro s sh h hs
    simp only [pushOnlySched, Bool.and_eq_true] at hs
    obtain ⟨⟨sh1, h1⟩, hl1, hd1⟩ := h.step i hs.1
    obtain ⟨h2, hl2, hd2⟩ := ih h1 hs.2
    simp only [crun, List.foldl_cons] at *
    exact ⟨h2, by rw [hl2, hl1], by rw [hd2, hd1]⟩

theorem unclaimed_idle (ths : List Thread) (h : ∀ th ∈ ths, th.pc = .idle) :
    unclaimedOf ths = (pendingOf ths).length := by
  induction ths with
  | nil => rfl
  | cons th ths ih =>
    have h1 := h th (by simp)
    have := ih (fun t ht => h t (by simp [ht]))
    simp only [unclaimedOf, pendingOf, List.map_cons, List.sum_cons, List.flatMap_cons, List.length_append] at *
    rw [this]
    simp [Thread.unclaimed, h1]

/-- an epoch starts: every thread between operations, the active side reset -/
theorem PInv.start (a : ASR) (ths : List Thread) (cap : Nat) (hidle : ∀ th ∈ ths, th.pc = .idle)
    (hlen : a.active.slots.length = cap) (hcnt : a.active.count = 0) :
    PInv a.usePrimary cap (pendingOf ths) a ths (List.replicate cap none) := by
  rw [active_eq_side] at hlen hcnt
  refine ⟨rfl, hlen, by simp, ?_, ?_, ?_, ?_, ?_⟩
  · intro j v hj
    rw [List.getElem?_replicate] at hj
    split at hj <;> simp at hj
  · intro x
    have : (List.replicate cap (none : Option Nat)).count (some x) = 0 := by
      rw [List.count_eq_zero]; intro hm; simp at hm
    omega
  · rw [hcnt, unclaimed_idle ths hidle]; omega
  · intro j _ hj; omega
  · intro th hth; simp [Thread.pushOk, hidle th hth]

theorem pending_done (ths : List Thread) (h : ∀ th ∈ ths, pushPrefix th.prog = []) :
    pendingOf ths = [] ∧ unclaimedOf ths = 0 := by
  induction ths with
  | nil => exact ⟨rfl, rfl⟩
  | cons th ths ih =>
    have h1 := h th (by simp)
    have := ih (fun t ht => h t (by simp [ht]))
    simp only [unclaimedOf, pendingOf, List.map_cons, List.sum_cons, List.flatMap_cons] at *
    rw [this.1, this.2, h1]
    simp [Thread.unclaimed, h1]

/-- what the invariant says once every pusher has completed: the side counted every push, and the slots a drain
    yields hold pushed values, each push at most once -/
theorem PInv.done {p : Bool} {cap : Nat} {tot : List Nat} {a : ASR} {ths : List Thread} {sh : List (Option Nat)}
    (h : PInv p cap tot a ths sh) (hdone : ∀ th ∈ ths, pushPrefix th.prog = []) :
    (a.side p).count = tot.length
    ∧ (∀ x, ((a.side p).slots.take (min tot.length cap)).count x ≤ tot.count x)
    ∧ ∀ th ∈ ths, th.pc = .idle := by
  have hd := pending_done ths hdone
  have hc : (a.side p).count = tot.length := by have := h.cnt; rw [hd.2] at this; omega
  have hidle : ∀ th ∈ ths, th.pc = .idle := by
    intro th hth
    have h1 := h.pcs th hth
    have h2 := hdone th hth
    cases hpc : th.pc with
    | idle => rfl
    | selected q => simp [Thread.pushOk, hpc, h2] at h1
    | claimed q idx => simp [Thread.pushOk, hpc, h2] at h1
    | reading q u l vs => simp [Thread.pushOk, hpc] at h1
  refine ⟨hc, ?_, hidle⟩
  intro x
  have hm : min tot.length cap ≤ sh.length := by rw [h.shlen]; omega
  have hmap : ((a.side p).slots.take (min tot.length cap)).map some = sh.take (min tot.length cap) := by
    apply List.ext_getElem?
    intro j
    by_cases hj : j < min tot.length cap
    · have hw := h.written j (by omega) (by omega)
      rcases hw with ⟨v, hv⟩ | ⟨i, th, hi, hpc⟩
      · have := h.agree j v hv
        simp [hj, this, hv]
      · have := hidle th (List.mem_of_getElem? hi)
        rw [this] at hpc; cases hpc
    · have hl := h.len
      simp [List.getElem?_take, hj]
  have h1 := List.count_le_count_map (l := (a.side p).slots.take (min tot.length cap)) (f := some) (x := x)
  rw [hmap] at h1
  have h2 : (sh.take (min tot.length cap)).count (some x) ≤ sh.count (some x) :=
    (List.take_sublist _ _).count_le _
  have h3 := h.sub x
  omega

/-! ## Part B: slot stores in claim order ⇒ the side is the sequential Algorithm-R state of the claim order -/

theorem storeAt_with_count (r : Res) (n idx v c : Nat) :
    ({ r with count := n } : Res).storeAt idx v c = { r.storeAt idx v c with count := n } := by
  simp only [Res.storeAt, fastrandArg]
  by_cases h1 : idx < r.slots.length
  · simp [h1]
  · by_cases h3 : c % (idx + 1) < r.slots.length <;> simp [h1, h3]

theorem with_count_self (r : Res) (n : Nat) (h : r.count = n) : ({ r with count := n } : Res) = r := by
  cases r; simp_all

theorem seqRun_count (l : List (Nat × Nat)) : ∀ (r : Res), (seqRun r l).count = r.count + l.length := by
  induction l with
  | nil => intro r; rfl
  | cons vc l ih =>
    intro r
    have := ih (r.push vc.1 vc.2)
    simp only [seqRun, List.foldl_cons, List.length_cons] at *
    rw [this, push_count]; omega

theorem seqRun_snoc (r : Res) (l : List (Nat × Nat)) (vc : Nat × Nat) :
    seqRun r (l ++ [vc]) = (seqRun r l).push vc.1 vc.2 := by
  simp [seqRun, List.foldl_append]

theorem getElem?_set_cases {α} {l : List α} {i i' : Nat} {a t : α} (h : (l.set i a)[i']? = some t) :
    (i' = i ∧ t = a) ∨ (i' ≠ i ∧ l[i']? = some t) := by
  by_cases e : i = i'
  · subst e
    left
    have hl : i < l.length := by have := lt_length_of_getElem? h; simpa using this
    rw [List.getElem?_set_self hl] at h
    exact ⟨rfl, (Option.some.inj h).symm⟩
  · right
    rw [getElem?_set_ne' _ _ e] at h
    exact ⟨fun x => e x.symm, h⟩

/-- Invariant of an epoch of pushers on side `p` whose slot stores land in claim order.  `log`: the pushes in claim
    order; `k`: how many of them have stored (always the first `k`); `r0`: the side when the epoch began. -/
structure BInv (p : Bool) (r0 : Res) (a : ASR) (ths : List Thread) (log : List (Nat × Nat)) (k : Nat) : Prop where
  up : a.usePrimary = p
  r0cnt : r0.count = 0
  kle : k ≤ log.length
  side : a.side p = { seqRun r0 (log.take k) with count := log.length }
  pend : ∀ idx, k ≤ idx → idx < log.length →
    ∃ (i : Nat) (th : Thread), ths[i]? = some th ∧ th.pc = .claimed p idx
  claimed : ∀ (i : Nat) (th : Thread) (q : Bool) (idx : Nat), ths[i]? = some th → th.pc = .claimed q idx →
    q = p ∧ k ≤ idx ∧ idx < log.length
      ∧ ∃ rest, th.prog = .push (log.getD idx (0, 0)).1 (log.getD idx (0, 0)).2 :: rest
  uniq : ∀ (i1 i2 : Nat) (t1 t2 : Thread) (q1 q2 : Bool) (idx : Nat), ths[i1]? = some t1 → ths[i2]? = some t2 →
    t1.pc = .claimed q1 idx → t2.pc = .claimed q2 idx → i1 = i2
  selected : ∀ th ∈ ths, ∀ q, th.pc = .selected q → q = p
  noread : ∀ th ∈ ths, ∀ q u l vs, th.pc ≠ .reading q u l vs

theorem BInv.select {p : Bool} {r0 : Res} {a : ASR} {ths : List Thread} {log : List (Nat × Nat)} {k : Nat}
    (h : BInv p r0 a ths log k) {i : Nat} {th : Thread} (hget : ths[i]? = some th) (hpc : th.pc = .idle) :
    BInv p r0 a (ths.set i { th with pc := .selected a.usePrimary }) log k := by
  refine ⟨h.up, h.r0cnt, h.kle, h.side, ?_, ?_, ?_, ?_, ?_⟩
  · intro idx h1 h2
    exact witness_keep _ hget (by rw [hpc]; simp) (h.pend idx h1 h2)
  · intro i' t q idx hi hc
    rcases getElem?_set_cases hi with ⟨_, rfl⟩ | ⟨_, h0⟩
    · simp at hc
    · exact h.claimed i' t q idx h0 hc
  · intro i1 i2 t1 t2 q1 q2 idx h1 h2 c1 c2
    rcases getElem?_set_cases h1 with ⟨_, rfl⟩ | ⟨_, g1⟩
    · simp at c1
    · rcases getElem?_set_cases h2 with ⟨_, rfl⟩ | ⟨_, g2⟩
      · simp at c2
      · exact h.uniq i1 i2 t1 t2 q1 q2 idx g1 g2 c1 c2
  · intro t ht q hq
    rcases mem_set_cases ht with h1 | rfl
    · exact h.selected t h1 q hq
    · simp at hq; rw [← hq]; exact h.up
  · intro t ht
    rcases mem_set_cases ht with h1 | rfl
    · exact h.noread t h1
    · intro q u l vs e; simp at e

theorem BInv.claim {p : Bool} {r0 : Res} {a : ASR} {ths : List Thread} {log : List (Nat × Nat)} {k : Nat}
    (h : BInv p r0 a ths log k) {i : Nat} {th : Thread} (hget : ths[i]? = some th) {q : Bool}
    (hpc : th.pc = .selected q) {v c : Nat} {rest : List COp} (hprog : th.prog = .push v c :: rest) :
    BInv p r0 (a.setSide q (a.side q).claim.1) (ths.set i { th with pc := .claimed q (a.side q).claim.2 })
      (log ++ [(v, c)]) k := by
  have hq : q = p := h.selected th (List.mem_of_getElem? hget) q hpc
  subst hq
  have hc : (a.side q).claim.2 = log.length := by simp [Res.claim, h.side]
  rw [hc]
  refine ⟨by simpa using h.up, h.r0cnt, by simp; have := h.kle; omega, ?_, ?_, ?_, ?_, ?_, ?_⟩
  · rw [side_setSide_self, List.take_append_of_le_length h.kle, h.side]
    simp [Res.claim]
  · intro idx h1 h2
    by_cases hlt : idx < log.length
    · exact witness_keep _ hget (by rw [hpc]; simp) (h.pend idx h1 hlt)
    · have e : idx = log.length := by simp at h2; omega
      subst e
      exact ⟨i, _, getElem?_set_self_of _ hget, rfl⟩
  · intro i' t q' idx hi hcl
    rcases getElem?_set_cases hi with ⟨_, rfl⟩ | ⟨_, h0⟩
    · simp only [PC.claimed.injEq] at hcl
      obtain ⟨rfl, rfl⟩ := hcl
      refine ⟨rfl, h.kle, by simp, rest, ?_⟩
      simp [List.getD_eq_getElem?_getD, hprog]
    · obtain ⟨h1, h2, h3, r, h4⟩ := h.claimed i' t q' idx h0 hcl
      refine ⟨h1, h2, by simp; omega, r, ?_⟩
      rw [h4]
      simp [List.getD_eq_getElem?_getD, List.getElem?_append_left h3]
  · intro i1 i2 t1 t2 q1 q2 idx h1 h2 c1 c2
    rcases getElem?_set_cases h1 with ⟨e1, rfl⟩ | ⟨_, g1⟩
    · rcases getElem?_set_cases h2 with ⟨e2, rfl⟩ | ⟨_, g2⟩
      · rw [e1, e2]
      · simp only [PC.claimed.injEq] at c1
        have := (h.claimed i2 t2 q2 idx g2 c2).2.2.1
        omega
    · rcases getElem?_set_cases h2 with ⟨e2, rfl⟩ | ⟨_, g2⟩
      · simp only [PC.claimed.injEq] at c2
        have := (h.claimed i1 t1 q1 idx g1 c1).2.2.1
        omega
      · exact h.uniq i1 i2 t1 t2 q1 q2 idx g1 g2 c1 c2
  · intro t ht q' hq'
    rcases mem_set_cases ht with h1 | rfl
    · exact h.selected t h1 q' hq'
    · simp at hq'
  · intro t ht
    rcases mem_set_cases ht with h1 | rfl
    · exact h.noread t h1
    · intro q' u l vs e; simp at e

theorem BInv.store {p : Bool} {r0 : Res} {a : ASR} {ths : List Thread} {log : List (Nat × Nat)} {k : Nat}
    (h : BInv p r0 a ths log k) {i : Nat} {th : Thread} (hget : ths[i]? = some th) {q : Bool} {idx : Nat}
    (hpc : th.pc = .claimed q idx) {v c : Nat} {rest : List COp} (hprog : th.prog = .push v c :: rest)
    (asked : List (Option Nat))
    (hord : ∀ th' ∈ ths, ∀ q' idx', th'.pc = .claimed q' idx' → idx ≤ idx') :
    BInv p r0 (a.setSide q ((a.side q).storeAt idx v c)) (ths.set i { prog := rest, pc := .idle, asked := asked })
      log (k + 1) := by
  obtain ⟨hq, hk1, hk2, r, hr⟩ := h.claimed i th q idx hget hpc
  subst hq
  have hidx : idx = k := by
    rcases Nat.lt_or_ge k idx with hlt | hge
    · obtain ⟨i', t', hi', hp'⟩ := h.pend k (Nat.le_refl _) (by omega)
      have := hord t' (List.mem_of_getElem? hi') q k hp'
      omega
    · omega
  subst hidx
  rw [hprog] at hr
  simp only [List.cons.injEq, COp.push.injEq] at hr
  obtain ⟨⟨hv, hc⟩, _⟩ := hr
  refine ⟨by simpa using h.up, h.r0cnt, hk2, ?_, ?_, ?_, ?_, ?_, ?_⟩
  · have e : log.take (idx + 1) = log.take idx ++ [(v, c)] := by
      have hg : log.getD idx (0, 0) = log[idx] := by
        simp [List.getD_eq_getElem?_getD, List.getElem?_eq_getElem hk2]
      rw [List.take_add_one, List.getElem?_eq_getElem hk2, hv, hc, hg]
      rfl
    have hcount : (seqRun r0 (log.take idx)).count = idx := by
      rw [seqRun_count, h.r0cnt, List.length_take]; omega
    rw [side_setSide_self, h.side, storeAt_with_count, e, seqRun_snoc, push_eq_claim_store]
    simp only [Res.claim, hcount]
    simp [storeAt_with_count]
  · intro idx' h1 h2
    refine witness_keep _ hget ?_ (h.pend idx' (by omega) h2)
    rw [hpc]; simp; omega
  · intro i' t q' idx' hi hcl
    rcases getElem?_set_cases hi with ⟨_, rfl⟩ | ⟨hne, h0⟩
    · simp at hcl
    · obtain ⟨h1, h2, h3, h4⟩ := h.claimed i' t q' idx' h0 hcl
      refine ⟨h1, ?_, h3, h4⟩
      have := hord t (List.mem_of_getElem? h0) q' idx' hcl
      rcases Nat.lt_or_ge idx idx' with hlt | hge
      · omega
      · -- the same index claimed by two threads: impossible, the earlier claim would still be pending below
        exfalso
        have e : idx' = idx := by omega
        subst e
        exact hne (h.uniq i' i t th q' q idx' h0 hget hcl hpc)
  · intro i1 i2 t1 t2 q1 q2 idx' h1 h2 c1 c2
    rcases getElem?_set_cases h1 with ⟨_, rfl⟩ | ⟨_, g1⟩
    · simp at c1
    · rcases getElem?_set_cases h2 with ⟨_, rfl⟩ | ⟨_, g2⟩
      · simp at c2
      · exact h.uniq i1 i2 t1 t2 q1 q2 idx' g1 g2 c1 c2
  · intro t ht q' hq'
    rcases mem_set_cases ht with h1 | rfl
    · exact h.selected t h1 q' hq'
    · simp at hq'
  · intro t ht
    rcases mem_set_cases ht with h1 | rfl
    · exact h.noread t h1
    · intro q' u l vs e; simp at e

theorem storeInOrder_spec {s : Sys} {i : Nat} {th : Thread} {q : Bool} {idx : Nat} (hget : s.threads[i]? = some th)
    (hpc : th.pc = .claimed q idx) (h : storeInOrder s i = true) :
    ∀ th' ∈ s.threads, ∀ q' idx', th'.pc = .claimed q' idx' → idx ≤ idx' := by
  simp only [storeInOrder, hget, hpc, List.all_eq_true] at h
  intro th' hm q' idx' hp
  have := h th' hm
  rw [hp] at this
  simpa using this

theorem BInv.step {p : Bool} {r0 : Res} {s : Sys} {log : List (Nat × Nat)} {k : Nat}
    (h : BInv p r0 s.asr s.threads log k) (i : Nat)
    (hn : noConsumeStep s i = true) (ho : storeInOrder s i = true) :
    ∃ k', BInv p r0 (cstep s i).asr (cstep s i).threads (log ++ (claimEntry s i).toList) k' := by
  cases hget : s.threads[i]? with
  | none =>
    have e : claimEntry s i = none := by simp [claimEntry, hget]
    rw [e]; simp only [cstep, hget, Option.toList, List.append_nil]
    exact ⟨k, h⟩
  | some th =>
    cases hprog : th.prog with
    | nil =>
      have e : claimEntry s i = none := by simp [claimEntry, hget, hprog]
      rw [e]; simp only [cstep, hget, threadStep, hprog, Option.toList, List.append_nil]
      exact ⟨k, h⟩
    | cons op rest =>
      cases op with
      | consume => simp [noConsumeStep, hget, hprog, COp.isConsume] at hn
      | consumeForget => simp [noConsumeStep, hget, hprog, COp.isConsume] at hn
      | push v c =>
        cases hpc : th.pc with
        | idle =>
          have e : claimEntry s i = none := by simp [claimEntry, hget, hprog, hpc]
          rw [e]; simp only [cstep, hget, threadStep, hprog, pushStep, hpc, Option.toList, List.append_nil]
          have h1 := h.select hget hpc
          rw [hprog] at h1
          exact ⟨k, h1⟩
        | selected q =>
          have e : claimEntry s i = some (v, c) := by simp [claimEntry, hget, hprog, hpc]
          rw [e]; simp only [cstep, hget, threadStep, hprog, pushStep, hpc, Option.toList]
          have h1 := h.claim hget hpc hprog
          rw [hprog] at h1
          exact ⟨k, h1⟩
        | claimed q idx =>
          have e : claimEntry s i = none := by simp [claimEntry, hget, hprog, hpc]
          rw [e]; simp only [cstep, hget, threadStep, hprog, pushStep, hpc, Option.toList, List.append_nil]
          exact ⟨k + 1, h.store hget hpc hprog _ (storeInOrder_spec hget hpc ho)⟩
        | reading q u l vs => exact absurd hpc (h.noread th (List.mem_of_getElem? hget) q u l vs)

theorem BInv.run {p : Bool} {r0 : Res} (sched : List Nat) : ∀ {s : Sys} {log : List (Nat × Nat)} {k : Nat},
    BInv p r0 s.asr s.threads log k → pushOnlySched s sched = true → storesInOrder s sched = true →
    ∃ k', BInv p r0 (crun s sched).asr (crun s sched).threads (log ++ claimLog s sched) k' := by
  induction sched with
  | nil => intro s log k h _ _; exact ⟨k, by simpa [claimLog, crun] using h⟩
  | cons i sched ih =>
    intro s log k h hs ho
    simp only [pushOnlySched, storesInOrder, Bool.and_eq_true] at hs ho
    obtain ⟨k1, h1⟩ := h.step i hs.1 ho.1
    obtain ⟨k2, h2⟩ := ih h1 hs.2 ho.2
    refine ⟨k2, ?_⟩
    simp only [crun, List.foldl_cons, claimLog] at h2 ⊢
    rw [← List.append_assoc]
    exact h2

theorem BInv.start (a : ASR) (ths : List Thread) (hidle : ∀ th ∈ ths, th.pc = .idle) (hcnt : a.active.count = 0) :
    BInv a.usePrimary a.active a ths [] 0 := by
  refine ⟨rfl, hcnt, Nat.le_refl _, ?_, ?_, ?_, ?_, ?_, ?_⟩
  · rw [← active_eq_side]
    exact (with_count_self _ _ hcnt).symm
  · intro idx _ h2; simp at h2
  · intro i th q idx hi hc
    rw [hidle th (List.mem_of_getElem? hi)] at hc; cases hc
  · intro i1 i2 t1 t2 q1 q2 idx h1 _ c1 _
    rw [hidle t1 (List.mem_of_getElem? h1)] at c1; cases c1
  · intro th hth q hq; rw [hidle th hth] at hq; cases hq
  · intro th hth q u l vs e; rw [hidle th hth] at e; cases e

theorem BInv.done {p : Bool} {r0 : Res} {a : ASR} {ths : List Thread} {log : List (Nat × Nat)} {k : Nat}
    (h : BInv p r0 a ths log k) (hdone : ∀ th ∈ ths, pushPrefix th.prog = []) : a.side p = seqRun r0 log := by
  have hk : k = log.length := by
    rcases Nat.lt_or_ge k log.length with hlt | hge
    · obtain ⟨i, th, hi, hp⟩ := h.pend k (Nat.le_refl _) hlt
      obtain ⟨_, _, _, r, hr⟩ := h.claimed i th p k hi hp
      have := hdone th (List.mem_of_getElem? hi)
      rw [hr] at this
      simp [pushPrefix] at this
    · have := h.kle; omega
  rw [h.side, hk, List.take_length]
  exact with_count_self _ _ (by rw [seqRun_count, h.r0cnt]; omega)

/-! ### the claim-ordered run as a stream of positions (to connect with `retained` / `uniform`) -/

theorem seqRun_as_stream (l : List (Nat × Nat)) : ∀ (pre : List (Nat × Nat)) (r : Res), r.count = pre.length →
    seqRun r l = (l.map (·.2)).foldl (fun r c => r.push (((pre ++ l).getD r.count (0, 0)).1) c) r := by
  induction l with
  | nil => intro pre r _; rfl
  | cons vc l ih =>
    intro pre r hr
    have h1 := ih (pre ++ [vc]) (r.push vc.1 vc.2) (by simp [hr])
    simp only [seqRun, List.foldl_cons, List.map_cons] at h1 ⊢
    rw [h1]
    have e : ((pre ++ vc :: l).getD r.count (0, 0)).1 = vc.1 := by
      rw [hr]; simp [List.getD_eq_getElem?_getD]
    rw [e]
    simp [List.append_assoc]

/-- a list whose every value occurs at most as often as in `B`, and which is as long as `B`, is a rearrangement of `B` -/
theorem perm_of_count_le_of_length_eq : ∀ (A B : List Nat), (∀ x, A.count x ≤ B.count x) → A.length = B.length →
    A.Perm B := by
  intro A
  induction A with
  | nil =>
    intro B _ hl
    have : B = [] := List.length_eq_zero_iff.mp (by simpa using hl.symm)
    subst this; exact List.Perm.nil
  | cons a A ih =>
    intro B h hl
    have ha : a ∈ B := by
      apply List.count_pos_iff.mp
      have := h a
      simp only [List.count_cons_self] at this
      omega
    have hp : B.Perm (a :: B.erase a) := List.perm_cons_erase ha
    have h2 := ih (B.erase a) (fun x => by
      have := h x
      rw [List.count_erase]
      simp only [List.count_cons, beq_iff_eq] at this ⊢
      by_cases hax : a = x
      · simp only [hax, if_true] at this ⊢; omega
      · simp only [hax, if_false] at this ⊢; omega) (by
      rw [List.length_erase_of_mem ha]
      simp only [List.length_cons] at hl
      omega)
    exact (List.Perm.cons a h2).trans hp.symm

end MetricsVerif.Reservoir
