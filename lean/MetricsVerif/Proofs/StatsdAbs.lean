/-
Helper lemmas for C10, absolute-only counters: ONE updater thread (thread 0) calling `absolute` with non-decreasing
values, racing ONE flusher (thread 1), in every schedule that contains no step of the K-C10-abs-race window
(`absRaceStep`, Model/StatsdAgg.lean).  Invariant in three phases:

* phase 0 — the mode-switching `absolute` has not stored `last` yet: `current = last = 0`, every delta so far is 0;
* phase 1 (`mid`) — it sits between its `last` store and its `current` store: `last = first value`, `current = 0`, and
  (no window step) no flusher is between its load and its swap, and none loads;
* phase 2 — afterwards: `last ≤ current`, and (sum of all deltas) + first value = `last` (with the flusher's registers
  accounted for while it is inside a flush); no delta wraps.
-/
import MetricsVerif.Proofs.StatsdAgg

namespace MetricsVerif.StatsdAgg

/-- the calls are `absolute(v)` only, with values non-decreasing, starting at `lo` or above, all below 2^64 -/
def AbsNondec : Nat → List Call → Prop
  | _, [] => True
  | lo, .abs v :: r => lo ≤ v ∧ v < M ∧ AbsNondec v r
  | _, .inc _ :: _ => False
  | _, .flush :: _ => False

theorem AbsNondec.lower {calls : List Call} {lo lo' : Nat} (h : AbsNondec lo calls) (hl : lo' ≤ lo) :
    AbsNondec lo' calls := by
  cases calls with
  | nil => trivial
  | cons c r =>
    cases c with
    | abs v => exact ⟨Nat.le_trans hl h.1, h.2.1, h.2.2⟩
    | inc n => exact h.elim
    | flush => exact h.elim

theorem AbsNondec.tail_of {calls : List Call} {lo : Nat} (h : AbsNondec lo calls) : AbsNondec lo calls.tail := by
  cases calls with
  | nil => trivial
  | cons c r =>
    cases c with
    | abs v => exact h.2.2.lower h.1
    | inc n => exact h.elim
    | flush => exact h.elim

def AllFlush (calls : List Call) : Prop := ∀ c ∈ calls, c = Call.flush

def isUpdPC : PC → Bool
  | .start | .aSwapAbs | .aStoreLast | .aStoreCurrent | .aAddUpdates | .done => true
  | _ => false

def isFlPC : PC → Bool
  | .start | .fLoadCurrent | .fSwapLast | .fSwapUpdates | .done => true
  | _ => false

/-- the first value of an absolute-only program -/
def firstVal : List Call → Nat
  | .abs v :: _ => v
  | _ => 0

def Dall (s : Sys) : Nat := (s.outcomes.map (·.1)).sum

theorem startPC_abs {lo : Nat} {calls : List Call} (h : AbsNondec lo calls) :
    (calls = [] ∧ startPC calls = .done) ∨ (∃ v r, calls = .abs v :: r ∧ startPC calls = .aSwapAbs) := by
  cases calls with
  | nil => exact Or.inl ⟨rfl, rfl⟩
  | cons c r =>
    cases c with
    | abs v => exact Or.inr ⟨v, r, rfl, rfl⟩
    | inc n => exact h.elim
    | flush => exact h.elim

theorem startPC_flush {calls : List Call} (h : AllFlush calls) :
    (calls = [] ∧ startPC calls = .done) ∨ startPC calls = .fLoadCurrent := by
  cases calls with
  | nil => exact Or.inl ⟨rfl, rfl⟩
  | cons c r =>
    have := h c (by simp)
    subst this
    exact Or.inr rfl

theorem AllFlush.tail_of {calls : List Call} (h : AllFlush calls) : AllFlush calls.tail :=
  fun c hc => h c (List.mem_of_mem_tail hc)

structure Common (s : Sys) (tu tf : Thread) : Prop where
  legacy_off : s.legacy = false
  idle_eq : s.idle = idleOf s.outcomes
  rule : Rule s.outcomes
  upc : isUpdPC tu.pc = true
  uhead : isAbsPC tu.pc = true → ∃ v r, tu.calls = Call.abs v :: r
  udone : tu.pc = .done → tu.calls = []
  fcalls : AllFlush tf.calls
  fpc : isFlPC tf.pc = true

structure Ph0 (prog : List Call) (s : Sys) (tu tf : Thread) : Prop where
  notyet : s.isAbs = false ∨ tu.pc = .aStoreLast
  atlast : tu.pc = .aStoreLast → s.isAbs = true
  calls : tu.calls = prog
  nd : AbsNondec 0 prog
  upc : tu.pc ≠ .aStoreCurrent ∧ tu.pc ≠ .aAddUpdates
  cur : s.current = 0
  last : s.last = 0
  d : Dall s = 0
  ftmpC : tf.pc = .fSwapLast → tf.tmpC = 0
  ftmpD : tf.pc = .fSwapUpdates → tf.tmpDelta = 0

structure Ph1 (prog : List Call) (s : Sys) (tu tf : Thread) : Prop where
  pc : tu.pc = .aStoreCurrent
  calls : tu.calls = prog
  nd : AbsNondec 0 prog
  isabs : s.isAbs = true
  cur : s.current = 0
  last : s.last = firstVal prog
  d : Dall s = 0
  fpc : tf.pc ≠ .fSwapLast
  ftmpD : tf.pc = .fSwapUpdates → tf.tmpDelta = 0

/-- how the flusher's registers enter the accounting, depending on where it is -/
def FlRel (v1 : Nat) (s : Sys) (tf : Thread) : Prop :=
  match tf.pc with
  | .fSwapLast => s.last ≤ tf.tmpC ∧ tf.tmpC ≤ s.current ∧ Dall s + v1 = s.last
  | .fSwapUpdates => Dall s + tf.tmpDelta + v1 = s.last ∧ s.last ≤ s.current
  | _ => Dall s + v1 = s.last ∧ s.last ≤ s.current

structure Ph2 (v1 : Nat) (s : Sys) (tu tf : Thread) : Prop where
  isabs : s.isAbs = true
  upc : tu.pc ≠ .aStoreLast
  nd : AbsNondec s.current tu.calls
  curlt : s.current < M
  fl : FlRel v1 s tf

def Phases (prog : List Call) (s : Sys) (mid : Bool) (tu tf : Thread) : Prop :=
  (mid = false ∧ Ph0 prog s tu tf) ∨ (mid = true ∧ Ph1 prog s tu tf) ∨ (mid = false ∧ Ph2 (firstVal prog) s tu tf)

def Core (prog : List Call) (s : Sys) (mid : Bool) (tu tf : Thread) : Prop := Common s tu tf ∧ Phases prog s mid tu tf

/-- the invariant; `mid` is the ghost flag of `absRaceCount` -/
def AInv (prog : List Call) (s : Sys) (mid : Bool) : Prop :=
  ∃ tu tf, s.threads = [tu, tf] ∧ Core prog s mid tu tf

theorem Core.reth {prog : List Call} {s : Sys} {mid : Bool} {tu tf : Thread} (h : Core prog s mid tu tf)
    (l : List Thread) : Core prog { s with threads := l } mid tu tf := by
  obtain ⟨hc, hp⟩ := h
  refine ⟨⟨hc.legacy_off, hc.idle_eq, hc.rule, hc.upc, hc.uhead, hc.udone, hc.fcalls, hc.fpc⟩, ?_⟩
  rcases hp with ⟨hm, h0⟩ | ⟨hm, h1⟩ | ⟨hm, h2⟩
  · exact Or.inl ⟨hm, ⟨h0.notyet, h0.atlast, h0.calls, h0.nd, h0.upc, h0.cur, h0.last, h0.d, h0.ftmpC, h0.ftmpD⟩⟩
  · exact Or.inr (Or.inl ⟨hm, ⟨h1.pc, h1.calls, h1.nd, h1.isabs, h1.cur, h1.last, h1.d, h1.fpc, h1.ftmpD⟩⟩)
  · exact Or.inr (Or.inr ⟨hm, ⟨h2.isabs, h2.upc, h2.nd, h2.curlt, h2.fl⟩⟩)

theorem AInv_mk {prog : List Call} {s1 : Sys} {mid : Bool} {tu tf : Thread} (h : Core prog s1 mid tu tf) :
    AInv prog { s1 with threads := [tu, tf] } mid := ⟨tu, tf, rfl, h.reth _⟩

/-- `Common` after a step of the updater: the flusher's part and the send-rule part are untouched -/
theorem Common.upd {s s' : Sys} {tu tu' tf : Thread} (h : Common s tu tf) (hl : s'.legacy = s.legacy)
    (hi : s'.idle = s.idle) (ho : s'.outcomes = s.outcomes) (upc : isUpdPC tu'.pc = true)
    (uhead : isAbsPC tu'.pc = true → ∃ v r, tu'.calls = Call.abs v :: r) (udone : tu'.pc = .done → tu'.calls = []) :
    Common s' tu' tf :=
  { legacy_off := by rw [hl]; exact h.legacy_off
    idle_eq := by rw [hi, ho]; exact h.idle_eq
    rule := by rw [ho]; exact h.rule
    upc := upc, uhead := uhead, udone := udone, fcalls := h.fcalls, fpc := h.fpc }

/-- `Common` after a step of the flusher that does not complete a flush -/
theorem Common.flu {s s' : Sys} {tu tf tf' : Thread} (h : Common s tu tf) (hl : s'.legacy = s.legacy)
    (hi : s'.idle = s.idle) (ho : s'.outcomes = s.outcomes) (fcalls : AllFlush tf'.calls)
    (fpc : isFlPC tf'.pc = true) : Common s' tu tf' :=
  { legacy_off := by rw [hl]; exact h.legacy_off
    idle_eq := by rw [hi, ho]; exact h.idle_eq
    rule := by rw [ho]; exact h.rule
    upc := h.upc, uhead := h.uhead, udone := h.udone, fcalls := fcalls, fpc := fpc }

theorem stepThread_threads (s : Sys) (t : Thread) : (stepThread s t).1.threads = s.threads := by
  unfold stepThread
  cases t.pc <;> simp only <;> (try split) <;> rfl

theorem step_zero {s : Sys} {tu tf : Thread} (h : s.threads = [tu, tf]) :
    step s 0 = { (stepThread s tu).1 with threads := [(stepThread s tu).2, tf] } := by
  unfold step
  simp only [h, List.getElem?_cons_zero]
  have := stepThread_threads s tu
  rw [this, h]
  rfl

theorem step_one {s : Sys} {tu tf : Thread} (h : s.threads = [tu, tf]) :
    step s 1 = { (stepThread s tf).1 with threads := [tu, (stepThread s tf).2] } := by
  unfold step
  simp only [h, List.getElem?_cons_succ, List.getElem?_cons_zero]
  have := stepThread_threads s tf
  rw [this, h]
  rfl

theorem step_other {s : Sys} {tu tf : Thread} (h : s.threads = [tu, tf]) (n : Nat) : step s (n + 2) = s := by
  unfold step
  simp [h]

theorem pcOf_zero {s : Sys} {tu tf : Thread} (h : s.threads = [tu, tf]) : pcOf s 0 = tu.pc := by simp [pcOf, h]
theorem pcOf_one {s : Sys} {tu tf : Thread} (h : s.threads = [tu, tf]) : pcOf s 1 = tf.pc := by simp [pcOf, h]
theorem pcOf_other {s : Sys} {tu tf : Thread} (h : s.threads = [tu, tf]) (n : Nat) : pcOf s (n + 2) = .done := by
  simp [pcOf, h]

theorem curArg_abs {t : Thread} {v : Nat} {r : List Call} (h : t.calls = .abs v :: r) : curArg t = v := by
  simp [curArg, h]

theorem M_pos : 0 < M := by decide

theorem FlRel.congr {v1 : Nat} {s s' : Sys} {tf : Thread} (h : FlRel v1 s tf) (h1 : s'.last = s.last)
    (h2 : s'.current = s.current) (h3 : s'.outcomes = s.outcomes) : FlRel v1 s' tf := by
  unfold FlRel Dall at h ⊢
  rw [h1, h2, h3]; exact h

/-- when `current` grows (the updater stored a larger value) the flusher's relation is kept -/
theorem FlRel.grow {v1 : Nat} {s s' : Sys} {tf : Thread} (h : FlRel v1 s tf) (h1 : s'.last = s.last)
    (h2 : s.current ≤ s'.current) (h3 : s'.outcomes = s.outcomes) : FlRel v1 s' tf := by
  unfold FlRel Dall at h ⊢
  rw [h1, h3]
  cases hp : tf.pc <;> simp only [hp] at h ⊢ <;> omega

theorem isAbsPC_startPC {calls : List Call} (h : isAbsPC (startPC calls) = true) : ∃ v r, calls = Call.abs v :: r := by
  cases calls with
  | nil => simp [startPC, isAbsPC] at h
  | cons c r => cases c <;> simp [startPC, pcOfCall, isAbsPC] at h ⊢

theorem startPC_done' {calls : List Call} (h : startPC calls = .done) : calls = [] := by
  cases calls with
  | nil => rfl
  | cons c r => cases c <;> simp [startPC, pcOfCall] at h

theorem upd_startPC {lo : Nat} {calls : List Call} (h : AbsNondec lo calls) :
    isUpdPC (startPC calls) = true ∧ startPC calls ≠ .aStoreLast ∧ startPC calls ≠ .aStoreCurrent
      ∧ startPC calls ≠ .aAddUpdates := by
  rcases startPC_abs h with ⟨_, e⟩ | ⟨_, _, _, e⟩ <;> rw [e] <;> simp [isUpdPC]

/-- a step of the updater (thread 0) outside the window -/
theorem abs_step_upd (prog : List Call) (s : Sys) (mid : Bool) (h : AInv prog s mid)
    (hno : absRaceStep s mid 0 = false) : AInv prog (step s 0) (midAfter s mid 0) := by
  obtain ⟨tu, tf, hthr, hc, hph⟩ := h
  have hpc0 := pcOf_zero hthr
  rw [step_zero hthr]
  apply AInv_mk
  unfold midAfter absRaceStep at *
  rw [hpc0] at hno ⊢
  unfold stepThread
  cases hp : tu.pc with
  | start =>
    simp only
    have hnd : ∃ lo, AbsNondec lo tu.calls := by
      rcases hph with ⟨_, h0⟩ | ⟨_, h1⟩ | ⟨_, h2⟩
      · exact ⟨0, h0.calls ▸ h0.nd⟩
      · exact ⟨0, h1.calls ▸ h1.nd⟩
      · exact ⟨_, h2.nd⟩
    obtain ⟨lo, hnd⟩ := hnd
    obtain ⟨u1, u2, u3, u4⟩ := upd_startPC hnd
    refine ⟨hc.upd rfl rfl rfl u1 (fun h => isAbsPC_startPC h) (fun h => startPC_done' h), ?_⟩
    rcases hph with ⟨hm, h0⟩ | ⟨hm, h1⟩ | ⟨hm, h2⟩
    · refine Or.inl ⟨hm, ?_⟩
      exact { notyet := by
                rcases h0.notyet with h | h
                · exact Or.inl h
                · rw [hp] at h; cases h
              atlast := fun h => absurd h u2
              calls := h0.calls, nd := h0.nd, upc := ⟨u3, u4⟩, cur := h0.cur, last := h0.last, d := h0.d,
              ftmpC := h0.ftmpC, ftmpD := h0.ftmpD }
    · rw [h1.pc] at hp; cases hp
    · exact Or.inr (Or.inr ⟨hm, { isabs := h2.isabs, upc := u2, nd := h2.nd, curlt := h2.curlt, fl := h2.fl }⟩)
  | done => simp only; exact ⟨hc, hph⟩
  | aSwapAbs =>
    simp only
    have hhead := hc.uhead (by rw [hp]; rfl)
    rcases hph with ⟨hm, h0⟩ | ⟨hm, h1⟩ | ⟨hm, h2⟩
    · have hia : s.isAbs = false := by
        rcases h0.notyet with h | h
        · exact h
        · rw [hp] at h; cases h
      simp only [hia, Bool.false_eq_true, if_false]
      refine ⟨hc.upd rfl rfl rfl rfl (fun _ => hhead) (fun h => by cases h), Or.inl ⟨hm, ?_⟩⟩
      exact { notyet := Or.inr rfl, atlast := fun _ => rfl, calls := h0.calls, nd := h0.nd,
              upc := ⟨by simp, by simp⟩, cur := h0.cur, last := h0.last, d := h0.d, ftmpC := h0.ftmpC,
              ftmpD := h0.ftmpD }
    · rw [h1.pc] at hp; cases hp
    · simp only [h2.isabs, if_true]
      refine ⟨hc.upd rfl rfl rfl rfl (fun _ => hhead) (fun h => by cases h), Or.inr (Or.inr ⟨hm, ?_⟩)⟩
      exact { isabs := h2.isabs, upc := by simp, nd := h2.nd, curlt := h2.curlt, fl := h2.fl }
  | aStoreLast =>
    simp only
    simp only [hp] at hno
    obtain ⟨v, r, hcalls⟩ := hc.uhead (by rw [hp]; rfl)
    rcases hph with ⟨hm, h0⟩ | ⟨hm, h1⟩ | ⟨hm, h2⟩
    · have hprog : prog = .abs v :: r := by rw [← h0.calls]; exact hcalls
      have hnd := h0.nd
      rw [hprog] at hnd
      have hvl : v % M = v := Nat.mod_eq_of_lt hnd.2.1
      have hfm : tf.pc ≠ .fSwapLast := by
        intro hf
        simp [flushMid, hthr, hf] at hno
      refine ⟨hc.upd rfl rfl rfl rfl (fun _ => ⟨v, r, hcalls⟩) (fun h => by cases h), Or.inr (Or.inl ⟨rfl, ?_⟩)⟩
      exact { pc := rfl, calls := h0.calls, nd := h0.nd, isabs := h0.atlast hp, cur := h0.cur,
              last := by
                show curArg tu % M = firstVal prog
                rw [curArg_abs hcalls, hvl, hprog]; rfl
              d := h0.d, fpc := hfm, ftmpD := h0.ftmpD }
    · rw [h1.pc] at hp; cases hp
    · exact absurd hp h2.upc
  | aStoreCurrent =>
    simp only
    obtain ⟨v, r, hcalls⟩ := hc.uhead (by rw [hp]; rfl)
    have hcm : Common { s with current := curArg tu % M } { tu with pc := .aAddUpdates } tf :=
      hc.upd rfl rfl rfl rfl (fun _ => ⟨v, r, hcalls⟩) (fun h => by cases h)
    rcases hph with ⟨hm, h0⟩ | ⟨hm, h1⟩ | ⟨hm, h2⟩
    · exact absurd hp h0.upc.1
    · have hprog : prog = .abs v :: r := by rw [← h1.calls]; exact hcalls
      have hnd := h1.nd
      rw [hprog] at hnd
      have hvl : v % M = v := Nat.mod_eq_of_lt hnd.2.1
      have hfv : firstVal prog = v := by rw [hprog]; rfl
      have hcur : curArg tu % M = v := by rw [curArg_abs hcalls, hvl]
      refine ⟨hcm, Or.inr (Or.inr ⟨rfl, ?_⟩)⟩
      refine { isabs := h1.isabs, upc := by simp, nd := ?_, curlt := ?_, fl := ?_ }
      · show AbsNondec (curArg tu % M) tu.calls
        rw [hcur, hcalls]
        exact ⟨Nat.le_refl _, hnd.2.1, hnd.2.2⟩
      · show curArg tu % M < M
        exact Nat.mod_lt _ M_pos
      · have hl := h1.last
        have hd := h1.d
        unfold Dall at hd
        show FlRel (firstVal prog) { s with current := curArg tu % M } tf
        unfold FlRel Dall
        simp only [hcur, hfv, hl, hd]
        cases hpf : tf.pc with
        | fSwapLast => exact absurd hpf h1.fpc
        | fSwapUpdates => simp only; have := h1.ftmpD hpf; omega
        | _ => simp
    · have hnd := h2.nd
      rw [hcalls] at hnd
      have hvl : v % M = v := Nat.mod_eq_of_lt hnd.2.1
      have hcur : curArg tu % M = v := by rw [curArg_abs hcalls, hvl]
      refine ⟨hcm, Or.inr (Or.inr ⟨rfl, ?_⟩)⟩
      refine { isabs := h2.isabs, upc := by simp, nd := ?_, curlt := ?_, fl := ?_ }
      · show AbsNondec (curArg tu % M) tu.calls
        rw [hcur, hcalls]
        exact ⟨Nat.le_refl _, hnd.2.1, hnd.2.2⟩
      · show curArg tu % M < M
        exact Nat.mod_lt _ M_pos
      · exact h2.fl.grow rfl (by show s.current ≤ curArg tu % M; rw [hcur]; exact hnd.1) rfl
  | aAddUpdates =>
    simp only
    rcases hph with ⟨hm, h0⟩ | ⟨hm, h1⟩ | ⟨hm, h2⟩
    · exact absurd hp h0.upc.2
    · rw [h1.pc] at hp; cases hp
    · have hndt : AbsNondec s.current tu.calls.tail := h2.nd.tail_of
      obtain ⟨u1, u2, u3, u4⟩ := upd_startPC hndt
      refine ⟨hc.upd rfl rfl rfl u1 (fun h => isAbsPC_startPC h) (fun h => startPC_done' h),
        Or.inr (Or.inr ⟨hm, ?_⟩)⟩
      exact { isabs := h2.isabs, upc := u2, nd := hndt, curlt := h2.curlt, fl := h2.fl.congr rfl rfl rfl }
  | iStoreAbs => have := hc.upc; simp [hp, isUpdPC] at this
  | iAddCurrent => have := hc.upc; simp [hp, isUpdPC] at this
  | iAddUpdates => have := hc.upc; simp [hp, isUpdPC] at this
  | fLoadCurrent => have := hc.upc; simp [hp, isUpdPC] at this
  | fSwapLast => have := hc.upc; simp [hp, isUpdPC] at this
  | fSwapUpdates => have := hc.upc; simp [hp, isUpdPC] at this

theorem fl_startPC {calls : List Call} (h : AllFlush calls) :
    isFlPC (startPC calls) = true ∧ startPC calls ≠ .fSwapLast ∧ startPC calls ≠ .fSwapUpdates := by
  rcases startPC_flush h with ⟨_, e⟩ | e <;> rw [e] <;> simp [isFlPC]

/-- `FlRel` for a flusher that is not inside a flush -/
theorem FlRel.plain {v1 : Nat} {s : Sys} {tf : Thread} (h1 : tf.pc ≠ .fSwapLast) (h2 : tf.pc ≠ .fSwapUpdates) :
    FlRel v1 s tf ↔ (Dall s + v1 = s.last ∧ s.last ≤ s.current) := by
  unfold FlRel
  cases hp : tf.pc <;> simp_all

/-- a step of the flusher (thread 1) outside the window -/
theorem abs_step_fl (prog : List Call) (s : Sys) (mid : Bool) (h : AInv prog s mid)
    (hno : absRaceStep s mid 1 = false) : AInv prog (step s 1) (midAfter s mid 1) := by
  obtain ⟨tu, tf, hthr, hc, hph⟩ := h
  have hpc1 := pcOf_one hthr
  rw [step_one hthr]
  apply AInv_mk
  unfold midAfter absRaceStep at *
  rw [hpc1] at hno ⊢
  unfold stepThread
  cases hp : tf.pc with
  | start =>
    simp only
    obtain ⟨f1, f2, f3⟩ := fl_startPC hc.fcalls
    refine ⟨hc.flu rfl rfl rfl hc.fcalls f1, ?_⟩
    rcases hph with ⟨hm, h0⟩ | ⟨hm, h1⟩ | ⟨hm, h2⟩
    · exact Or.inl ⟨hm, { notyet := h0.notyet, atlast := h0.atlast, calls := h0.calls, nd := h0.nd, upc := h0.upc,
                          cur := h0.cur, last := h0.last, d := h0.d, ftmpC := fun h => absurd h f2,
                          ftmpD := fun h => absurd h f3 }⟩
    · exact Or.inr (Or.inl ⟨hm, { pc := h1.pc, calls := h1.calls, nd := h1.nd, isabs := h1.isabs, cur := h1.cur,
                                  last := h1.last, d := h1.d, fpc := f2, ftmpD := fun h => absurd h f3 }⟩)
    · refine Or.inr (Or.inr ⟨hm, { isabs := h2.isabs, upc := h2.upc, nd := h2.nd, curlt := h2.curlt, fl := ?_ }⟩)
      have := (FlRel.plain (by simp [hp]) (by simp [hp])).mp h2.fl
      exact (FlRel.plain f2 f3).mpr this
  | done => simp only; exact ⟨hc, hph⟩
  | fLoadCurrent =>
    simp only
    simp only [hp] at hno
    have hcm : Common { s with marks := s.applied :: s.marks } tu { tf with tmpC := s.current, pc := .fSwapLast } :=
      hc.flu rfl rfl rfl hc.fcalls rfl
    refine ⟨hcm, ?_⟩
    rcases hph with ⟨hm, h0⟩ | ⟨hm, h1⟩ | ⟨hm, h2⟩
    · exact Or.inl ⟨hm, { notyet := h0.notyet, atlast := h0.atlast, calls := h0.calls, nd := h0.nd, upc := h0.upc,
                          cur := h0.cur, last := h0.last, d := h0.d, ftmpC := fun _ => h0.cur,
                          ftmpD := fun h => by cases h }⟩
    · rw [hm] at hno; cases hno
    · refine Or.inr (Or.inr ⟨hm, { isabs := h2.isabs, upc := h2.upc, nd := h2.nd, curlt := h2.curlt, fl := ?_ }⟩)
      have := (FlRel.plain (by simp [hp]) (by simp [hp])).mp h2.fl
      show FlRel _ _ _
      unfold FlRel Dall at *
      simp only
      exact ⟨this.2, Nat.le_refl _, this.1⟩
  | fSwapLast =>
    simp only
    have hcm : Common { s with last := tf.tmpC } tu
        { tf with tmpDelta := (tf.tmpC + M - s.last) % M, pc := .fSwapUpdates } := hc.flu rfl rfl rfl hc.fcalls rfl
    refine ⟨hcm, ?_⟩
    rcases hph with ⟨hm, h0⟩ | ⟨hm, h1⟩ | ⟨hm, h2⟩
    · have ht := h0.ftmpC hp
      refine Or.inl ⟨hm, { notyet := h0.notyet, atlast := h0.atlast, calls := h0.calls, nd := h0.nd, upc := h0.upc,
                           cur := h0.cur, last := ht, d := h0.d, ftmpC := (fun h => by cases h), ftmpD := fun _ => ?_ }⟩
      show (tf.tmpC + M - s.last) % M = 0
      rw [ht, h0.last]; simp
    · exact absurd hp h1.fpc
    · refine Or.inr (Or.inr ⟨hm, { isabs := h2.isabs, upc := h2.upc, nd := h2.nd, curlt := h2.curlt, fl := ?_ }⟩)
      have hf := h2.fl
      have hlt := h2.curlt
      unfold FlRel Dall at hf
      simp only [hp] at hf
      show FlRel _ _ _
      unfold FlRel Dall
      simp only
      obtain ⟨a, b, c⟩ := hf
      have hd : (tf.tmpC + M - s.last) % M = tf.tmpC - s.last := by
        have e : tf.tmpC + M - s.last = (tf.tmpC - s.last) + M := by omega
        rw [e, Nat.add_mod_right, Nat.mod_eq_of_lt (by omega)]
      rw [hd]
      exact ⟨by omega, b⟩
  | fSwapUpdates =>
    simp only
    have hleg := hc.legacy_off
    have hdec : decide s.legacy s.idle tf.tmpDelta s.updates
        = (!(tf.tmpDelta == 0 && s.idle), tf.tmpDelta == 0) := by
      unfold StatsdAgg.decide
      rw [hleg]
      cases hz : (tf.tmpDelta == 0) <;> cases hi : s.idle <;> simp [hz]
    rw [hdec]
    simp only
    obtain ⟨f1, f2, f3⟩ := fl_startPC hc.fcalls.tail_of
    have hcm : Common (Sys.mk s.legacy s.isAbs s.last s.current 0 (tf.tmpDelta == 0) s.applied s.marks
        ((tf.tmpDelta, !(tf.tmpDelta == 0 && s.idle)) :: s.outcomes) s.threads) tu tf.advance :=
      { legacy_off := hleg
        idle_eq := rfl
        rule := by
          refine ⟨?_, hc.rule⟩
          rw [hc.idle_eq]
          cases s.outcomes with
          | nil => rfl
          | cons o r => obtain ⟨d1, b1⟩ := o; rfl
        upc := hc.upc, uhead := hc.uhead, udone := hc.udone, fcalls := hc.fcalls.tail_of, fpc := f1 }
    refine ⟨hcm, ?_⟩
    have hD : ∀ x : Bool, (((tf.tmpDelta, x) :: s.outcomes).map (·.1)).sum = tf.tmpDelta + Dall s := by
      intro x; simp [Dall]
    rcases hph with ⟨hm, h0⟩ | ⟨hm, h1⟩ | ⟨hm, h2⟩
    · refine Or.inl ⟨hm, { notyet := h0.notyet, atlast := h0.atlast, calls := h0.calls, nd := h0.nd, upc := h0.upc,
                           cur := h0.cur, last := h0.last, d := ?_, ftmpC := fun h => absurd h f2,
                           ftmpD := fun h => absurd h f3 }⟩
      show (((tf.tmpDelta, _) :: s.outcomes).map (·.1)).sum = 0
      rw [hD, h0.ftmpD hp, h0.d]
    · refine Or.inr (Or.inl ⟨hm, { pc := h1.pc, calls := h1.calls, nd := h1.nd, isabs := h1.isabs, cur := h1.cur,
                                   last := h1.last, d := ?_, fpc := f2, ftmpD := fun h => absurd h f3 }⟩)
      show (((tf.tmpDelta, _) :: s.outcomes).map (·.1)).sum = 0
      rw [hD, h1.ftmpD hp, h1.d]
    · refine Or.inr (Or.inr ⟨hm, { isabs := h2.isabs, upc := h2.upc, nd := h2.nd, curlt := h2.curlt, fl := ?_ }⟩)
      have hf := h2.fl
      unfold FlRel at hf
      simp only [hp] at hf
      refine (FlRel.plain f2 f3).mpr ?_
      show (((tf.tmpDelta, _) :: s.outcomes).map (·.1)).sum + firstVal prog = s.last ∧ s.last ≤ s.current
      rw [hD]
      exact ⟨by omega, hf.2⟩
  | iStoreAbs => have := hc.fpc; simp [hp, isFlPC] at this
  | iAddCurrent => have := hc.fpc; simp [hp, isFlPC] at this
  | iAddUpdates => have := hc.fpc; simp [hp, isFlPC] at this
  | aSwapAbs => have := hc.fpc; simp [hp, isFlPC] at this
  | aStoreLast => have := hc.fpc; simp [hp, isFlPC] at this
  | aStoreCurrent => have := hc.fpc; simp [hp, isFlPC] at this
  | aAddUpdates => have := hc.fpc; simp [hp, isFlPC] at this

/-- one step of any thread outside the window -/
theorem abs_step (prog : List Call) (s : Sys) (mid : Bool) (tid : Nat) (h : AInv prog s mid)
    (hno : absRaceStep s mid tid = false) : AInv prog (step s tid) (midAfter s mid tid) := by
  match tid with
  | 0 => exact abs_step_upd prog s mid h hno
  | 1 => exact abs_step_fl prog s mid h hno
  | n + 2 =>
    obtain ⟨tu, tf, hthr, hcore⟩ := h
    rw [step_other hthr n]
    unfold midAfter
    rw [pcOf_other hthr n]
    exact ⟨tu, tf, hthr, hcore⟩

theorem abs_run (prog : List Call) (sched : List Nat) : ∀ (s : Sys) (mid : Bool), AInv prog s mid →
    absRaceCount s mid sched = 0 → ∃ mid', AInv prog (run s sched) mid' := by
  induction sched with
  | nil => intro s mid h _; exact ⟨mid, h⟩
  | cons t ts ih =>
    intro s mid h hc
    simp only [absRaceCount] at hc
    have hno : absRaceStep s mid t = false := by
      cases hb : absRaceStep s mid t with
      | false => rfl
      | true => rw [hb] at hc; simp at hc
    have hrest : absRaceCount (step s t) (midAfter s mid t) ts = 0 := by omega
    exact ih _ _ (abs_step prog s mid t h hno) hrest

theorem abs_init (prog fl : List Call) (hnd : AbsNondec 0 prog) (hfl : AllFlush fl) :
    AInv prog (init false [prog, fl]) false := by
  refine ⟨mkThread prog, mkThread fl, rfl, ?_, Or.inl ⟨rfl, ?_⟩⟩
  · exact { legacy_off := rfl, idle_eq := rfl, rule := trivial, upc := rfl, uhead := (fun h => by cases h),
            udone := (fun h => by cases h), fcalls := hfl, fpc := rfl }
  · exact { notyet := Or.inl rfl, atlast := (fun h => by cases h), calls := rfl, nd := hnd,
            upc := ⟨by simp [mkThread], by simp [mkThread]⟩, cur := rfl, last := rfl, d := rfl,
            ftmpC := (fun h => by cases h), ftmpD := fun h => by cases h }

/-- every state reachable without a window step satisfies the invariant -/
theorem abs_reachable (prog fl : List Call) (hnd : AbsNondec 0 prog) (hfl : AllFlush fl) (sched : List Nat)
    (hw : absRaceCount (init false [prog, fl]) false sched = 0) :
    ∃ mid, AInv prog (run (init false [prog, fl]) sched) mid :=
  abs_run prog sched _ _ (abs_init prog fl hnd hfl) hw

end MetricsVerif.StatsdAgg
