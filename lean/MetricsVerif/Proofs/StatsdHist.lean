/-
Helper lemmas for the histogram clause of C10 (Props/C10Hist.lean), on top of the bucket proofs of C05:

* a thread whose program contains no `clear` never hands anything to a clear callback (`NoClrR`), so with recorder
  threads + ONE flusher everything `Bucket.delivered` counts was sent by the flusher (`delivered_eq_of_single_clearer`);
* the final flush: once every recorder has finished, a `State::flush` of the histogram (`is_empty`; `clear_with` unless
  it answered `true`) leaves nothing reachable from the tail (`final_flush_drains`).
-/
import MetricsVerif.Model.StatsdHist
import MetricsVerif.Proofs.BucketCons
import MetricsVerif.Proofs.BucketEmptyLive

namespace MetricsVerif.Bucket

/-! ### a thread without `clear` in its program delivers nothing -/

structure NoClrR (t : Thread) : Prop where
  calls : Call.clear ∉ t.calls
  pc : isClearPC t.pc = false
  res : t.results.flatMap clearedVals = []

theorem startPC_noclrR (calls : List Call) (h : Call.clear ∉ calls) : isClearPC (startPC calls) = false := by
  cases calls with
  | nil => rfl
  | cons c r => cases c <;> simp_all [startPC, pcOfCall, isClearPC]

theorem NoClrR_advance (t : Thread) (r : Res) (h : NoClrR t) (hr : clearedVals r = []) : NoClrR (t.advance r) := by
  have ht : Call.clear ∉ t.calls.tail := fun hc => h.calls (List.mem_of_mem_tail hc)
  refine ⟨ht, startPC_noclrR _ ht, ?_⟩
  show (t.results ++ [r]).flatMap clearedVals = []
  rw [List.flatMap_append, h.res]
  simp [hr]

theorem noclrR_step (s : Sys) (t : Thread) (h : NoClrR t) : NoClrR (stepThread s t).2 := by
  have adv : ∀ r, clearedVals r = [] → NoClrR (t.advance r) := fun r hr => NoClrR_advance t r h hr
  unfold stepThread
  cases hp : t.pc with
  | start => exact ⟨h.calls, startPC_noclrR _ h.calls, h.res⟩
  | done => exact h
  | pLoadTail => simp only; split <;> exact ⟨h.calls, rfl, h.res⟩
  | pCasFirst => simp only; split <;> exact ⟨h.calls, rfl, h.res⟩
  | pClaim blk r =>
    simp only
    split
    · exact ⟨h.calls, rfl, h.res⟩
    · split <;> exact ⟨h.calls, rfl, h.res⟩
  | pPublish blk idx => exact adv _ rfl
  | pCasNew old => simp only; split <;> exact ⟨h.calls, rfl, h.res⟩
  | dLoadTail =>
    simp only
    split
    · exact adv _ rfl
    · exact ⟨h.calls, rfl, h.res⟩
  | dQuiesced blk => simp only; exact ⟨h.calls, by simp only; split <;> rfl, h.res⟩
  | dWait blk => simp only; exact ⟨h.calls, by simp only; split <;> rfl, h.res⟩
  | dRead blk => exact ⟨h.calls, rfl, h.res⟩
  | dNext blk =>
    simp only
    split
    · exact adv _ rfl
    · exact ⟨h.calls, rfl, h.res⟩
  | cLoadTail => exact absurd h.pc (by simp [hp, isClearPC])
  | cCas old => exact absurd h.pc (by simp [hp, isClearPC])
  | cQuiesced blk => exact absurd h.pc (by simp [hp, isClearPC])
  | cWait blk => exact absurd h.pc (by simp [hp, isClearPC])
  | cRead blk => exact absurd h.pc (by simp [hp, isClearPC])
  | cNext blk => exact absurd h.pc (by simp [hp, isClearPC])
  | eLoadTail =>
    simp only
    split
    · exact adv _ rfl
    · exact ⟨h.calls, rfl, h.res⟩
  | eLen blk => exact adv _ rfl

def NoClrAt (s : Sys) (i : Nat) : Prop := ∀ t, s.threads[i]? = some t → NoClrR t

theorem noclrR_sys_step (s : Sys) (tid i : Nat) (h : NoClrAt s i) : NoClrAt (step s tid) i := by
  cases hg : s.threads[tid]? with
  | none => unfold step; rw [hg]; exact h
  | some t =>
    intro u hu
    rw [(step_threads s tid t hg).1] at hu
    rcases threads_after hg i u hu with ⟨e, rfl⟩ | ⟨_, hu'⟩
    · subst e; exact noclrR_step s t (h t hg)
    · exact h u hu'

theorem noclrR_run (sched : List Nat) (i : Nat) : ∀ s, NoClrAt s i → NoClrAt (run s sched) i := by
  induction sched with
  | nil => intro s h; exact h
  | cons t ts ih => intro s h; exact ih _ (noclrR_sys_step s t i h)

theorem init_noclr (B : Nat) (progs : List (List Call)) (i : Nat)
    (h : ∀ p, progs[i]? = some p → Call.clear ∉ p) : NoClrAt (init B progs) i := by
  intro t ht
  simp only [init, List.getElem?_map] at ht
  cases hp : progs[i]? with
  | none => simp [hp] at ht
  | some p =>
    simp only [hp, Option.map_some, Option.some.injEq] at ht
    subst ht
    exact ⟨h p hp, rfl, rfl⟩

def atOr {α β : Type} (g : α → List β) : Option α → List β
  | some t => g t
  | none => []

theorem flatMap_single {α β : Type} (g : α → List β) : ∀ (l : List α) (f : Nat),
    (∀ i t, i ≠ f → l[i]? = some t → g t = []) → l.flatMap g = atOr g l[f]? := by
  intro l
  induction l with
  | nil => intro f _; rfl
  | cons x xs ih =>
    intro f h
    cases f with
    | zero =>
      have hz : xs.flatMap g = [] := by
        rw [List.flatMap_eq_nil_iff]
        intro y hy
        obtain ⟨j, hj⟩ := List.getElem?_of_mem hy
        exact h (j + 1) y (by omega) (by simpa using hj)
      simp [List.flatMap_cons, hz, atOr]
    | succ k =>
      have hx : g x = [] := h 0 x (by omega) (by simp)
      have := ih k (fun i t hi ht => h (i + 1) t (by omega) (by simpa using ht))
      simp only [List.flatMap_cons, hx, List.nil_append, List.getElem?_cons_succ]
      exact this

/-- only thread `f` clears ⇒ everything delivered to clear callbacks was delivered to thread `f`'s -/
theorem delivered_eq_of_single_clearer (s : Sys) (f : Nat) (h : ∀ i, i ≠ f → NoClrAt s i) :
    delivered s = atOr (fun t => t.results.flatMap clearedVals) s.threads[f]? := by
  have hd : delivered s = s.threads.flatMap (fun t => t.results.flatMap clearedVals) := by
    unfold delivered
    congr 1
  rw [hd]
  exact flatMap_single (fun t => t.results.flatMap clearedVals) s.threads f (fun i t hi ht => (h i hi t ht).res)

/-! ### `is_empty` answering `true` with nobody else running: nothing is reachable from the tail -/

/-- what `is_empty` tests, as a predicate on the state: the tail block and its predecessor have no claimed slot -/
def EmptyP (s : Sys) : Prop :=
  ∀ b, s.tail = some b → (getBlock s b).write = 0 ∧ ∀ n, (getBlock s b).next = some n → (getBlock s n).write = 0

theorem eLen_true (s : Sys) (t : Thread) (b : Nat) (hpc : t.pc = .eLen b) :
    ∃ e, stepThread s t = (s, t.advance (.empty e)) ∧
      (e = true → (getBlock s b).write = 0 ∧ ∀ n, (getBlock s b).next = some n → (getBlock s n).write = 0) := by
  unfold stepThread
  rw [hpc]
  simp only
  refine ⟨_, rfl, ?_⟩
  intro he
  simp only [Bool.and_eq_true, beq_iff_eq] at he
  refine ⟨he.1, fun n hn => ?_⟩
  have h2 := he.2
  rw [hn] at h2
  simpa using h2

theorem chainData_none (s : Sys) (fuel : Nat) : chainData s fuel none = [] := by cases fuel <;> rfl

/-- in a reachable state (`LWInv`: a block that is linked below another one has had a slot claimed) in which the tail
    block and its predecessor are unclaimed, a snapshot sees nothing -/
theorem visible_nil_of_empty (s : Sys) (hw : LWInv s) (he : EmptyP s) : visible s = [] := by
  unfold visible
  cases ht : s.tail with
  | none => exact chainData_none s _
  | some b =>
    obtain ⟨hwr, hnx⟩ := he b ht
    have hlen := hw.base.tail_valid b ht
    have hlt : b < s.blocks.length := by omega
    have hb : s.blocks[b]? = some s.blocks[b] := List.getElem?_eq_getElem hlt
    have hcl := hw.base.cells_len b _ hb
    rw [← getBlock_eq hb] at hcl
    rw [hwr] at hcl
    have hcells : (getBlock s b).cells = [] := by
      apply List.eq_nil_of_length_eq_zero
      rw [hcl]; omega
    have hdata : (getBlock s b).data = [] := by simp [Block.data, hcells]
    rw [← hlen]
    simp only [chainData, hdata, List.nil_append]
    cases hn : (getBlock s b).next with
    | none => exact chainData_none s _
    | some n =>
      exfalso
      have h0 := hnx n hn
      have hl : nextAt s.blocks b = some (some n) := by rw [nextAt_getBlock hlt, hn]
      have := hw.link b n hl
      omega

end MetricsVerif.Bucket

namespace MetricsVerif.StatsdHist
open MetricsVerif.Bucket

theorem clearedOf_flatten_vals (rs : List Res) : (clearedOf rs).flatten = rs.flatMap clearedVals := by
  induction rs with
  | nil => rfl
  | cons r rest ih =>
    cases r <;> simp [clearedOf, clearedVals, List.flatMap_cons] at ih ⊢ <;> exact ih

theorem emptyAnswers_append (a b : List Res) : emptyAnswers (a ++ b) = emptyAnswers a ++ emptyAnswers b := by
  induction a with
  | nil => rfl
  | cons r rest ih => cases r <;> simp [emptyAnswers, ih]

/-- recorders + ONE flusher: what the bucket's clears delivered is what the flusher sent -/
theorem delivered_eq_sentAll (s : Sys) (f : Nat) (h : ∀ i, i ≠ f → NoClrAt s i) : delivered s = sentAll s f := by
  rw [delivered_eq_of_single_clearer s f h]
  unfold sentAll flusherResults
  cases s.threads[f]? with
  | none => rfl
  | some t => simp only [atOr]; rw [clearedOf_flatten_vals]

theorem recCalls_noclear (vs : List Nat) : Call.clear ∉ recCalls vs := by
  intro h
  simp [recCalls] at h

theorem progsOf_noclr (B : Nat) (recs : List (List Nat)) (answers : List Bool) (i : Nat) (hi : i ≠ recs.length) :
    NoClrAt (init B (progsOf recs answers)) i := by
  apply init_noclr
  intro p hp
  unfold progsOf at hp
  by_cases hlt : i < recs.length
  · rw [List.getElem?_append_left (by simpa using hlt)] at hp
    simp only [List.getElem?_map] at hp
    cases hr : recs[i]? with
    | none => simp [hr] at hp
    | some vs =>
      simp only [hr, Option.map_some, Option.some.injEq] at hp
      subst hp
      exact recCalls_noclear vs
  · have : ((recs.map recCalls) ++ [flushCalls answers])[i]? = none := by
      apply List.getElem?_eq_none
      simp; omega
    rw [this] at hp; cases hp

/-! ### the final flush, run after every recorder has finished -/

def walkDone : PC → Bool
  | .cQuiesced _ | .cWait _ | .cRead _ | .cNext _ | .done => true
  | _ => false

/-- where the flusher can be during its last `State::flush` (`a` = what the flush program assumes `is_empty`
    answers), `r0` = its results before that flush -/
def FinalT (s : Sys) (r0 : List Res) (a : Bool) (t : Thread) : Prop :=
  (t.pc = .eLoadTail ∧ t.results = r0 ∧ t.calls = flushCalls [a])
  ∨ (∃ b, t.pc = .eLen b ∧ s.tail = some b ∧ t.results = r0 ∧ t.calls = flushCalls [a])
  ∨ (a = true ∧ t.pc = .done ∧ ∃ e, t.results = r0 ++ [.empty e] ∧ (e = true → EmptyP s))
  ∨ (t.pc = .cLoadTail ∧ t.calls = [.clear])
  ∨ (∃ b, t.pc = .cCas b ∧ s.tail = some b ∧ t.calls = [.clear])
  ∨ (s.tail = none ∧ walkDone t.pc = true ∧ (t.calls = [.clear] ∨ t.calls = []))

theorem FinalT.congr {s s' : Sys} {r0 : List Res} {a : Bool} {t : Thread} (h : FinalT s r0 a t)
    (h1 : s'.tail = s.tail) (h2 : s'.blocks = s.blocks) : FinalT s' r0 a t := by
  have he : EmptyP s → EmptyP s' := by
    intro hp
    unfold EmptyP getBlock at hp ⊢
    rw [h1, h2]; exact hp
  unfold FinalT at h ⊢
  rw [h1]
  rcases h with h | h | ⟨ha, hp, e, hr, hi⟩ | h | h | h
  · exact Or.inl h
  · exact Or.inr (Or.inl h)
  · exact Or.inr (Or.inr (Or.inl ⟨ha, hp, e, hr, fun x => he (hi x)⟩))
  · exact Or.inr (Or.inr (Or.inr (Or.inl h)))
  · exact Or.inr (Or.inr (Or.inr (Or.inr (Or.inl h))))
  · exact Or.inr (Or.inr (Or.inr (Or.inr (Or.inr h))))

theorem tail_startPC_nil (calls : List Call) (h : calls = [.clear] ∨ calls = []) : startPC calls.tail = .done := by
  rcases h with h | h <;> simp [h, startPC]

/-- one step of the flusher during the final flush -/
theorem final_own_step (s : Sys) (r0 : List Res) (a : Bool) (t : Thread) (h : FinalT s r0 a t) :
    (stepThread s t).1.blocks = s.blocks ∧ FinalT (stepThread s t).1 r0 a (stepThread s t).2 := by
  rcases h with ⟨hp, hr, hc⟩ | ⟨b, hp, htl, hr, hc⟩ | ⟨ha, hp, e, hr, hi⟩ | ⟨hp, hc⟩ | ⟨b, hp, htl, hc⟩ | ⟨htl, hw, hc⟩
  · -- is_empty: the tail load
    unfold stepThread
    rw [hp]
    simp only
    cases htl : s.tail with
    | none =>
      simp only
      refine ⟨by first | rfl | trivial, ?_⟩
      cases a with
      | true =>
        refine Or.inr (Or.inr (Or.inl ⟨by first | rfl | trivial, ?_, true, ?_, fun _ b hb => ?_⟩))
        · simp [Thread.advance, hc, flushCalls, startPC]
        · simp [Thread.advance, hr]
        · rw [htl] at hb; cases hb
      | false =>
        refine Or.inr (Or.inr (Or.inr (Or.inl ⟨?_, ?_⟩)))
        · simp [Thread.advance, hc, flushCalls, startPC, pcOfCall]
        · simp [Thread.advance, hc, flushCalls]
    | some b =>
      simp only
      exact ⟨by first | rfl | trivial, Or.inr (Or.inl ⟨b, rfl, htl, hr, hc⟩)⟩
  · -- is_empty: the decision
    obtain ⟨e, he, hem⟩ := eLen_true s t b hp
    rw [he]
    refine ⟨by first | rfl | trivial, ?_⟩
    cases a with
    | true =>
      refine Or.inr (Or.inr (Or.inl ⟨by first | rfl | trivial, ?_, e, ?_, fun x b' hb' => ?_⟩))
      · simp [Thread.advance, hc, flushCalls, startPC]
      · simp [Thread.advance, hr]
      · have : b' = b := by rw [htl] at hb'; exact (Option.some.inj hb').symm
        subst this
        exact hem x
    | false =>
      refine Or.inr (Or.inr (Or.inr (Or.inl ⟨?_, ?_⟩)))
      · simp [Thread.advance, hc, flushCalls, startPC, pcOfCall]
      · simp [Thread.advance, hc, flushCalls]
  · -- finished (skipped as empty)
    have : stepThread s t = (s, t) := by unfold stepThread; rw [hp]
    rw [this]
    exact ⟨by first | rfl | trivial, Or.inr (Or.inr (Or.inl ⟨ha, hp, e, hr, hi⟩))⟩
  · -- clear_with: the tail load
    unfold stepThread
    rw [hp]
    simp only
    cases htl : s.tail with
    | none =>
      simp only
      refine ⟨by first | rfl | trivial, Or.inr (Or.inr (Or.inr (Or.inr (Or.inr ⟨htl, ?_, Or.inr ?_⟩))))⟩
      · simp [Thread.advance, hc, startPC, walkDone]
      · simp [Thread.advance, hc]
    | some b =>
      simp only
      exact ⟨by first | rfl | trivial, Or.inr (Or.inr (Or.inr (Or.inr (Or.inl ⟨b, rfl, htl, hc⟩))))⟩
  · -- clear_with: the detach CAS (nobody else moves the tail any more: it succeeds)
    unfold stepThread
    rw [hp]
    simp only [htl, if_true]
    exact ⟨by first | rfl | trivial, Or.inr (Or.inr (Or.inr (Or.inr (Or.inr ⟨by first | rfl | trivial, rfl, Or.inl hc⟩))))⟩
  · -- walking the detached chain / finished
    have hd := tail_startPC_nil t.calls hc
    have hc' : t.calls.tail = [.clear] ∨ t.calls.tail = [] := by rcases hc with h | h <;> simp [h]
    have fin : ∀ (t' : Thread), walkDone t'.pc = true → (t'.calls = [.clear] ∨ t'.calls = []) →
        FinalT s r0 a t' := fun t' h1 h2 => Or.inr (Or.inr (Or.inr (Or.inr (Or.inr ⟨htl, h1, h2⟩))))
    unfold stepThread
    cases hp : t.pc with
    | cQuiesced blk => simp only; exact ⟨by first | rfl | trivial, fin _ (by simp only; split <;> rfl) hc⟩
    | cWait blk => simp only; exact ⟨by first | rfl | trivial, fin _ (by simp only; split <;> rfl) hc⟩
    | cRead blk => exact ⟨by first | rfl | trivial, fin _ rfl hc⟩
    | cNext blk =>
      simp only
      split
      · exact ⟨by first | rfl | trivial, fin _ (by simp [Thread.advance, hd, walkDone]) (by simp only [Thread.advance]; exact hc')⟩
      · exact ⟨by first | rfl | trivial, fin _ rfl hc⟩
    | done => exact ⟨by first | rfl | trivial, fin _ (by simp [hp, walkDone]) hc⟩
    | start => simp [hp, walkDone] at hw
    | pLoadTail => simp [hp, walkDone] at hw
    | pCasFirst => simp [hp, walkDone] at hw
    | pClaim _ _ => simp [hp, walkDone] at hw
    | pPublish _ _ => simp [hp, walkDone] at hw
    | pCasNew _ => simp [hp, walkDone] at hw
    | dLoadTail => simp [hp, walkDone] at hw
    | dQuiesced _ => simp [hp, walkDone] at hw
    | dWait _ => simp [hp, walkDone] at hw
    | dRead _ => simp [hp, walkDone] at hw
    | dNext _ => simp [hp, walkDone] at hw
    | cLoadTail => simp [hp, walkDone] at hw
    | cCas _ => simp [hp, walkDone] at hw
    | eLoadTail => simp [hp, walkDone] at hw
    | eLen _ => simp [hp, walkDone] at hw

structure FinalSys (s : Sys) (f : Nat) (r0 : List Res) (a : Bool) : Prop where
  others : ∀ i t, i ≠ f → s.threads[i]? = some t → t.pc = .done
  fl : ∃ t, s.threads[f]? = some t ∧ FinalT s r0 a t

theorem step_done (s : Sys) (tid : Nat) (t : Thread) (hg : s.threads[tid]? = some t) (hp : t.pc = .done) :
    step s tid = s := by
  have hst : stepThread s t = (s, t) := by unfold stepThread; rw [hp]
  rw [step_eq s tid t hg, hst]
  simp only [setAt_same _ _ _ hg]

theorem final_step (s : Sys) (f : Nat) (r0 : List Res) (a : Bool) (tid : Nat) (h : FinalSys s f r0 a) :
    FinalSys (step s tid) f r0 a := by
  cases hg : s.threads[tid]? with
  | none =>
    have : step s tid = s := by unfold step; rw [hg]
    rw [this]; exact h
  | some u =>
    by_cases hf : tid = f
    · subst hf
      obtain ⟨t, ht, hT⟩ := h.fl
      rw [hg] at ht; injection ht with ht; subst ht
      obtain ⟨hb, hT'⟩ := final_own_step s r0 a u hT
      have hthr := (step_threads s tid u hg).1
      have hst := step_eq s tid u hg
      refine ⟨?_, ?_⟩
      · intro i t hi hu
        rw [hthr] at hu
        rcases threads_after hg i t hu with ⟨e, _⟩ | ⟨_, hu'⟩
        · exact absurd e hi
        · exact h.others i t hi hu'
      · refine ⟨(stepThread s u).2, ?_, ?_⟩
        · rw [hthr, getElem?_setAt]; simp [lt_of_getElem?_some hg]
        · exact hT'.congr (by rw [hst]) (by rw [hst])
    · rw [step_done s tid u hg (h.others tid u hf hg)]; exact h

theorem final_run (f : Nat) (r0 : List Res) (a : Bool) (sched : List Nat) : ∀ s, FinalSys s f r0 a →
    FinalSys (run s sched) f r0 a := by
  induction sched with
  | nil => intro s h; exact h
  | cons t ts ih => intro s h; exact ih _ (final_step s f r0 a t h)

/-- **the final flush drains the histogram**: in a reachable state `s0` in which every thread but the flusher `f` has
    finished and the flusher is about to start a `State::flush` (`is_empty`, then `clear_with` unless the flush is
    skipped: `flushCalls [a]`), run any schedule `post` until the flusher has finished; if its `is_empty` answered what
    the flush acted on (`a`), nothing is reachable from the tail afterwards. -/
theorem final_flush_drains (s0 : Sys) (f : Nat) (a : Bool) (t0 t1 : Thread) (post : List Nat) (hlw : LWInv s0)
    (hoth : ∀ i t, i ≠ f → s0.threads[i]? = some t → t.pc = .done)
    (h0 : s0.threads[f]? = some t0) (hpc : t0.pc = .eLoadTail) (hcalls : t0.calls = flushCalls [a])
    (h1 : (run s0 post).threads[f]? = some t1) (hdone : t1.pc = .done)
    (hans : emptyAnswers t1.results = emptyAnswers t0.results ++ [a]) : visible (run s0 post) = [] := by
  have hfin := final_run f t0.results a post s0 ⟨hoth, t0, h0, Or.inl ⟨hpc, rfl, hcalls⟩⟩
  have hlw1 := lwrun post s0 hlw
  obtain ⟨t, ht, hT⟩ := hfin.fl
  rw [h1] at ht; injection ht with ht; subst ht
  rcases hT with ⟨hp, _⟩ | ⟨b, hp, _⟩ | ⟨ha, _, e, hr, hi⟩ | ⟨hp, _⟩ | ⟨b, hp, _⟩ | ⟨htl, _, _⟩
  · rw [hp] at hdone; cases hdone
  · rw [hp] at hdone; cases hdone
  · rw [hr, emptyAnswers_append] at hans
    have he : e = a := by
      have := List.append_cancel_left hans
      simpa [emptyAnswers] using this
    exact visible_nil_of_empty _ hlw1 (hi (by rw [he, ha]))
  · rw [hp] at hdone; cases hdone
  · rw [hp] at hdone; cases hdone
  · unfold visible; rw [htl]; exact chainData_none _ _

end MetricsVerif.StatsdHist
