/-
Helper lemmas for C06 (round 4):

* the lock-aware machine: what `clear()` has achieved when it returns — every shard its walk has passed holds only
  entries made after the call (`NewBelow`), kept by every step of every thread (`clearInv_lstep`);
* the two-hash registry (`Model/RegistryStore.lean`): entries are filed under `storeHash` (`StoredBy`), and when that
  hash differs from the lookup hash of every equal key no lookup ever hits.
-/
import MetricsVerif.Proofs.Registry
import MetricsVerif.Model.RegistryStore

namespace MetricsVerif.Registry

variable {K : Type}

/-- every kind has `mask + 1` shards -/
def Lens (r : Reg K) : Prop := ∀ kd, (r.get kd).length = r.mask + 1

theorem at_lt {r : Reg K} {kd : Kind} {i : Nat} {e : Entry K} (h : At r kd i e) : i < (r.get kd).length := by
  obtain ⟨sh, h1, _⟩ := h
  exact (List.getElem?_eq_some_iff.mp h1).1

/-! ### a relation for "one token of any thread": entries are old ones in place, or made now -/

structure Grows (r' r : Reg K) : Prop where
  mask : r'.mask = r.mask
  next : r.next ≤ r'.next
  len : ∀ kd, (r'.get kd).length = (r.get kd).length
  ent : ∀ kd (i : Nat) e, At r' kd i e → At r kd i e ∨ r.next ≤ e.id

theorem grows_refl (r : Reg K) : Grows r r := ⟨rfl, Nat.le_refl _, fun _ => rfl, fun _ _ _ h => Or.inl h⟩

theorem grows_of_sub {r' r : Reg K} (hs : Sub r' r) : Grows r' r := by
  refine ⟨hs.mask, hs.next, hs.len, ?_⟩
  intro kd i e ⟨sh', h1, h2⟩
  obtain ⟨sh, h3, h4⟩ := hs.sub kd i sh' h1
  exact Or.inl ⟨sh, h3, h4.subset h2⟩

theorem writeSection_grows (ko : KeyOps K) (r : Reg K) (hlen : Lens r) (kd : Kind) (k : K) :
    Grows (writeSection ko r kd k).1 r := by
  unfold writeSection
  simp only
  split
  · exact grows_refl r
  · refine ⟨by simp, by simp, ?_, ?_⟩
    · intro kd'
      simp only [bump_get, Reg.setShard, get_set]
      split
      · next hk => subst hk; rw [setAt_length]
      · rfl
    · intro kd' i e h
      rw [at_bump] at h
      rcases at_setShard _ _ _ _ _ _ _ h with ⟨h1, h2, h3⟩ | h
      · rcases List.mem_append.mp h3 with h3 | h3
        · subst h1; subst h2
          exact Or.inl (at_shard r kd' _ (hlen kd') h3)
        · have : e = ⟨k, ko.hash k, r.next⟩ := by simpa using h3
          subst this
          exact Or.inr (Nat.le_refl _)
      · exact Or.inl h

theorem lstepThread_grows {ko : KeyOps K} (r : Reg K) (hlen : Lens r) (others : List Lock) (t : LThread K) :
    Grows (lstepThread ko r others t).1 r := by
  unfold lstepThread
  repeat' split
  all_goals first
    | exact grows_refl r
    | exact writeSection_grows ko r hlen _ _
    | exact grows_of_sub (delete_sub ko r _ _ (hlen _))
    | exact grows_of_sub (sweepRun_sub _ _ _ _ _ _ _ _)

/-! ### the walk of `clear` -/

def Kind.rank : Kind → Nat
  | .counter => 0
  | .gauge => 1
  | .histogram => 2

/-- position of shard `(kd, idx)` in the order in which `clear` takes the shard locks: all counter shards, then all
    gauge shards, then all histogram shards, by index -/
def walkPos (r : Reg K) (kd : Kind) (idx : Nat) : Nat := kd.rank * (r.mask + 1) + idx

/-- every entry in a shard at a walk position below `p` was made by the storage factory at or after its `n0`-th call -/
def NewBelow (n0 : Nat) (r : Reg K) (p : Nat) : Prop :=
  ∀ kd (i : Nat) e, At r kd i e → walkPos r kd i < p → n0 ≤ e.id

theorem newBelow_grows {n0 : Nat} {r r' : Reg K} {p : Nat} (h : NewBelow n0 r p) (g : Grows r' r) (hn : n0 ≤ r.next) :
    NewBelow n0 r' p := by
  intro kd i e hat hlt
  rcases g.ent kd i e hat with h1 | h1
  · refine h kd i e h1 ?_
    simpa [walkPos, g.mask] using hlt
  · omega

theorem at_setIdx_nil (r : Reg K) (kd kd' : Kind) (idx i : Nat) (e : Entry K)
    (hat : At (r.setIdx kd idx []) kd' i e) : At r kd' i e ∧ ¬ (kd' = kd ∧ i = idx) := by
  obtain ⟨sh, h1, h2⟩ := hat
  simp only [Reg.setIdx, get_set] at h1
  by_cases hk : kd' = kd
  · subst hk
    rw [if_pos rfl, getElem?_setAt] at h1
    by_cases hc : idx = i ∧ i < (r.get kd').length
    · rw [if_pos hc] at h1
      injection h1 with h1
      subst h1
      cases h2
    · rw [if_neg hc] at h1
      refine ⟨⟨sh, h1, h2⟩, ?_⟩
      rintro ⟨_, rfl⟩
      exact hc ⟨rfl, (List.getElem?_eq_some_iff.mp h1).1⟩
  · rw [if_neg hk] at h1
    exact ⟨⟨sh, h1, h2⟩, fun c => hk c.1⟩

theorem setIdx_lens (r : Reg K) (hlen : Lens r) (kd : Kind) (idx : Nat) (sh : Shard K) : Lens (r.setIdx kd idx sh) := by
  intro kd'
  simp only [Reg.setIdx, get_set, set_mask]
  split
  · next hk => subst hk; rw [setAt_length]; exact hlen kd'
  · exact hlen kd'

/-- two shards at the same walk position are the same shard -/
theorem walkPos_inj (r : Reg K) {kd kd' : Kind} {i idx : Nat} (hi : i < r.mask + 1) (hidx : idx < r.mask + 1)
    (h : walkPos r kd' i = walkPos r kd idx) : kd' = kd ∧ i = idx := by
  unfold walkPos at h
  cases kd <;> cases kd' <;> simp only [Kind.rank] at h <;> first | (refine ⟨rfl, ?_⟩; omega) | (exfalso; omega)

/-- emptying the shard at the walk's position moves the "only new entries" frontier one shard on -/
theorem newBelow_clear_slot {n0 : Nat} (r : Reg K) (hlen : Lens r) (kd : Kind) (idx : Nat) (hidx : idx < r.mask + 1)
    (h : NewBelow n0 r (walkPos r kd idx)) : NewBelow n0 (r.setIdx kd idx []) (walkPos r kd idx + 1) := by
  intro kd' i e hat hlt
  obtain ⟨hat', hne⟩ := at_setIdx_nil r kd kd' idx i e hat
  have hi : i < r.mask + 1 := by rw [← hlen kd']; exact at_lt hat'
  have hw : walkPos (r.setIdx kd idx []) kd' i = walkPos r kd' i := by simp [walkPos, Reg.setIdx]
  rw [hw] at hlt
  by_cases hc : walkPos r kd' i < walkPos r kd idx
  · exact h kd' i e hat' hc
  · exact absurd (walkPos_inj r hi hidx (by omega)) hne

/-- where a run of `clear`'s sections may stop, and what holds there -/
def StopOK (n0 : Nat) (r' : Reg K) : SweepStop → Prop
  | .waiting kd idx => idx < r'.mask + 1 ∧ NewBelow n0 r' (walkPos r' kd idx)
  | .parked _ _ => False
  | .finished => NewBelow n0 r' (3 * (r'.mask + 1))

theorem setIdx_walkPos (r : Reg K) (kd kd' : Kind) (idx i : Nat) (sh : Shard K) :
    walkPos (r.setIdx kd idx sh) kd' i = walkPos r kd' i := by simp [walkPos, Reg.setIdx]

/-- **the sections of `clear`**: started at a shard below which everything is new, a run of sections stops — waiting
    for a held lock or at the end — at a shard below which everything is new; at the end that is the whole registry.
    (Whatever the fuel: a run that is cut short simply waits where it is.) -/
theorem sweepRun_clear (n0 : Nat) (others : List Lock) (fuel : Nat) :
    ∀ (r : Reg K) (acc : List (K × Nat)) (kd : Kind) (idx : Nat), Lens r → idx < r.mask + 1 →
      NewBelow n0 r (walkPos r kd idx) →
      StopOK n0 (sweepRun (LCall.clear : LCall K) false others fuel r acc kd idx).1
        (sweepRun (LCall.clear : LCall K) false others fuel r acc kd idx).2.2 := by
  induction fuel with
  | zero => intro r acc kd idx _ hidx h; exact ⟨hidx, h⟩
  | succ n ih =>
    intro r acc kd idx hlen hidx h
    unfold sweepRun
    split
    · exact ⟨hidx, h⟩
    · simp only [Bool.false_and, Bool.false_eq_true, if_false]
      have hsec : (sweepSection (LCall.clear : LCall K) r kd idx ((r.get kd).getD idx []) acc) = (r.setIdx kd idx [], acc) := rfl
      rw [hsec]
      simp only
      have hstep := newBelow_clear_slot r hlen kd idx hidx h
      have hlen' := setIdx_lens r hlen kd idx []
      have hmask : (r.setIdx kd idx []).mask = r.mask := by simp [Reg.setIdx]
      split
      · next hns =>
        -- no next slot: the histogram shards are done
        show NewBelow n0 (r.setIdx kd idx []) (3 * ((r.setIdx kd idx []).mask + 1))
        rw [hmask]
        have hp : walkPos r kd idx + 1 = 3 * (r.mask + 1) := by
          unfold nextSlot at hns
          simp only [LCall.sweepAll] at hns
          split at hns
          · cases hns
          · cases kd <;> simp at hns
            simp only [walkPos, Kind.rank]; omega
        rw [← hp]; exact hstep
      · next kd' idx' hns =>
        have hp : idx' < r.mask + 1 ∧ walkPos r kd' idx' = walkPos r kd idx + 1 := by
          unfold nextSlot at hns
          simp only [LCall.sweepAll] at hns
          split at hns
          · next hlt =>
            injection hns with hns
            injection hns with h1 h2
            subst h1; subst h2
            exact ⟨hlt, by simp [walkPos]; omega⟩
          · cases kd <;> simp at hns
            · obtain ⟨h1, h2⟩ := hns; subst h1; subst h2
              exact ⟨by omega, by simp only [walkPos, Kind.rank]; omega⟩
            · obtain ⟨h1, h2⟩ := hns; subst h1; subst h2
              exact ⟨by omega, by simp only [walkPos, Kind.rank]; omega⟩
        have := ih (r.setIdx kd idx []) acc kd' idx' hlen' (by rw [hmask]; exact hp.1)
          (by rw [setIdx_walkPos, hp.2]; exact hstep)
        exact this

/-! ### the invariant of a `clear()` call in flight -/

theorem advance_calls (t : LThread K) (x : LRes K) : (t.advance x).calls = t.calls.tail := rfl

theorem afterSweep_calls_le (c : LCall K) (t : LThread K) (out : Reg K × List (K × Nat) × SweepStop) :
    (afterSweep c t out).calls.length ≤ t.calls.length := by
  unfold afterSweep
  split <;> simp [advance_calls]

theorem lstepThread_calls_le {ko : KeyOps K} (r : Reg K) (others : List Lock) (t : LThread K) :
    (lstepThread ko r others t).2.calls.length ≤ t.calls.length := by
  unfold lstepThread
  repeat' split
  all_goals first
    | exact Nat.le_refl _
    | (simp [advance_calls]; done)
    | exact afterSweep_calls_le _ _ _
    | exact Nat.le_trans (afterSweep_calls_le _ _ _) (Nat.le_refl _)

/-- thread `tid` called `clear()` when the storage factory had made `n0` storages; `rest` are its calls after it.
    Either the call has returned and no entry older than the call is left anywhere, or the thread stands before
    shard `(kd, idx)` of its walk and none is left in the shards before that one. -/
structure ClearInv (ko : KeyOps K) (n0 : Nat) (rest : List (LCall K)) (tid : Nat) (s : LSys K) : Prop where
  lens : Lens s.reg
  le : n0 ≤ s.reg.next
  thr : ∃ t, s.threads[tid]? = some t ∧
    ((t.calls.length ≤ rest.length ∧ NewBelow n0 s.reg (3 * (s.reg.mask + 1))) ∨
     (t.calls = LCall.clear :: rest ∧ ∃ kd idx, t.pc = .sweep kd idx ∧ idx < s.reg.mask + 1 ∧
        NewBelow n0 s.reg (walkPos s.reg kd idx)))

theorem lstepThread_clear {ko : KeyOps K} (r : Reg K) (others : List Lock) (t : LThread K) (rest : List (LCall K))
    (kd : Kind) (idx : Nat) (hc : t.calls = LCall.clear :: rest) (hpc : t.pc = .sweep kd idx) :
    lstepThread ko r others t
      = ((sweepRun (LCall.clear : LCall K) false others (sweepFuel r) r t.acc kd idx).1,
         afterSweep LCall.clear t (sweepRun (LCall.clear : LCall K) false others (sweepFuel r) r t.acc kd idx)) := by
  unfold lstepThread
  rw [hpc, hc]
  simp [isSweep, LCall.sweepHold]

theorem clearInv_lstep {ko : KeyOps K} {n0 : Nat} {rest : List (LCall K)} {tid : Nat} {s : LSys K}
    (h : ClearInv ko n0 rest tid s) (tid' : Nat) : ClearInv ko n0 rest tid (lstep ko s tid') := by
  unfold lstep
  split
  · exact h
  · next t' ht' =>
    have hlen : Lens s.reg := h.lens
    have g := lstepThread_grows (ko := ko) s.reg hlen (otherLocks s.threads tid') t'
    have hlen' : Lens (lstepThread ko s.reg (otherLocks s.threads tid') t').1 := by
      intro kd; rw [g.len, g.mask]; exact hlen kd
    refine ⟨hlen', Nat.le_trans h.le g.next, ?_⟩
    obtain ⟨t, ht, hcase⟩ := h.thr
    by_cases htid : tid' = tid
    · subst htid
      have htt : t' = t := by rw [ht'] at ht; exact Option.some.inj ht
      subst htt
      have hlt : tid' < s.threads.length := (List.getElem?_eq_some_iff.mp ht').1
      refine ⟨_, by rw [getElem?_setAt, if_pos ⟨rfl, hlt⟩], ?_⟩
      rcases hcase with ⟨hdone, hnb⟩ | ⟨hc, kd, idx, hpc, hidx, hnb⟩
      · left
        refine ⟨Nat.le_trans (lstepThread_calls_le _ _ _) hdone, ?_⟩
        rw [g.mask]; exact newBelow_grows hnb g h.le
      · rw [lstepThread_clear s.reg _ t' rest kd idx hc hpc]
        have hstop := sweepRun_clear n0 (otherLocks s.threads tid') (sweepFuel s.reg) s.reg t'.acc kd idx hlen hidx hnb
        simp only
        generalize sweepRun (LCall.clear : LCall K) false (otherLocks s.threads tid') (sweepFuel s.reg) s.reg t'.acc kd idx = out at hstop ⊢
        obtain ⟨r', acc', stop⟩ := out
        cases stop with
        | waiting kd' idx' =>
          right
          exact ⟨hc, kd', idx', rfl, hstop.1, hstop.2⟩
        | parked kd' idx' => exact absurd hstop (by simp [StopOK])
        | finished =>
          left
          refine ⟨?_, hstop⟩
          simp [afterSweep, advance_calls, hc]
    · have hne : ¬ (tid' = tid ∧ tid < s.threads.length) := fun c => htid c.1
      refine ⟨t, by rw [getElem?_setAt, if_neg hne]; exact ht, ?_⟩
      rcases hcase with ⟨hdone, hnb⟩ | ⟨hc, kd, idx, hpc, hidx, hnb⟩
      · left
        refine ⟨hdone, ?_⟩
        rw [g.mask]; exact newBelow_grows hnb g h.le
      · right
        refine ⟨hc, kd, idx, hpc, by rw [g.mask]; exact hidx, ?_⟩
        have : walkPos (lstepThread ko s.reg (otherLocks s.threads tid') t').1 kd idx = walkPos s.reg kd idx := by
          simp [walkPos, g.mask]
        rw [this]; exact newBelow_grows hnb g h.le

theorem clearInv_lrun {ko : KeyOps K} {n0 : Nat} {rest : List (LCall K)} {tid : Nat} (sched : List Nat) :
    ∀ s : LSys K, ClearInv ko n0 rest tid s → ClearInv ko n0 rest tid (lrun ko s sched) := by
  induction sched with
  | nil => intro s h; exact h
  | cons t ts ih => intro s h; exact ih _ (clearInv_lstep h t)

theorem lstep_lens {ko : KeyOps K} (s : LSys K) (h : Lens s.reg) (tid : Nat) : Lens (lstep ko s tid).reg := by
  unfold lstep
  split
  · exact h
  · next t _ =>
    have g := lstepThread_grows (ko := ko) s.reg h (otherLocks s.threads tid) t
    intro kd; rw [g.len, g.mask]; exact h kd

theorem lrun_lens {ko : KeyOps K} (sched : List Nat) : ∀ s : LSys K, Lens s.reg → Lens (lrun ko s sched).reg := by
  induction sched with
  | nil => intro s h; exact h
  | cons t ts ih => intro s h; exact ih _ (lstep_lens s h t)

/-! ### the two-hash registry -/

/-- every entry is filed under the store hash of its key -/
def StoredBy (so : StoreOps K) (r : Reg K) : Prop := ∀ kd (i : Nat) e, At r kd i e → e.hash = so.storeHash e.key

theorem storedBy_sub {so : StoreOps K} {r r' : Reg K} (hs : Sub r' r) (h : StoredBy so r) : StoredBy so r' := by
  intro kd i e ⟨sh', h1, h2⟩
  obtain ⟨sh, h3, h4⟩ := hs.sub kd i sh' h1
  exact h kd i e ⟨sh, h3, h4.subset h2⟩

theorem lens_sub {r r' : Reg K} (hs : Sub r' r) (h : Lens r) : Lens r' := by
  intro kd; rw [hs.len, hs.mask]; exact h kd

theorem writeSectionS_keeps (so : StoreOps K) (r : Reg K) (hlen : Lens r) (hst : StoredBy so r) (kd : Kind) (k : K) :
    Lens (writeSectionS so r kd k).1 ∧ StoredBy so (writeSectionS so r kd k).1 := by
  unfold writeSectionS
  simp only
  split
  · exact ⟨hlen, hst⟩
  · refine ⟨?_, ?_⟩
    · intro kd'
      simp only [bump_get, bump_mask, Reg.setShard, get_set, set_mask]
      split
      · next hk => subst hk; rw [setAt_length]; exact hlen kd'
      · exact hlen kd'
    · intro kd' i e h
      rw [at_bump] at h
      rcases at_setShard _ _ _ _ _ _ _ h with ⟨h1, h2, h3⟩ | h
      · rcases List.mem_append.mp h3 with h3 | h3
        · subst h1; subst h2
          exact hst kd' _ e (at_shard r kd' _ (hlen kd') h3)
        · have : e = ⟨k, so.storeHash k, r.next⟩ := by simpa using h3
          subst this; rfl
      · exact hst kd' i e h

theorem getOrCreateS_keeps (so : StoreOps K) (r : Reg K) (hlen : Lens r) (hst : StoredBy so r) (kd : Kind) (k : K) :
    Lens (getOrCreateS so r kd k).1 ∧ StoredBy so (getOrCreateS so r kd k).1 := by
  unfold getOrCreateS
  split
  · exact ⟨hlen, hst⟩
  · exact writeSectionS_keeps so r hlen hst kd k

theorem stepS_keeps (so : StoreOps K) (r : Reg K) (hlen : Lens r) (hst : StoredBy so r) (op : Op K) :
    Lens (stepS so r op).1 ∧ StoredBy so (stepS so r op).1 := by
  cases op with
  | goc kd k => exact getOrCreateS_keeps so r hlen hst kd k
  | get kd k => exact ⟨hlen, hst⟩
  | delete kd k =>
    have hs := delete_sub so.ko r kd k (hlen kd)
    exact ⟨lens_sub hs hlen, storedBy_sub hs hst⟩
  | retain kd f =>
    have hs := retain_sub r kd f
    exact ⟨lens_sub hs hlen, storedBy_sub hs hst⟩
  | clear =>
    have hs := clear_sub r
    exact ⟨lens_sub hs hlen, storedBy_sub hs hst⟩
  | visit kd => exact ⟨hlen, hst⟩
  | handles kd => exact ⟨hlen, hst⟩

theorem new_lens (count : Nat) (hc : 0 < count) : Lens (Reg.new count : Reg K) := by
  intro kd
  cases kd <;> simp [Reg.new, Reg.get] <;> omega

theorem new_storedBy (so : StoreOps K) (count : Nat) : StoredBy so (Reg.new count : Reg K) := by
  intro kd i e ⟨sh, h1, h2⟩
  have hget : (Reg.new count : Reg K).get kd = List.replicate count [] := by cases kd <;> rfl
  rw [hget, List.getElem?_replicate] at h1
  split at h1
  · injection h1 with h1; subst h1; cases h2
  · cases h1

/-- the store hash of a key is never the lookup hash of an equal key (two unrelated hash functions; the harness'
    `FlipHasher` makes it certain: the top bit differs) -/
def Split (so : StoreOps K) : Prop := ∀ k k', so.ko.eqv k k' = true → so.storeHash k' ≠ so.ko.hash k

/-- with split hashes no lookup ever finds anything: every entry sits under a hash no lookup of an equal key uses -/
theorem lookup_none_of_split {so : StoreOps K} (hsp : Split so) (r : Reg K) (hlen : Lens r) (hst : StoredBy so r)
    (kd : Kind) (k : K) : lookup so.ko (r.shard kd (so.ko.hash k)) (so.ko.hash k) k = none := by
  unfold lookup
  rw [List.find?_eq_none]
  intro e he
  have hh := hst kd _ e (at_shard r kd _ (hlen kd) he)
  cases hq : so.ko.eqv k e.key with
  | false => simp [hit, hq]
  | true =>
    have := hsp k e.key hq
    simp [hit, hq, hh, this]

end MetricsVerif.Registry
