/-
Helper lemmas for C12 (model: `Model/Recency.lean`): association lists with unique keys, the per-metric
"view" of the state and how every operation acts on it.
-/
import MetricsVerif.Model.Recency

namespace MetricsVerif.Recency

/-! ### association lists -/

section maps
variable {κ α : Type} [DecidableEq κ]

@[simp] theorem lookup_nil (k : κ) : lookup ([] : List (κ × α)) k = none := rfl

theorem lookup_erase (m : List (κ × α)) (k k' : κ) :
    lookup (erase m k) k' = if k' = k then none else lookup m k' := by
  induction m with
  | nil => simp [erase]
  | cons x xs ih =>
    obtain ⟨kx, ax⟩ := x
    simp only [erase] at ih ⊢
    by_cases hx : kx = k
    · subst hx
      simp only [List.filter, decide_true, Bool.not_true]
      rw [ih]
      by_cases h : k' = kx
      · simp [h]
      · have : ¬ kx = k' := fun e => h e.symm
        simp [h, lookup, this]
    · simp only [List.filter, hx, decide_false, Bool.not_false, lookup]
      rw [ih]
      by_cases h : kx = k'
      · subst h; simp [hx]
      · simp [h]

theorem lookup_insert (m : List (κ × α)) (k : κ) (a : α) (k' : κ) :
    lookup (insert m k a) k' = if k' = k then some a else lookup m k' := by
  simp only [insert, lookup, lookup_erase]
  by_cases h : k = k'
  · subst h; simp
  · have : ¬ k' = k := fun e => h e.symm
    simp [h, this]

/-- the keys of a map -/
def keys (m : List (κ × α)) : List κ := m.map (·.1)

theorem lookup_eq_none_of_not_mem (m : List (κ × α)) (k : κ) (h : k ∉ keys m) : lookup m k = none := by
  induction m with
  | nil => rfl
  | cons x xs ih =>
    obtain ⟨kx, ax⟩ := x
    simp only [keys, List.map_cons, List.mem_cons, not_or] at h
    have : ¬ kx = k := fun e => h.1 e.symm
    simp only [lookup, this, if_false]
    exact ih h.2

theorem mem_keys_of_lookup (m : List (κ × α)) (k : κ) (a : α) (h : lookup m k = some a) : (k, a) ∈ m := by
  induction m with
  | nil => simp at h
  | cons x xs ih =>
    obtain ⟨kx, ax⟩ := x
    simp only [lookup] at h
    by_cases e : kx = k
    · subst e
      simp only [if_true, Option.some.injEq] at h
      subst h
      exact List.mem_cons_self
    · simp only [e, if_false] at h
      exact List.mem_cons_of_mem _ (ih h)

theorem lookup_of_mem (m : List (κ × α)) (k : κ) (a : α) (hn : (keys m).Nodup) (h : (k, a) ∈ m) :
    lookup m k = some a := by
  induction m with
  | nil => simp at h
  | cons x xs ih =>
    obtain ⟨kx, ax⟩ := x
    simp only [keys, List.map_cons, List.nodup_cons] at hn
    simp only [List.mem_cons, Prod.mk.injEq] at h
    rcases h with ⟨e1, e2⟩ | h
    · subst e1 e2; simp [lookup]
    · have hk : k ∈ keys xs := List.mem_map.mpr ⟨(k, a), h, rfl⟩
      have : ¬ kx = k := fun e => hn.1 (e ▸ hk)
      simp only [lookup, this, if_false]
      exact ih hn.2 h

theorem keys_erase_sublist (m : List (κ × α)) (k : κ) : (keys (erase m k)).Sublist (keys m) := by
  simp only [keys, erase]
  exact List.Sublist.map _ List.filter_sublist

theorem nodup_keys_erase (m : List (κ × α)) (k : κ) (h : (keys m).Nodup) : (keys (erase m k)).Nodup :=
  List.Nodup.sublist (keys_erase_sublist m k) h

theorem not_mem_keys_erase (m : List (κ × α)) (k : κ) : k ∉ keys (erase m k) := by
  simp only [keys, erase, List.mem_map, List.mem_filter]
  rintro ⟨x, ⟨_, hx⟩, rfl⟩
  simp at hx

theorem nodup_keys_insert (m : List (κ × α)) (k : κ) (a : α) (h : (keys m).Nodup) :
    (keys (insert m k a)).Nodup := by
  simp only [insert, keys, List.map_cons, List.nodup_cons]
  exact ⟨not_mem_keys_erase m k, nodup_keys_erase m k h⟩

end maps

/-! ### the per-metric view -/

/-- what the state knows about one metric: its registry entry and its `Recency` entry -/
abbrev View := Option Metric × Option (Nat × Nat)

def view (s : St) (i : Id) : View := (lookup s.metrics i, lookup s.entries (slotOf s.cfg i.1 i.2))

/-- `should_store` as a function of the view of the metric it is asked about -/
def stepView (cfg : Cfg) (k : Kind) (now : Nat) (v : View) (g : Nat) : View :=
  match cfg.timeout with
  | none => v
  | some timeout =>
    if maskMatches cfg.mask k then
      match v.2 with
      | some (lastGen, lastUpdate) =>
        if lastGen = g then
          if timeout < now - lastUpdate then
            if v.1.isSome then (none, none) else v
          else v
        else (v.1, some (g, now))
      | none => (v.1, some (g, now))
    else v

/-- the case analysis of `should_store`, once and for all -/
theorem shouldStore_cases (s : St) (k : Kind) (key : Key) (g : Nat) :
    (shouldStore s k key g = (s, true)) ∨
    (∃ T lu, s.cfg.timeout = some T ∧ maskMatches s.cfg.mask k = true ∧
        lookup s.entries (slotOf s.cfg k key) = some (g, lu) ∧ T < s.now - lu ∧
        (lookup s.metrics (k, key)).isSome = true ∧
        shouldStore s k key g = ({ s with metrics := erase s.metrics (k, key),
                                          entries := erase s.entries (slotOf s.cfg k key) }, false)) ∨
    (shouldStore s k key g = ({ s with entries := insert s.entries (slotOf s.cfg k key) (g, s.now) }, true)) := by
  unfold shouldStore deleteMetric
  cases h1 : s.cfg.timeout with
  | none => simp
  | some T =>
    cases h2 : maskMatches s.cfg.mask k with
    | false => simp
    | true =>
      cases h3 : lookup s.entries (slotOf s.cfg k key) with
      | none => simp
      | some e =>
        obtain ⟨lg, lu⟩ := e
        by_cases h4 : lg = g
        · by_cases h5 : T < s.now - lu
          · cases h6 : lookup s.metrics (k, key) with
            | none => simp [h4, h5]
            | some m =>
              subst h4
              refine Or.inr (Or.inl ⟨T, lu, rfl, rfl, rfl, h5, rfl, ?_⟩)
              simp [h5]
          · simp [h4, h5]
        · simp [h4]

theorem shouldStore_cfg (s : St) (k : Kind) (key : Key) (g : Nat) : (shouldStore s k key g).1.cfg = s.cfg := by
  rcases shouldStore_cases s k key g with h | ⟨_, _, _, _, _, _, _, h⟩ | h <;> rw [h]

theorem shouldStore_now (s : St) (k : Kind) (key : Key) (g : Nat) : (shouldStore s k key g).1.now = s.now := by
  rcases shouldStore_cases s k key g with h | ⟨_, _, _, _, _, _, _, h⟩ | h <;> rw [h]

@[simp] theorem visit_cfg (s : St) (e : Id × Metric) : (visit s e).cfg = s.cfg := shouldStore_cfg ..
@[simp] theorem visit_now (s : St) (e : Id × Metric) : (visit s e).now = s.now := shouldStore_now ..

theorem slotOf_inj (cfg : Cfg) (h : cfg.byKind = true) (i j : Id) :
    slotOf cfg i.1 i.2 = slotOf cfg j.1 j.2 ↔ i = j := by
  obtain ⟨ik, ikey⟩ := i
  obtain ⟨jk, jkey⟩ := j
  simp [slotOf, h]

/-- `should_store` acts on the view of its own metric as `stepView` -/
theorem view_visit_self (s : St) (i : Id) (m : Metric) :
    view (visit s (i, m)) i = stepView s.cfg i.1 s.now (view s i) m.gen := by
  obtain ⟨k, key⟩ := i
  simp only [view, visit, stepView, shouldStore, deleteMetric]
  cases h1 : s.cfg.timeout with
  | none => simp
  | some T =>
    cases h2 : maskMatches s.cfg.mask k with
    | false => simp
    | true =>
      cases h3 : lookup s.entries (slotOf s.cfg k key) with
      | none => simp [lookup_insert]
      | some e =>
        obtain ⟨lg, lu⟩ := e
        by_cases h4 : lg = m.gen
        · by_cases h5 : T < s.now - lu
          · by_cases h6 : (lookup s.metrics (k, key)).isSome = true
            · simp [h4, h5, h6, lookup_erase]
            · simp [h3, h4, h5, h6]
          · simp [h3, h4, h5]
        · simp [h4, lookup_insert]

/-- … and leaves the view of every other metric alone (this needs the per-kind slots of the repaired code) -/
theorem view_visit_other (s : St) (hk : s.cfg.byKind = true) (e : Id × Metric) (j : Id) (h : j ≠ e.1) :
    view (visit s e) j = view s j := by
  obtain ⟨⟨k, key⟩, m⟩ := e
  have hs : slotOf s.cfg j.1 j.2 ≠ slotOf s.cfg k key := fun e => h ((slotOf_inj s.cfg hk j (k, key)).mp e)
  have hj : j ≠ (k, key) := h
  simp only [view, visit]
  rcases shouldStore_cases s k key m.gen with h | ⟨_, _, _, _, _, _, _, h⟩ | h <;> rw [h] <;>
    simp [lookup_erase, lookup_insert, hs, hj]

/-! ### one observation, seen from one metric -/

/-- the registry has unique keys (it is a hash map) -/
def KeysNodup (s : St) : Prop := (keys s.metrics).Nodup

theorem nodup_visit (s : St) (e : Id × Metric) (h : KeysNodup s) : KeysNodup (visit s e) := by
  unfold KeysNodup visit at *
  rcases shouldStore_cases s e.1.1 e.1.2 e.2.gen with h' | ⟨_, _, _, _, _, _, _, h'⟩ | h' <;> rw [h']
  · exact h
  · exact nodup_keys_erase _ _ h
  · exact h

theorem foldl_visit_cfg (l : List (Id × Metric)) (s : St) : (l.foldl visit s).cfg = s.cfg := by
  induction l generalizing s with
  | nil => rfl
  | cons e es ih => simp [List.foldl_cons, ih]

theorem foldl_visit_now (l : List (Id × Metric)) (s : St) : (l.foldl visit s).now = s.now := by
  induction l generalizing s with
  | nil => rfl
  | cons e es ih => simp [List.foldl_cons, ih]

theorem nodup_foldl_visit (l : List (Id × Metric)) (s : St) (h : KeysNodup s) : KeysNodup (l.foldl visit s) := by
  induction l generalizing s with
  | nil => exact h
  | cons e es ih => exact ih _ (nodup_visit s e h)

theorem view_foldl_not_mem (l : List (Id × Metric)) (s : St) (hk : s.cfg.byKind = true) (j : Id)
    (h : j ∉ keys l) : view (l.foldl visit s) j = view s j := by
  induction l generalizing s with
  | nil => rfl
  | cons e es ih =>
    simp only [keys, List.map_cons, List.mem_cons, not_or] at h
    simp only [List.foldl_cons]
    rw [ih (visit s e) (by simpa using hk) h.2, view_visit_other s hk e j h.1]

theorem view_foldl_mem (l : List (Id × Metric)) (s : St) (hk : s.cfg.byKind = true) (hn : (keys l).Nodup)
    (i : Id) (m : Metric) (h : (i, m) ∈ l) :
    view (l.foldl visit s) i = stepView s.cfg i.1 s.now (view s i) m.gen := by
  induction l generalizing s with
  | nil => simp at h
  | cons e es ih =>
    simp only [keys, List.map_cons, List.nodup_cons] at hn
    simp only [List.foldl_cons]
    rcases List.mem_cons.mp h with rfl | h'
    · rw [view_foldl_not_mem es _ (by simpa using hk) i hn.1, view_visit_self]
    · have hne : i ≠ e.1 := by
        intro e'
        apply hn.1
        rw [← e']
        exact List.mem_map.mpr ⟨(i, m), h', rfl⟩
      rw [ih (visit s e) (by simpa using hk) hn.2 h', view_visit_other s hk e i hne]
      simp

theorem observeKind_cfg (s : St) (k : Kind) : (observeKind s k).cfg = s.cfg := foldl_visit_cfg ..
theorem observeKind_now (s : St) (k : Kind) : (observeKind s k).now = s.now := foldl_visit_now ..
theorem nodup_observeKind (s : St) (k : Kind) (h : KeysNodup s) : KeysNodup (observeKind s k) :=
  nodup_foldl_visit _ _ h

theorem observe_cfg (s : St) : (observe s).cfg = s.cfg := by simp [observe, observeKind_cfg]
theorem observe_now (s : St) : (observe s).now = s.now := by simp [observe, observeKind_now]
theorem nodup_observe (s : St) (h : KeysNodup s) : KeysNodup (observe s) :=
  nodup_observeKind _ _ (nodup_observeKind _ _ (nodup_observeKind _ _ h))

theorem mem_handles (s : St) (k : Kind) (e : Id × Metric) : e ∈ handles s k ↔ e ∈ s.metrics ∧ e.1.1 = k := by
  simp [handles, List.mem_filter]

theorem nodup_handles (s : St) (k : Kind) (h : KeysNodup s) : (keys (handles s k)).Nodup := by
  unfold KeysNodup keys handles at *
  exact List.Nodup.sublist (List.Sublist.map _ List.filter_sublist) h

/-- a loop over another kind does not touch the metric -/
theorem view_observeKind_other (s : St) (hk : s.cfg.byKind = true) (k : Kind) (i : Id) (h : i.1 ≠ k) :
    view (observeKind s k) i = view s i := by
  apply view_foldl_not_mem _ _ hk
  intro hm
  obtain ⟨e, he, rfl⟩ := List.mem_map.mp hm
  exact h ((mem_handles s k e).mp he).2

/-- what one observation does to a metric, as a function of its view -/
def obsView (cfg : Cfg) (k : Kind) (now : Nat) (v : View) : View :=
  match v.1 with
  | some m => stepView cfg k now v m.gen
  | none => v

/-- the loop over the metric's own kind -/
theorem view_observeKind_self (s : St) (hk : s.cfg.byKind = true) (hn : KeysNodup s) (i : Id) :
    view (observeKind s i.1) i = obsView s.cfg i.1 s.now (view s i) := by
  unfold obsView
  cases hm : lookup s.metrics i with
  | none =>
    have : (view s i).1 = none := hm
    simp only [this]
    apply view_foldl_not_mem _ _ hk
    intro hmem
    obtain ⟨e, he, rfl⟩ := List.mem_map.mp hmem
    have := lookup_of_mem s.metrics e.1 e.2 hn ((mem_handles s _ e).mp he).1
    rw [hm] at this
    cases this
  | some m =>
    have : (view s i).1 = some m := hm
    simp only [this]
    apply view_foldl_mem _ _ hk (nodup_handles s _ hn) i m
    exact (mem_handles s _ (i, m)).mpr ⟨mem_keys_of_lookup _ _ _ hm, rfl⟩

/-- **locality**: one observation acts on every metric through that metric's own view only -/
theorem view_observe (s : St) (hk : s.cfg.byKind = true) (hn : KeysNodup s) (i : Id) :
    view (observe s) i = obsView s.cfg i.1 s.now (view s i) := by
  obtain ⟨k, key⟩ := i
  have c1 := observeKind_cfg s .counter
  have c2 := observeKind_cfg (observeKind s .counter) .gauge
  have n1 := observeKind_now s .counter
  have n2 := observeKind_now (observeKind s .counter) .gauge
  have d1 := nodup_observeKind s .counter hn
  have d2 := nodup_observeKind _ .gauge d1
  unfold observe
  cases k with
  | counter =>
    rw [view_observeKind_other _ (by rw [c2, c1]; exact hk) .histogram _ (by simp),
        view_observeKind_other _ (by rw [c1]; exact hk) .gauge _ (by simp)]
    exact view_observeKind_self s hk hn (.counter, key)
  | gauge =>
    rw [view_observeKind_other _ (by rw [c2, c1]; exact hk) .histogram _ (by simp)]
    have := view_observeKind_self (observeKind s .counter) (by rw [c1]; exact hk) d1 (.gauge, key)
    rw [this, c1, n1, view_observeKind_other s hk .counter _ (by simp)]
  | histogram =>
    have := view_observeKind_self (observeKind (observeKind s .counter) .gauge) (by rw [c2, c1]; exact hk) d2
      (.histogram, key)
    rw [this, c2, c1, n2, n1, view_observeKind_other _ (by rw [c1]; exact hk) .gauge _ (by simp),
        view_observeKind_other s hk .counter _ (by simp)]

/-! ### every operation, seen from one metric -/

/-- the metric a `reg` / `upd` operation is aimed at -/
def Op.target : Op → Option Id
  | .reg k key => some (k, key)
  | .upd k key _ => some (k, key)
  | _ => none

/-- a freshly created metric: generation 0, value zero -/
def fresh (k : Kind) : Metric := ⟨0, Val.zero k⟩

/-- what an operation does to one metric's view -/
def opView (cfg : Cfg) (i : Id) (now : Nat) (v : View) : Op → View
  | .reg k key => if (k, key) = i then (some (v.1.getD (fresh i.1)), v.2) else v
  | .upd k key u =>
    if (k, key) = i then (some ⟨(v.1.getD (fresh i.1)).gen + 1, (v.1.getD (fresh i.1)).val.apply u⟩, v.2) else v
  | .adv _ => v
  | .observe => obsView cfg i.1 now v

/-- well-formed states: per-kind slots (the repaired code) and unique registry keys -/
def WF (s : St) : Prop := s.cfg.byKind = true ∧ KeysNodup s

theorem step_cfg (s : St) (op : Op) : (step s op).cfg = s.cfg := by
  cases op <;> simp [step, observe_cfg]

theorem step_now (s : St) (op : Op) : (step s op).now = (match op with | .adv n => s.now + n | _ => s.now) := by
  cases op <;> simp [step, observe_now]

theorem wf_step (s : St) (op : Op) (h : WF s) : WF (step s op) := by
  refine ⟨by rw [step_cfg]; exact h.1, ?_⟩
  cases op with
  | reg k key => exact nodup_keys_insert _ _ _ h.2
  | upd k key u => exact nodup_keys_insert _ _ _ h.2
  | adv n => exact h.2
  | observe => exact nodup_observe s h.2

theorem wf_init (cfg : Cfg) (h : cfg.byKind = true) : WF (init cfg) := by
  refine ⟨h, ?_⟩
  simp [KeysNodup, init, keys]

theorem wf_run (s : St) (ops : List Op) (h : WF s) : WF (run s ops) := by
  induction ops generalizing s with
  | nil => exact h
  | cons op ops ih => exact ih _ (wf_step s op h)

theorem run_cfg (s : St) (ops : List Op) : (run s ops).cfg = s.cfg := by
  induction ops generalizing s with
  | nil => rfl
  | cons op ops ih => simp only [run, List.foldl_cons] at ih ⊢; rw [ih, step_cfg]

theorem run_append (s : St) (a b : List Op) : run s (a ++ b) = run (run s a) b := by
  simp [run, List.foldl_append]

/-- **every operation acts on a metric through that metric's view only** -/
theorem view_step (s : St) (h : WF s) (op : Op) (i : Id) :
    view (step s op) i = opView s.cfg i s.now (view s i) op := by
  cases op with
  | reg k key =>
    simp only [view, step, opView, getOrCreate, lookup_insert, fresh]
    by_cases e : (k, key) = i
    · subst e; simp
    · have : ¬ i = (k, key) := fun x => e x.symm
      simp [e, this]
  | upd k key u =>
    simp only [view, step, opView, getOrCreate, lookup_insert, fresh]
    by_cases e : (k, key) = i
    · subst e; simp
    · have : ¬ i = (k, key) := fun x => e x.symm
      simp [e, this]
  | adv n => rfl
  | observe => exact view_observe s h.1 h.2 i

/-! ### the outcomes of one observation of a registered metric -/

/-- the idle timeout applies to the metric's kind -/
def Covered (cfg : Cfg) (k : Kind) (T : Nat) : Prop := cfg.timeout = some T ∧ maskMatches cfg.mask k = true

theorem obsView_no_timeout (cfg : Cfg) (k : Kind) (now : Nat) (v : View) (h : cfg.timeout = none) :
    obsView cfg k now v = v := by
  unfold obsView stepView; cases v.1 <;> simp [h]

theorem obsView_outside_mask (cfg : Cfg) (k : Kind) (now : Nat) (v : View) (h : maskMatches cfg.mask k = false) :
    obsView cfg k now v = v := by
  unfold obsView stepView; cases v.1 <;> cases cfg.timeout <;> simp [h]

theorem obsView_unregistered (cfg : Cfg) (k : Kind) (now : Nat) (e : Option (Nat × Nat)) :
    obsView cfg k now (none, e) = (none, e) := rfl

theorem obsView_first (cfg : Cfg) (k : Kind) (now T : Nat) (m : Metric) (h : Covered cfg k T) :
    obsView cfg k now (some m, none) = (some m, some (m.gen, now)) := by
  simp [obsView, stepView, h.1, h.2]

theorem obsView_changed (cfg : Cfg) (k : Kind) (now T : Nat) (m : Metric) (lg lu : Nat) (h : Covered cfg k T)
    (hg : lg ≠ m.gen) : obsView cfg k now (some m, some (lg, lu)) = (some m, some (m.gen, now)) := by
  simp [obsView, stepView, h.1, h.2, hg]

theorem obsView_expired (cfg : Cfg) (k : Kind) (now T : Nat) (m : Metric) (lu : Nat) (h : Covered cfg k T)
    (ht : T < now - lu) : obsView cfg k now (some m, some (m.gen, lu)) = (none, none) := by
  simp [obsView, stepView, h.1, h.2, ht]

theorem obsView_idle (cfg : Cfg) (k : Kind) (now T : Nat) (m : Metric) (lu : Nat) (h : Covered cfg k T)
    (ht : ¬ T < now - lu) : obsView cfg k now (some m, some (m.gen, lu)) = (some m, some (m.gen, lu)) := by
  simp [obsView, stepView, h.1, h.2, ht]

/-- the complete case analysis of one observation of a registered metric -/
theorem obsView_cases (cfg : Cfg) (k : Kind) (now : Nat) (m : Metric) (e : Option (Nat × Nat)) :
    (obsView cfg k now (some m, e) = (some m, e) ∧
        (cfg.timeout = none ∨ maskMatches cfg.mask k = false ∨
          ∃ T lu, Covered cfg k T ∧ e = some (m.gen, lu) ∧ ¬ T < now - lu)) ∨
    (obsView cfg k now (some m, e) = (some m, some (m.gen, now)) ∧
        ∃ T, Covered cfg k T ∧ (e = none ∨ ∃ lg lu, e = some (lg, lu) ∧ lg ≠ m.gen)) ∨
    (obsView cfg k now (some m, e) = (none, none) ∧
        ∃ T lu, Covered cfg k T ∧ e = some (m.gen, lu) ∧ T < now - lu) := by
  cases h1 : cfg.timeout with
  | none => exact Or.inl ⟨obsView_no_timeout _ _ _ _ h1, Or.inl rfl⟩
  | some T =>
    cases h2 : maskMatches cfg.mask k with
    | false => exact Or.inl ⟨obsView_outside_mask _ _ _ _ h2, Or.inr (Or.inl rfl)⟩
    | true =>
      have hc : Covered cfg k T := ⟨h1, h2⟩
      cases e with
      | none => exact Or.inr (Or.inl ⟨obsView_first _ _ _ _ _ hc, T, hc, Or.inl rfl⟩)
      | some e =>
        obtain ⟨lg, lu⟩ := e
        by_cases hg : lg = m.gen
        · subst hg
          by_cases ht : T < now - lu
          · exact Or.inr (Or.inr ⟨obsView_expired _ _ _ _ _ _ hc ht, T, lu, hc, rfl, ht⟩)
          · exact Or.inl ⟨obsView_idle _ _ _ _ _ _ hc ht, Or.inr (Or.inr ⟨T, lu, hc, rfl, ht⟩)⟩
        · exact Or.inr (Or.inl ⟨obsView_changed _ _ _ _ _ _ _ hc hg, T, hc, Or.inr ⟨lg, lu, rfl, hg⟩⟩)

/-! ### the extended histories (`XOp`), seen from one metric -/

/-- what an extended operation does to one metric's view: an outside delete / clear removes the metric and leaves
    the `Recency` entry where it is; a second observer's `should_store_*` acts on the view as `stepView` with
    the generation it was given -/
def xopView (cfg : Cfg) (i : Id) (now : Nat) (v : View) : XOp → View
  | .base op => opView cfg i now v op
  | .del k key => if (k, key) = i then (none, v.2) else v
  | .clear => (none, v.2)
  | .stale k key g => if (k, key) = i then stepView cfg i.1 now v g else v

theorem xstep_cfg (s : St) (x : XOp) : (xstep s x).cfg = s.cfg := by
  cases x <;> simp [xstep, step_cfg, shouldStore_cfg]

theorem xstep_now (s : St) (x : XOp) :
    (xstep s x).now = (match x with | .base (.adv n) => s.now + n | _ => s.now) := by
  cases x with
  | base op => cases op <;> simp [xstep, step_now]
  | del k key => rfl
  | clear => rfl
  | stale k key g => simp [xstep, shouldStore_now]

theorem stale_eq_visit (s : St) (k : Kind) (key : Key) (g : Nat) :
    (shouldStore s k key g).1 = visit s ((k, key), ⟨g, Val.zero k⟩) := rfl

theorem wf_xstep (s : St) (x : XOp) (h : WF s) : WF (xstep s x) := by
  refine ⟨by rw [xstep_cfg]; exact h.1, ?_⟩
  cases x with
  | base op => exact (wf_step s op h).2
  | del k key => exact nodup_keys_erase _ _ h.2
  | clear => simp [xstep, KeysNodup, keys]
  | stale k key g =>
    show KeysNodup (shouldStore s k key g).1
    rw [stale_eq_visit]; exact nodup_visit s _ h.2

theorem wf_xrun (s : St) (xs : List XOp) (h : WF s) : WF (xrun s xs) := by
  induction xs generalizing s with
  | nil => exact h
  | cons x xs ih => exact ih _ (wf_xstep s x h)

theorem xrun_cfg (s : St) (xs : List XOp) : (xrun s xs).cfg = s.cfg := by
  induction xs generalizing s with
  | nil => rfl
  | cons x xs ih => simp only [xrun, List.foldl_cons] at ih ⊢; rw [ih, xstep_cfg]

theorem xrun_append (s : St) (a b : List XOp) : xrun s (a ++ b) = xrun (xrun s a) b := by
  simp [xrun, List.foldl_append]

/-- **every extended operation acts on a metric through that metric's view only** -/
theorem view_xstep (s : St) (h : WF s) (x : XOp) (i : Id) :
    view (xstep s x) i = xopView s.cfg i s.now (view s i) x := by
  cases x with
  | base op => exact view_step s h op i
  | del k key =>
    simp only [view, xstep, xopView, deleteMetric, lookup_erase]
    by_cases e : (k, key) = i
    · subst e; simp
    · have : ¬ i = (k, key) := fun x => e x.symm
      simp [e, this]
  | clear => simp [view, xstep, xopView]
  | stale k key g =>
    show view (shouldStore s k key g).1 i = _
    rw [stale_eq_visit]
    by_cases e : (k, key) = i
    · subst e
      simp only [xopView, if_true]
      exact view_visit_self s (k, key) ⟨g, Val.zero k⟩
    · simp only [xopView, e, if_false]
      exact view_visit_other s h.1 _ i (fun x => e x.symm)

theorem strip_append (a b : List XOp) : strip (a ++ b) = strip a ++ strip b := by
  induction a with
  | nil => rfl
  | cons x xs ih => cases x <;> simp [strip, ih]

theorem mem_strip (op : Op) (xs : List XOp) : op ∈ strip xs ↔ XOp.base op ∈ xs := by
  induction xs with
  | nil => simp [strip]
  | cons x xs ih => cases x <;> simp [strip, ih]

end MetricsVerif.Recency
