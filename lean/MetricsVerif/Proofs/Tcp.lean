import MetricsVerif.Model.Tcp

/-
Helper lemmas for C11 (model: `Model/Tcp.lean`).  Property statements live in `Props/C11.lean`.
-/
namespace MetricsVerif.Tcp

theorem flat_append (a b : List Frame) : flat (a ++ b) = flat a ++ flat b := by
  induction a with
  | nil => simp [flat]
  | cons f fs ih => simp [flat, ih, List.append_assoc]

theorem flat_singleton (f : Frame) : flat [f] = f.bytes := by simp [flat]

/-! ### per-client predicates -/

/-- `rem` is nothing, or the tail of the last frame that was started -/
def TailOfLast (rem : List UInt8) (started : List Frame) : Prop :=
  rem = [] ∨ ∃ pre f p, started = pre ++ [f] ∧ p ++ rem = f.bytes

/-- what the socket accepted, followed by what is parked in `wbuf`, is exactly the frames started so far -/
def FramedW (cl : Client) : Prop :=
  cl.received ++ cl.wbuf.getD [] = flat cl.started ∧ TailOfLast (cl.wbuf.getD []) cl.started

/-- what the socket accepted is the frames started so far minus (at most) a tail of the last one -/
def FramedAny (cl : Client) : Prop :=
  ∃ rem, cl.received ++ rem = flat cl.started ∧ TailOfLast rem cl.started

/-- the queue is a suffix of everything ever enqueued; what was started is, in order, part of the rest -/
def Ordered (cl : Client) : Prop :=
  ∃ pre, cl.sent = pre ++ cl.msgs ∧ cl.started.Sublist pre

/-- as long as nothing was discarded, every enqueued frame has been started or is still queued -/
def NoLoss (cl : Client) : Prop :=
  cl.dropped = 0 → cl.sent = cl.started ++ cl.msgs

theorem FramedW.any {cl : Client} (h : FramedW cl) : FramedAny cl := ⟨_, h.1, h.2⟩

theorem takeBuf_some {cl cl' : Client} {buf : List UInt8} (h : takeBuf cl = some (buf, cl')) :
    (cl.wbuf = some buf ∧ cl' = { cl with wbuf := none }) ∨
    (cl.wbuf = none ∧ ∃ f rest, cl.msgs = f :: rest ∧ buf = f.bytes ∧
      cl' = { cl with msgs := rest, started := cl.started ++ [f] }) := by
  unfold takeBuf at h
  cases hw : cl.wbuf with
  | some b =>
    simp [hw] at h
    left
    exact ⟨by rw [h.1], h.2.symm⟩
  | none =>
    right
    cases hm : cl.msgs with
    | nil => simp [hw, hm] at h
    | cons f rest =>
      simp [hw, hm] at h
      exact ⟨rfl, f, rest, rfl, h.1.symm, h.2.symm⟩

/-- the buffer taken out of `wbuf`/`msgs`, not yet handed back -/
def InHand (buf : List UInt8) (cl : Client) : Prop :=
  cl.wbuf = none ∧ cl.received ++ buf = flat cl.started ∧ TailOfLast buf cl.started

theorem takeBuf_inHand {cl cl' : Client} {buf : List UInt8} (hF : FramedW cl)
    (h : takeBuf cl = some (buf, cl')) : InHand buf cl' := by
  rcases takeBuf_some h with ⟨hw, rfl⟩ | ⟨hw, f, rest, hm, rfl, rfl⟩
  · obtain ⟨h1, h2⟩ := hF
    simp [hw] at h1 h2
    exact ⟨rfl, h1, h2⟩
  · obtain ⟨h1, _⟩ := hF
    simp [hw] at h1
    refine ⟨hw, ?_, Or.inr ⟨cl.started, f, [], rfl, by simp⟩⟩
    simp [flat_append, flat_singleton, h1]

/-! ### one generic induction over `drive` -/

theorem drive_preserves {P Q : Client → Prop} {H : List UInt8 → Client → Prop} (fx : Fixes)
    (hfx : fx.block = true)
    (ht : ∀ cl buf cl', P cl → takeBuf cl = some (buf, cl') → H buf cl')
    (hb : ∀ buf cl', H buf cl' → P { cl' with wbuf := some buf })
    (hp : ∀ buf cl' n, H buf cl' → n < buf.length →
      P { cl' with wbuf := some (buf.drop n), received := cl'.received ++ buf.take n })
    (hf : ∀ buf cl', H buf cl' → P { cl' with received := cl'.received ++ buf })
    (hd : ∀ buf cl', H buf cl' → Q cl')
    (hq : ∀ cl, P cl → Q cl) :
    ∀ rs cl, P cl → ((drive fx cl rs).done = false → P (drive fx cl rs).cl) ∧ Q (drive fx cl rs).cl := by
  intro rs
  induction rs with
  | nil =>
    intro cl hP
    unfold drive
    split
    · exact ⟨fun _ => hP, hq _ hP⟩
    · rename_i buf cl' htk
      have hH := ht _ _ _ hP htk
      simp only [onBlock, hfx, if_true]
      exact ⟨fun _ => hb _ _ hH, hq _ (hb _ _ hH)⟩
  | cons r rs ih =>
    intro cl hP
    unfold drive
    split
    · exact ⟨fun _ => hP, hq _ hP⟩
    · rename_i buf cl' htk
      have hH := ht _ _ _ hP htk
      cases r with
      | ok n =>
        simp only
        split
        · exact ⟨fun h => by simp at h, hd _ _ hH⟩
        · split
          · rename_i hn
            exact ⟨fun _ => hp _ _ _ hH hn, hq _ (hp _ _ _ hH hn)⟩
          · exact ih _ (hf _ _ hH)
      | wouldBlock =>
        simp only [onBlock, hfx, if_true]
        exact ⟨fun _ => hb _ _ hH, hq _ (hb _ _ hH)⟩
      | interrupted =>
        simp only [onBlock, hfx, if_true]
        exact ih _ (hb _ _ hH)
      | err =>
        exact ⟨fun h => by simp at h, hd _ _ hH⟩

theorem tailOfLast_drop {buf : List UInt8} {st : List Frame} (n : Nat) (h : TailOfLast buf st) :
    TailOfLast (buf.drop n) st := by
  rcases h with rfl | ⟨pre, f, p, hs, hb⟩
  · left; simp
  · right
    refine ⟨pre, f, p ++ buf.take n, hs, ?_⟩
    rw [List.append_assoc, List.take_append_drop, hb]

/-- framing survives every `drive_connection` call, whatever the socket answers (repaired code) -/
theorem drive_framed (fx : Fixes) (hfx : fx.block = true) (rs : List WriteResult) (cl : Client)
    (h : FramedW cl) :
    ((drive fx cl rs).done = false → FramedW (drive fx cl rs).cl) ∧ FramedAny (drive fx cl rs).cl := by
  refine drive_preserves (P := FramedW) (Q := FramedAny) (H := InHand) fx hfx ?_ ?_ ?_ ?_ ?_ ?_ rs cl h
  · intro cl buf cl' hP htk; exact takeBuf_inHand hP htk
  · intro buf cl' ⟨_, h2, h3⟩; exact ⟨by simpa using h2, by simpa using h3⟩
  · intro buf cl' n ⟨_, h2, h3⟩ _
    refine ⟨?_, by simpa using tailOfLast_drop n h3⟩
    simp only [Option.getD_some]
    rw [List.append_assoc, List.take_append_drop, h2]
  · intro buf cl' ⟨h1, h2, _⟩
    exact ⟨by simp [h1, h2], by simp [h1, TailOfLast]⟩
  · intro buf cl' ⟨_, h2, h3⟩; exact ⟨buf, h2, h3⟩
  · intro cl h; exact h.any

theorem drive_ordered (fx : Fixes) (hfx : fx.block = true) (rs : List WriteResult) (cl : Client)
    (h : Ordered cl) : Ordered (drive fx cl rs).cl := by
  refine (drive_preserves (P := Ordered) (Q := Ordered) (H := fun _ c => Ordered c) fx hfx
    ?_ ?_ ?_ ?_ ?_ ?_ rs cl h).2
  · intro cl buf cl' hP htk
    rcases takeBuf_some htk with ⟨_, rfl⟩ | ⟨_, f, rest, hm, _, rfl⟩
    · exact hP
    · obtain ⟨pre, hs, hsub⟩ := hP
      refine ⟨pre ++ [f], ?_, ?_⟩
      · simp [hs, hm]
      · exact List.Sublist.append hsub (List.Sublist.refl _)
  · intro _ _ h; exact h
  · intro _ _ _ h _; exact h
  · intro _ _ h; exact h
  · intro _ _ h; exact h
  · intro _ h; exact h

theorem drive_noLoss (fx : Fixes) (hfx : fx.block = true) (rs : List WriteResult) (cl : Client)
    (h : NoLoss cl) : NoLoss (drive fx cl rs).cl := by
  refine (drive_preserves (P := NoLoss) (Q := NoLoss) (H := fun _ c => NoLoss c) fx hfx
    ?_ ?_ ?_ ?_ ?_ ?_ rs cl h).2
  · intro cl buf cl' hP htk
    rcases takeBuf_some htk with ⟨_, rfl⟩ | ⟨_, f, rest, hm, _, rfl⟩
    · exact hP
    · intro hd
      have := hP hd
      simp [this, hm]
  · intro _ _ h; exact h
  · intro _ _ _ h _; exact h
  · intro _ _ h; exact h
  · intro _ _ h; exact h
  · intro _ h; exact h

/-- the metadata enqueued at connect stays the head of everything enqueued -/
def MetaFirst (cl : Client) : Prop := cl.atConnect <+: cl.sent

theorem drive_metaFirst (fx : Fixes) (hfx : fx.block = true) (rs : List WriteResult) (cl : Client)
    (h : MetaFirst cl) : MetaFirst (drive fx cl rs).cl := by
  refine (drive_preserves (P := MetaFirst) (Q := MetaFirst) (H := fun _ c => MetaFirst c) fx hfx
    ?_ ?_ ?_ ?_ ?_ ?_ rs cl h).2
  · intro c buf c' hP htk
    rcases takeBuf_some htk with ⟨_, rfl⟩ | ⟨_, f, rest, _, _, rfl⟩ <;> exact hP
  · intro _ _ h; exact h
  · intro _ _ _ h _; exact h
  · intro _ _ h; exact h
  · intro _ _ h; exact h
  · intro _ h; exact h

theorem enqueue_metaFirst (lim : Nat) (batch : List Frame) (cl : Client) (h : MetaFirst cl) :
    MetaFirst (enqueue lim batch cl) :=
  List.IsPrefix.trans h (List.prefix_append _ _)

theorem drive_alive (fx : Fixes) (hfx : fx.block = true) (rs : List WriteResult) (cl : Client) :
    (drive fx cl rs).cl.alive = cl.alive := by
  refine (drive_preserves (P := fun c => c.alive = cl.alive) (Q := fun c => c.alive = cl.alive)
    (H := fun _ c => c.alive = cl.alive) fx hfx ?_ ?_ ?_ ?_ ?_ ?_ rs cl rfl).2
  · intro c buf c' hP htk
    rcases takeBuf_some htk with ⟨_, rfl⟩ | ⟨_, f, rest, _, _, rfl⟩ <;> exact hP
  · intro _ _ h; exact h
  · intro _ _ _ h _; exact h
  · intro _ _ h; exact h
  · intro _ _ h; exact h
  · intro _ h; exact h

@[simp] theorem push_cl (n : Nat) (o : DriveOut) : (o.push n).cl = o.cl := rfl
@[simp] theorem push_done (n : Nat) (o : DriveOut) : (o.push n).done = o.done := rfl

/-- a socket that takes every buffer whole (at least `N` bytes per call, nothing queued is longer) empties
    the leftover and the queue, given one result per pending buffer -/
theorem drive_full_accept (fx : Fixes) (N : Nat) (hN : 0 < N) :
    ∀ (rs : List WriteResult) (cl : Client),
      (∀ r ∈ rs, r = .ok N) →
      (∀ b, cl.wbuf = some b → b.length ≤ N) → (∀ f ∈ cl.msgs, f.bytes.length ≤ N) →
      (if cl.wbuf.isSome then 1 else 0) + cl.msgs.length ≤ rs.length →
      (drive fx cl rs).done = false ∧ (drive fx cl rs).cl.wbuf = none ∧ (drive fx cl rs).cl.msgs = [] ∧
      (drive fx cl rs).cl.received = cl.received ++ cl.wbuf.getD [] ++ flat cl.msgs := by
  intro rs
  induction rs with
  | nil =>
    intro cl _ _ _ hlen
    cases hw : cl.wbuf with
    | some b => simp [hw] at hlen
    | none =>
      have hm : cl.msgs = [] := by
        simp [hw] at hlen
        exact hlen
      simp [drive, takeBuf, hw, hm, flat]
  | cons r rs ih =>
    intro cl hrs hwb hmb hlen
    have hr : r = .ok N := hrs r (List.mem_cons_self ..)
    have hrs' : ∀ r ∈ rs, r = .ok N := fun r h => hrs r (List.mem_cons_of_mem _ h)
    have hN0 : N ≠ 0 := by omega
    subst hr
    cases hw : cl.wbuf with
    | some b =>
      have hb : ¬ N < b.length := by have := hwb b hw; omega
      have hlen' : cl.msgs.length ≤ rs.length := by simp [hw] at hlen; omega
      have := ih { cl with wbuf := none, received := cl.received ++ b } hrs' (by simp) hmb (by simpa using hlen')
      simp only [drive, takeBuf, hw, hN0, if_false, hb, push_cl, push_done]
      simpa using this
    | none =>
      cases hm : cl.msgs with
      | nil => simp [drive, takeBuf, hw, hm, flat]
      | cons f rest =>
        have hf : ¬ N < f.bytes.length := by have := hmb f (by simp [hm]); omega
        have hlen' : rest.length ≤ rs.length := by simp [hw, hm] at hlen; omega
        have := ih { cl with msgs := rest, started := cl.started ++ [f], received := cl.received ++ f.bytes }
          hrs' (by simp [hw]) (fun g hg => hmb g (by simp [hm, hg])) (by simpa [hw] using hlen')
        simp only [drive, takeBuf, hw, hm, hN0, if_false, hf, push_cl, push_done]
        simpa [hw, flat, List.append_assoc] using this

@[simp] theorem push_attempts (n : Nat) (o : DriveOut) : (o.push n).attempts = n :: o.attempts := rfl

/-- `drive_connection` comes back (`false`) with frames still queued only after the socket refused: it leaves
    its loop early only on `WouldBlock` or a short write, both park the unwritten bytes in `wbuf`, and at least
    one `write` was attempted.  (A queue that is merely non-empty -- a freshly accepted client's metadata, a
    backlog the socket would take now -- is always flushed.) -/
theorem drive_queue_left_parked (fx : Fixes) (hfx : fx.block = true) :
    ∀ (rs : List WriteResult) (cl : Client),
      (drive fx cl rs).done = false → (drive fx cl rs).cl.msgs ≠ [] →
      (drive fx cl rs).cl.wbuf.isSome = true ∧ (drive fx cl rs).attempts ≠ [] := by
  intro rs
  induction rs with
  | nil =>
    intro cl
    cases hw : cl.wbuf with
    | some b => simp [drive, takeBuf, hw, onBlock, hfx]
    | none =>
      cases hm : cl.msgs with
      | nil => simp [drive, takeBuf, hw, hm]
      | cons f rest => simp [drive, takeBuf, hw, hm, onBlock, hfx]
  | cons r rs ih =>
    intro cl
    cases hw : cl.wbuf with
    | some b =>
      cases r with
      | ok n =>
        by_cases h0 : n = 0
        · simp [drive, takeBuf, hw, h0]
        · by_cases hlt : n < b.length
          · simp [drive, takeBuf, hw, h0, hlt]
          · have := ih { cl with wbuf := none, received := cl.received ++ b }
            simp only [drive, takeBuf, hw, h0, hlt, if_false, push_cl, push_done, push_attempts]
            intro hd hm
            exact ⟨(this hd hm).1, by simp⟩
      | wouldBlock => simp [drive, takeBuf, hw, onBlock, hfx]
      | interrupted =>
        have := ih (onBlock fx b { cl with wbuf := none })
        simp only [drive, takeBuf, hw, push_cl, push_done, push_attempts]
        intro hd hm
        exact ⟨(this hd hm).1, by simp⟩
      | err => simp [drive, takeBuf, hw]
    | none =>
      cases hm : cl.msgs with
      | nil => simp [drive, takeBuf, hw, hm]
      | cons f rest =>
        cases r with
        | ok n =>
          by_cases h0 : n = 0
          · simp [drive, takeBuf, hw, hm, h0]
          · by_cases hlt : n < f.bytes.length
            · simp [drive, takeBuf, hw, hm, h0, hlt]
            · have := ih { cl with wbuf := none, msgs := rest, started := cl.started ++ [f], received := cl.received ++ f.bytes }
              simp only [drive, takeBuf, hw, hm, h0, hlt, if_false, push_cl, push_done, push_attempts]
              intro hd hm'
              exact ⟨(this hd hm').1, by simp⟩
        | wouldBlock => simp [drive, takeBuf, hw, hm, onBlock, hfx]
        | interrupted =>
          have := ih (onBlock fx f.bytes { cl with wbuf := none, msgs := rest, started := cl.started ++ [f] })
          simp only [drive, takeBuf, hw, hm, push_cl, push_done, push_attempts]
          intro hd hm'
          exact ⟨(this hd hm').1, by simp⟩
        | err => simp [drive, takeBuf, hw, hm]

/-! ### `enqueue` -/

theorem toDrain_le (lim m b : Nat) (hb : b ≤ lim) : toDrain lim m b ≤ m := by
  simp only [toDrain]
  split <;> omega

theorem toDrain_fits (lim m b : Nat) (h : m + b ≤ lim) : toDrain lim m b = 0 := by
  simp only [toDrain]
  split <;> omega

theorem enqueue_framedW (lim : Nat) (batch : List Frame) (cl : Client) :
    FramedW (enqueue lim batch cl) ↔ FramedW cl := Iff.rfl

theorem enqueue_ordered (lim : Nat) (batch : List Frame) (cl : Client) (h : Ordered cl) :
    Ordered (enqueue lim batch cl) := by
  obtain ⟨pre, hs, hsub⟩ := h
  refine ⟨pre ++ cl.msgs.take (toDrain lim cl.msgs.length batch.length), ?_, ?_⟩
  · simp only [enqueue, hs, List.append_assoc]
    congr 1
    rw [← List.append_assoc, List.take_append_drop]
  · exact hsub.trans (List.sublist_append_left _ _)

theorem enqueue_noLoss (lim : Nat) (batch : List Frame) (cl : Client) (h : NoLoss cl) :
    NoLoss (enqueue lim batch cl) := by
  intro hd
  simp only [enqueue] at hd ⊢
  have h0 : cl.dropped = 0 := by omega
  have hk : min (toDrain lim cl.msgs.length batch.length) cl.msgs.length = 0 := by omega
  have hb : batch.length ≤ lim := by omega
  rw [h h0, List.take_of_length_le hb]
  have : List.drop (toDrain lim cl.msgs.length batch.length) cl.msgs = cl.msgs := by
    rcases Nat.min_eq_zero_iff.mp hk with hz | hz
    · rw [hz]; rfl
    · have : cl.msgs = [] := List.eq_nil_of_length_eq_zero hz
      simp [this]
  rw [this, List.append_assoc]

/-! ### the gate -/

theorem decN_spec (k n : Nat) (ss : Bool) (hk : k ≤ n) (hs : ss = decide (0 < n)) :
    decN k (n, ss) = (n - k, decide (0 < n - k)) := by
  induction k generalizing n ss with
  | zero => simp [decN, hs]
  | succ k ih =>
    have hn : n ≠ 0 := by omega
    simp only [decN, decrementClients, hn, if_false]
    have e : n - 1 - k = n - (k + 1) := by omega
    rw [ih (n - 1) _ (by omega), e]
    by_cases h1 : n = 1
    · simp [h1]
    · simp only [h1, if_false, hs]
      have : 0 < n - 1 := by omega
      simp [this]
      omega

/-- an event handler for one client never revives a client and flags exactly the removals -/
def StepOk (f : Nat → Client → ClientStep) : Prop :=
  ∀ k cl, (f k cl).removed = (cl.alive && !(f k cl).cl.alive) ∧ ((f k cl).cl.alive = true → cl.alive = true)

theorem alive_removed (f : Nat → Client → ClientStep) (hf : StepOk f) (cs : List (Nat × Client)) :
    aliveCount (newClients (stepClients f cs)) + removedCount (stepClients f cs) = aliveCount cs := by
  induction cs with
  | nil => simp [aliveCount, newClients, stepClients, removedCount]
  | cons p rest ih =>
    obtain ⟨h1, h2⟩ := hf p.1 p.2
    simp only [aliveCount, newClients, stepClients, removedCount, List.map_cons, List.filter_cons] at ih ⊢
    rw [h1]
    cases ha : p.2.alive <;> cases hb : (f p.1 p.2).cl.alive <;> simp_all <;> omega

theorem mem_newClients {f : Nat → Client → ClientStep} {cs : List (Nat × Client)} {p : Nat × Client}
    (h : p ∈ newClients (stepClients f cs)) : ∃ q ∈ cs, p = (q.1, (f q.1 q.2).cl) := by
  simp only [newClients, stepClients, List.map_map, List.mem_map] at h
  obtain ⟨q, hq, rfl⟩ := h
  exact ⟨q, hq, rfl⟩

theorem lookup_newClients (f : Nat → Client → ClientStep) (cs : List (Nat × Client)) (c : Nat) :
    lookupKey c (newClients (stepClients f cs)) = (lookupKey c cs).map (fun cl => (f c cl).cl) := by
  induction cs with
  | nil => simp [newClients, stepClients, lookupKey]
  | cons p rest ih =>
    obtain ⟨k, cl⟩ := p
    simp only [newClients, stepClients, List.map_cons, lookupKey] at ih ⊢
    by_cases h : k = c
    · simp [h]
    · simp only [h, if_false]
      exact ih

/-! ### what is left parked when a `drive_connection` call returns (quiescence) -/

@[simp] theorem push_rest (n : Nat) (o : DriveOut) : (o.push n).rest = o.rest := rfl
@[simp] theorem push_starved (n : Nat) (o : DriveOut) : (o.push n).starved = o.starved := rfl

theorem takeBuf_none {cl : Client} (h : takeBuf cl = none) : cl.wbuf = none ∧ cl.msgs = [] := by
  unfold takeBuf at h
  cases hw : cl.wbuf with
  | some b => simp [hw] at h
  | none =>
    cases hm : cl.msgs with
    | nil => exact ⟨rfl, rfl⟩
    | cons f rest => simp [hw, hm] at h

/-- the buffer handed back into `wbuf` is the next one taken, and taking it leaves the same client -/
theorem takeBuf_putBack {cl cl' : Client} {buf : List UInt8} (h : takeBuf cl = some (buf, cl')) :
    takeBuf { cl' with wbuf := some buf } = some (buf, cl') := by
  rcases takeBuf_some h with ⟨_, rfl⟩ | ⟨hw, f, rest, _, _, rfl⟩
  · simp [takeBuf]
  · simp [takeBuf, hw]

/-- `drive` sees a client with something to write only through `takeBuf` -/
theorem drive_congr_some (fx : Fixes) {a b cl' : Client} {buf : List UInt8}
    (ha : takeBuf a = some (buf, cl')) (hb : takeBuf b = some (buf, cl')) (rs : List WriteResult) :
    drive fx a rs = drive fx b rs := by
  cases rs with
  | nil => simp [drive, ha, hb]
  | cons r rs => simp [drive, ha, hb]

/-- the socket refused the write of a buffer of `len` bytes: `WouldBlock`, or it took only a part.  (The kernel
    answers like this only when the socket's send buffer is full, and then owes a WRITABLE edge.) -/
def Refused (r : WriteResult) (len : Nat) : Prop :=
  r = .wouldBlock ∨ ∃ n, r = .ok n ∧ 0 < n ∧ n < len

/-- `drive_connection` comes back with a buffer parked in `wbuf` only if the LAST `write` it made was refused
    by the socket (`WouldBlock` or a short write) -- never after `Interrupted`, never after a write that was
    taken whole.  (`starved`: the model ran out of write results, which it answers as `WouldBlock`.) -/
theorem drive_parks_only_on_refusal (fx : Fixes) :
    ∀ (rs : List WriteResult) (cl : Client),
      (drive fx cl rs).done = false → (drive fx cl rs).cl.wbuf.isSome = true →
      (drive fx cl rs).starved = true ∨
      ∃ pre r as a, rs = pre ++ r :: (drive fx cl rs).rest ∧ (drive fx cl rs).attempts = as ++ [a] ∧ Refused r a := by
  intro rs
  induction rs with
  | nil =>
    intro cl
    cases htk : takeBuf cl with
    | none =>
      intro _ hw
      simp [drive, htk, (takeBuf_none htk).1] at hw
    | some p =>
      obtain ⟨buf, cl'⟩ := p
      intro _ _
      left
      simp [drive, htk]
  | cons r rs ih =>
    intro cl
    cases htk : takeBuf cl with
    | none =>
      intro _ hw
      simp [drive, htk, (takeBuf_none htk).1] at hw
    | some p =>
      obtain ⟨buf, cl'⟩ := p
      have hcl' : cl'.wbuf = none := by
        rcases takeBuf_some htk with ⟨_, rfl⟩ | ⟨hw, f, rest, _, _, rfl⟩
        · rfl
        · exact hw
      cases r with
      | ok n =>
        by_cases h0 : n = 0
        · simp [drive, htk, h0]
        · by_cases hlt : n < buf.length
          · intro _ _
            right
            refine ⟨[], .ok n, [], buf.length, ?_, ?_, Or.inr ⟨n, rfl, by omega, hlt⟩⟩
            · simp [drive, htk, h0, hlt]
            · simp [drive, htk, h0, hlt]
          · have := ih { cl' with received := cl'.received ++ buf }
            simp only [drive, htk, h0, hlt, if_false, push_cl, push_done, push_rest, push_starved, push_attempts]
            intro hd hw
            rcases this hd hw with hs | ⟨pre, r', as, a, h1, h2, h3⟩
            · exact Or.inl hs
            · exact Or.inr ⟨.ok n :: pre, r', buf.length :: as, a, by rw [List.cons_append]; exact congrArg _ h1, by rw [h2]; simp, h3⟩
      | wouldBlock =>
        intro _ _
        right
        refine ⟨[], .wouldBlock, [], buf.length, ?_, ?_, Or.inl rfl⟩
        · simp [drive, htk]
        · simp [drive, htk]
      | interrupted =>
        have := ih (onBlock fx buf cl')
        simp only [drive, htk, push_cl, push_done, push_rest, push_starved, push_attempts]
        intro hd hw
        rcases this hd hw with hs | ⟨pre, r', as, a, h1, h2, h3⟩
        · exact Or.inl hs
        · exact Or.inr ⟨.interrupted :: pre, r', buf.length :: as, a, by rw [List.cons_append]; exact congrArg _ h1, by rw [h2]; simp, h3⟩
      | err => simp [drive, htk]

/-- after a `drive_connection` call of the repaired code that keeps the client, queued frames wait only behind
    a parked buffer -/
def QueueBehindParked (cl : Client) : Prop :=
  cl.alive = true → cl.msgs ≠ [] → cl.wbuf.isSome = true ∨ cl.started = []

end MetricsVerif.Tcp
