/-
Helper lemmas for C06: the registry invariant, its preservation, and the effect of every operation on what a
lookup finds (`readSection`), from which `Props/C06.lean` assembles the refinement.
-/
import MetricsVerif.Model.Registry
import MetricsVerif.Proofs.ListAt

namespace MetricsVerif.Registry

variable {K : Type}

/-- what C03 establishes for `metrics::Key`: `==` is an equivalence and equal keys hash alike -/
structure KeyLaws (ko : KeyOps K) : Prop where
  refl : ∀ a, ko.eqv a a = true
  symm : ∀ a b, ko.eqv a b = true → ko.eqv b a = true
  trans : ∀ a b c, ko.eqv a b = true → ko.eqv b c = true → ko.eqv a c = true
  hash_coh : ∀ a b, ko.eqv a b = true → ko.hash a = ko.hash b

theorem KeyLaws.symm_false {ko : KeyOps K} (L : KeyLaws ko) {a b : K} (h : ko.eqv a b = false) : ko.eqv b a = false := by
  cases h' : ko.eqv b a with
  | false => rfl
  | true => rw [L.symm _ _ h'] at h; cases h

/-! ### get / set -/

theorem get_set (r : Reg K) (kd kd' : Kind) (v : List (Shard K)) :
    (r.set kd v).get kd' = if kd' = kd then v else r.get kd' := by
  cases kd <;> cases kd' <;> simp [Reg.set, Reg.get]

@[simp] theorem set_mask (r : Reg K) (kd : Kind) (v : List (Shard K)) : (r.set kd v).mask = r.mask := by
  cases kd <;> rfl
@[simp] theorem set_next (r : Reg K) (kd : Kind) (v : List (Shard K)) : (r.set kd v).next = r.next := by
  cases kd <;> rfl
@[simp] theorem bump_get (r : Reg K) (kd : Kind) : r.bump.get kd = r.get kd := by cases kd <;> rfl
@[simp] theorem bump_mask (r : Reg K) : r.bump.mask = r.mask := rfl
@[simp] theorem bump_next (r : Reg K) : r.bump.next = r.next + 1 := rfl
@[simp] theorem setShard_mask (r : Reg K) (kd : Kind) (h : Nat) (sh : Shard K) : (r.setShard kd h sh).mask = r.mask := by
  simp [Reg.setShard]
@[simp] theorem setShard_next (r : Reg K) (kd : Kind) (h : Nat) (sh : Shard K) : (r.setShard kd h sh).next = r.next := by
  simp [Reg.setShard]

theorem shardOf_le (r : Reg K) (h : Nat) : shardOf r h ≤ r.mask := Nat.and_le_right

/-! ### the invariant -/

/-- entry `e` sits in shard `i` of kind `kd` -/
def At (r : Reg K) (kd : Kind) (i : Nat) (e : Entry K) : Prop := ∃ sh, (r.get kd)[i]? = some sh ∧ e ∈ sh

structure Inv (ko : KeyOps K) (r : Reg K) : Prop where
  /-- every kind has `mask + 1` shards -/
  len : ∀ kd, (r.get kd).length = r.mask + 1
  /-- an entry carries its key's hash and sits in the shard that hash selects -/
  placed : ∀ kd (i : Nat) e, At r kd i e → e.hash = ko.hash e.key ∧ e.hash &&& r.mask = i
  /-- no two entries of a shard have equal keys -/
  uniq : ∀ kd (i : Nat) (sh : Shard K), (r.get kd)[i]? = some sh → List.Pairwise (fun a b => ko.eqv a.key b.key = false) sh
  /-- storages in the map were made by the factory -/
  fresh : ∀ kd (i : Nat) e, At r kd i e → e.id < r.next
  /-- a storage sits under one kind and one key class only -/
  idinj : ∀ kd (i : Nat) e kd' (i' : Nat) e', At r kd i e → At r kd' i' e' → e.id = e'.id → kd = kd' ∧ ko.eqv e.key e'.key = true

theorem shard_eq (r : Reg K) (kd : Kind) (h : Nat) (hlen : (r.get kd).length = r.mask + 1) :
    (r.get kd)[shardOf r h]? = some (r.shard kd h) := by
  have hlt : shardOf r h < (r.get kd).length := by have := shardOf_le r h; omega
  simp [Reg.shard, List.getD, List.getElem?_eq_getElem hlt]

theorem new_inv (ko : KeyOps K) (count : Nat) (hc : 0 < count) : Inv ko (Reg.new count : Reg K) := by
  have hget : ∀ kd, (Reg.new count : Reg K).get kd = List.replicate count [] := by intro kd; cases kd <;> rfl
  have hat : ∀ kd i e, ¬ At (Reg.new count : Reg K) kd i e := by
    intro kd i e ⟨sh, h1, h2⟩
    rw [hget] at h1
    have := List.mem_of_getElem? h1
    rw [List.mem_replicate] at this
    rw [this.2] at h2; cases h2
  refine ⟨?_, ?_, ?_, ?_, ?_⟩
  · intro kd; rw [hget]; simp [Reg.new]; omega
  · intro kd i e h; exact absurd h (hat kd i e)
  · intro kd i sh h
    rw [hget] at h
    have := List.mem_of_getElem? h
    rw [List.mem_replicate] at this
    rw [this.2]; exact List.Pairwise.nil
  · intro kd i e h; exact absurd h (hat kd i e)
  · intro kd i e kd' i' e' h; exact absurd h (hat kd i e)

/-! ### shards after an update of one shard -/

theorem shard_setShard (r : Reg K) (kd kd' : Kind) (h h' : Nat) (sh : Shard K)
    (hlen : (r.get kd).length = r.mask + 1) :
    (r.setShard kd h sh).shard kd' h' = if kd' = kd ∧ shardOf r h' = shardOf r h then sh else r.shard kd' h' := by
  have hlt : shardOf r h' < (r.get kd).length := by have := shardOf_le r h'; omega
  unfold Reg.shard
  have hs : shardOf (r.setShard kd h sh) h' = shardOf r h' := by simp [shardOf]
  rw [hs]
  simp only [Reg.setShard, get_set]
  by_cases hk : kd' = kd
  · subst hk
    simp only [if_true, true_and, List.getD, getElem?_setAt]
    by_cases he : shardOf r h' = shardOf r h
    · rw [if_pos ⟨he.symm, hlt⟩, if_pos he]; rfl
    · rw [if_neg (fun c => he c.1.symm), if_neg he]
  · simp [hk]

@[simp] theorem bump_shard (r : Reg K) (kd : Kind) (h : Nat) : r.bump.shard kd h = r.shard kd h := by
  simp [Reg.shard, shardOf]

/-! ### lookups -/

theorem hit_congr {ko : KeyOps K} (L : KeyLaws ko) {k k' : K} (h : ko.eqv k k' = true) (hh : Nat) :
    hit ko hh k' = hit ko hh k := by
  funext e
  simp only [hit]
  cases hk : ko.eqv k e.key with
  | true => rw [L.trans _ _ _ (L.symm _ _ h) hk]
  | false =>
    cases hk' : ko.eqv k' e.key with
    | false => rfl
    | true => rw [L.trans _ _ _ h hk'] at hk; cases hk

/-- a lookup does not care how the key was built -/
theorem readSection_congr {ko : KeyOps K} (L : KeyLaws ko) (r : Reg K) (kd : Kind) {k k' : K}
    (h : ko.eqv k k' = true) : readSection ko r kd k' = readSection ko r kd k := by
  unfold readSection lookup
  rw [← L.hash_coh _ _ h, hit_congr L h]

theorem hit_eqv {ko : KeyOps K} (L : KeyLaws ko) {h h' : Nat} {k k' : K} {e : Entry K}
    (h1 : hit ko h k e = true) (h2 : hit ko h' k' e = true) : ko.eqv k k' = true := by
  simp only [hit, Bool.and_eq_true] at h1 h2
  exact L.trans _ _ _ h1.2 (L.symm _ _ h2.2)

theorem find?_eraseP_disjoint {α : Type} (p q : α → Bool) (l : List α) (hd : ∀ e, q e = true → p e = false) :
    (l.eraseP q).find? p = l.find? p := by
  induction l with
  | nil => rfl
  | cons x xs ih =>
    by_cases hq : q x = true
    · rw [List.eraseP_cons_of_pos hq, List.find?_cons, hd x hq]
    · rw [List.eraseP_cons_of_neg hq, List.find?_cons, List.find?_cons, ih]

theorem pairwise_mem_eq {ko : KeyOps K} (L : KeyLaws ko) {sh : Shard K}
    (hp : sh.Pairwise (fun a b => ko.eqv a.key b.key = false)) {a b : Entry K} (ha : a ∈ sh) (hb : b ∈ sh)
    (he : ko.eqv a.key b.key = true) : a = b := by
  induction sh with
  | nil => cases ha
  | cons x xs ih =>
    rw [List.pairwise_cons] at hp
    rcases List.mem_cons.mp ha with ha | ha <;> rcases List.mem_cons.mp hb with hb | hb
    · rw [ha, hb]
    · have := hp.1 b hb; rw [← ha, he] at this; cases this
    · have := hp.1 a ha; rw [← hb, L.symm _ _ he] at this; cases this
    · exact ih hp.2 ha hb

theorem find?_eraseP_self_none {ko : KeyOps K} (L : KeyLaws ko) (h : Nat) (k : K) (sh : Shard K)
    (hp : sh.Pairwise (fun a b => ko.eqv a.key b.key = false)) :
    (sh.eraseP (hit ko h k)).find? (hit ko h k) = none := by
  induction sh with
  | nil => rfl
  | cons x xs ih =>
    rw [List.pairwise_cons] at hp
    by_cases hq : hit ko h k x = true
    · rw [List.eraseP_cons_of_pos hq, List.find?_eq_none]
      intro y hy hy'
      have h1 := hp.1 y hy
      have h2 : ko.eqv x.key y.key = true := by
        simp only [hit, Bool.and_eq_true] at hq hy'
        exact L.trans _ _ _ (L.symm _ _ hq.2) hy'.2
      rw [h2] at h1; cases h1
    · rw [List.eraseP_cons_of_neg hq, List.find?_cons]
      simp only [Bool.not_eq_true] at hq
      rw [hq]; exact ih hp.2

theorem readSection_none_iff (ko : KeyOps K) (r : Reg K) (kd : Kind) (k : K) :
    readSection ko r kd k = none ↔ lookup ko (r.shard kd (ko.hash k)) (ko.hash k) k = none := by
  simp [readSection]

/-- equal keys select the same shard -/
theorem same_shard {ko : KeyOps K} (L : KeyLaws ko) (r : Reg K) {k k' : K} (h : ko.eqv k k' = true) :
    shardOf r (ko.hash k') = shardOf r (ko.hash k) := by rw [L.hash_coh _ _ h]

/-! ### effect of the write section that inserts -/

theorem read_after_insert {ko : KeyOps K} (L : KeyLaws ko) (r : Reg K) (kd : Kind) (k : K)
    (hlen : (r.get kd).length = r.mask + 1)
    (hm : lookup ko (r.shard kd (ko.hash k)) (ko.hash k) k = none) (kd' : Kind) (k' : K) :
    readSection ko (r.setShard kd (ko.hash k) (r.shard kd (ko.hash k) ++ [⟨k, ko.hash k, r.next⟩])).bump kd' k'
      = if kd' = kd ∧ ko.eqv k k' = true then some r.next else readSection ko r kd' k' := by
  unfold readSection
  rw [bump_shard, shard_setShard _ _ _ _ _ _ hlen]
  by_cases hk : kd' = kd
  · subst hk
    by_cases he : ko.eqv k k' = true
    · have hs := same_shard L r he
      rw [if_pos ⟨rfl, hs⟩, if_pos ⟨rfl, he⟩]
      have hh : ko.hash k' = ko.hash k := (L.hash_coh _ _ he).symm
      unfold lookup at hm ⊢
      rw [hh, hit_congr L he, List.find?_append, hm]
      simp [hit, L.refl]
    · by_cases hs : shardOf r (ko.hash k') = shardOf r (ko.hash k)
      · rw [if_pos ⟨rfl, hs⟩, if_neg (fun c => he c.2)]
        have hsh : r.shard kd' (ko.hash k) = r.shard kd' (ko.hash k') := by simp [Reg.shard, hs]
        rw [hsh]
        unfold lookup
        rw [List.find?_append]
        have : List.find? (hit ko (ko.hash k') k') [(⟨k, ko.hash k, r.next⟩ : Entry K)] = none := by
          simp only [Bool.not_eq_true] at he
          simp [hit, L.symm_false he]
        rw [this, Option.or_none]
      · rw [if_neg (fun c => hs c.2), if_neg (fun c => he c.2)]
  · rw [if_neg (fun c => hk c.1), if_neg (fun c => hk c.1)]

/-! ### the invariant is kept by an insertion … -/

theorem at_bump (r : Reg K) (kd : Kind) (i : Nat) (e : Entry K) : At r.bump kd i e ↔ At r kd i e := by
  simp [At]

theorem at_setShard (r : Reg K) (kd kd' : Kind) (h : Nat) (sh' : Shard K) (i : Nat) (e : Entry K)
    (hat : At (r.setShard kd h sh') kd' i e) : (kd' = kd ∧ i = shardOf r h ∧ e ∈ sh') ∨ At r kd' i e := by
  obtain ⟨sh, h1, h2⟩ := hat
  simp only [Reg.setShard, get_set] at h1
  by_cases hk : kd' = kd
  · subst hk
    rw [if_pos rfl, getElem?_setAt] at h1
    by_cases hc : shardOf r h = i ∧ i < (r.get kd').length
    · rw [if_pos hc] at h1
      injection h1 with h1
      subst h1
      exact Or.inl ⟨rfl, hc.1.symm, h2⟩
    · rw [if_neg hc] at h1
      exact Or.inr ⟨sh, h1, h2⟩
  · rw [if_neg hk] at h1
    exact Or.inr ⟨sh, h1, h2⟩

theorem at_shard (r : Reg K) (kd : Kind) (h : Nat) (hlen : (r.get kd).length = r.mask + 1) {e : Entry K}
    (he : e ∈ r.shard kd h) : At r kd (shardOf r h) e := ⟨_, shard_eq r kd h hlen, he⟩

theorem insert_inv {ko : KeyOps K} (L : KeyLaws ko) (r : Reg K) (hinv : Inv ko r) (kd : Kind) (k : K)
    (hm : lookup ko (r.shard kd (ko.hash k)) (ko.hash k) k = none) :
    Inv ko (r.setShard kd (ko.hash k) (r.shard kd (ko.hash k) ++ [⟨k, ko.hash k, r.next⟩])).bump := by
  have hat : ∀ kd' i e, At (r.setShard kd (ko.hash k) (r.shard kd (ko.hash k) ++ [⟨k, ko.hash k, r.next⟩])).bump kd' i e →
      At r kd' i e ∨ (kd' = kd ∧ i = shardOf r (ko.hash k) ∧ e = ⟨k, ko.hash k, r.next⟩) := by
    intro kd' i e h
    rw [at_bump] at h
    rcases at_setShard _ _ _ _ _ _ _ h with ⟨h1, h2, h3⟩ | h
    · rcases List.mem_append.mp h3 with h3 | h3
      · subst h1; subst h2
        exact Or.inl (at_shard r kd' _ (hinv.len kd') h3)
      · exact Or.inr ⟨h1, h2, by simpa using h3⟩
    · exact Or.inl h
  refine ⟨?_, ?_, ?_, ?_, ?_⟩
  · intro kd'
    simp only [bump_get, bump_mask, Reg.setShard, get_set, set_mask]
    split
    · next hk => subst hk; rw [setAt_length]; exact hinv.len kd'
    · exact hinv.len kd'
  · intro kd' i e h
    simp only [bump_mask, setShard_mask]
    rcases hat kd' i e h with h | ⟨_, h2, h3⟩
    · exact hinv.placed kd' i e h
    · subst h3; subst h2; exact ⟨rfl, rfl⟩
  · intro kd' i sh hsh
    simp only [bump_get, Reg.setShard, get_set] at hsh
    by_cases hk : kd' = kd
    · subst hk
      rw [if_pos rfl, getElem?_setAt] at hsh
      by_cases hc : shardOf r (ko.hash k) = i ∧ i < (r.get kd').length
      · rw [if_pos hc] at hsh
        injection hsh with hsh
        subst hsh
        rw [List.pairwise_append]
        refine ⟨hinv.uniq kd' _ _ (shard_eq r kd' _ (hinv.len kd')), List.pairwise_singleton _ _, ?_⟩
        intro a ha b hb
        have hb' : b = ⟨k, ko.hash k, r.next⟩ := by simpa using hb
        subst hb'
        simp only
        cases hab : ko.eqv a.key k with
        | false => rfl
        | true =>
          have hpl := hinv.placed kd' _ a (at_shard r kd' _ (hinv.len kd') ha)
          have hh : a.hash = ko.hash k := by rw [hpl.1]; exact L.hash_coh _ _ hab
          have hhit : hit ko (ko.hash k) k a = true := by simp [hit, hh, L.symm _ _ hab]
          have := List.find?_eq_none.mp hm a ha
          exact absurd hhit this
      · rw [if_neg hc] at hsh
        exact hinv.uniq kd' i sh hsh
    · rw [if_neg hk] at hsh
      exact hinv.uniq kd' i sh hsh
  · intro kd' i e h
    simp only [bump_next, setShard_next]
    rcases hat kd' i e h with h | ⟨_, _, h3⟩
    · have := hinv.fresh kd' i e h; omega
    · subst h3; simp
  · intro kd1 i1 e1 kd2 i2 e2 h1 h2 hid
    rcases hat kd1 i1 e1 h1 with h1 | ⟨a1, _, c1⟩ <;> rcases hat kd2 i2 e2 h2 with h2 | ⟨a2, _, c2⟩
    · exact hinv.idinj _ _ _ _ _ _ h1 h2 hid
    · have := hinv.fresh _ _ _ h1; subst c2; simp only at hid; omega
    · have := hinv.fresh _ _ _ h2; subst c1; simp only at hid; omega
    · subst c1; subst c2; exact ⟨a1.trans a2.symm, L.refl _⟩

/-! ### … and by anything that only removes entries -/

structure Sub (r' r : Reg K) : Prop where
  mask : r'.mask = r.mask
  next : r.next ≤ r'.next
  len : ∀ kd, (r'.get kd).length = (r.get kd).length
  sub : ∀ kd (i : Nat) (sh' : Shard K), (r'.get kd)[i]? = some sh' → ∃ sh, (r.get kd)[i]? = some sh ∧ sh'.Sublist sh

theorem sub_inv {ko : KeyOps K} {r r' : Reg K} (hinv : Inv ko r) (hs : Sub r' r) : Inv ko r' := by
  have hat : ∀ kd i e, At r' kd i e → At r kd i e := by
    intro kd i e ⟨sh', h1, h2⟩
    obtain ⟨sh, h3, h4⟩ := hs.sub kd i sh' h1
    exact ⟨sh, h3, h4.subset h2⟩
  refine ⟨?_, ?_, ?_, ?_, ?_⟩
  · intro kd; rw [hs.len, hs.mask]; exact hinv.len kd
  · intro kd i e h; rw [hs.mask]; exact hinv.placed kd i e (hat _ _ _ h)
  · intro kd i sh' h
    obtain ⟨sh, h3, h4⟩ := hs.sub kd i sh' h
    exact (hinv.uniq kd i sh h3).sublist h4
  · intro kd i e h; have := hinv.fresh kd i e (hat _ _ _ h); have := hs.next; omega
  · intro kd i e kd' i' e' h h' hid; exact hinv.idinj _ _ _ _ _ _ (hat _ _ _ h) (hat _ _ _ h') hid

theorem sub_setShard (r : Reg K) (kd : Kind) (h : Nat) (sh' : Shard K) (hlen : (r.get kd).length = r.mask + 1)
    (hsub : sh'.Sublist (r.shard kd h)) : Sub (r.setShard kd h sh') r := by
  refine ⟨by simp, by simp, ?_, ?_⟩
  · intro kd'
    simp only [Reg.setShard, get_set]
    split
    · next hk => subst hk; rw [setAt_length]
    · rfl
  · intro kd' i sh1 h1
    simp only [Reg.setShard, get_set] at h1
    by_cases hk : kd' = kd
    · subst hk
      rw [if_pos rfl, getElem?_setAt] at h1
      by_cases hc : shardOf r h = i ∧ i < (r.get kd').length
      · rw [if_pos hc] at h1
        injection h1 with h1
        subst h1
        exact ⟨_, hc.1 ▸ shard_eq r kd' h hlen, hsub⟩
      · rw [if_neg hc] at h1
        exact ⟨sh1, h1, List.Sublist.refl _⟩
    · rw [if_neg hk] at h1
      exact ⟨sh1, h1, List.Sublist.refl _⟩

theorem sub_refl (r : Reg K) : Sub r r :=
  ⟨rfl, Nat.le_refl _, fun _ => rfl, fun _ _ sh h => ⟨sh, h, List.Sublist.refl _⟩⟩

theorem delete_sub (ko : KeyOps K) (r : Reg K) (kd : Kind) (k : K) (hlen : (r.get kd).length = r.mask + 1) :
    Sub (delete ko r kd k).1 r := by
  unfold delete
  simp only
  split
  · exact sub_setShard r kd _ _ hlen (List.eraseP_sublist)
  · exact sub_refl r

theorem retain_sub (r : Reg K) (kd : Kind) (f : K → Nat → Bool) : Sub (retain r kd f).1 r := by
  refine ⟨by simp [retain], by simp [retain], ?_, ?_⟩
  · intro kd'
    simp only [retain, get_set]
    split
    · next hk => subst hk; simp
    · rfl
  · intro kd' i sh1 h1
    simp only [retain, get_set] at h1
    by_cases hk : kd' = kd
    · subst hk
      rw [if_pos rfl, List.getElem?_map] at h1
      cases hg : (r.get kd')[i]? with
      | none => rw [hg] at h1; cases h1
      | some sh =>
        rw [hg] at h1
        simp only [Option.map_some, Option.some.injEq] at h1
        subst h1
        exact ⟨sh, rfl, List.filter_sublist⟩
    · rw [if_neg hk] at h1
      exact ⟨sh1, h1, List.Sublist.refl _⟩

theorem clear_get (r : Reg K) (kd : Kind) : (clear r).get kd = (r.get kd).map (fun _ => []) := by
  cases kd <;> rfl

theorem clear_sub (r : Reg K) : Sub (clear r) r := by
  refine ⟨rfl, Nat.le_refl _, ?_, ?_⟩
  · intro kd; rw [clear_get]; simp
  · intro kd i sh1 h1
    rw [clear_get, List.getElem?_map] at h1
    cases hg : (r.get kd)[i]? with
    | none => rw [hg] at h1; cases h1
    | some sh =>
      rw [hg] at h1
      simp only [Option.map_some, Option.some.injEq] at h1
      subst h1
      exact ⟨sh, rfl, List.nil_sublist _⟩

/-! ### effect of delete on lookups -/

theorem shard_congr (r : Reg K) (kd : Kind) {h h' : Nat} (hs : shardOf r h' = shardOf r h) :
    r.shard kd h' = r.shard kd h := by simp [Reg.shard, hs]

theorem read_after_delete {ko : KeyOps K} (L : KeyLaws ko) (r : Reg K) (hinv : Inv ko r) (kd : Kind) (k : K)
    (kd' : Kind) (k' : K) :
    readSection ko (delete ko r kd k).1 kd' k'
      = if kd' = kd ∧ ko.eqv k k' = true then none else readSection ko r kd' k' := by
  unfold delete
  simp only
  cases hl : lookup ko (r.shard kd (ko.hash k)) (ko.hash k) k with
  | none =>
    simp only
    by_cases hc : kd' = kd ∧ ko.eqv k k' = true
    · rw [if_pos hc, hc.1, readSection_congr L r kd hc.2]
      exact (readSection_none_iff ko r kd k).mpr hl
    · rw [if_neg hc]
  | some e0 =>
    simp only
    unfold readSection
    rw [shard_setShard _ _ _ _ _ _ (hinv.len kd)]
    by_cases hk : kd' = kd
    · subst hk
      by_cases he : ko.eqv k k' = true
      · rw [if_pos ⟨rfl, same_shard L r he⟩, if_pos ⟨rfl, he⟩]
        have hh : ko.hash k' = ko.hash k := (L.hash_coh _ _ he).symm
        unfold lookup
        rw [hh, hit_congr L he,
          find?_eraseP_self_none L _ _ _ (hinv.uniq kd' _ _ (shard_eq r kd' _ (hinv.len kd')))]
        rfl
      · by_cases hs : shardOf r (ko.hash k') = shardOf r (ko.hash k)
        · rw [if_pos ⟨rfl, hs⟩, if_neg (fun c => he c.2), ← shard_congr r kd' hs]
          unfold lookup
          rw [find?_eraseP_disjoint]
          intro e hq
          cases hp : hit ko (ko.hash k') k' e with
          | false => rfl
          | true => exact absurd (hit_eqv L hq hp) he
        · rw [if_neg (fun c => hs c.2), if_neg (fun c => he c.2)]
    · rw [if_neg (fun c => hk c.1), if_neg (fun c => hk c.1)]

theorem delete_out (ko : KeyOps K) (r : Reg K) (kd : Kind) (k : K) :
    (delete ko r kd k).2 = (readSection ko r kd k).isSome := by
  unfold delete readSection
  simp only
  cases lookup ko (r.shard kd (ko.hash k)) (ko.hash k) k <;> rfl

/-! ### effect of retain -/

theorem find?_filter_uniq {ko : KeyOps K} (L : KeyLaws ko) (sh : Shard K)
    (hp : sh.Pairwise (fun a b => ko.eqv a.key b.key = false)) (g : Entry K → Bool) (h : Nat) (k : K) :
    (sh.filter g).find? (hit ko h k) = (sh.find? (hit ko h k)).filter g := by
  induction sh with
  | nil => rfl
  | cons x xs ih =>
    rw [List.pairwise_cons] at hp
    by_cases hx : hit ko h k x = true
    · rw [List.find?_cons_of_pos (l := _) hx]
      by_cases hg : g x = true
      · rw [List.filter_cons_of_pos hg, List.find?_cons_of_pos (l := _) hx]; simp [Option.filter, hg]
      · rw [List.filter_cons_of_neg hg]
        have : (List.filter g xs).find? (hit ko h k) = none := by
          rw [List.find?_eq_none]
          intro y hy hy'
          have hy1 := (List.mem_filter.mp hy).1
          have := hp.1 y hy1
          have h2 : ko.eqv x.key y.key = true := by
            simp only [hit, Bool.and_eq_true] at hx hy'
            exact L.trans _ _ _ (L.symm _ _ hx.2) hy'.2
          rw [h2] at this; cases this
        rw [this]; simp [Option.filter, hg]
    · rw [List.find?_cons_of_neg (l := _) hx, ← ih hp.2]
      by_cases hg : g x = true
      · rw [List.filter_cons_of_pos hg, List.find?_cons_of_neg (l := _) hx]
      · rw [List.filter_cons_of_neg hg]

theorem shard_set (r : Reg K) (kd kd' : Kind) (v : List (Shard K)) (h : Nat) :
    (r.set kd v).shard kd' h = if kd' = kd then v.getD (shardOf r h) [] else r.shard kd' h := by
  simp only [Reg.shard, get_set, shardOf, set_mask]
  split <;> rfl

theorem getD_map_filter (l : List (Shard K)) (g : Entry K → Bool) (i : Nat) :
    (l.map (fun sh => sh.filter g)).getD i [] = (l.getD i []).filter g := by
  simp only [List.getD, List.getElem?_map]
  cases l[i]? <;> rfl

theorem read_after_retain {ko : KeyOps K} (L : KeyLaws ko) (r : Reg K) (hinv : Inv ko r) (kd : Kind)
    (f : K → Nat → Bool) (hf : ∀ a b i, ko.eqv a b = true → f a i = f b i) (kd' : Kind) (k' : K) :
    readSection ko (retain r kd f).1 kd' k'
      = if kd' = kd then (readSection ko r kd' k').filter (f k') else readSection ko r kd' k' := by
  unfold readSection retain
  simp only
  rw [shard_set]
  by_cases hk : kd' = kd
  · subst hk
    rw [if_pos rfl, if_pos rfl, getD_map_filter]
    have hsh : (r.get kd').getD (shardOf r (ko.hash k')) [] = r.shard kd' (ko.hash k') := rfl
    rw [hsh]
    unfold lookup
    rw [find?_filter_uniq L _ (hinv.uniq kd' _ _ (shard_eq r kd' _ (hinv.len kd')))]
    cases hfd : List.find? (hit ko (ko.hash k') k') (r.shard kd' (ko.hash k')) with
    | none => rfl
    | some e =>
      have hhit := List.find?_some hfd
      simp only [hit, Bool.and_eq_true] at hhit
      have : f k' e.id = f e.key e.id := hf _ _ _ hhit.2
      simp only [Option.filter, Option.map_some, this]
      split <;> rfl
  · rw [if_neg hk, if_neg hk]

theorem read_after_clear (ko : KeyOps K) (r : Reg K) (kd : Kind) (k : K) : readSection ko (clear r) kd k = none := by
  unfold readSection Reg.shard
  rw [clear_get]
  simp only [List.getD, List.getElem?_map]
  cases (r.get kd)[shardOf (clear r) (ko.hash k)]? <;> rfl

/-! ### listings -/

/-- all entries of a kind, shard after shard -/
def entries (r : Reg K) (kd : Kind) : List (Entry K) := (r.get kd).flatten

theorem visit_eq (r : Reg K) (kd : Kind) : visit r kd = (entries r kd).map (fun e => (e.key, e.id)) := by
  simp [visit, visitShards, entries, List.map_flatten]

theorem mem_entries (r : Reg K) (kd : Kind) (e : Entry K) : e ∈ entries r kd ↔ ∃ i, At r kd i e := by
  unfold entries At
  rw [List.mem_flatten]
  constructor
  · intro ⟨sh, h1, h2⟩
    obtain ⟨i, hi⟩ := List.mem_iff_getElem?.mp h1
    exact ⟨i, sh, hi, h2⟩
  · intro ⟨i, sh, h1, h2⟩
    exact ⟨sh, List.mem_of_getElem? h1, h2⟩

theorem at_in_shard {ko : KeyOps K} (L : KeyLaws ko) (r : Reg K) (hinv : Inv ko r) (kd : Kind) (i : Nat)
    (e : Entry K) (hat : At r kd i e) (k : K) (he : ko.eqv k e.key = true) :
    e ∈ r.shard kd (ko.hash k) ∧ hit ko (ko.hash k) k e = true := by
  have hpl := hinv.placed kd i e hat
  have hh : e.hash = ko.hash k := by rw [hpl.1]; exact (L.hash_coh _ _ he).symm
  obtain ⟨sh, h1, h2⟩ := hat
  have hi : shardOf r (ko.hash k) = i := by rw [← hh]; exact hpl.2
  have := shard_eq r kd (ko.hash k) (hinv.len kd)
  rw [hi, h1] at this
  injection this with this
  exact ⟨this ▸ h2, by simp [hit, hh, he]⟩

/-- an entry is in the listing iff a lookup of an equal key finds its storage -/
theorem entries_lookup {ko : KeyOps K} (L : KeyLaws ko) (r : Reg K) (hinv : Inv ko r) (kd : Kind) (k : K) (i : Nat) :
    (∃ e ∈ entries r kd, ko.eqv k e.key = true ∧ e.id = i) ↔ readSection ko r kd k = some i := by
  constructor
  · intro ⟨e, he, hk, hid⟩
    obtain ⟨j, hat⟩ := (mem_entries r kd e).mp he
    obtain ⟨hmem, hhit⟩ := at_in_shard L r hinv kd j e hat k hk
    unfold readSection lookup
    cases hfd : List.find? (hit ko (ko.hash k) k) (r.shard kd (ko.hash k)) with
    | none => exact absurd hhit (List.find?_eq_none.mp hfd e hmem)
    | some m =>
      have hm1 := List.mem_of_find?_eq_some hfd
      have hm2 := List.find?_some hfd
      simp only [hit, Bool.and_eq_true] at hm2 hhit
      have hme : ko.eqv m.key e.key = true := L.trans _ _ _ (L.symm _ _ hm2.2) hhit.2
      have := pairwise_mem_eq L (hinv.uniq kd _ _ (shard_eq r kd _ (hinv.len kd))) hm1 hmem hme
      simp [this, hid]
  · intro h
    unfold readSection lookup at h
    cases hfd : List.find? (hit ko (ko.hash k) k) (r.shard kd (ko.hash k)) with
    | none => rw [hfd] at h; cases h
    | some m =>
      rw [hfd] at h
      have hm1 := List.mem_of_find?_eq_some hfd
      have hm2 := List.find?_some hfd
      simp only [hit, Bool.and_eq_true] at hm2
      refine ⟨m, (mem_entries r kd m).mpr ⟨_, at_shard r kd _ (hinv.len kd) hm1⟩, hm2.2, ?_⟩
      simpa using h

/-- no key class occurs twice in a kind, across all shards -/
theorem entries_pairwise {ko : KeyOps K} (L : KeyLaws ko) (r : Reg K) (hinv : Inv ko r) (kd : Kind) :
    (entries r kd).Pairwise (fun a b => ko.eqv a.key b.key = false) := by
  unfold entries
  rw [List.pairwise_flatten]
  refine ⟨?_, ?_⟩
  · intro sh hsh
    obtain ⟨i, hi⟩ := List.mem_iff_getElem?.mp hsh
    exact hinv.uniq kd i sh hi
  · rw [List.pairwise_iff_getElem]
    intro i j hi hj hij x hx y hy
    cases hxy : ko.eqv x.key y.key with
    | false => rfl
    | true =>
      have hx' := hinv.placed kd i x ⟨_, List.getElem?_eq_getElem hi, hx⟩
      have hy' := hinv.placed kd j y ⟨_, List.getElem?_eq_getElem hj, hy⟩
      have : x.hash = y.hash := by rw [hx'.1, hy'.1]; exact L.hash_coh _ _ hxy
      rw [this] at hx'
      omega

theorem handleInsert_fresh (ko : KeyOps K) (acc : List (K × Nat)) (p : K × Nat)
    (h : ∀ q ∈ acc, ko.eqv p.1 q.1 = false) : handleInsert ko acc p = acc ++ [p] := by
  induction acc with
  | nil => rfl
  | cons q rest ih =>
    simp only [handleInsert, h q (List.mem_cons_self), Bool.false_eq_true, if_false, List.cons_append]
    rw [ih (fun q' hq' => h q' (List.mem_cons_of_mem _ hq'))]

theorem foldl_handleInsert {ko : KeyOps K} (L : KeyLaws ko) (l : List (K × Nat)) :
    ∀ acc : List (K × Nat), (acc ++ l).Pairwise (fun p q => ko.eqv p.1 q.1 = false) →
      l.foldl (handleInsert ko) acc = acc ++ l := by
  induction l with
  | nil => intro acc _; simp
  | cons p rest ih =>
    intro acc hp
    rw [List.foldl_cons, handleInsert_fresh]
    · rw [ih (acc ++ [p]) (by simpa using hp)]; simp
    · intro q hq
      rw [List.pairwise_append] at hp
      exact L.symm_false (hp.2.2 q hq p (List.mem_cons_self))

/-- under the invariant the snapshot map built by `get_*_handles` never overwrites: it is the visit itself -/
theorem handles_eq_visit {ko : KeyOps K} (L : KeyLaws ko) (r : Reg K) (hinv : Inv ko r) (kd : Kind) :
    handles ko r kd = visit r kd := by
  unfold handles
  rw [foldl_handleInsert L]
  · rfl
  · rw [List.nil_append, visit_eq, List.pairwise_map]
    exact entries_pairwise L r hinv kd

/-- what the `retain` predicate gets to see is the visit -/
theorem retain_calls (r : Reg K) (kd : Kind) (f : K → Nat → Bool) : (retain r kd f).2 = visit r kd := by
  rw [visit_eq]; rfl

theorem countP_le_one {ko : KeyOps K} (L : KeyLaws ko) (k : K) (l : List (Entry K))
    (hp : l.Pairwise (fun a b => ko.eqv a.key b.key = false)) : l.countP (fun e => ko.eqv k e.key) ≤ 1 := by
  induction l with
  | nil => simp
  | cons x xs ih =>
    rw [List.pairwise_cons] at hp
    rw [List.countP_cons]
    by_cases hx : ko.eqv k x.key = true
    · have : xs.countP (fun e => ko.eqv k e.key) = 0 := by
        rw [List.countP_eq_zero]
        intro y hy hky
        have := hp.1 y hy
        rw [L.trans _ _ _ (L.symm _ _ hx) hky] at this
        cases this
      simp [this, hx]
    · have := ih hp.2
      simp [hx]; exact this

/-! ### sequential runs -/

theorem runOps_append (ko : KeyOps K) (a b : List (Op K)) : ∀ r : Reg K,
    runOps ko r (a ++ b) = ((runOps ko (runOps ko r a).1 b).1, (runOps ko r a).2 ++ (runOps ko (runOps ko r a).1 b).2) := by
  induction a with
  | nil => intro r; simp [runOps]
  | cons op ops ih => intro r; simp only [List.cons_append, runOps, ih]

theorem runOps_length (ko : KeyOps K) (a : List (Op K)) : ∀ r : Reg K, (runOps ko r a).2.length = a.length := by
  induction a with
  | nil => intro r; rfl
  | cons op ops ih => intro r; simp only [runOps, List.length_cons, ih]

/-! ### the step machine: every step is silent or one sequential operation -/

/-- what one thread step amounts to -/
def StepSpec (ko : KeyOps K) (r : Reg K) (t : Thread K) (out : Reg K × Thread K × Option Res) : Prop :=
  match out.2.2 with
  | none => out.1 = r ∧ out.2.1.results = t.results ∧ out.2.1.calls = t.calls
  | some x => ∃ c rest, t.calls = c :: rest ∧ step ko r c.toOp = (out.1, x.toOut)
                ∧ out.2.1.results = t.results ++ [x] ∧ out.2.1.calls = rest

theorem getOrCreate_eq_write (ko : KeyOps K) (r : Reg K) (kd : Kind) (k : K) :
    getOrCreate ko r kd k = writeSection ko r kd k := by
  unfold getOrCreate writeSection readSection
  simp only
  cases lookup ko (r.shard kd (ko.hash k)) (ko.hash k) k <;> rfl

theorem stepThread_spec (ko : KeyOps K) (r : Reg K) (t : Thread K) : StepSpec ko r t (stepThread ko r t) := by
  obtain ⟨calls, pc, results⟩ := t
  cases pc <;> cases calls with
  | nil => simp [stepThread, StepSpec]
  | cons c rest =>
    cases c with
    | goc kd k =>
      first
      | (simp [stepThread, StepSpec]; done)
      | (simp only [stepThread]
         cases hr : readSection ko r kd k with
         | none => simp [StepSpec]
         | some i =>
           simp only [StepSpec]
           exact ⟨_, _, rfl, by simp [step, getOrCreate, hr, Call.toOp, Res.toOut], rfl, rfl⟩)
      | (simp only [stepThread, StepSpec]
         exact ⟨_, _, rfl, by simp [step, getOrCreate_eq_write, Call.toOp, Res.toOut], rfl, rfl⟩)
    | get kd k =>
      first
      | (simp [stepThread, StepSpec]; done)
      | (simp only [stepThread, StepSpec]
         exact ⟨_, _, rfl, by simp [step, Call.toOp, Res.toOut], rfl, rfl⟩)
    | delete kd k =>
      first
      | (simp [stepThread, StepSpec]; done)
      | (simp only [stepThread, StepSpec]
         exact ⟨_, _, rfl, by simp [step, Call.toOp, Res.toOut], rfl, rfl⟩)

def logOps (l : List (LogEntry K)) : List (Op K) := l.map (fun e => e.call.toOp)
def logOuts (l : List (LogEntry K)) : List (Out K) := l.map (fun e => e.res.toOut)

theorem step1_seq (ko : KeyOps K) (s : Sys K) (tid : Nat) :
    ∃ new, (step1 ko s tid).log = s.log ++ new
      ∧ runOps ko s.reg (logOps new) = ((step1 ko s tid).reg, logOuts new)
      ∧ (∀ e ∈ new, e.tid = tid) ∧ new.length ≤ 1 := by
  unfold step1
  cases hg : s.threads[tid]? with
  | none => exact ⟨[], by simp, rfl, by simp, by simp⟩
  | some t =>
    have hs := stepThread_spec ko s.reg t
    dsimp only
    generalize stepThread ko s.reg t = out at hs ⊢
    obtain ⟨r', t', res⟩ := out
    cases res with
    | none =>
      simp only [StepSpec] at hs
      refine ⟨[], by simp, ?_, by simp, by simp⟩
      simp [logOps, logOuts, runOps, hs.1]
    | some x =>
      simp only [StepSpec] at hs
      obtain ⟨c, rest, hc, hstep, _, _⟩ := hs
      refine ⟨[⟨tid, c, x⟩], by simp [hc], ?_, by simp, by simp⟩
      simp [logOps, logOuts, runOps, hstep]

/-- **every concurrent run is the sequential run of its log**: the calls, in the order in which they took effect,
    executed one after the other on the sequential model, give the same registry and the same answers -/
theorem run_seq (ko : KeyOps K) (sched : List Nat) : ∀ s : Sys K,
    ∃ new, (run ko s sched).log = s.log ++ new
      ∧ runOps ko s.reg (logOps new) = ((run ko s sched).reg, logOuts new) := by
  induction sched with
  | nil => intro s; exact ⟨[], by simp [run], rfl⟩
  | cons t ts ih =>
    intro s
    obtain ⟨n1, h1, h2, _, _⟩ := step1_seq ko s t
    obtain ⟨n2, g1, g2⟩ := ih (step1 ko s t)
    refine ⟨n1 ++ n2, ?_, ?_⟩
    · have : run ko s (t :: ts) = run ko (step1 ko s t) ts := rfl
      rw [this, g1, h1, List.append_assoc]
    · have : run ko s (t :: ts) = run ko (step1 ko s t) ts := rfl
      rw [this]
      simp only [logOps, logOuts, List.map_append] at h2 g2 ⊢
      rw [runOps_append, h2]
      simp only
      rw [g2]

/-- what each thread has been answered so far is its part of the log, and the calls logged for it are the
    consumed prefix of its program, in program order -/
def LogInv (progs : List (List (Call K))) (s : Sys K) : Prop :=
  ∀ tid t, s.threads[tid]? = some t →
    t.results = (s.log.filter (fun e => e.tid == tid)).map (·.res) ∧
    (s.log.filter (fun e => e.tid == tid)).map (·.call) ++ t.calls = progs.getD tid []

theorem init_logInv (count : Nat) (progs : List (List (Call K))) : LogInv progs (Sys.init count progs) := by
  intro tid t ht
  simp only [Sys.init, List.getElem?_map] at ht
  cases hp : progs[tid]? with
  | none => rw [hp] at ht; cases ht
  | some p =>
    rw [hp] at ht
    simp only [Option.map_some, Option.some.injEq] at ht
    subst ht
    simp [Sys.init, mkThread, List.getD, hp]

theorem step1_logInv (ko : KeyOps K) (progs : List (List (Call K))) (s : Sys K) (tid : Nat)
    (hinv : LogInv progs s) : LogInv progs (step1 ko s tid) := by
  unfold step1
  cases hg : s.threads[tid]? with
  | none => exact hinv
  | some t0 =>
    have hs := stepThread_spec ko s.reg t0
    dsimp only
    generalize stepThread ko s.reg t0 = out at hs ⊢
    obtain ⟨r', t', res⟩ := out
    intro tid2 t ht
    simp only [getElem?_setAt] at ht
    have h0 := hinv tid t0 hg
    by_cases hc : tid = tid2 ∧ tid2 < s.threads.length
    · rw [if_pos hc] at ht
      injection ht with ht
      subst ht
      obtain ⟨rfl, _⟩ := hc
      cases res with
      | none =>
        simp only [StepSpec] at hs
        simp only
        rw [hs.2.1, hs.2.2]
        exact h0
      | some x =>
        simp only [StepSpec] at hs
        obtain ⟨c, rest, hcs, _, hres, hcalls⟩ := hs
        simp only [hcs, hres, hcalls]
        rw [hcs] at h0
        simp only [List.filter_append, List.map_append]
        refine ⟨by simp [h0.1], ?_⟩
        rw [← h0.2]; simp
    · rw [if_neg hc] at ht
      have hne : tid ≠ tid2 := by
        intro h
        subst h
        have := (List.getElem?_eq_some_iff.mp hg).1
        exact hc ⟨rfl, this⟩
      have h2 := hinv tid2 t ht
      cases res with
      | none => simpa using h2
      | some x =>
        simp only [StepSpec] at hs
        obtain ⟨c, rest, hcs, _, _, _⟩ := hs
        simp only [hcs, List.filter_append]
        have : (List.filter (fun e : LogEntry K => e.tid == tid2) [⟨tid, c, x⟩]) = [] := by
          simp [hne]
        rw [this, List.append_nil]
        exact h2

theorem run_logInv (ko : KeyOps K) (progs : List (List (Call K))) (sched : List Nat) :
    ∀ s : Sys K, LogInv progs s → LogInv progs (run ko s sched) := by
  induction sched with
  | nil => intro s h; exact h
  | cons t ts ih => intro s h; exact ih _ (step1_logInv ko progs s t h)

/-! ### lock-aware machine: a run of sweep sections only removes entries -/

theorem sub_trans {r1 r2 r3 : Reg K} (h12 : Sub r1 r2) (h23 : Sub r2 r3) : Sub r1 r3 := by
  refine ⟨h12.mask.trans h23.mask, Nat.le_trans h23.next h12.next, fun kd => (h12.len kd).trans (h23.len kd), ?_⟩
  intro kd i sh1 h1
  obtain ⟨sh2, h2, s12⟩ := h12.sub kd i sh1 h1
  obtain ⟨sh3, h3, s23⟩ := h23.sub kd i sh2 h2
  exact ⟨sh3, h3, s12.trans s23⟩

/-- replacing shard `idx` by a sublist of what it held only removes entries -/
theorem sub_setIdx (r : Reg K) (kd : Kind) (idx : Nat) (sh' : Shard K)
    (hsub : sh'.Sublist ((r.get kd).getD idx [])) : Sub (r.setIdx kd idx sh') r := by
  refine ⟨by simp [Reg.setIdx], by simp [Reg.setIdx], ?_, ?_⟩
  · intro kd'
    simp only [Reg.setIdx, get_set]
    split
    · next hk => subst hk; rw [setAt_length]
    · rfl
  · intro kd' i sh1 h1
    simp only [Reg.setIdx, get_set] at h1
    by_cases hk : kd' = kd
    · subst hk
      rw [if_pos rfl, getElem?_setAt] at h1
      by_cases hc : idx = i ∧ i < (r.get kd').length
      · rw [if_pos hc] at h1
        injection h1 with h1
        subst h1
        obtain ⟨rfl, hlt⟩ := hc
        refine ⟨(r.get kd')[idx], List.getElem?_eq_getElem hlt, ?_⟩
        simpa [List.getD, List.getElem?_eq_getElem hlt] using hsub
      · rw [if_neg hc] at h1
        exact ⟨sh1, h1, List.Sublist.refl _⟩
    · rw [if_neg hk] at h1
      exact ⟨sh1, h1, List.Sublist.refl _⟩

theorem sweepSection_sub (c : LCall K) (r : Reg K) (kd : Kind) (idx : Nat) (acc : List (K × Nat)) :
    Sub (sweepSection c r kd idx ((r.get kd).getD idx []) acc).1 r := by
  cases c with
  | clear => exact sub_setIdx r kd idx [] (List.nil_sublist _)
  | retain kd' f h => exact sub_setIdx r kd idx _ List.filter_sublist
  | visit kd' h => exact sub_refl r
  | goc kd' k => exact sub_refl r
  | get kd' k => exact sub_refl r
  | delete kd' k => exact sub_refl r

theorem sweepRun_sub (c : LCall K) (hold : Bool) (others : List Lock) (fuel : Nat) :
    ∀ (r : Reg K) (acc : List (K × Nat)) (kd : Kind) (idx : Nat), Sub (sweepRun c hold others fuel r acc kd idx).1 r := by
  induction fuel with
  | zero => intro r acc kd idx; exact sub_refl r
  | succ n ih =>
    intro r acc kd idx
    unfold sweepRun
    split
    · exact sub_refl r
    · have hs := sweepSection_sub c r kd idx acc
      simp only
      split
      · exact hs
      · split
        · exact hs
        · exact sub_trans (ih _ _ _ _) hs

end MetricsVerif.Registry
