/-
Helper lemmas for C16 (sampling reservoir).  Property statements live in `Props/C16.lean`.
-/
import MetricsVerif.Model.Reservoir

namespace MetricsVerif.Reservoir

/-! ## lists -/

theorem take_succ_set {α} (l : List α) (i : Nat) (v : α) (h : i < l.length) :
    (l.set i v).take (i + 1) = l.take i ++ [v] := by
  induction l generalizing i with
  | nil => simp at h
  | cons a l ih =>
    cases i with
    | zero => simp
    | succ i => simp at h; simp [ih i h]

theorem count_set_le (l : List Nat) (j v x : Nat) :
    (l.set j v).count x ≤ l.count x + (if v = x then 1 else 0) := by
  by_cases h : j < l.length
  · rw [List.count_set h]
    simp only [beq_iff_eq]
    omega
  · rw [List.set_eq_of_length_le (by omega)]
    omega

/-! ## one reservoir: `push` -/

theorem push_of_lt (r : Res) (v c : Nat) (h : r.count < r.slots.length) :
    r.push v c = { r with slots := r.slots.set r.count v, count := r.count + 1 } := by
  simp [Res.push, Res.pushWith, h]

theorem push_of_ge (r : Res) (v c : Nat) (h : ¬ r.count < r.slots.length) :
    r.push v c =
      if c % (r.count + 1) < r.slots.length then
        { r with slots := r.slots.set (c % (r.count + 1)) v, count := r.count + 1 }
      else { r with count := r.count + 1 } := by
  by_cases hj : c % (r.count + 1) < r.slots.length <;> simp [Res.push, Res.pushWith, h, fastrandArg, hj]

@[simp] theorem push_slots_length (r : Res) (v c : Nat) : (r.push v c).slots.length = r.slots.length := by
  by_cases h : r.count < r.slots.length
  · simp [push_of_lt r v c h]
  · rw [push_of_ge r v c h]; split <;> simp

@[simp] theorem push_count (r : Res) (v c : Nat) : (r.push v c).count = r.count + 1 := by
  by_cases h : r.count < r.slots.length
  · simp [push_of_lt r v c h]
  · rw [push_of_ge r v c h]; split <;> simp

/-- the panic branch of `push` (`fastrand(0)`) is never taken: the flag is left as it was -/
@[simp] theorem push_panicked (r : Res) (v c : Nat) : (r.push v c).panicked = r.panicked := by
  by_cases h : r.count < r.slots.length
  · simp [push_of_lt r v c h]
  · rw [push_of_ge r v c h]; split <;> simp

@[simp] theorem new_slots_length (cap : Nat) : (Res.new cap).slots.length = cap := by simp [Res.new]
@[simp] theorem new_count (cap : Nat) : (Res.new cap).count = 0 := rfl
@[simp] theorem new_panicked (cap : Nat) : (Res.new cap).panicked = false := rfl

theorem drain_values (r : Res) : r.drain.values = r.slots.take (min r.count r.slots.length) := by
  simp only [Res.drain]
  split
  · rw [Nat.min_eq_right (by omega)]
  · rw [Nat.min_eq_left (by omega)]

theorem drain_len (r : Res) : r.drain.len = min r.count r.slots.length := by
  simp only [Res.drain]
  split
  · rw [Nat.min_eq_right (by omega)]
  · rw [Nat.min_eq_left (by omega)]

@[simp] theorem drain_unsampled (r : Res) : r.drain.unsampled = r.count := rfl

/-! ## sequential invariant of one reservoir against the values pushed since its last reset -/

/-- `r` holds a sample of `pend`: it counted every push, what a drain would yield is a sub-multiset of `pend`,
    and is `pend` itself while no more than capacity values were pushed -/
structure SeqInv (r : Res) (pend : List Nat) : Prop where
  count_eq : r.count = pend.length
  sub : ∀ x, (r.slots.take (min r.count r.slots.length)).count x ≤ pend.count x
  all : r.count ≤ r.slots.length → r.slots.take r.count = pend

theorem SeqInv.empty (r : Res) (h : r.count = 0) : SeqInv r [] := by
  refine ⟨by simp [h], ?_, ?_⟩
  · intro x; simp [h]
  · intro _; simp [h]

theorem SeqInv.push {r : Res} {pend : List Nat} (h : SeqInv r pend) (v c : Nat) :
    SeqInv (r.push v c) (pend ++ [v]) := by
  by_cases hlt : r.count < r.slots.length
  · have hall := h.all (by omega)
    have e : (r.push v c).slots.take (r.count + 1) = pend ++ [v] := by
      rw [push_of_lt r v c hlt]
      simp only
      rw [take_succ_set _ _ _ hlt, hall]
    refine ⟨by simp [h.count_eq], ?_, ?_⟩
    · intro x
      rw [push_count, push_slots_length, Nat.min_eq_left (by omega), e]
      exact Nat.le_refl _
    · intro _
      rw [push_count, e]
  · refine ⟨by simp [h.count_eq], ?_, ?_⟩
    · intro x
      have hs := h.sub x
      rw [Nat.min_eq_right (by omega), List.take_of_length_le (Nat.le_refl _)] at hs
      rw [push_count, push_slots_length, Nat.min_eq_right (by omega)]
      rw [List.take_of_length_le (by simp)]
      rw [push_of_ge r v c hlt]
      have hc : (pend ++ [v]).count x = pend.count x + (if v = x then 1 else 0) := by
        simp [List.count_append, List.count_singleton]
      split
      · have := count_set_le r.slots (c % (r.count + 1)) v x
        simp only
        omega
      · simp only
        omega
    · intro hle
      rw [push_count, push_slots_length] at hle
      omega

/-! ## the A/B pair -/

/-- invariant of a sequential history of `AtomicSamplingReservoir`: both halves have `cap` slots, the inactive
    half has been reset, the active half samples the values pushed since the last `consume`, no panic happened -/
structure AInv (cap : Nat) (a : ASR) (pend : List Nat) : Prop where
  lenP : a.primary.slots.length = cap
  lenS : a.secondary.slots.length = cap
  idle : a.inactive.count = 0
  act : SeqInv a.active pend
  okP : a.primary.panicked = false
  okS : a.secondary.panicked = false

theorem AInv.new (cap : Nat) : AInv cap (ASR.new cap) [] := by
  refine ⟨by simp [ASR.new], by simp [ASR.new], by simp [ASR.new, ASR.inactive], ?_, rfl, rfl⟩
  exact SeqInv.empty _ (by simp [ASR.new, ASR.active])

theorem AInv.push {cap : Nat} {a : ASR} {pend : List Nat} (h : AInv cap a pend) (v c : Nat) :
    AInv cap (a.push v c) (pend ++ [v]) := by
  obtain ⟨lp, ls, idle, act, okP, okS⟩ := h
  cases hu : a.usePrimary
  · simp only [ASR.active, ASR.inactive, hu] at idle act
    refine ⟨?_, ?_, ?_, ?_, ?_, ?_⟩ <;> simp only [ASR.push, ASR.active, ASR.inactive, hu]
    · exact lp
    · simpa using ls
    · simpa using idle
    · simpa using act.push v c
    · exact okP
    · simpa using okS
  · simp only [ASR.active, ASR.inactive, hu] at idle act
    refine ⟨?_, ?_, ?_, ?_, ?_, ?_⟩ <;> simp only [ASR.push, ASR.active, ASR.inactive, hu]
    · simpa using lp
    · exact ls
    · simpa using idle
    · simpa using act.push v c
    · simpa using okP
    · exact okS

theorem AInv.consume {cap : Nat} {a : ASR} {pend : List Nat} (h : AInv cap a pend) :
    AInv cap a.consume.1 [] := by
  obtain ⟨lp, ls, idle, act, okP, okS⟩ := h
  cases hu : a.usePrimary
  · simp only [ASR.active, ASR.inactive, hu] at idle act
    refine ⟨?_, ?_, ?_, ?_, ?_, ?_⟩ <;> simp [ASR.consume, ASR.active, ASR.inactive, Res.reset, *]
    exact SeqInv.empty _ idle
  · simp only [ASR.active, ASR.inactive, hu] at idle act
    refine ⟨?_, ?_, ?_, ?_, ?_, ?_⟩ <;> simp [ASR.consume, ASR.active, ASR.inactive, Res.reset, *]
    exact SeqInv.empty _ idle

/-- what `consume` hands out is the drain of the active half -/
theorem consume_out (a : ASR) : a.consume.2 = a.active.drain := by
  cases hu : a.usePrimary <;> simp [ASR.consume, ASR.active, hu]

theorem AInv.step {cap : Nat} {a : ASR} {pend : List Nat} (h : AInv cap a pend) (op : Op) :
    AInv cap (step a op) (pendStep pend op) := by
  cases op with
  | push v c => exact h.push v c
  | consume => exact h.consume

theorem AInv.run {cap : Nat} {a : ASR} {pend : List Nat} (h : AInv cap a pend) (ops : List Op) :
    AInv cap (run a ops) (ops.foldl pendStep pend) := by
  induction ops generalizing a pend with
  | nil => exact h
  | cons op ops ih => exact ih (h.step op)

/-- the invariant holds after every sequential history -/
theorem inv_run (cap : Nat) (ops : List Op) : AInv cap (run (ASR.new cap) ops) (pendOf ops) :=
  (AInv.new cap).run ops

theorem AInv.active_len {cap : Nat} {a : ASR} {pend : List Nat} (h : AInv cap a pend) :
    a.active.slots.length = cap := by
  cases hu : a.usePrimary <;> simp [ASR.active, hu, h.lenP, h.lenS]

/-! ## counting lemmas for the uniformity theorem -/

theorem countP_flatMap_ite {α β} (l : List α) (f : α → List β) (p : β → Bool) (q : α → Bool) (c : Nat)
    (h : ∀ x ∈ l, (f x).countP p = if q x then c else 0) :
    (l.flatMap f).countP p = c * l.countP q := by
  induction l with
  | nil => simp
  | cons x l ih =>
    have hx := h x (by simp)
    have ih' := ih (fun y hy => h y (by simp [hy]))
    rw [List.flatMap_cons, List.countP_append, hx, ih', List.countP_cons]
    cases q x <;> simp [Nat.mul_add]
    omega

theorem length_flatMap_const {α β} (l : List α) (f : α → List β) (c : Nat)
    (h : ∀ x ∈ l, (f x).length = c) : (l.flatMap f).length = l.length * c := by
  induction l with
  | nil => simp
  | cons x l ih =>
    have hx := h x (by simp)
    have ih' := ih (fun y hy => h y (by simp [hy]))
    rw [List.flatMap_cons, List.length_append, hx, ih', List.length_cons, Nat.succ_mul]
    omega

theorem countP_ne_range (p N : Nat) :
    (List.range N).countP (fun j => decide (j ≠ p)) = if p < N then N - 1 else N := by
  induction N with
  | zero => simp
  | succ N ih =>
    rw [List.range_succ, List.countP_append, ih, List.countP_singleton]
    by_cases h1 : p < N
    · have h2 : N ≠ p := by omega
      have h4 : p < N + 1 := by omega
      rw [if_pos h1, if_pos h4]
      simp [h2]; omega
    · by_cases h2 : p = N
      · subst h2; simp
      · have h3 : N ≠ p := by omega
        have h4 : ¬ p < N + 1 := by omega
        rw [if_neg h1, if_neg h4]
        simp [h3]

theorem countP_lt_range (k N : Nat) :
    (List.range N).countP (fun j => decide (j < k)) = min k N := by
  induction N with
  | zero => simp
  | succ N ih =>
    rw [List.range_succ, List.countP_append, ih, List.countP_singleton]
    by_cases h : N < k <;> simp [h] <;> omega

theorem nodup_set (l : List Nat) (j v : Nat) (hn : l.Nodup) (hv : v ∉ l) : (l.set j v).Nodup := by
  induction l generalizing j with
  | nil => simp
  | cons a l ih =>
    rw [List.nodup_cons] at hn
    have hva : v ≠ a := by intro e; apply hv; simp [e]
    have hvl : v ∉ l := by intro e; apply hv; simp [e]
    cases j with
    | zero => simp [List.nodup_cons, hvl, hn.2]
    | succ j =>
      simp only [List.set_cons_succ, List.nodup_cons]
      refine ⟨?_, ih j hn.2 hvl⟩
      intro hm
      rcases List.mem_or_eq_of_mem_set hm with h | h
      · exact hn.1 h
      · exact hva h.symm

/-- the slots after one sampling push with choice `j` of the value `m` -/
def stepSlots (s : List Nat) (j m : Nat) : List Nat := if j < s.length then s.set j m else s

/-- a retained position survives all choices but the one that hits its slot -/
theorem count_keep (s : List Nat) (i m : Nat) (hn : s.Nodup) (hi : i ∈ s) (him : i ≠ m) (hk : s.length ≤ m + 1) :
    (List.range (m + 1)).countP (fun j => decide (i ∈ stepSlots s j m)) = m := by
  obtain ⟨p, hp, hpi⟩ := List.mem_iff_getElem.mp hi
  have key : ∀ j, i ∈ stepSlots s j m ↔ j ≠ p := by
    intro j
    unfold stepSlots
    by_cases hj : j < s.length
    · simp only [hj, if_true]
      constructor
      · intro hmem e
        subst e
        obtain ⟨q, hq, hqi⟩ := List.mem_iff_getElem.mp hmem
        rw [List.getElem_set] at hqi
        split at hqi
        · exact him hqi.symm
        · rename_i hne
          have hq' : q < s.length := by simpa using hq
          have : s[q] = s[j] := by rw [hqi, hpi]
          have := (List.getElem_inj hn).mp this
          omega
      · intro hne
        have hp' : p < (s.set j m).length := by simpa using hp
        have : (s.set j m)[p] = i := by
          rw [List.getElem_set]; simp [hne, hpi]
        rw [← this]
        exact List.getElem_mem hp'
    · simp only [hj, if_false, hi, true_iff]
      omega
  rw [List.countP_congr (q := fun j => decide (j ≠ p)) (by intro j _; simp [key j])]
  rw [countP_ne_range]
  have : p < m + 1 := by omega
  simp [this]

/-- a position that is not retained (and is not the one being pushed) stays out -/
theorem count_out (s : List Nat) (i m : Nat) (hi : i ∉ s) (him : i ≠ m) :
    (List.range (m + 1)).countP (fun j => decide (i ∈ stepSlots s j m)) = 0 := by
  rw [List.countP_eq_zero]
  intro j _
  simp only [decide_eq_true_eq]
  unfold stepSlots
  split
  · intro hm
    rcases List.mem_or_eq_of_mem_set hm with h | h
    · exact hi h
    · exact him h
  · exact hi

/-- the position being pushed is retained for exactly `capacity` of the `m + 1` choices -/
theorem count_new (s : List Nat) (m : Nat) (hlt : ∀ x ∈ s, x < m) (hk : s.length ≤ m + 1) :
    (List.range (m + 1)).countP (fun j => decide (m ∈ stepSlots s j m)) = s.length := by
  have key : ∀ j, m ∈ stepSlots s j m ↔ j < s.length := by
    intro j
    unfold stepSlots
    by_cases hj : j < s.length
    · simp only [hj, if_true, iff_true]
      exact List.mem_set hj m
    · simp only [hj, if_false, iff_false]
      intro hm
      have := hlt m hm
      omega
  rw [List.countP_congr (q := fun j => decide (j < s.length)) (by intro j _; simp [key j])]
  rw [countP_lt_range]
  omega

/-! ## the model on streams of positions -/

theorem filled_partial (cap m : Nat) (h : m ≤ cap) :
    (List.range m).foldl (fun r _ => r.push r.count 0) (Res.new cap)
      = { slots := List.range m ++ List.replicate (cap - m) 0, count := m } := by
  induction m with
  | zero => simp [Res.new]
  | succ m ih =>
    rw [List.range_succ, List.foldl_append, ih (by omega)]
    simp only [List.foldl_cons, List.foldl_nil]
    rw [push_of_lt _ _ _ (by simp; omega)]
    simp only
    obtain ⟨k, hk⟩ : ∃ k, cap - m = k + 1 := ⟨cap - m - 1, by omega⟩
    have hk' : cap - (m + 1) = k := by omega
    rw [hk, hk', List.set_append_right _ _ (by simp)]
    simp [List.replicate_succ]

/-- after the first `cap` pushes of a stream of positions the slots hold `0, …, cap-1` in order -/
theorem filled_eq (cap : Nat) : filled cap = { slots := List.range cap, count := cap } := by
  unfold filled
  rw [filled_partial cap cap (Nat.le_refl _)]
  simp

/-- state of a full reservoir over a stream of positions after `cap + e` pushes -/
structure Good (cap e : Nat) (r : Res) : Prop where
  len : r.slots.length = cap
  cnt : r.count = cap + e
  nd : r.slots.Nodup
  lt : ∀ x ∈ r.slots, x < cap + e

theorem Good.filled (cap : Nat) : Good cap 0 (filled cap) := by
  rw [filled_eq]
  exact ⟨by simp, rfl, List.nodup_range, by intro x hx; simpa using hx⟩

theorem Good.push_slots {cap e : Nat} {r : Res} (h : Good cap e r) (j : Nat) (hj : j < cap + e + 1) :
    (r.push r.count j).slots = stepSlots r.slots j (cap + e) := by
  have hge : ¬ r.count < r.slots.length := by rw [h.len, h.cnt]; omega
  rw [push_of_ge _ _ _ hge, h.cnt, Nat.mod_eq_of_lt hj]
  unfold stepSlots
  split <;> rfl

theorem stepSlots_length (s : List Nat) (j m : Nat) : (stepSlots s j m).length = s.length := by
  unfold stepSlots; split <;> simp

theorem Good.push {cap e : Nat} {r : Res} (h : Good cap e r) (j : Nat) (hj : j < cap + e + 1) :
    Good cap (e + 1) (r.push r.count j) := by
  have hs := h.push_slots j hj
  have hnot : cap + e ∉ r.slots := fun hm => Nat.lt_irrefl _ (h.lt _ hm)
  refine ⟨by simp [h.len], by simp [h.cnt]; omega, ?_, ?_⟩
  · rw [hs]; unfold stepSlots
    split
    · exact nodup_set _ _ _ h.nd hnot
    · exact h.nd
  · intro x hx
    rw [hs] at hx
    unfold stepSlots at hx
    split at hx
    · rcases List.mem_or_eq_of_mem_set hx with h1 | h1
      · have := h.lt x h1; omega
      · omega
    · have := h.lt x hx; omega

theorem runChoices_snoc (cap : Nat) (cs : List Nat) (j : Nat) :
    runChoices cap (cs ++ [j]) = (runChoices cap cs).push (runChoices cap cs).count j := by
  simp [runChoices, List.foldl_append]

theorem Good.retained {cap e : Nat} {r : Res} (h : Good cap e r) : r.drain.values = r.slots := by
  rw [drain_values, h.len, h.cnt, Nat.min_eq_right (by omega), List.take_of_length_le (by rw [h.len]; exact Nat.le_refl _)]

theorem mem_vectors_succ (cap e : Nat) (cs' : List Nat) :
    cs' ∈ vectors cap (e + 1) ↔ ∃ cs ∈ vectors cap e, ∃ j, j < cap + e + 1 ∧ cs' = cs ++ [j] := by
  simp only [vectors, fastrandArg, List.mem_flatMap, List.mem_map, List.mem_range]
  constructor
  · rintro ⟨cs, hcs, j, hj, rfl⟩; exact ⟨cs, hcs, j, hj, rfl⟩
  · rintro ⟨cs, hcs, j, hj, rfl⟩; exact ⟨cs, hcs, j, hj, rfl⟩

/-- every choice vector of `vectors cap e` drives the model into a `Good` state -/
theorem vectors_good (cap e : Nat) : ∀ cs ∈ vectors cap e, Good cap e (runChoices cap cs) := by
  induction e with
  | zero =>
    intro cs hcs
    simp only [vectors, List.mem_singleton] at hcs
    subst hcs
    exact Good.filled cap
  | succ e ih =>
    intro cs' hcs'
    obtain ⟨cs, hcs, j, hj, rfl⟩ := (mem_vectors_succ cap e cs').mp hcs'
    rw [runChoices_snoc]
    exact (ih cs hcs).push j hj

theorem vectors_length_succ (cap e : Nat) :
    (vectors cap (e + 1)).length = (vectors cap e).length * (cap + e + 1) := by
  simp only [vectors]
  exact length_flatMap_const _ _ _ (by intro cs _; simp [fastrandArg])

/-- what a drain yields after one more push with choice `j < cap + e + 1` -/
theorem retained_snoc (cap e : Nat) (cs : List Nat) (hcs : cs ∈ vectors cap e) (j : Nat) (hj : j < cap + e + 1) :
    retained cap (cs ++ [j]) = stepSlots (retained cap cs) j (cap + e) := by
  have g := vectors_good cap e cs hcs
  have g' := g.push j hj
  unfold retained
  rw [runChoices_snoc, g'.retained, g.retained, g.push_slots j hj]

/-- **counting core of `uniform`** -/
theorem retainCount_mul (cap e i : Nat) (hi : i < cap + e) :
    retainCount cap e i * (cap + e) = cap * (vectors cap e).length := by
  induction e generalizing i with
  | zero =>
    have : retained cap [] = List.range cap := by
      unfold retained runChoices
      simp only [List.foldl_nil]
      rw [(Good.filled cap).retained, filled_eq]
    simp only [retainCount, vectors, List.countP_cons, List.countP_nil, this, List.mem_range]
    simp at hi
    simp [hi]
  | succ e ih =>
    rw [vectors_length_succ]
    have hstep : ∀ cs ∈ vectors cap e,
        ((List.range (fastrandArg (cap + e))).map (fun j => cs ++ [j])).countP
            (fun cs' => decide (i ∈ retained cap cs'))
          = (List.range (cap + e + 1)).countP (fun j => decide (i ∈ stepSlots (retained cap cs) j (cap + e))) := by
      intro cs hcs
      rw [List.countP_map]
      simp only [fastrandArg]
      apply List.countP_congr
      intro j hj
      rw [List.mem_range] at hj
      simp only [Function.comp, retained_snoc cap e cs hcs j hj]
    by_cases hlt : i < cap + e
    · -- an old position: kept by all but one choice iff it was kept before
      have hcount : retainCount cap (e + 1) i = (cap + e) * retainCount cap e i := by
        unfold retainCount
        simp only [vectors]
        apply countP_flatMap_ite
        intro cs hcs
        rw [hstep cs hcs]
        have g := vectors_good cap e cs hcs
        have hr := g.retained
        have hs : retained cap cs = (runChoices cap cs).slots := hr
        by_cases hm : i ∈ retained cap cs
        · simp only [hm, decide_true, if_true]
          apply count_keep
          · rw [hs]; exact g.nd
          · exact hm
          · omega
          · rw [hs, g.len]; omega
        · simp only [hm, decide_false]
          exact count_out _ _ _ hm (by omega)
      rw [hcount]
      have := ih i hlt
      calc (cap + e) * retainCount cap e i * (cap + (e + 1))
          = (retainCount cap e i * (cap + e)) * (cap + e + 1) := by rw [Nat.mul_comm (cap + e)]; rfl
        _ = cap * (vectors cap e).length * (cap + e + 1) := by rw [this]
        _ = cap * ((vectors cap e).length * (cap + e + 1)) := by rw [Nat.mul_assoc]
    · -- the new position
      have hie : i = cap + e := by omega
      subst hie
      have hcount : retainCount cap (e + 1) (cap + e) = cap * (vectors cap e).length := by
        unfold retainCount
        simp only [vectors]
        have := countP_flatMap_ite (vectors cap e)
          (fun cs => (List.range (fastrandArg (cap + e))).map (fun j => cs ++ [j]))
          (fun cs' => decide ((cap + e) ∈ retained cap cs')) (fun _ => true) cap
          (by
            intro cs hcs
            rw [hstep cs hcs]
            have g := vectors_good cap e cs hcs
            have hs : retained cap cs = (runChoices cap cs).slots := g.retained
            simp only [if_true]
            rw [count_new _ _ (by rw [hs]; exact g.lt) (by rw [hs, g.len]; omega), hs, g.len])
        rw [this, List.countP_eq_length.mpr (by intro _ _; rfl)]
      rw [hcount, Nat.mul_assoc]
      rfl

/-! ## `vectors` is the full product of the choice ranges, each vector once -/

theorem mem_vectors_iff (cap e : Nat) (cs : List Nat) :
    cs ∈ vectors cap e ↔ cs.length = e ∧ ∀ t (h : t < cs.length), cs[t] < fastrandArg (cap + t) := by
  induction e generalizing cs with
  | zero =>
    simp only [vectors, List.mem_singleton]
    constructor
    · rintro rfl; simp
    · rintro ⟨h, _⟩; exact List.length_eq_zero_iff.mp h
  | succ e ih =>
    rw [mem_vectors_succ]
    constructor
    · rintro ⟨cs0, hcs0, j, hj, rfl⟩
      obtain ⟨hl, hr⟩ := (ih cs0).mp hcs0
      refine ⟨by simp [hl], ?_⟩
      intro t ht
      by_cases h1 : t < cs0.length
      · rw [List.getElem_append_left h1]; exact hr t h1
      · have ht' : t = cs0.length := by simp at ht; omega
        subst ht'
        simp [fastrandArg, hl]; omega
    · rintro ⟨hl, hr⟩
      have hne : cs ≠ [] := by intro h; simp [h] at hl
      have hsplit := List.dropLast_concat_getLast hne
      refine ⟨cs.dropLast, ?_, cs.getLast hne, ?_, hsplit.symm⟩
      · rw [ih]
        refine ⟨by simp [hl], ?_⟩
        intro t ht
        have ht' : t < cs.length := by simp at ht; omega
        have := hr t ht'
        rwa [List.getElem_dropLast]
      · have hlast : cs.getLast hne = cs[cs.length - 1]'(by omega) := List.getLast_eq_getElem hne
        have := hr (cs.length - 1) (by omega)
        rw [hlast]
        simp only [fastrandArg] at this
        omega

theorem vectors_nodup (cap e : Nat) : (vectors cap e).Nodup := by
  induction e with
  | zero => simp [vectors]
  | succ e ih =>
    simp only [vectors, List.Nodup]
    rw [List.pairwise_flatMap]
    constructor
    · intro cs _
      rw [List.pairwise_map]
      refine List.Pairwise.imp ?_ (List.nodup_range (n := fastrandArg (cap + e)))
      intro a b hab h
      exact hab (by simpa using List.append_cancel_left h)
    · refine List.Pairwise.imp ?_ ih
      intro cs1 cs2 hne x hx y hy hxy
      simp only [List.mem_map] at hx hy
      obtain ⟨a, _, rfl⟩ := hx
      obtain ⟨b, _, rfl⟩ := hy
      exact hne (List.append_inj_left' hxy rfl)

/-! ## from positions to values -/

/-- `r1` (a stream whose value at position `p` is `f p`) and `r2` (the stream of positions) hold the same sample -/
structure Sim (f : Nat → Nat) (r1 r2 : Res) : Prop where
  cnt : r1.count = r2.count
  len : r1.slots.length = r2.slots.length
  img : r1.slots.take (min r1.count r1.slots.length) = (r2.slots.take (min r2.count r2.slots.length)).map f

theorem Sim.push {f : Nat → Nat} {r1 r2 : Res} (h : Sim f r1 r2) (c1 c2 : Nat)
    (hc : r1.count < r1.slots.length ∨ c1 = c2) :
    Sim f (r1.push (f r1.count) c1) (r2.push r2.count c2) := by
  obtain ⟨hcnt, hlen, himg⟩ := h
  refine ⟨by simp [hcnt], by simp [hlen], ?_⟩
  simp only [push_count, push_slots_length]
  by_cases hlt : r1.count < r1.slots.length
  · have hlt2 : r2.count < r2.slots.length := by omega
    rw [push_of_lt _ _ _ hlt, push_of_lt _ _ _ hlt2]
    simp only
    rw [Nat.min_eq_left (by omega), Nat.min_eq_left (by omega)]
    rw [Nat.min_eq_left (by omega), Nat.min_eq_left (by omega)] at himg
    rw [take_succ_set _ _ _ hlt, take_succ_set _ _ _ hlt2, himg, hcnt]
    simp
  · have hlt2 : ¬ r2.count < r2.slots.length := by omega
    have hcc : c1 = c2 := by rcases hc with h | h; exact absurd h hlt; exact h
    subst hcc
    rw [Nat.min_eq_right (by omega), Nat.min_eq_right (by omega)]
    rw [Nat.min_eq_right (by omega), Nat.min_eq_right (by omega),
      List.take_of_length_le (Nat.le_refl _), List.take_of_length_le (Nat.le_refl _)] at himg
    rw [push_of_ge _ _ _ hlt, push_of_ge _ _ _ hlt2, ← hcnt, ← hlen]
    split
    · simp only
      rw [List.take_of_length_le (by simp), List.take_of_length_le (by simp [hlen]), himg, List.map_set]
    · simp only
      rw [List.take_of_length_le (Nat.le_refl _), List.take_of_length_le (by omega), himg]

theorem Sim.fill {f : Nat → Nat} (l1 l2 : List Nat) (hl : l1.length = l2.length) :
    ∀ {r1 r2 : Res}, Sim f r1 r2 → r1.count + l1.length ≤ r1.slots.length →
      Sim f (l1.foldl (fun r c => r.push (f r.count) c) r1) (l2.foldl (fun r c => r.push r.count c) r2) := by
  induction l1 generalizing l2 with
  | nil =>
    intro r1 r2 h _
    have : l2 = [] := List.length_eq_zero_iff.mp (by simpa using hl.symm)
    subst this; exact h
  | cons c1 l1 ih =>
    intro r1 r2 h hle
    cases l2 with
    | nil => simp at hl
    | cons c2 l2 =>
      simp only [List.foldl_cons]
      simp only [List.length_cons] at hl hle
      exact ih l2 (by omega) (h.push c1 c2 (Or.inl (by omega))) (by simp; omega)

theorem Sim.run {f : Nat → Nat} (cs : List Nat) :
    ∀ {r1 r2 : Res}, Sim f r1 r2 →
      Sim f (cs.foldl (fun r c => r.push (f r.count) c) r1) (cs.foldl (fun r c => r.push r.count c) r2) := by
  induction cs with
  | nil => intro r1 r2 h; exact h
  | cons c cs ih => intro r1 r2 h; exact ih (h.push c c (Or.inr rfl))

theorem fold_range_replicate (n : Nat) (r : Res) :
    (List.range n).foldl (fun r _ => r.push r.count 0) r
      = (List.replicate n 0).foldl (fun r c => r.push r.count c) r := by
  induction n generalizing r with
  | zero => rfl
  | succ n ih =>
    rw [List.range_succ, List.foldl_append, ih, List.replicate_succ', List.foldl_append]
    simp

/-- a drain after pushing the stream `f 0, f 1, …` (first `cap` pushes with any unconsulted raw numbers `cs0`, then
    the choices `cs`) yields the values at the retained positions -/
theorem drain_values_of_positions (f : Nat → Nat) (cap : Nat) (cs0 cs : List Nat) (h0 : cs0.length = cap) :
    ((cs0 ++ cs).foldl (fun r c => r.push (f r.count) c) (Res.new cap)).drain.values
      = (retained cap cs).map f := by
  have s0 : Sim f (Res.new cap) (Res.new cap) := ⟨rfl, rfl, by simp⟩
  have hz := fold_range_replicate cap (Res.new cap)
  have s1 := Sim.fill (f := f) cs0 (List.replicate cap 0) (by simp [h0]) s0 (by simp [h0])
  have s2 := Sim.run (f := f) cs s1
  rw [List.foldl_append, drain_values, s2.img]
  unfold retained runChoices filled
  rw [drain_values, hz]

end MetricsVerif.Reservoir
