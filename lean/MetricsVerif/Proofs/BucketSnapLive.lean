/-
C05, snapshot completeness for ANY programs (clears included): a `data_with` whose tail load is executed in state `S0`
hands to its callback every value that is published in `S0` in a block reachable from the tail of `S0` — whatever
happens afterwards (hand-overs, clears detaching the chain under the reader, stragglers, waits of any length).
Rests on: `next` links of existing blocks never change, the reader leaves a block's wait only when the block is
quiesced, a quiesced block's `data()` is all of its claimed slots, published slots are never retracted.
(`Proofs/BucketSnap.lean` has the version for programs without clears, relative to the moment BEFORE the tail load.)
-/
import MetricsVerif.Proofs.BucketCons

namespace MetricsVerif.Bucket

/-- links of existing blocks are immutable -/
theorem step_nextAt (s : Sys) (tid k : Nat) (hk : k < s.blocks.length) :
    nextAt (step s tid).blocks k = nextAt s.blocks k := by
  cases hg : s.threads[tid]? with
  | none => unfold step; rw [hg]
  | some t =>
    rw [step_eq s tid t hg]
    have hge := stepThread_geff s t
    generalize (stepThread s t).1.blocks = bs' at hge ⊢
    generalize (stepThread s t).1.tail = tl' at hge
    generalize (stepThread s t).2 = t' at hge
    cases hge with
    | quiet bs' t' hsim _ _ _ => exact hsim.2.1 k
    | append nb t' _ _ _ _ _ _ => exact nextAt_append_lt _ _ _ hk
    | detach old _ _ => rfl
    | read blk _ => rfl
    | nextNone blk _ _ => rfl
    | nextSome blk n _ _ => rfl

/-- where the reader is on the chain `lo ..= hi` of `S0` (blocks `bs0`), and what it has collected so far -/
def RdPC2 (lo hi : Nat) (bs0 : List Block) (s : Sys) (acc : List Nat) : PC → Prop
  | .dQuiesced k => lo ≤ k ∧ k ≤ hi ∧ ∀ v, needFrom v bs0 (k + 1) ≤ acc.count v
  | .dWait k => lo ≤ k ∧ k ≤ hi ∧ ∀ v, needFrom v bs0 (k + 1) ≤ acc.count v
  | .dRead k => lo ≤ k ∧ k ≤ hi ∧ (∀ v, needFrom v bs0 (k + 1) ≤ acc.count v)
      ∧ ∀ v, pubc v (blk0 bs0 k).cells ≤ (getBlock s k).data.count v
  | .dNext k => lo ≤ k ∧ k ≤ hi ∧ ∀ v, needFrom v bs0 k ≤ acc.count v
  | _ => False

/-- the call that loaded the tail in `S0` is still walking and on track, or it has returned everything that was
    published in `S0` in the blocks `lo ..` -/
def RdInv2 (lo hi : Nat) (bs0 : List Block) (r0 : List Res) (s : Sys) (t : Thread) : Prop :=
  (t.results = r0 ∧ RdPC2 lo hi bs0 s t.acc t.pc)
  ∨ ∃ vs rest, t.results = r0 ++ Res.snapshot vs :: rest ∧ ∀ v, needFrom v bs0 lo ≤ vs.count v

theorem RdPC2.mono {lo hi : Nat} {bs0 : List Block} {s s' : Sys} {acc : List Nat} {pc : PC}
    (hd : ∀ k v, (getBlock s k).data.count v ≤ (getBlock s' k).data.count v)
    (h : RdPC2 lo hi bs0 s acc pc) : RdPC2 lo hi bs0 s' acc pc := by
  cases pc with
  | dQuiesced k => exact h
  | dWait k => exact h
  | dRead k =>
    simp only [RdPC2] at h ⊢
    exact ⟨h.1, h.2.1, h.2.2.1, fun v => Nat.le_trans (h.2.2.2 v) (hd k v)⟩
  | dNext k => exact h
  | _ => simp only [RdPC2] at h

theorem RdInv2.mono {lo hi : Nat} {bs0 : List Block} {r0 : List Res} {s s' : Sys} {t : Thread}
    (hd : ∀ k v, (getBlock s k).data.count v ≤ (getBlock s' k).data.count v)
    (h : RdInv2 lo hi bs0 r0 s t) : RdInv2 lo hi bs0 r0 s' t := by
  rcases h with ⟨h1, h2⟩ | h
  · exact Or.inl ⟨h1, h2.mono hd⟩
  · exact Or.inr h

structure LiveSnapInv (lo hi : Nat) (bs0 : List Block) (r0 : List Res) (i : Nat) (s : Sys) : Prop where
  base : AInv s
  len : bs0.length ≤ s.blocks.length
  hi_lt : hi < bs0.length
  seg : Seg bs0 lo hi
  links : ∀ k, k < bs0.length → nextAt s.blocks k = nextAt bs0 k
  mono : ∀ k v, pubc v (blk0 bs0 k).cells ≤ pubc v (getBlock s k).cells
  rd : ∃ t, s.threads[i]? = some t ∧ RdInv2 lo hi bs0 r0 s t

/-- the `next` of a block on the chain of `S0`, read in any later state -/
theorem next_on_chain {lo hi : Nat} {bs0 : List Block} {r0 : List Res} {i : Nat} {s : Sys}
    (h : LiveSnapInv lo hi bs0 r0 i s) {k : Nat} (h1 : lo ≤ k) (h2 : k ≤ hi) :
    (getBlock s k).next = if k = lo then none else some (k - 1) := by
  have hk0 : k < bs0.length := Nat.lt_of_le_of_lt h2 h.hi_lt
  have hk : k < s.blocks.length := Nat.lt_of_lt_of_le hk0 h.len
  have e := h.links k hk0
  rw [nextAt_getBlock hk] at e
  by_cases hz : k = lo
  · subst hz
    rw [h.seg.1] at e
    simp only [if_true]; exact Option.some.inj e
  · rw [h.seg.2 k (by omega) h2] at e
    simp only [hz, if_false]; exact Option.some.inj e

/-- the reader's own step -/
theorem rd_own_step2 {lo hi : Nat} {bs0 : List Block} {r0 : List Res} {i : Nat} {s : Sys}
    (h : LiveSnapInv lo hi bs0 r0 i s) (t : Thread)
    (hr : RdInv2 lo hi bs0 r0 s t) : RdInv2 lo hi bs0 r0 (stepThread s t).1 (stepThread s t).2 := by
  have hlen : ∀ k, k ≤ hi → k < s.blocks.length := fun k hk =>
    Nat.lt_of_lt_of_le (Nat.lt_of_le_of_lt hk h.hi_lt) h.len
  rcases hr with ⟨hres, hpc⟩ | ⟨vs, rest, hres, hv⟩
  · unfold stepThread
    cases hp : t.pc with
    | dQuiesced k =>
      rw [hp] at hpc; simp only [RdPC2] at hpc
      obtain ⟨hlo, hhi, hA⟩ := hpc
      have hk := hlen k hhi
      simp only
      split
      · rename_i hq
        refine Or.inl ⟨hres, ?_⟩
        simp only [RdPC2]
        refine ⟨hlo, hhi, hA, fun v => ?_⟩
        have hb : s.blocks[k]? = some (getBlock s k) := by
          rw [List.getElem?_eq_getElem hk]; unfold getBlock; rw [List.getElem?_eq_getElem hk]; rfl
        rw [quiesced_data_all s.B (getBlock s k) (h.base.cells_len k _ hb) hq]
        exact Nat.le_trans (h.mono k v) (pubc_le_vals v _)
      · exact Or.inl ⟨hres, by simp only [RdPC2]; exact ⟨hlo, hhi, hA⟩⟩
    | dWait k =>
      rw [hp] at hpc; simp only [RdPC2] at hpc
      obtain ⟨hlo, hhi, hA⟩ := hpc
      have hk := hlen k hhi
      simp only
      split
      · rename_i hq
        refine Or.inl ⟨hres, ?_⟩
        simp only [RdPC2]
        refine ⟨hlo, hhi, hA, fun v => ?_⟩
        have hb : s.blocks[k]? = some (getBlock s k) := by
          rw [List.getElem?_eq_getElem hk]; unfold getBlock; rw [List.getElem?_eq_getElem hk]; rfl
        rw [quiesced_data_all s.B (getBlock s k) (h.base.cells_len k _ hb) hq]
        exact Nat.le_trans (h.mono k v) (pubc_le_vals v _)
      · exact Or.inl ⟨hres, by simp only [RdPC2]; exact ⟨hlo, hhi, hA⟩⟩
    | dRead k =>
      rw [hp] at hpc; simp only [RdPC2] at hpc
      obtain ⟨hlo, hhi, hA, hD⟩ := hpc
      simp only
      refine Or.inl ⟨hres, ?_⟩
      simp only [RdPC2]
      refine ⟨hlo, hhi, fun v => ?_⟩
      rw [needFrom_succ, List.count_append]
      have := hA v; have := hD v; omega
    | dNext k =>
      rw [hp] at hpc; simp only [RdPC2] at hpc
      obtain ⟨hlo, hhi, hA⟩ := hpc
      have hnx := next_on_chain h hlo hhi
      simp only
      split
      · rename_i hn
        rw [hn] at hnx
        have hk0 : k = lo := by
          by_cases hz : k = lo
          · exact hz
          · simp [hz] at hnx
        subst hk0
        exact Or.inr ⟨t.acc, [], by simp [Thread.advance, hres], hA⟩
      · rename_i n hn
        rw [hn] at hnx
        have hk0 : k ≠ lo ∧ n = k - 1 := by
          by_cases hz : k = lo
          · simp [hz] at hnx
          · simp only [hz, if_false, Option.some.injEq] at hnx; exact ⟨hz, hnx⟩
        refine Or.inl ⟨hres, ?_⟩
        simp only [RdPC2]
        refine ⟨by omega, by omega, fun v => ?_⟩
        have : n + 1 = k := by omega
        rw [this]; exact hA v
    | start => rw [hp] at hpc; simp only [RdPC2] at hpc
    | done => rw [hp] at hpc; simp only [RdPC2] at hpc
    | pLoadTail => rw [hp] at hpc; simp only [RdPC2] at hpc
    | pCasFirst => rw [hp] at hpc; simp only [RdPC2] at hpc
    | pClaim blk r => rw [hp] at hpc; simp only [RdPC2] at hpc
    | pPublish blk idx => rw [hp] at hpc; simp only [RdPC2] at hpc
    | pCasNew old => rw [hp] at hpc; simp only [RdPC2] at hpc
    | dLoadTail => rw [hp] at hpc; simp only [RdPC2] at hpc
    | cLoadTail => rw [hp] at hpc; simp only [RdPC2] at hpc
    | cCas old => rw [hp] at hpc; simp only [RdPC2] at hpc
    | cQuiesced blk => rw [hp] at hpc; simp only [RdPC2] at hpc
    | cWait blk => rw [hp] at hpc; simp only [RdPC2] at hpc
    | cRead blk => rw [hp] at hpc; simp only [RdPC2] at hpc
    | cNext blk => rw [hp] at hpc; simp only [RdPC2] at hpc
    | eLoadTail => rw [hp] at hpc; simp only [RdPC2] at hpc
    | eLen blk => rw [hp] at hpc; simp only [RdPC2] at hpc
  · rcases stepThread_results s t with e | ⟨r, e⟩
    · exact Or.inr ⟨vs, rest, by rw [e, hres], hv⟩
    · exact Or.inr ⟨vs, rest ++ [r], by rw [e, hres]; simp, hv⟩

theorem livesnap_step {lo hi : Nat} {bs0 : List Block} {r0 : List Res} {i : Nat} (s : Sys) (tid : Nat)
    (h : LiveSnapInv lo hi bs0 r0 i s) : LiveSnapInv lo hi bs0 r0 i (step s tid) := by
  have hdata : ∀ k v, (getBlock s k).data.count v ≤ (getBlock (step s tid) k).data.count v :=
    fun k v => count_le_of_prefix (step_data_prefix s tid k) v
  refine ⟨astep_inv s tid h.base, Nat.le_trans h.len (step_len s tid), h.hi_lt, h.seg,
    fun k hk => by rw [step_nextAt s tid k (Nat.lt_of_lt_of_le hk h.len)]; exact h.links k hk,
    fun k v => Nat.le_trans (h.mono k v) (pubc_of_cellsStep v _ _ (step_cells s tid k)), ?_⟩
  obtain ⟨t, ht, hr⟩ := h.rd
  cases hg : s.threads[tid]? with
  | none =>
    have : step s tid = s := by unfold step; rw [hg]
    rw [this]; exact ⟨t, ht, hr⟩
  | some u =>
    have hthr := (step_threads s tid u hg).1
    by_cases hi' : tid = i
    · subst hi'
      rw [ht] at hg; injection hg with hg; subst hg
      refine ⟨(stepThread s t).2, ?_, ?_⟩
      · rw [hthr, getElem?_setAt]; simp [lt_of_getElem?_some ht]
      · have h1 := rd_own_step2 h t hr
        have hgb : ∀ k, getBlock (step s tid) k = getBlock (stepThread s t).1 k :=
          fun k => step_getBlock s tid t ht k
        exact h1.mono (fun k v => by rw [hgb k]; exact Nat.le_refl _)
    · refine ⟨t, ?_, hr.mono hdata⟩
      rw [hthr, getElem?_setAt]; simp [hi', ht]

theorem livesnap_run {lo hi : Nat} {bs0 : List Block} {r0 : List Res} {i : Nat} (sched : List Nat) :
    ∀ s, LiveSnapInv lo hi bs0 r0 i s → LiveSnapInv lo hi bs0 r0 i (run s sched) := by
  induction sched with
  | nil => intro s h; exact h
  | cons t ts ih => intro s h; exact ih _ (livesnap_step s t h)

/-- published `v`s in the live blocks = published `v`s in the blocks from the live bound upwards -/
theorem osum_live_eq (f : Block → Nat) (own : Nat → Owner) (lb : Nat) (hlive : ∀ i, own i = .live ↔ lb ≤ i) :
    ∀ (bs : List Block) (k : Nat), osum f isLive own bs k = ((bs.drop (lb - k)).map f).sum := by
  intro bs
  induction bs with
  | nil => intro k; simp [osum]
  | cons b bs ih =>
    intro k
    simp only [osum, ih (k + 1)]
    by_cases hk : lb ≤ k
    · have e1 : lb - k = 0 := by omega
      have e2 : lb - (k + 1) = 0 := by omega
      have : isLive (own k) = true := by rw [(hlive k).mpr hk]; rfl
      simp [e1, e2, this]
    · have e1 : lb - k = (lb - (k + 1)) + 1 := by omega
      have : isLive (own k) = false := by
        cases ho : own k with
        | live => exact absurd ((hlive k).mp ho) hk
        | det u => rfl
        | read => rfl
      rw [e1]
      simp [this]

/-- **snapshot completeness, any programs**: thread `i` executes the tail load of a `data_with` in the state reached by
    `pre`; when that call has returned `vs` (after any continuation `rest`), every value published in that state in a
    block reachable from its tail is in `vs`, with multiplicity -/
theorem live_snapshot (B : Nat) (progs : List (List Call)) (pre rest : List Nat) (i : Nat) (t0 t1 : Thread)
    (h0 : (run (init B progs) pre).threads[i]? = some t0) (hpc : t0.pc = .dLoadTail)
    (h1 : (run (init B progs) (pre ++ i :: rest)).threads[i]? = some t1)
    (vs : List Nat) (hres : t1.results = t0.results ++ [.snapshot vs]) (v : Nat) :
    pubIn v isLive (grun (init B progs) own0 pre).2 (run (init B progs) pre) ≤ vs.count v := by
  have hg := (grun_inv pre _ _ (init_ginv B progs) (init_gacc B progs)).1
  rw [grun_fst] at hg
  generalize (grun (init B progs) own0 pre).2 = own at hg ⊢
  have hrun : run (init B progs) (pre ++ i :: rest) = run (step (run (init B progs) pre) i) rest := by
    simp [run, List.foldl_append]
  rw [hrun] at h1
  generalize run (init B progs) pre = s at hg h0 h1 ⊢
  obtain ⟨lb, hlb, hlive, htn, hts⟩ := hg.live
  -- what the claim is about: published `v`s from the live bound upwards
  have hpub : pubIn v isLive own s = needFrom v s.blocks lb := by
    unfold pubIn needFrom
    rw [osum_live_eq _ own lb hlive s.blocks 0, Nat.sub_zero]
  rw [hpub]
  -- the load step
  have hst := step_eq s i t0 h0
  have hthr : (step s i).threads[i]? = some (stepThread s t0).2 := by
    rw [(step_threads s i t0 h0).1, getElem?_setAt]; simp [lt_of_getElem?_some h0]
  cases ht : s.tail with
  | none =>
    -- empty bucket: the call returns at once, and nothing is live
    have hl := htn ht
    have hz : needFrom v s.blocks lb = 0 := needFrom_ge v _ _ (by omega)
    rw [hz]; exact Nat.zero_le _
  | some hi =>
    obtain ⟨hlo, hseg⟩ := hts hi ht
    have hhi := hg.base.inv.tail_valid hi ht
    have e2 : (stepThread s t0).2 = { t0 with pc := .dQuiesced hi } := by
      unfold stepThread; rw [hpc]; simp only [ht]
    have e1 : (stepThread s t0).1 = s := by
      unfold stepThread; rw [hpc]; simp only [ht]
    have hblocks : (step s i).blocks = s.blocks := by rw [hst, e1]
    have hinv0 : LiveSnapInv lb hi s.blocks t0.results i (step s i) :=
      { base := astep_inv s i hg.base.inv
        len := by rw [hblocks]; exact Nat.le_refl _
        hi_lt := by omega
        seg := hseg
        links := fun k _ => by rw [hblocks]
        mono := fun k v => by unfold blk0 getBlock; rw [hblocks]; exact Nat.le_refl _
        rd := ⟨_, hthr, Or.inl ⟨by rw [e2], by
          rw [e2]; simp only [RdPC2]
          exact ⟨hlo, Nat.le_refl _, fun v => by
            rw [needFrom_ge v s.blocks (hi + 1) (by omega)]; exact Nat.zero_le _⟩⟩⟩ }
    have hinv := livesnap_run rest _ hinv0
    obtain ⟨t, ht', hr⟩ := hinv.rd
    rw [h1] at ht'; injection ht' with ht'; subst ht'
    rcases hr with ⟨hsame, _⟩ | ⟨vs', rest', hres', hv⟩
    · rw [hsame] at hres
      have := congrArg List.length hres
      simp at this
    · rw [hres'] at hres
      have h2 := List.append_cancel_left hres
      simp only [List.cons.injEq, Res.snapshot.injEq] at h2
      obtain ⟨rfl, _⟩ := h2
      exact hv v

end MetricsVerif.Bucket
