import MetricsVerif.Model.MsgPass
/-! invariant of the publish/consume step machine: everything published was written before, every reader's
    pending set was published, and no race flag is set when the orderings are release/acquire -/
namespace MetricsVerif.MsgPass

def Inv (s : Sys) : Prop :=
  (∀ w ∈ s.published, w ∈ s.written)
  ∧ (∀ (t : Nat) (seen : List Nat), s.pcs[t]? = some (PC.rRead seen) → ∀ w ∈ seen, w ∈ s.written)
  ∧ (∀ (t : Nat), s.pcs[t]? = some PC.wPublish → t ∈ s.written)
  ∧ s.uninit = false
  ∧ (s.ords.pubRelease = true → s.ords.obsAcquire = true → s.raced = false)

theorem getElem?_setPc (pcs : List PC) (t u : Nat) (pc : PC) :
    (setPc pcs t pc)[u]? = if t = u ∧ t < pcs.length then some pc else pcs[u]? := by
  unfold setPc
  rw [List.getElem?_set]
  by_cases h : t = u
  · subst h; by_cases hl : t < pcs.length <;> simp [hl]
  · simp [h]

theorem init_inv (o : Ords) (roles : List Bool) : Inv (init o roles) := by
  refine ⟨by simp [init], ?_, ?_, rfl, fun _ _ => rfl⟩
  · intro t seen h
    simp only [init, List.getElem?_map] at h
    cases hr : roles[t]? with
    | none => simp [hr] at h
    | some b => cases b <;> simp [hr] at h
  · intro t h
    simp only [init, List.getElem?_map] at h
    cases hr : roles[t]? with
    | none => simp [hr] at h
    | some b => cases b <;> simp [hr] at h

theorem step_ords (s : Sys) (t : Nat) : (step s t).ords = s.ords := by
  unfold step; split <;> rfl

theorem step_inv (s : Sys) (t : Nat) (h : Inv s) : Inv (step s t) := by
  obtain ⟨hp, hr, hw, hu, hrace⟩ := h
  unfold step
  split
  · -- wWrite
    rename_i hpc
    refine ⟨fun w hw' => List.mem_cons_of_mem _ (hp w hw'), ?_, ?_, hu, hrace⟩
    · intro u seen hs w hw'
      rw [getElem?_setPc] at hs
      split at hs
      · cases hs
      · exact List.mem_cons_of_mem _ (hr u seen hs w hw')
    · intro u hs
      rw [getElem?_setPc] at hs
      split at hs
      · rename_i hc; rw [← hc.1]; exact List.mem_cons_self
      · exact List.mem_cons_of_mem _ (hw u hs)
  · -- wPublish
    rename_i hpc
    refine ⟨?_, ?_, ?_, hu, hrace⟩
    · intro w hw'
      rcases List.mem_cons.mp hw' with rfl | hw'
      · exact hw _ hpc
      · exact hp w hw'
    · intro u seen hs w hw'
      rw [getElem?_setPc] at hs
      split at hs
      · cases hs
      · exact hr u seen hs w hw'
    · intro u hs
      rw [getElem?_setPc] at hs
      split at hs
      · cases hs
      · exact hw u hs
  · -- rObserve
    refine ⟨hp, ?_, ?_, hu, hrace⟩
    · intro u seen hs w hw'
      rw [getElem?_setPc] at hs
      split at hs
      · cases hs; exact hp w hw'
      · exact hr u seen hs w hw'
    · intro u hs
      rw [getElem?_setPc] at hs
      split at hs
      · cases hs
      · exact hw u hs
  · -- rRead
    rename_i seen hpc
    refine ⟨hp, ?_, ?_, ?_, ?_⟩
    · intro u seen' hs w hw'
      rw [getElem?_setPc] at hs
      split at hs
      · cases hs
      · exact hr u seen' hs w hw'
    · intro u hs
      rw [getElem?_setPc] at hs
      split at hs
      · cases hs
      · exact hw u hs
    · simp only [hu, Bool.false_or]
      rw [List.any_eq_false]
      intro w hw'
      simp [hr t seen hpc w hw']
    · intro h1 h2
      have h1' : s.ords.pubRelease = true := h1
      have h2' : s.ords.obsAcquire = true := h2
      simp [hrace h1' h2', h1', h2']
  · exact ⟨hp, hr, hw, hu, hrace⟩

theorem run_inv (s : Sys) (sched : List Nat) (h : Inv s) : Inv (run s sched) := by
  induction sched generalizing s with
  | nil => exact h
  | cons t ts ih => exact ih _ (step_inv s t h)

theorem run_ords (s : Sys) (sched : List Nat) : (run s sched).ords = s.ords := by
  induction sched generalizing s with
  | nil => rfl
  | cons t ts ih => simp only [run, List.foldl_cons] at *; rw [ih, step_ords]

end MetricsVerif.MsgPass
