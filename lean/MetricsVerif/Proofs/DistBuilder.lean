/-
Helper lemmas for C15, part (b): the derived order of `Matcher`, the insertion sort of `DistributionBuilder::new`
(`sortMatchers`), and "the first match of a sorted list is a least match".
-/
import MetricsVerif.Model.DistBuilder

namespace MetricsVerif.DistBuilder
open MetricsVerif.Prom MetricsVerif.PromFmt

/-! ### `str` ordering -/

theorem strLt_irrefl : ∀ a : Str, strLt a a = false
  | [] => rfl
  | x :: a => by simp [strLt, strLt_irrefl a]

theorem strLt_trans : ∀ (a b c : Str), strLt a b = true → strLt b c = true → strLt a c = true
  | [], [], _, h, _ => by simp [strLt] at h
  | [], _ :: _, [], _, h => by simp [strLt] at h
  | [], _ :: _, _ :: _, _, _ => by simp [strLt]
  | _ :: _, [], _, h, _ => by simp [strLt] at h
  | _ :: _, _ :: _, [], _, h => by simp [strLt] at h
  | x :: a, y :: b, z :: c, h1, h2 => by
    simp only [strLt] at h1 h2 ⊢
    by_cases xy : x.toNat < y.toNat
    · by_cases yz : y.toNat < z.toNat
      · have : x.toNat < z.toNat := by omega
        simp [this]
      · by_cases zy : z.toNat < y.toNat
        · simp [yz, zy] at h2
        · have : x.toNat < z.toNat := by omega
          simp [this]
    · by_cases yx : y.toNat < x.toNat
      · simp [xy, yx] at h1
      · simp only [xy, yx, if_false] at h1
        by_cases yz : y.toNat < z.toNat
        · have : x.toNat < z.toNat := by omega
          simp [this]
        · by_cases zy : z.toNat < y.toNat
          · simp [yz, zy] at h2
          · simp only [yz, zy, if_false] at h2
            have e1 : ¬ x.toNat < z.toNat := by omega
            have e2 : ¬ z.toNat < x.toNat := by omega
            simp only [e1, e2, if_false]
            exact strLt_trans a b c h1 h2

/-! ### derived `Ord` of `Matcher`: a strict order -/

theorem lt_irrefl (a : Matcher) : Matcher.lt a a = false := by
  simp [Matcher.lt, strLt_irrefl]

theorem lt_trans {a b c : Matcher} (h1 : Matcher.lt a b = true) (h2 : Matcher.lt b c = true) :
    Matcher.lt a c = true := by
  simp only [Matcher.lt, Bool.or_eq_true, decide_eq_true_eq, Bool.and_eq_true, beq_iff_eq] at *
  rcases h1 with h1 | ⟨e1, s1⟩
  · rcases h2 with h2 | ⟨e2, _⟩
    · left; omega
    · left; omega
  · rcases h2 with h2 | ⟨e2, s2⟩
    · left; omega
    · right; exact ⟨by omega, strLt_trans _ _ _ s1 s2⟩

theorem lt_asymm {a b : Matcher} (h : Matcher.lt a b = true) : Matcher.lt b a = false := by
  cases h' : Matcher.lt b a with
  | false => rfl
  | true => have := lt_trans h h'; rw [lt_irrefl] at this; cases this

/-- Full before Prefix before Suffix: "not greater" implies "rank not greater" -/
theorem rank_le_of_not_lt {a b : Matcher} (h : Matcher.lt b a = false) : a.rank ≤ b.rank := by
  simp only [Matcher.lt, Bool.or_eq_false_iff, decide_eq_false_iff_not] at h
  omega

/-! ### the sort -/

/-- sorted by the derived order: nothing later is smaller than anything earlier -/
def Sorted (l : List (Matcher × List Int)) : Prop := l.Pairwise (fun a b => Matcher.lt b.1 a.1 = false)

theorem mem_insertMatcher (x y : Matcher × List Int) : ∀ l, y ∈ insertMatcher x l ↔ y = x ∨ y ∈ l
  | [] => by simp [insertMatcher]
  | z :: l => by
    simp only [insertMatcher]
    split
    · simp
    · simp only [List.mem_cons, mem_insertMatcher x y l]
      constructor
      · rintro (h | h | h) <;> simp [h]
      · rintro (h | h | h) <;> simp [h]

theorem insertMatcher_sorted (x : Matcher × List Int) : ∀ l, Sorted l → Sorted (insertMatcher x l)
  | [], _ => by simp [insertMatcher, Sorted]
  | y :: ys, hs => by
    have hy : ∀ z ∈ ys, Matcher.lt z.1 y.1 = false := (List.pairwise_cons.mp hs).1
    have hys : Sorted ys := (List.pairwise_cons.mp hs).2
    simp only [insertMatcher]
    split
    · rename_i hxy
      refine List.pairwise_cons.mpr ⟨?_, hs⟩
      intro z hz
      rcases List.mem_cons.mp hz with rfl | hz
      · exact lt_asymm hxy
      · cases hzx : Matcher.lt z.1 x.1 with
        | false => rfl
        | true => have := lt_trans hzx hxy; rw [hy z hz] at this; cases this
    · rename_i hxy
      refine List.pairwise_cons.mpr ⟨?_, insertMatcher_sorted x ys hys⟩
      intro z hz
      rcases (mem_insertMatcher x z ys).mp hz with rfl | hz
      · simpa using hxy
      · exact hy z hz

theorem sortMatchers_sorted : ∀ l, Sorted (sortMatchers l)
  | [] => by simp [sortMatchers, Sorted]
  | x :: l => by
    have := sortMatchers_sorted l
    simp only [sortMatchers, List.foldr_cons] at this ⊢
    exact insertMatcher_sorted x _ this

/-- the sort neither drops nor invents an override -/
theorem mem_sortMatchers (y : Matcher × List Int) : ∀ l, y ∈ sortMatchers l ↔ y ∈ l
  | [] => by simp [sortMatchers]
  | x :: l => by
    have := mem_sortMatchers y l
    simp only [sortMatchers, List.foldr_cons] at this ⊢
    rw [mem_insertMatcher, this]; simp

theorem insertMatcher_length (x : Matcher × List Int) : ∀ l, (insertMatcher x l).length = l.length + 1
  | [] => rfl
  | y :: l => by simp only [insertMatcher]; split <;> simp [insertMatcher_length x l]

theorem sortMatchers_length : ∀ l, (sortMatchers l).length = l.length
  | [] => rfl
  | x :: l => by
    have := sortMatchers_length l
    simp only [sortMatchers, List.foldr_cons] at this ⊢
    rw [insertMatcher_length, this]; simp

/-! ### first match of a sorted list -/

theorem find_sorted_least (p : Matcher × List Int → Bool) : ∀ (l : List (Matcher × List Int)), Sorted l →
    ∀ mb, l.find? p = some mb → mb ∈ l ∧ p mb = true ∧ ∀ mb' ∈ l, p mb' = true → Matcher.lt mb'.1 mb.1 = false
  | [], _, mb, h => by simp at h
  | y :: ys, hs, mb, h => by
    have hy : ∀ z ∈ ys, Matcher.lt z.1 y.1 = false := (List.pairwise_cons.mp hs).1
    have hys : Sorted ys := (List.pairwise_cons.mp hs).2
    simp only [List.find?_cons] at h
    cases hp : p y with
    | true =>
      rw [hp] at h
      cases h
      refine ⟨by simp, hp, ?_⟩
      intro mb' hm _
      rcases List.mem_cons.mp hm with rfl | hm
      · exact lt_irrefl _
      · exact hy mb' hm
    | false =>
      rw [hp] at h
      obtain ⟨h1, h2, h3⟩ := find_sorted_least p ys hys mb h
      refine ⟨by simp [h1], h2, ?_⟩
      intro mb' hm hp'
      rcases List.mem_cons.mp hm with rfl | hm
      · rw [hp] at hp'; cases hp'
      · exact h3 mb' hm hp'

theorem find_none_iff (p : Matcher × List Int → Bool) (l : List (Matcher × List Int)) :
    l.find? p = none ↔ ∀ mb ∈ l, p mb = false := by
  simp [List.find?_eq_none]

/-! ### the override map -/

theorem mem_upsert_keys (m : List (Matcher × List Int)) (k : Matcher) (d : List Int) (f : List Int → List Int)
    (x : Matcher × List Int) (h : x ∈ upsert m k d f) : x.1 = k ∨ x ∈ m := by
  induction m with
  | nil => simp [upsert] at h; left; rw [h]
  | cons y ys ih =>
    obtain ⟨ky, vy⟩ := y
    simp only [upsert] at h
    split at h
    · rename_i e
      rcases List.mem_cons.mp h with rfl | h
      · left; exact e
      · right; simp [h]
    · rcases List.mem_cons.mp h with rfl | h
      · right; simp
      · rcases ih h with e | e
        · left; exact e
        · right; simp [e]

/-- every key of the override map is a sanitised matcher -/
theorem overridesOf_sanitised (calls : List (Matcher × List Int)) :
    ∀ x ∈ overridesOf calls, ∃ c ∈ calls, x.1 = c.1.sanitized := by
  suffices h : ∀ (cs : List (Matcher × List Int)) (acc : List (Matcher × List Int)) (P : Matcher → Prop),
      (∀ x ∈ acc, P x.1) → (∀ c ∈ cs, P c.1.sanitized) →
      ∀ x ∈ cs.foldl (fun ovs c => setBucketsForMetric ovs c.1 c.2) acc, P x.1 by
    intro x hx
    exact h calls [] (fun m => ∃ c ∈ calls, m = c.1.sanitized) (by simp) (fun c hc => ⟨c, hc, rfl⟩) x hx
  intro cs
  induction cs with
  | nil => intro acc P ha _ x hx; exact ha x hx
  | cons c cs ih =>
    intro acc P ha hc x hx
    simp only [List.foldl_cons] at hx
    refine ih _ P ?_ (fun c' hc' => hc c' (by simp [hc'])) x hx
    intro y hy
    rcases mem_upsert_keys _ _ _ _ y hy with e | e
    · rw [e]; exact hc c (by simp)
    · exact ha y e

end MetricsVerif.DistBuilder
