/-
Helper lemmas for C18 (Model/Allowlist.lean): the interval test of `contains` is a comparison of quotients by
the block size; quotients by nested block sizes; the shape of `List.any` over an allowlist.
-/
import MetricsVerif.Model.Allowlist

namespace MetricsVerif.Allowlist

theorem Net.size_pos (n : Net) : 0 < n.size := Nat.two_pow_pos _

/-- `q·H ≤ a ≤ q·H + (H − 1)` says exactly that `a` has quotient `q` by `H` -/
theorem block_iff {H : Nat} (hH : 0 < H) (a q : Nat) :
    (q * H ≤ a ∧ a ≤ q * H + (H - 1)) ↔ a / H = q := by
  rw [Nat.div_eq_iff hH]
  constructor
  · rintro ⟨h1, h2⟩; exact ⟨h1, by omega⟩
  · rintro ⟨h1, h2⟩; exact ⟨h1, by omega⟩

/-- `contains` as a proposition: same family, and the address has the same quotient by the block size as the
    entry's written address -/
theorem contains_eq_true_iff (n : Net) (a : Addr) :
    contains n a = true ↔ n.fam = a.fam ∧ a.bits / n.size = n.bits / n.size := by
  unfold contains Net.broadcast Net.network
  simp only [Bool.and_eq_true, beq_iff_eq, decide_eq_true_eq]
  rw [block_iff n.size_pos]

theorem contains_eq_false_iff (n : Net) (a : Addr) :
    contains n a = false ↔ ¬ (n.fam = a.fam ∧ a.bits / n.size = n.bits / n.size) := by
  rw [← contains_eq_true_iff]; simp

/-- quotient by a larger power of two factors through the quotient by a smaller one -/
theorem div_two_pow_of_le {j k : Nat} (h : j ≤ k) (x : Nat) : x / 2 ^ k = x / 2 ^ j / 2 ^ (k - j) := by
  rw [Nat.div_div_eq_div_mul, ← Nat.pow_add]
  congr 2
  omega

theorem peerMatches_eq_true_iff (n : Net) (p : Addr) :
    peerMatches n p = true ↔ contains n p = true ∨ ∃ p4, v4Mapped p = some p4 ∧ contains n p4 = true := by
  unfold peerMatches
  cases h : v4Mapped p <;> simp

theorem checkAllowed_some_iff (nets : List Net) (p : Addr) :
    checkAllowed (some nets) p = true ↔ ∃ n, n ∈ nets ∧ peerMatches n p = true := by
  simp [checkAllowed, List.any_eq_true]

end MetricsVerif.Allowlist
