/-
Helper lemmas for C16 (round 6): the `Drain` iterator object (`DrainIt`) and the DogStatsD builder's sampling
configuration.  Property statements live in `Props/C16.lean`.
-/
import MetricsVerif.Proofs.Reservoir

namespace MetricsVerif.Reservoir

/-! ## the `Drain` object -/

/-- well-formed `Drain`: `idx ≤ len ≤ number of slots` (what `Reservoir::drain` establishes and `next` keeps) -/
structure DrainIt.WF (d : DrainIt) : Prop where
  idx_le : d.idx ≤ d.len
  len_le : d.len ≤ d.slots.length

/-- `d'` is `d` further along: same slots, `len`, `unsampled_len`; the cursor did not move back -/
structure DrainIt.Later (d d' : DrainIt) : Prop where
  slots : d'.slots = d.slots
  len : d'.len = d.len
  unsampled : d'.unsampled = d.unsampled
  idx : d.idx ≤ d'.idx

/-- the values the object has not handed out yet -/
def DrainIt.rest (d : DrainIt) : List Nat := (d.slots.take d.len).drop d.idx

theorem DrainIt.Later.refl (d : DrainIt) : d.Later d := ⟨rfl, rfl, rfl, Nat.le_refl _⟩

theorem DrainIt.Later.trans {a b c : DrainIt} (h1 : a.Later b) (h2 : b.Later c) : a.Later c :=
  ⟨h2.slots.trans h1.slots, h2.len.trans h1.len, h2.unsampled.trans h1.unsampled, Nat.le_trans h1.idx h2.idx⟩

theorem drainIt_wf (r : Res) : r.drainIt.WF := by
  constructor
  · simp [Res.drainIt]
  · simp only [Res.drainIt]; split <;> omega

theorem drainIt_rest (r : Res) : r.drainIt.rest = r.drain.values := by
  simp [DrainIt.rest, Res.drainIt, Res.drain]

theorem next_some (d : DrainIt) (h : d.idx < d.len) :
    d.next = ({ d with idx := d.idx + 1 }, some (d.slots.getD d.idx 0)) := by
  simp [DrainIt.next, h]

theorem next_none (d : DrainIt) (h : ¬ d.idx < d.len) : d.next = (d, none) := by
  simp [DrainIt.next, h]

theorem rest_cons (d : DrainIt) (w : d.WF) (h : d.idx < d.len) :
    d.rest = d.slots.getD d.idx 0 :: ({ d with idx := d.idx + 1 } : DrainIt).rest := by
  have hl := w.len_le
  have hlt : d.idx < (d.slots.take d.len).length := by rw [List.length_take]; omega
  have hs : d.idx < d.slots.length := by omega
  simp only [DrainIt.rest]
  rw [List.drop_eq_getElem_cons hlt]
  congr 1
  rw [List.getElem_take]
  simp [List.getD_eq_getElem?_getD, List.getElem?_eq_getElem hs]

theorem rest_nil (d : DrainIt) (h : ¬ d.idx < d.len) : d.rest = [] := by
  simp only [DrainIt.rest]
  apply List.drop_eq_nil_of_le
  rw [List.length_take]; omega

theorem rest_sublist {d d' : DrainIt} (h : d.Later d') : d'.rest.Sublist d.rest := by
  simp only [DrainIt.rest, h.slots, h.len]
  exact List.drop_sublist_drop_left _ h.idx

theorem wf_succ (d : DrainIt) (w : d.WF) (h : d.idx < d.len) : ({ d with idx := d.idx + 1 } : DrainIt).WF :=
  ⟨Nat.succ_le_of_lt h, w.len_le⟩

theorem later_succ (d : DrainIt) : d.Later { d with idx := d.idx + 1 } := ⟨rfl, rfl, rfl, by simp⟩

/-- `advance_by(k)` only ever moves the cursor forward inside the same drain -/
theorem advance_later (k : Nat) (d : DrainIt) (w : d.WF) : (d.advance k).WF ∧ d.Later (d.advance k) := by
  induction k generalizing d with
  | zero => exact ⟨w, DrainIt.Later.refl d⟩
  | succ k ih =>
    by_cases h : d.idx < d.len
    · simp only [DrainIt.advance, next_some d h]
      have := ih _ (wf_succ d w h)
      exact ⟨this.1, (later_succ d).trans this.2⟩
    · simp only [DrainIt.advance, next_none d h]
      exact ⟨w, DrainIt.Later.refl d⟩

/-- the `while let Some(v) = next()` loop with enough fuel yields exactly the values not handed out yet and leaves
    the iterator exhausted -/
theorem pull_spec (f : Nat) (d : DrainIt) (w : d.WF) (hf : d.remaining ≤ f) :
    DrainIt.pull f d = ({ d with idx := d.len }, d.rest) := by
  induction f generalizing d with
  | zero =>
    have hi : d.idx = d.len := by have := w.idx_le; simp only [DrainIt.remaining] at hf; omega
    have hn : ¬ d.idx < d.len := by omega
    simp only [DrainIt.pull, rest_nil d hn]
    cases d; simp_all
  | succ f ih =>
    by_cases h : d.idx < d.len
    · have hr : ({ d with idx := d.idx + 1 } : DrainIt).remaining ≤ f := by
        simp only [DrainIt.remaining] at hf ⊢; omega
      simp only [DrainIt.pull, next_some d h, ih _ (wf_succ d w h) hr, rest_cons d w h]
    · have hi : d.idx = d.len := by have := w.idx_le; omega
      simp only [DrainIt.pull, next_none d h, rest_nil d h]
      cases d; simp_all

theorem pullAll_spec (d : DrainIt) (w : d.WF) : d.pullAll = ({ d with idx := d.len }, d.rest) :=
  pull_spec _ d w (Nat.le_succ _)

theorem rest_length (d : DrainIt) (w : d.WF) : d.rest.length = d.remaining := by
  have := w.len_le
  simp only [DrainIt.rest, DrainIt.remaining, List.length_drop, List.length_take]; omega

/-- one closure step: the values it hands out, followed by what is still to come, are a sublist of what was still
    to come before the step -/
theorem stepIt_spec (d : DrainIt) (w : d.WF) (op : ItOp) :
    (d.stepIt op).1.WF ∧ d.Later (d.stepIt op).1 ∧ ((d.stepIt op).2 ++ (d.stepIt op).1.rest).Sublist d.rest := by
  cases op with
  | next =>
    by_cases h : d.idx < d.len
    · simp only [DrainIt.stepIt, next_some d h]
      refine ⟨wf_succ d w h, later_succ d, ?_⟩
      rw [rest_cons d w h]; exact List.Sublist.refl _
    · simp only [DrainIt.stepIt, next_none d h]
      exact ⟨w, DrainIt.Later.refl d, by simp⟩
  | nth k =>
    have ha := advance_later k d w
    by_cases h : (d.advance k).idx < (d.advance k).len
    · simp only [DrainIt.stepIt, DrainIt.nth, next_some _ h]
      refine ⟨wf_succ _ ha.1 h, ha.2.trans (later_succ _), ?_⟩
      have := rest_sublist ha.2
      rw [rest_cons _ ha.1 h] at this
      exact this
    · simp only [DrainIt.stepIt, DrainIt.nth, next_none _ h]
      exact ⟨ha.1, ha.2, by simpa using rest_sublist ha.2⟩
  | len => exact ⟨w, DrainIt.Later.refl d, by simp [DrainIt.stepIt]⟩
  | rate => exact ⟨w, DrainIt.Later.refl d, by simp [DrainIt.stepIt]⟩
  | collect =>
    simp only [DrainIt.stepIt, pullAll_spec d w]
    refine ⟨⟨Nat.le_refl _, w.len_le⟩, ⟨rfl, rfl, rfl, w.idx_le⟩, ?_⟩
    have : ({ d with idx := d.len } : DrainIt).rest = [] := rest_nil _ (by simp)
    rw [this]; simp

theorem runIt_spec (ops : List ItOp) (d : DrainIt) (w : d.WF) :
    (d.runIt ops).1.WF ∧ d.Later (d.runIt ops).1 ∧ ((d.runIt ops).2 ++ (d.runIt ops).1.rest).Sublist d.rest := by
  induction ops generalizing d with
  | nil => exact ⟨w, DrainIt.Later.refl d, by simp [DrainIt.runIt]⟩
  | cons op ops ih =>
    have hs := stepIt_spec d w op
    have hr := ih _ hs.1
    simp only [DrainIt.runIt]
    refine ⟨hr.1, hs.2.1.trans hr.2.1, ?_⟩
    rw [List.append_assoc]
    exact (List.Sublist.append_left hr.2.2 _).trans hs.2.2

/-! ## the builder -/

theorem configure_fold (ops : List BOp) (b : Builder) :
    (ops.foldl Builder.apply b).sampling = ((lastSampling ops).getD b.sampling)
    ∧ (ops.foldl Builder.apply b).size = ((lastSize ops).getD b.size) := by
  induction ops generalizing b with
  | nil => simp [lastSampling, lastSize]
  | cons op ops ih =>
    cases op with
    | sampling x =>
      have := ih (b.apply (.sampling x))
      simp only [List.foldl_cons, lastSampling, lastSize]
      refine ⟨?_, by simpa [Builder.apply] using this.2⟩
      rw [this.1]; cases lastSampling ops <;> simp [Builder.apply]
    | size n =>
      have := ih (b.apply (.size n))
      simp only [List.foldl_cons, lastSampling, lastSize]
      refine ⟨by simpa [Builder.apply] using this.1, ?_⟩
      rw [this.2]; cases lastSize ops <;> simp [Builder.apply]

end MetricsVerif.Reservoir
