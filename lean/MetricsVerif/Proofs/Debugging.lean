/-
Helper lemmas for C19 (model: `Model/Debugging.lean`).
-/
import MetricsVerif.Proofs.Prom
import MetricsVerif.Model.Debugging

namespace MetricsVerif.Debugging
open MetricsVerif.Prom MetricsVerif.PromFmt

/-! ### association lists (insertion-ordered maps) -/

section assoc
variable {κ α : Type} [DecidableEq κ]

/-- the keys of an insertion-ordered map, in order -/
def keys (m : List (κ × α)) : List κ := m.map (·.1)

theorem lookup_isSome_iff_mem (m : List (κ × α)) (k : κ) : (lookup m k).isSome ↔ k ∈ keys m := by
  induction m with
  | nil => simp [lookup, keys]
  | cons x xs ih =>
    obtain ⟨kx, ax⟩ := x
    simp only [lookup, keys, List.map_cons, List.mem_cons] at ih ⊢
    by_cases h : kx = k
    · subst h; simp
    · have h' : ¬ k = kx := fun e => h e.symm
      simp [h, h', ih]

theorem lookup_eq_none_iff (m : List (κ × α)) (k : κ) : lookup m k = none ↔ k ∉ keys m := by
  rw [← lookup_isSome_iff_mem]; cases lookup m k <;> simp

/-- `upsert` keeps every existing entry in place and appends a new key at the end -/
theorem keys_upsert (m : List (κ × α)) (k : κ) (d : α) (f : α → α) :
    keys (upsert m k d f) = if k ∈ keys m then keys m else keys m ++ [k] := by
  induction m with
  | nil => simp [upsert, keys]
  | cons x xs ih =>
    obtain ⟨kx, ax⟩ := x
    simp only [upsert, keys, List.map_cons, List.mem_cons] at ih ⊢
    by_cases h : kx = k
    · subst h; simp
    · have h' : ¬ k = kx := fun e => h e.symm
      simp only [h, if_false, List.map_cons, ih, h', false_or]
      by_cases hm : k ∈ List.map (fun x => x.fst) xs <;> simp [hm]

theorem nodup_keys_upsert (m : List (κ × α)) (k : κ) (d : α) (f : α → α) (h : (keys m).Nodup) :
    (keys (upsert m k d f)).Nodup := by
  rw [keys_upsert]
  split
  · exact h
  · rename_i hk
    exact List.nodup_append.mpr ⟨h, by simp, by intro a ha b hb; simp at hb; subst hb; intro e; subst e; exact hk ha⟩

theorem lookup_mapVal (m : List (κ × α)) (g : κ → α → α) (k : κ) :
    lookup (m.map (fun kv => (kv.1, g kv.1 kv.2))) k = (lookup m k).map (g k) := by
  induction m with
  | nil => rfl
  | cons x xs ih =>
    obtain ⟨kx, ax⟩ := x
    simp only [List.map_cons, lookup]
    by_cases h : kx = k
    · subst h; simp
    · simp [h, ih]

theorem keys_mapVal (m : List (κ × α)) (g : κ → α → α) :
    keys (m.map (fun kv => (kv.1, g kv.1 kv.2))) = keys m := by
  simp [keys, List.map_map, Function.comp_def]

theorem isSome_lookup_upsert (m : List (κ × α)) (k k' : κ) (d : α) (f : α → α) :
    (lookup (upsert m k d f) k').isSome = (decide (k' = k) || (lookup m k').isSome) := by
  rw [lookup_upsert]
  by_cases h : k' = k <;> simp [h]

theorem upsert_upsert_id (m : List (κ × α)) (k : κ) (d : α) :
    upsert (upsert m k d id) k d id = upsert m k d id := by
  apply upsert_id_of_mem
  · intro a _; rfl
  · simp [lookup_upsert]

end assoc


/-! ### which `(kind, key)` a call registers -/

/-- kind and key (as given) that a call registers; `none` for describe and snapshot -/
def regOf : Op → Option (Kind × MKey)
  | .describe _ _ _ _ => none
  | .register kind k => some (kind, k)
  | .cinc k _ => some (.counter, k)
  | .cabs k _ => some (.counter, k)
  | .gset k _ => some (.gauge, k)
  | .gadd k _ => some (.gauge, k)
  | .hrec k _ => some (.histogram, k)
  | .snapshot => none

/-- the metric identity (kind, key up to `Key::eq`) a call registers -/
def opId (op : Op) : Option Id := (regOf op).map (fun p => (p.1, canonKey p.2))

/-- `seen` of the history: append the identity a call registers unless it is already there -/
def specSeen (acc : List Id) (op : Op) : List Id :=
  match opId op with
  | some i => if i ∈ acc then acc else acc ++ [i]
  | none => acc

theorem step_seen (s : St) (op : Op) :
    (step s op).seen = match regOf op with
      | some p => upsert s.seen (p.1, canonKey p.2) p.2 id
      | none => s.seen := by
  cases op with
  | register kind k => cases kind <;> rfl
  | _ => rfl

theorem step_seen_keys (s : St) (op : Op) : keys (step s op).seen = specSeen (keys s.seen) op := by
  rw [step_seen]
  unfold specSeen opId
  cases regOf op with
  | none => rfl
  | some p => simp only [Option.map_some, keys_upsert]; split <;> rfl

theorem step_seenHas (s : St) (op : Op) (i : Id) :
    seenHas (step s op) i = (seenHas s i || decide (opId op = some i)) := by
  unfold seenHas
  rw [step_seen]
  unfold opId
  cases regOf op with
  | none => simp
  | some p =>
    simp only [isSome_lookup_upsert, Option.map_some, Option.some.injEq]
    by_cases h : i = (p.1, canonKey p.2)
    · subst h; simp
    · have h' : ¬ (p.1, canonKey p.2) = i := fun e => h e.symm
      simp [h, h']

/-- `valueOf` is defined: the registry holds a cell for that kind and key -/
def hasVal (s : St) (i : Id) : Bool := (valueOf s i).isSome

theorem hasVal_eq (s : St) (i : Id) :
    hasVal s i = match i.1 with
      | .counter => (lookup s.counters i.2).isSome
      | .gauge => (lookup s.gauges i.2).isSome
      | .histogram => (lookup s.hists i.2).isSome := by
  unfold hasVal valueOf
  cases i.1 <;> simp

theorem decide_eq_swap {κ : Type} [DecidableEq κ] (a b : κ) : decide (a = b) = decide (b = a) :=
  decide_eq_decide.mpr ⟨Eq.symm, Eq.symm⟩

theorem step_hasVal (s : St) (op : Op) (i : Id) :
    hasVal (step s op) i = (hasVal s i || decide (opId op = some i)) := by
  obtain ⟨kind, k⟩ := i
  simp only [hasVal_eq]
  cases op with
  | describe kd n u d => cases kind <;> simp [step, describeMetric, opId, regOf]
  | register kd k' =>
    cases kind <;> cases kd <;>
      simp [step, register, track, opId, regOf, isSome_lookup_upsert, Bool.or_comm, decide_eq_swap k (canonKey k')]
  | cinc k' n =>
    cases kind <;> simp [step, register, track, opId, regOf, isSome_lookup_upsert, Bool.or_comm, decide_eq_swap k (canonKey k')]
  | cabs k' n =>
    cases kind <;> simp [step, register, track, opId, regOf, isSome_lookup_upsert, Bool.or_comm, decide_eq_swap k (canonKey k')]
  | gset k' v =>
    cases kind <;> simp [step, register, track, opId, regOf, isSome_lookup_upsert, Bool.or_comm, decide_eq_swap k (canonKey k')]
  | gadd k' n =>
    cases kind <;> simp [step, register, track, opId, regOf, isSome_lookup_upsert, Bool.or_comm, decide_eq_swap k (canonKey k')]
  | hrec k' v =>
    cases kind <;> simp [step, register, track, opId, regOf, isSome_lookup_upsert, Bool.or_comm, decide_eq_swap k (canonKey k')]
  | snapshot =>
    cases kind <;> simp [step, snapshot, opId, regOf, lookup_mapVal]


/-! ### counters, gauges, metadata: one cell per key, changed only by that key's own calls -/

/-- what the history says the counter cell of (canonical) key `k` holds; `none` = never registered -/
def specCounter (k : MKey) (acc : Option Nat) : Op → Option Nat
  | .register .counter k' => if canonKey k' = k then some (acc.getD 0) else acc
  | .cinc k' n => if canonKey k' = k then some (((acc.getD 0) + n) % two64) else acc
  | .cabs k' n => if canonKey k' = k then some (max (acc.getD 0) n) else acc
  | _ => acc

def specGauge (k : MKey) (acc : Option Val) : Op → Option Val
  | .register .gauge k' => if canonKey k' = k then some (acc.getD (.dy 0)) else acc
  | .gset k' v => if canonKey k' = k then some v else acc
  | .gadd k' n => if canonKey k' = k then some ((acc.getD (.dy 0)).add n) else acc
  | _ => acc

/-- what the history says is stored for `(kind, name)`: the description is replaced by every describe call,
    the unit only by one that gives a unit -/
def specMeta (kn : Kind × Str) (acc : Option (Option MUnit × Str)) : Op → Option (Option MUnit × Str)
  | .describe kind name unit desc =>
    if (kind, name) = kn then some (describeUpd unit desc (acc.getD (none, desc))) else acc
  | _ => acc

theorem step_counter (s : St) (op : Op) (k : MKey) :
    lookup (step s op).counters k = specCounter k (lookup s.counters k) op := by
  cases op with
  | describe kd n u d => rfl
  | register kd k' =>
    cases kd <;> simp only [step, register, track, specCounter, lookup_upsert]
    by_cases h : k = canonKey k'
    · subst h; simp
    · have h' : ¬ canonKey k' = k := fun e => h e.symm
      simp [h, h']
  | cinc k' n =>
    simp only [step, register, track, specCounter, lookup_upsert]
    by_cases h : k = canonKey k'
    · subst h; simp
    · have h' : ¬ canonKey k' = k := fun e => h e.symm
      simp [h, h']
  | cabs k' n =>
    simp only [step, register, track, specCounter, lookup_upsert]
    by_cases h : k = canonKey k'
    · subst h; simp
    · have h' : ¬ canonKey k' = k := fun e => h e.symm
      simp [h, h']
  | gset k' v => rfl
  | gadd k' n => rfl
  | hrec k' v => rfl
  | snapshot => rfl

theorem step_gauge (s : St) (op : Op) (k : MKey) :
    lookup (step s op).gauges k = specGauge k (lookup s.gauges k) op := by
  cases op with
  | describe kd n u d => rfl
  | register kd k' =>
    cases kd <;> simp only [step, register, track, specGauge, lookup_upsert]
    by_cases h : k = canonKey k'
    · subst h; simp
    · have h' : ¬ canonKey k' = k := fun e => h e.symm
      simp [h, h']
  | gset k' v =>
    simp only [step, register, track, specGauge, lookup_upsert]
    by_cases h : k = canonKey k'
    · subst h; simp
    · have h' : ¬ canonKey k' = k := fun e => h e.symm
      simp [h, h']
  | gadd k' n =>
    simp only [step, register, track, specGauge, lookup_upsert]
    by_cases h : k = canonKey k'
    · subst h; simp
    · have h' : ¬ canonKey k' = k := fun e => h e.symm
      simp [h, h']
  | cinc k' v => rfl
  | cabs k' n => rfl
  | hrec k' v => rfl
  | snapshot => rfl

theorem step_meta (s : St) (op : Op) (kn : Kind × Str) :
    lookup (step s op).metadata kn = specMeta kn (lookup s.metadata kn) op := by
  cases op with
  | describe kd n u d =>
    simp only [step, describeMetric, specMeta, lookup_upsert]
    by_cases h : kn = (kd, n)
    · subst h; simp
    · have h' : ¬ (kd, n) = kn := fun e => h e.symm
      simp [h, h']
  | register kd k' => cases kd <;> rfl
  | _ => rfl


/-! ### histograms: pending values, recorded values, delivered values -/

/-- values pending in the bucket of (canonical) key `k`, in the order a drain would hand them over -/
def pend (s : St) (k : MKey) : List Val := blockOrder ((lookup s.hists k).getD [])

/-- histogram values a call records under key `k` -/
def recOf (k : MKey) : Op → List Val
  | .hrec k' v => if canonKey k' = k then [v] else []
  | _ => []

def Entry.histValues (e : Entry) : List Val :=
  match e.value with
  | .histogram vs => vs
  | _ => []

/-- all histogram values a list of snapshot entries shows for key `k` (over *all* entries with that key) -/
def histVals (es : List Entry) (k : MKey) : List Val :=
  es.flatMap (fun e => if e.kind = .histogram ∧ e.key = k then e.histValues else [])

theorem blockOrder_nil : blockOrder [] = [] := rfl

theorem blockOrder_pushBlock (bs : List (List Val)) (v : Val) :
    (blockOrder (pushBlock bs v)).Perm (blockOrder bs ++ [v]) := by
  cases bs with
  | nil => simp [pushBlock, blockOrder]
  | cons b rest =>
    simp only [pushBlock, blockOrder]
    split
    · simp only [List.flatten_cons, List.append_assoc]
      exact List.Perm.append_left b List.perm_append_comm
    · simp only [List.flatten_cons]
      exact List.perm_append_comm

theorem getD_lookup_upsert {κ α : Type} [DecidableEq κ] (m : List (κ × α)) (k k' : κ) (d : α) (f : α → α) :
    (lookup (upsert m k d f) k').getD d = if k' = k then f ((lookup m k).getD d) else (lookup m k').getD d := by
  rw [lookup_upsert]; split <;> simp

theorem pend_snapshot (s : St) (k : MKey) :
    pend (step s .snapshot) k = if seenHas s (.histogram, k) then [] else pend s k := by
  simp only [pend, step, snapshot, lookup_mapVal]
  cases lookup s.hists k with
  | none => simp [blockOrder_nil]
  | some bs => simp only [Option.map_some, Option.getD_some, drainIf]; split <;> simp [blockOrder_nil]

theorem step_pend (s : St) (op : Op) (k : MKey) (h : op ≠ .snapshot) :
    (pend (step s op) k).Perm (pend s k ++ recOf k op) := by
  cases op with
  | snapshot => exact absurd rfl h
  | describe kd n u d => simp [pend, step, describeMetric, recOf]
  | register kd k' =>
    cases kd <;> simp only [pend, step, register, track, recOf, List.append_nil, getD_lookup_upsert, id]
    all_goals first | exact List.Perm.refl _ | skip
    split
    · rename_i e; subst e; exact List.Perm.refl _
    · exact List.Perm.refl _
  | cinc k' n => simp [pend, step, register, track, recOf]
  | cabs k' n => simp [pend, step, register, track, recOf]
  | gset k' v => simp [pend, step, register, track, recOf]
  | gadd k' n => simp [pend, step, register, track, recOf]
  | hrec k' v =>
    simp only [pend, step, register, track, recOf, getD_lookup_upsert, id]
    by_cases e : k = canonKey k'
    · subst e
      simp only [if_true]
      exact blockOrder_pushBlock _ v
    · have e' : ¬ canonKey k' = k := fun x => e x.symm
      simp [e, e']

/-- what one element of `seen` contributes to `histVals … k` -/
theorem contrib_entryOf (s : St) (k : MKey) (x : Id × MKey) :
    ((entryOf s x).toList.flatMap (fun e => if e.kind = .histogram ∧ e.key = k then e.histValues else []))
      = if x.1 = (.histogram, k) then pend s k else [] := by
  obtain ⟨⟨kind, key⟩, shown⟩ := x
  cases kind
  · simp only [entryOf, valueOf]
    cases lookup s.counters key <;> simp
  · simp only [entryOf, valueOf]
    cases lookup s.gauges key <;> simp
  · simp only [entryOf, valueOf, pend]
    by_cases e : key = k
    · subst e
      cases lookup s.hists key <;> simp [Entry.histValues, blockOrder_nil]
    · cases lookup s.hists key <;> simp [e]

theorem histVals_filterMap (s : St) (k : MKey) (l : List (Id × MKey)) (h : (keys l).Nodup) :
    histVals (l.filterMap (entryOf s)) k = if (Kind.histogram, k) ∈ keys l then pend s k else [] := by
  induction l with
  | nil => simp [histVals, keys]
  | cons x rest ih =>
    have hn : x.1 ∉ keys rest ∧ (keys rest).Nodup := by
      have h' : (x.1 :: keys rest).Nodup := h
      exact List.nodup_cons.mp h'
    have ih' := ih hn.2
    have hc := contrib_entryOf s k x
    have split_ : histVals ((x :: rest).filterMap (entryOf s)) k
        = ((entryOf s x).toList.flatMap (fun e => if e.kind = .histogram ∧ e.key = k then e.histValues else []))
          ++ histVals (rest.filterMap (entryOf s)) k := by
      simp only [histVals, List.filterMap_cons]
      cases entryOf s x <;> simp
    rw [split_, hc, ih']
    have kc : keys (x :: rest) = x.1 :: keys rest := rfl
    rw [kc]
    by_cases e : x.1 = (Kind.histogram, k)
    · have hm : (Kind.histogram, k) ∉ keys rest := e ▸ hn.1
      rw [if_pos e, if_neg hm, if_pos (by rw [e]; exact List.mem_cons_self)]
      simp
    · have e' : ¬ (Kind.histogram, k) = x.1 := fun y => e y.symm
      rw [if_neg e]
      by_cases hm : (Kind.histogram, k) ∈ keys rest
      · rw [if_pos hm, if_pos (List.mem_cons_of_mem _ hm)]; simp
      · rw [if_neg hm, if_neg (by intro hh; rcases List.mem_cons.mp hh with hh | hh; exact e' hh; exact hm hh)]; simp

theorem histVals_snapshot (s : St) (k : MKey) (h : (keys s.seen).Nodup) :
    histVals (snapshot s).2 k = if seenHas s (.histogram, k) then pend s k else [] := by
  simp only [snapshot, histVals_filterMap s k s.seen h, seenHas]
  by_cases m : (Kind.histogram, k) ∈ keys s.seen
  · simp [m, (lookup_isSome_iff_mem _ _).mpr m]
  · have : (lookup s.seen (Kind.histogram, k)).isSome = false := by
      cases hh : (lookup s.seen (Kind.histogram, k)).isSome
      · rfl
      · exact absurd ((lookup_isSome_iff_mem _ _).mp hh) m
    simp [m, this]

/-! ### `canonKey` does not depend on the order in which labels with distinct names are given -/

theorem strLt_irrefl (a : Str) : strLt a a = false := by
  induction a with
  | nil => rfl
  | cons c cs ih => simp [strLt, ih]

theorem strLt_asymm : ∀ (a b : Str), strLt a b = true → strLt b a = false
  | [], [], h => by simp [strLt] at h
  | [], _ :: _, _ => by simp [strLt]
  | _ :: _, [], h => by simp [strLt] at h
  | a :: as, b :: bs, h => by
    simp only [strLt] at h ⊢
    by_cases h1 : a.toNat < b.toNat
    · have : ¬ b.toNat < a.toNat := by omega
      simp [this, h1]
    · by_cases h2 : b.toNat < a.toNat
      · simp [h1, h2] at h
      · simp only [h1, h2, if_false] at h ⊢
        exact strLt_asymm as bs h

theorem strLt_total : ∀ (a b : Str), a ≠ b → strLt a b = true ∨ strLt b a = true
  | [], [], h => absurd rfl h
  | [], _ :: _, _ => Or.inl (by simp [strLt])
  | _ :: _, [], _ => Or.inr (by simp [strLt])
  | a :: as, b :: bs, h => by
    simp only [strLt]
    by_cases h1 : a.toNat < b.toNat
    · simp [h1]
    · by_cases h2 : b.toNat < a.toNat
      · simp [h2]
      · have e : a = b := by
          apply Char.ext; apply UInt32.toNat_inj.mp
          show a.toNat = b.toNat
          omega
        subst e
        have : as ≠ bs := fun x => h (by rw [x])
        simp only [h1, if_false]
        exact strLt_total as bs this

theorem strLt_trans : ∀ (a b c : Str), strLt a b = true → strLt b c = true → strLt a c = true
  | [], [], _, h, _ => by simp [strLt] at h
  | [], _ :: _, [], _, h => by simp [strLt] at h
  | [], _ :: _, _ :: _, _, _ => by simp [strLt]
  | _ :: _, [], _, h, _ => by simp [strLt] at h
  | _ :: _, _ :: _, [], _, h => by simp [strLt] at h
  | a :: as, b :: bs, c :: cs, h1, h2 => by
    simp only [strLt] at h1 h2 ⊢
    by_cases ab : a.toNat < b.toNat
    · by_cases bc : b.toNat < c.toNat
      · have : a.toNat < c.toNat := by omega
        simp [this]
      · by_cases cb : c.toNat < b.toNat
        · simp [bc, cb] at h2
        · have : a.toNat < c.toNat := by omega
          simp [this]
    · by_cases ba : b.toNat < a.toNat
      · simp [ab, ba] at h1
      · simp only [ab, ba, if_false] at h1
        by_cases bc : b.toNat < c.toNat
        · have : a.toNat < c.toNat := by omega
          simp [this]
        · by_cases cb : c.toNat < b.toNat
          · simp [bc, cb] at h2
          · simp only [bc, cb, if_false] at h2
            have e1 : ¬ a.toNat < c.toNat := by omega
            have e2 : ¬ c.toNat < a.toNat := by omega
            simp only [e1, e2, if_false]
            exact strLt_trans as bs cs h1 h2

/-- inserting two labels with different names commutes -/
theorem insertLabel_comm (a b : Str × Str) (h : a.1 ≠ b.1) :
    ∀ l, insertLabel a (insertLabel b l) = insertLabel b (insertLabel a l) := by
  have tri : (strLt a.1 b.1 = true ∧ strLt b.1 a.1 = false) ∨ (strLt b.1 a.1 = true ∧ strLt a.1 b.1 = false) := by
    rcases strLt_total a.1 b.1 h with t | t
    · exact Or.inl ⟨t, strLt_asymm _ _ t⟩
    · exact Or.inr ⟨t, strLt_asymm _ _ t⟩
  intro l
  induction l with
  | nil =>
    rcases tri with ⟨t1, t2⟩ | ⟨t1, t2⟩ <;> simp [insertLabel, t1, t2]
  | cons y ys ih =>
    by_cases by_ : strLt b.1 y.1 = true <;> by_cases ay : strLt a.1 y.1 = true
    · rcases tri with ⟨t1, t2⟩ | ⟨t1, t2⟩ <;> simp [insertLabel, by_, ay, t1, t2]
    · have nab : strLt a.1 b.1 = false := by
        cases hh : strLt a.1 b.1
        · rfl
        · exact absurd (strLt_trans _ _ _ hh by_) ay
      simp [insertLabel, by_, ay, nab]
    · have nba : strLt b.1 a.1 = false := by
        cases hh : strLt b.1 a.1
        · rfl
        · exact absurd (strLt_trans _ _ _ hh ay) by_
      simp [insertLabel, by_, ay, nba]
    · simp [insertLabel, by_, ay, ih]

theorem fst_inj_of_nodup {α β : Type} (l : List (α × β)) (h : (l.map (·.1)).Nodup) :
    ∀ x ∈ l, ∀ y ∈ l, x.1 = y.1 → x = y := by
  induction l with
  | nil => intro x hx; cases hx
  | cons a rest ih =>
    have hn : a.1 ∉ rest.map (·.1) ∧ (rest.map (·.1)).Nodup := List.nodup_cons.mp h
    intro x hx y hy e
    rcases List.mem_cons.mp hx with h1 | h1
    · rcases List.mem_cons.mp hy with h2 | h2
      · rw [h1, h2]
      · exfalso; apply hn.1; rw [← h1, e]; exact List.mem_map_of_mem h2
    · rcases List.mem_cons.mp hy with h2 | h2
      · exfalso; apply hn.1; rw [← h2, ← e]; exact List.mem_map_of_mem h1
      · exact ih hn.2 x h1 y h2 e

/-- **labels given in any order (names pairwise distinct) yield the same canonical key** — the model's
    counterpart of `Key::eq` comparing label sets, not sequences -/
theorem canonLabels_perm (l1 l2 : List (Str × Str)) (p : l1.Perm l2) (h : (l1.map (·.1)).Nodup) :
    canonLabels l1 = canonLabels l2 := by
  unfold canonLabels
  apply List.Perm.foldr_eq' p
  intro x hx y hy z
  by_cases e : x = y
  · subst e; rfl
  · have : x.1 ≠ y.1 := by
      intro e1
      exact e (fst_inj_of_nodup l1 h x hx y hy e1)
    exact insertLabel_comm y x (fun q => this q.symm) z

end MetricsVerif.Debugging
