import MetricsVerif.Model.TcpProd

/-
Lemmas about the producer / transport step machine `Model/TcpProd.lean` (C11): the inductive invariant of the
code's shape (`sendThenWake`) and the invariant of the degenerate configuration `buffer_size(Some(0))`.
-/
namespace MetricsVerif.TcpProd

/-- every queued event is covered by a wake-up that is pending, by a transport thread that is still inside its
    read loop (it has not seen the channel empty yet), or by an emitter that is about to call `wake()` -/
def Covered (s : Sys) : Prop :=
  s.chan ≠ [] → s.wakePending = true ∨ s.tpc = .loop ∨ ∃ i, (s.ems i).pc = .wake

/-- nothing accepted by the channel is ever lost or reordered on its way into a batch -/
def Conserved (s : Sys) : Prop := s.accepted = s.delivered ++ s.buffered ++ s.chan

def IdleEmpty (s : Sys) : Prop := s.tpc = .idle → s.buffered = []

structure Inv (s : Sys) : Prop where
  shape : s.shape = .sendThenWake
  covered : Covered s
  conserved : Conserved s
  idleEmpty : IdleEmpty s

theorem setEm_ems_self (s : Sys) (i : Nat) (e : Em) : (s.setEm i e).ems i = e := by
  simp [Sys.setEm]

theorem setEm_ems_ne (s : Sys) (i j : Nat) (e : Em) (h : j ≠ i) : (s.setEm i e).ems j = s.ems j := by
  simp [Sys.setEm, h]

theorem trySend_shape (s : Sys) (id : Nat) : (s.trySend id).shape = s.shape := by
  unfold Sys.trySend; split <;> rfl

theorem trySend_conserved (s : Sys) (id : Nat) (h : Conserved s) : Conserved (s.trySend id) := by
  unfold Sys.trySend
  split
  · show s.accepted ++ [id] = s.delivered ++ s.buffered ++ (s.chan ++ [id])
    rw [h]; simp
  · exact h

theorem trySend_idleEmpty (s : Sys) (id : Nat) (h : IdleEmpty s) : IdleEmpty (s.trySend id) := by
  unfold Sys.trySend; split <;> exact h

/-- changing an emitter that is not about to wake keeps the invariant -/
theorem inv_setEm_keep (s : Sys) (i : Nat) (e : Em) (h : Inv s) (hpc : (s.ems i).pc ≠ .wake) :
    Inv (s.setEm i e) := by
  refine ⟨h.shape, ?_, h.conserved, h.idleEmpty⟩
  intro hne
  rcases h.covered hne with hw | hl | ⟨j, hj⟩
  · exact Or.inl hw
  · exact Or.inr (Or.inl hl)
  · refine Or.inr (Or.inr ⟨j, ?_⟩)
    have hji : j ≠ i := by
      intro hji; subst hji; exact hpc hj
    rw [setEm_ems_ne s i j e hji]; exact hj

/-- `try_send` followed by moving to pc `wake`: the new event is covered by the emitter itself -/
theorem inv_send (s : Sys) (i id : Nat) (e : Em) (h : Inv s) (he : e.pc = .wake) :
    Inv ((s.trySend id).setEm i e) :=
  ⟨(trySend_shape s id).trans h.shape,
   fun _ => Or.inr (Or.inr ⟨i, by rw [setEm_ems_self]; exact he⟩),
   trySend_conserved s id h.conserved,
   trySend_idleEmpty s id h.idleEmpty⟩

theorem emGate_inv (s : Sys) (i : Nat) (h : Inv s) (hpc : (s.ems i).pc = .gate) : Inv (emGate s i) := by
  have hnw : (s.ems i).pc ≠ .wake := by rw [hpc]; decide
  unfold emGate
  rw [h.shape]
  split
  · exact inv_setEm_keep s i _ h hnw
  · exact inv_setEm_keep s i _ h hnw

theorem emSend_inv (s : Sys) (i id : Nat) (h : Inv s) : Inv (emSend s i id) := by
  unfold emSend
  rw [h.shape]
  exact inv_send s i id _ h rfl

theorem inv_wake (s : Sys) (i : Nat) (e : Em) (h : Inv s) :
    Inv ({ s with wakePending := true }.setEm i e) :=
  ⟨h.shape, fun _ => Or.inl rfl, h.conserved, h.idleEmpty⟩

theorem emWake_inv (s : Sys) (i : Nat) (h : Inv s) : Inv (emWake s i) := by
  unfold emWake
  split <;> exact inv_wake s i _ h

theorem emStep_inv (s : Sys) (i : Nat) (h : Inv s) : Inv (emStep s i) := by
  unfold emStep
  cases hpc : (s.ems i).pc <;> cases htd : (s.ems i).todo
  · exact h
  · exact emGate_inv s i h hpc
  · exact h
  · exact emSend_inv s i _ h
  · exact h
  · exact emWake_inv s i h
  · exact h
  · exact h

theorem tIdle_inv (s : Sys) (h : Inv s) : Inv (tIdle s) := by
  unfold tIdle
  split
  · exact ⟨h.shape, fun _ => Or.inr (Or.inl rfl), h.conserved, fun ht => by cases ht⟩
  · exact h

theorem tLoop_inv (s : Sys) (h : Inv s) (hl : s.tpc = .loop) : Inv (tLoop s) := by
  unfold tLoop
  split
  · refine ⟨h.shape, fun _ => Or.inl rfl, ?_, fun _ => rfl⟩
    show s.accepted = (s.delivered ++ s.buffered) ++ [] ++ s.chan
    rw [h.conserved]; simp
  · cases hch : s.chan with
    | nil =>
      refine ⟨h.shape, fun hne => absurd hch hne, ?_, fun _ => rfl⟩
      show s.accepted = (s.delivered ++ s.buffered) ++ [] ++ s.chan
      rw [h.conserved]; simp
    | cons id rest =>
      refine ⟨h.shape, fun _ => Or.inr (Or.inl hl), ?_, fun ht => ?_⟩
      · show s.accepted = s.delivered ++ (s.buffered ++ [id]) ++ rest
        rw [h.conserved, hch]; simp
      · have ht' : s.tpc = .idle := ht
        rw [hl] at ht'; cases ht'

theorem tStep_inv (s : Sys) (h : Inv s) : Inv (tStep s) := by
  unfold tStep
  cases htp : s.tpc
  · exact tIdle_inv s h
  · exact tLoop_inv s h htp

theorem step_inv (s : Sys) (tid : Tid) (h : Inv s) : Inv (step s tid) := by
  cases tid with
  | em i => exact emStep_inv s i h
  | t => exact tStep_inv s h

theorem run_inv (s : Sys) (sched : List Tid) (h : Inv s) : Inv (run s sched) := by
  induction sched generalizing s with
  | nil => exact h
  | cons t' ts ih => exact ih _ (step_inv s t' h)

theorem init_inv (cap : Option Nat) (gate : Bool) (progs : List (List Nat)) :
    Inv (init .sendThenWake cap gate progs) :=
  ⟨rfl, fun hne => absurd rfl hne, rfl, fun _ => rfl⟩

/-! ### `buffer_size(Some(0))`: a zero-capacity channel and a zero batch limit -/

/-- nothing is ever accepted, buffered or delivered -/
def Zero (s : Sys) : Prop :=
  s.cap = some 0 ∧ s.chan = [] ∧ s.accepted = [] ∧ s.buffered = [] ∧ s.delivered = []

theorem trySend_zero (s : Sys) (id : Nat) (h : Zero s) : s.trySend id = s := by
  unfold Sys.trySend Sys.room
  rw [h.1]
  simp

theorem emStep_zero (s : Sys) (i : Nat) (h : Zero s) : Zero (emStep s i) := by
  unfold emStep
  cases hpc : (s.ems i).pc <;> cases htd : (s.ems i).todo
  · exact h
  · show Zero (emGate s i)
    unfold emGate
    split
    · exact h
    · cases s.shape <;> exact h
  · exact h
  · show Zero (emSend s i _)
    unfold emSend
    rw [trySend_zero s _ h]
    cases s.shape
    · exact h
    · exact h
    · show Zero (if (s.ems i).needsWake then _ else _)
      split <;> exact h
  · exact h
  · show Zero (emWake s i)
    unfold emWake
    cases s.shape <;> exact h
  · exact h
  · exact h

theorem tStep_zero (s : Sys) (h : Zero s) : Zero (tStep s) := by
  unfold tStep
  cases htp : s.tpc
  · show Zero (tIdle s)
    unfold tIdle
    split
    · exact h
    · exact h
  · show Zero (tLoop s)
    unfold tLoop
    have hlim : s.limit ≤ s.buffered.length := by
      unfold Sys.limit; rw [h.1, h.2.2.2.1]; simp
    rw [if_pos hlim]
    refine ⟨h.1, h.2.1, h.2.2.1, rfl, ?_⟩
    show s.delivered ++ s.buffered = []
    rw [h.2.2.2.2, h.2.2.2.1]; rfl

theorem run_zero (s : Sys) (sched : List Tid) (h : Zero s) : Zero (run s sched) := by
  induction sched generalizing s with
  | nil => exact h
  | cons t' ts ih =>
    refine ih _ ?_
    cases t' with
    | em i => exact emStep_zero s i h
    | t => exact tStep_zero s h

/-- with `Some(0)` the transport thread, once woken, re-arms its own wake-up in every pass: it never blocks
    in `poll` again (a busy loop) -/
def Spinning (s : Sys) : Prop := s.wakePending = true ∨ s.tpc = .loop

theorem step_spinning (s : Sys) (tid : Tid) (hz : Zero s) (h : Spinning s) : Spinning (step s tid) := by
  cases tid with
  | em i =>
    show Spinning (emStep s i)
    unfold emStep
    cases hpc : (s.ems i).pc <;> cases htd : (s.ems i).todo
    · exact h
    · show Spinning (emGate s i)
      unfold emGate
      split
      · exact h
      · cases s.shape <;> exact h
    · exact h
    · show Spinning (emSend s i _)
      unfold emSend
      rw [trySend_zero s _ hz]
      cases s.shape
      · exact h
      · exact h
      · show Spinning (if (s.ems i).needsWake then _ else _)
        split <;> exact h
    · exact h
    · show Spinning (emWake s i)
      unfold emWake
      cases s.shape <;> exact Or.inl rfl
    · exact h
    · exact h
  | t =>
    show Spinning (tStep s)
    unfold tStep
    cases htp : s.tpc
    · show Spinning (tIdle s)
      unfold tIdle
      split
      · exact Or.inr rfl
      · rcases h with h | h
        · rename_i hn; exact absurd h hn
        · rw [htp] at h; cases h
    · show Spinning (tLoop s)
      unfold tLoop
      have hlim : s.limit ≤ s.buffered.length := by
        unfold Sys.limit; rw [hz.1, hz.2.2.2.1]; simp
      rw [if_pos hlim]
      exact Or.inl rfl

end MetricsVerif.TcpProd
