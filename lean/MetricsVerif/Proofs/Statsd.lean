/-
Helper definitions and lemmas for C09 (DogStatsD payload writer).

* framing vocabulary: `frame`, `frames`, `offsetsFrom`, and the representation invariant `InvB` tying the
  writer's `buf` / `offsets` to the list of committed payload bodies plus the uncommitted tail;
* history-independent description of what one call emits: `renderMsg`, `scalarPayloads`, `chunkLoop`,
  `histChunks`, `histPayloads`;
* the refinement lemmas: `commit`, `writeScalar`, `histLoop`, `writeHist`, `payloads` step from invariant
  to invariant and emit exactly what the description says.
-/
import MetricsVerif.Model.Statsd

namespace MetricsVerif.Statsd

/-! ## framing -/

/-- one payload as it is handed to the socket: preceded by its little-endian length in length-prefixed mode -/
def frame (lp : Bool) (p : Bytes) : Bytes := (if lp then le32 p.length else []) ++ p

/-- the byte stream of a list of payloads -/
def frames (lp : Bool) (ps : List Bytes) : Bytes := ps.flatMap (frame lp)

/-- the end offsets of the framed payloads, the first one starting at `s` -/
def offsetsFrom (lp : Bool) : Nat → List Bytes → List Nat
  | _, [] => []
  | s, p :: ps => (s + hdrLen lp + p.length) :: offsetsFrom lp (s + hdrLen lp + p.length) ps

@[simp] theorem le32_length (n : Nat) : (le32 n).length = 4 := rfl

@[simp] theorem placeholder_length (lp : Bool) : (placeholder lp).length = hdrLen lp := by
  cases lp <;> rfl

@[simp] theorem frame_length (lp : Bool) (p : Bytes) : (frame lp p).length = hdrLen lp + p.length := by
  cases lp <;> simp [frame, hdrLen]

@[simp] theorem frames_nil (lp : Bool) : frames lp [] = [] := rfl

theorem frames_cons (lp : Bool) (p : Bytes) (ps : List Bytes) : frames lp (p :: ps) = frame lp p ++ frames lp ps := by
  simp [frames]

theorem frames_append (lp : Bool) (ps qs : List Bytes) : frames lp (ps ++ qs) = frames lp ps ++ frames lp qs := by
  simp [frames]

theorem frames_concat (lp : Bool) (ps : List Bytes) (p : Bytes) : frames lp (ps ++ [p]) = frames lp ps ++ frame lp p := by
  simp [frames]

theorem offsetsFrom_concat (lp : Bool) (ps : List Bytes) (p : Bytes) : ∀ s,
    offsetsFrom lp s (ps ++ [p]) = offsetsFrom lp s ps ++ [s + (frames lp ps).length + hdrLen lp + p.length] := by
  induction ps with
  | nil => intro s; simp [offsetsFrom]
  | cons q qs ih =>
    intro s
    have e : s + hdrLen lp + q.length + (frames lp qs).length + hdrLen lp + p.length
        = s + (frames lp (q :: qs)).length + hdrLen lp + p.length := by
      simp only [frames_cons, List.length_append, frame_length]; omega
    simp only [List.cons_append, offsetsFrom, ih, e]

theorem offsetsFrom_last (lp : Bool) (ps : List Bytes) : ∀ s,
    (offsetsFrom lp s ps).getLast?.getD s = s + (frames lp ps).length := by
  induction ps with
  | nil => intro s; simp [offsetsFrom]
  | cons q qs ih =>
    intro s
    simp only [offsetsFrom, List.getLast?_cons, Option.getD_some, ih, frames_cons, List.length_append,
      frame_length]
    omega

/-- `next_payload` walks the offsets and cuts the framed payloads out of the buffer -/
theorem drainGo_frames (lp : Bool) (ps : List Bytes) : ∀ (pre rest : Bytes),
    drainGo (pre ++ frames lp ps ++ rest) pre.length (offsetsFrom lp pre.length ps) = ps.map (frame lp) := by
  induction ps with
  | nil => intro pre rest; simp [offsetsFrom, drainGo]
  | cons p ps ih =>
    intro pre rest
    have hlen : (pre ++ frame lp p).length = pre.length + hdrLen lp + p.length := by
      simp only [List.length_append, frame_length]; omega
    have hbuf : pre ++ frames lp (p :: ps) ++ rest = (pre ++ frame lp p) ++ frames lp ps ++ rest := by
      simp [frames_cons, List.append_assoc]
    simp only [offsetsFrom, drainGo, List.map_cons]
    rw [hbuf, ← hlen, ih (pre ++ frame lp p) rest]
    congr 1
    rw [List.append_assoc (pre ++ frame lp p), List.take_left' rfl, List.drop_left' rfl]

/-! ## the representation invariant -/

/-- `w` (with fixed configuration `max`, `lp`, all repairs present) holds the committed payload bodies `ps`,
    each within the limit, followed by the placeholder of the next payload and the uncommitted bytes `body`. -/
structure InvB (max : Nat) (lp : Bool) (w : Writer) (ps : List Bytes) (body : Bytes) : Prop where
  hmax : w.max = max
  hlp : w.lp = lp
  hfx : w.fx = Fixes.all
  max32 : max < 4294967296
  buf : w.buf = frames lp ps ++ placeholder lp ++ body
  offs : w.offsets = offsetsFrom lp 0 ps
  bounded : ∀ p ∈ ps, p.length ≤ max

theorem new_inv {max : Nat} {lp : Bool} {w : Writer} (h : new max lp Fixes.all = some w) :
    InvB max lp w [] [] := by
  unfold new at h
  split at h
  · rename_i hm
    cases h
    exact ⟨rfl, rfl, rfl, hm, by simp [prepareForWrite], rfl, by simp⟩
  · cases h

theorem InvB.append {max lp w ps body} (h : InvB max lp w ps body) (x : Bytes) :
    InvB max lp { w with buf := w.buf ++ x } ps (body ++ x) :=
  ⟨h.hmax, h.hlp, h.hfx, h.max32, by simp [h.buf, List.append_assoc], h.offs, h.bounded⟩

theorem InvB.lastOffset {max lp w ps body} (h : InvB max lp w ps body) :
    lastOffset w = (frames lp ps).length := by
  unfold Statsd.lastOffset
  rw [h.offs]
  simpa using offsetsFrom_last lp ps 0

theorem InvB.currentLen {max lp w ps body} (h : InvB max lp w ps body) :
    currentLen w = some body.length := by
  unfold Statsd.currentLen
  rw [h.lastOffset, h.hlp, h.buf]
  simp only [List.length_append, placeholder_length]
  rw [if_pos (by omega)]
  congr 1
  omega

/-- **commit**: the uncommitted bytes become one more payload exactly when they fit, otherwise they are removed
    and nothing else changes.  Never panics. -/
theorem commit_spec {max lp w ps body} (h : InvB max lp w ps body) :
    ∃ w', commit w = some (w', decide (body.length ≤ max))
      ∧ InvB max lp w' (if body.length ≤ max then ps ++ [body] else ps) [] := by
  have hcl := h.currentLen
  have hlo := h.lastOffset
  have hwmax := h.hmax
  have hwlp := h.hlp
  unfold commit
  rw [hcl]
  by_cases hfit : body.length ≤ max
  · have hnot : ¬ w.max < body.length := by omega
    simp only [hnot, if_false, hfit, decide_true, if_true]
    have hoffs : w.offsets ++ [w.buf.length] = offsetsFrom lp 0 (ps ++ [body]) := by
      rw [offsetsFrom_concat, h.offs, h.buf]
      simp only [List.length_append, placeholder_length]
      congr 2
      omega
    have hb : ∀ p ∈ ps ++ [body], p.length ≤ max := by
      intro p hp
      simp only [List.mem_append, List.mem_singleton] at hp
      rcases hp with hp | rfl
      · exact h.bounded p hp
      · exact hfit
    cases lp with
    | false =>
      simp only [hwlp]
      refine ⟨_, rfl, ?_⟩
      refine ⟨hwmax, by simp [prepareForWrite], h.hfx, h.max32, ?_, ?_, hb⟩
      · simp [prepareForWrite, h.buf, frames_concat, frame, placeholder]
      · simpa [prepareForWrite] using hoffs
    | true =>
      have h32 : body.length < 4294967296 := Nat.lt_of_le_of_lt hfit h.max32
      simp only [hwlp, if_true, h32]
      refine ⟨_, rfl, ?_⟩
      refine ⟨hwmax, by simp [prepareForWrite], h.hfx, h.max32, ?_, ?_, hb⟩
      · have hbuf : w.buf = frames true ps ++ ([0, 0, 0, 0] ++ body) := by
          rw [h.buf]; simp [placeholder]
        simp only [prepareForWrite, setSlice, hlo, le32_length]
        rw [hbuf, List.take_left' rfl]
        rw [show (frames true ps).length + 4 = (frames true ps ++ [0, 0, 0, 0]).length by simp]
        rw [← List.append_assoc (frames true ps), List.drop_left' rfl]
        simp [frames_concat, frame, placeholder, List.append_assoc]
      · simpa [prepareForWrite] using hoffs
  · have hlt : w.max < body.length := by omega
    simp only [hlt, if_true, hfit, decide_false, if_false]
    refine ⟨_, rfl, ?_⟩
    refine ⟨hwmax, hwlp, h.hfx, h.max32, ?_, h.offs, h.bounded⟩
    simp only [h.hfx, Fixes.all, if_true, hlo, hwlp]
    rw [h.buf, List.append_nil]
    exact List.take_left' (by simp)

/-! ## what one call emits, independent of the writer's history -/

/-- one message: `name[:value]…|type<trailer>` -/
def renderMsg (nm : Bytes) (ty : UInt8) (tr : Bytes) (chunk : List Bytes) : Bytes :=
  nm ++ chunk.flatMap (58 :: ·) ++ 124 :: ty :: tr

/-- bytes the values of a chunk take, each with its leading `:` -/
def valSize (chunk : List Bytes) : Nat := (chunk.map (fun v => v.length + 1)).sum

@[simp] theorem valSize_nil : valSize [] = 0 := rfl
@[simp] theorem valSize_cons (v : Bytes) (vs : List Bytes) : valSize (v :: vs) = v.length + 1 + valSize vs := by
  simp [valSize]
theorem valSize_append (a b : List Bytes) : valSize (a ++ b) = valSize a + valSize b := by
  simp [valSize, List.sum_append]

theorem joinVals_length (chunk : List Bytes) : (chunk.flatMap (58 :: ·)).length = valSize chunk := by
  induction chunk with
  | nil => rfl
  | cons v vs ih => simp only [List.flatMap_cons, List.length_append, List.length_cons, ih, valSize_cons]

theorem renderMsg_length (nm : Bytes) (ty : UInt8) (tr : Bytes) (chunk : List Bytes) :
    (renderMsg nm ty tr chunk).length = nm.length + tr.length + 2 + valSize chunk := by
  simp only [renderMsg, List.length_append, List.length_cons, joinVals_length]; omega

/-- the trailer of a counter / gauge call (no sample rate) and of a histogram / distribution call (no timestamp) -/
def Call.scalarTrailer (c : Call) : Bytes := trailer c.labels c.globals c.ts none
def Call.histTrailer (c : Call) : Bytes := trailer c.labels c.globals none c.rate
def Call.fullName (c : Call) : Bytes := Statsd.fullName c.pfx c.name

/-- a counter / gauge call emits its one message iff it fits -/
def scalarPayloads (max : Nat) (c : Call) (v : Bytes) : List Bytes :=
  if (renderMsg c.fullName c.ty c.scalarTrailer [v]).length ≤ max then [renderMsg c.fullName c.ty c.scalarTrailer [v]] else []

def scalarDropped (max : Nat) (c : Call) (v : Bytes) : Nat :=
  if (renderMsg c.fullName c.ty c.scalarTrailer [v]).length ≤ max then 0 else 1

/-- greedy packing: values that cannot fit even alone are dropped, a chunk is closed when the next value would
    exceed the limit.  Result: (closed chunks, open chunk, number dropped). -/
def chunkLoop (max minLen : Nat) : List Bytes → List Bytes → List (List Bytes) × List Bytes × Nat
  | cur, [] => ([], cur, 0)
  | cur, v :: vs =>
    if max < minLen + v.length + 1 then
      let r := chunkLoop max minLen cur vs; (r.1, r.2.1, r.2.2 + 1)
    else if max < minLen + valSize cur + v.length + 1 then
      let r := chunkLoop max minLen [v] vs; (cur :: r.1, r.2.1, r.2.2)
    else chunkLoop max minLen (cur ++ [v]) vs

/-- length of a message of this call without any value -/
def Call.minLen (c : Call) : Nat := c.fullName.length + c.histTrailer.length + 2

/-- the chunks a histogram / distribution call is split into, and the number of dropped points -/
def histChunks (max : Nat) (c : Call) (vs : List Bytes) : List (List Bytes) × Nat :=
  if max < c.minLen + 2 then ([], vs.length)
  else
    let r := chunkLoop max c.minLen [] vs
    (r.1 ++ (if r.2.1 = [] then [] else [r.2.1]), r.2.2)

def histPayloads (max : Nat) (c : Call) (vs : List Bytes) : List Bytes :=
  (histChunks max c vs).1.map (renderMsg c.fullName c.ty c.histTrailer)

/-- a value can be sent at all -/
def fits (max minLen : Nat) (v : Bytes) : Bool := decide (minLen + v.length + 1 ≤ max)

theorem chunkLoop_flat (max minLen : Nat) : ∀ (vs cur : List Bytes),
    (chunkLoop max minLen cur vs).1.flatten ++ (chunkLoop max minLen cur vs).2.1 = cur ++ vs.filter (fits max minLen) := by
  intro vs
  induction vs with
  | nil => intro cur; simp [chunkLoop]
  | cons v vs ih =>
    intro cur
    unfold chunkLoop
    by_cases h1 : max < minLen + v.length + 1
    · have : fits max minLen v = false := by simp [fits]; omega
      simp only [h1, if_true, List.filter_cons, this]
      simpa using ih cur
    · have hf : fits max minLen v = true := by simp [fits]; omega
      simp only [h1, if_false, List.filter_cons, hf, if_true]
      by_cases h2 : max < minLen + valSize cur + v.length + 1
      · simp only [h2, if_true, List.flatten_cons, List.append_assoc]
        rw [ih [v]]; simp
      · simp only [h2, if_false]
        rw [ih (cur ++ [v])]; simp

theorem chunkLoop_dropped (max minLen : Nat) : ∀ (vs cur : List Bytes),
    (chunkLoop max minLen cur vs).2.2 + (vs.filter (fits max minLen)).length = vs.length := by
  intro vs
  induction vs with
  | nil => intro cur; simp [chunkLoop]
  | cons v vs ih =>
    intro cur
    unfold chunkLoop
    by_cases h1 : max < minLen + v.length + 1
    · have : fits max minLen v = false := by simp [fits]; omega
      simp only [h1, if_true, List.filter_cons, this, List.length_cons]
      have := ih cur
      simp only [Bool.false_eq_true, if_false]
      omega
    · have hf : fits max minLen v = true := by simp [fits]; omega
      simp only [h1, if_false, List.filter_cons, hf, if_true, List.length_cons]
      by_cases h2 : max < minLen + valSize cur + v.length + 1
      · simp only [h2, if_true]; have := ih [v]; omega
      · simp only [h2, if_false]; have := ih (cur ++ [v]); omega

/-- every chunk is non-empty and, rendered, within the limit -/
theorem chunkLoop_bounded (max minLen : Nat) : ∀ (vs cur : List Bytes),
    (cur ≠ [] → minLen + valSize cur ≤ max) →
    (∀ c ∈ (chunkLoop max minLen cur vs).1, c ≠ [] ∧ minLen + valSize c ≤ max)
    ∧ ((chunkLoop max minLen cur vs).2.1 ≠ [] → minLen + valSize (chunkLoop max minLen cur vs).2.1 ≤ max) := by
  intro vs
  induction vs with
  | nil => intro cur hc; simpa [chunkLoop] using hc
  | cons v vs ih =>
    intro cur hc
    unfold chunkLoop
    by_cases h1 : max < minLen + v.length + 1
    · simp only [h1, if_true]; exact ih cur hc
    · simp only [h1, if_false]
      by_cases h2 : max < minLen + valSize cur + v.length + 1
      · simp only [h2, if_true]
        have hcur : cur ≠ [] := by
          intro e; subst e; simp only [valSize_nil] at h2; omega
        have := ih [v] (fun _ => by simp only [valSize_cons, valSize_nil]; omega)
        refine ⟨?_, this.2⟩
        intro c hcm
        simp only [List.mem_cons] at hcm
        rcases hcm with rfl | hcm
        · exact ⟨hcur, hc hcur⟩
        · exact this.1 c hcm
      · simp only [h2, if_false]
        exact ih (cur ++ [v]) (fun _ => by
          simp only [valSize_append, valSize_cons, valSize_nil]; omega)

/-! ## refinement: the writer's operations emit exactly that -/

/-- **write_counter / write_gauge** -/
theorem writeScalar_spec {max lp w ps} (h : InvB max lp w ps []) (c : Call) (v : Bytes) :
    ∃ w', writeScalar w c v = some (w', (scalarPayloads max c v).length, scalarDropped max c v)
      ∧ InvB max lp w' (ps ++ scalarPayloads max c v) [] := by
  have hb := h.append (renderMsg c.fullName c.ty c.scalarTrailer [v])
  simp only [List.nil_append] at hb
  obtain ⟨w', hc, hi⟩ := commit_spec hb
  have hbuf : w.buf ++ (Statsd.fullName c.pfx c.name ++ 58 :: v ++ 124 :: c.ty :: trailer c.labels c.globals c.ts none)
      = w.buf ++ renderMsg c.fullName c.ty c.scalarTrailer [v] := by
    simp [renderMsg, Call.fullName, Call.scalarTrailer]
  unfold writeScalar
  simp only [hbuf, hc]
  by_cases hfit : (renderMsg c.fullName c.ty c.scalarTrailer [v]).length ≤ max
  · simp only [hfit, decide_true, if_true] at hi ⊢
    exact ⟨w', by simp [scalarPayloads, scalarDropped, hfit], by simpa [scalarPayloads, hfit] using hi⟩
  · simp only [hfit, decide_false, if_false] at hi ⊢
    exact ⟨w', by simp [scalarPayloads, scalarDropped, hfit], by simpa [scalarPayloads, hfit] using hi⟩

/-- the uncommitted text of a histogram in progress: nothing, or the name followed by the chunk's values -/
def openText (nm : Bytes) (cur : List Bytes) : Bytes := if cur = [] then [] else nm ++ cur.flatMap (58 :: ·)

/-- closing a non-empty chunk that is within the limit commits exactly its message -/
theorem histFlush_spec {max lp w ps} (nm : Bytes) (ty : UInt8) (tr : Bytes) (cur : List Bytes)
    (h : InvB max lp w ps (openText nm cur)) (hne : cur ≠ [])
    (hfit : nm.length + tr.length + 2 + valSize cur ≤ max) :
    ∃ w', histFlush w ty tr = some w' ∧ InvB max lp w' (ps ++ [renderMsg nm ty tr cur]) [] := by
  have hb := h.append (124 :: ty :: tr)
  have e : openText nm cur ++ 124 :: ty :: tr = renderMsg nm ty tr cur := by
    simp [openText, hne, renderMsg]
  rw [e] at hb
  obtain ⟨w', hc, hi⟩ := commit_spec hb
  have hl : (renderMsg nm ty tr cur).length ≤ max := by rw [renderMsg_length]; exact hfit
  simp only [hl, decide_true, if_true] at hc hi
  exact ⟨w', by simp [histFlush, hc], hi⟩

/-- **the value loop** of `write_hist_dist_inner` packs like `chunkLoop` and never panics -/
theorem histLoop_spec {max : Nat} {lp : Bool} (nm : Bytes) (ty : UInt8) (tr : Bytes) (minLen : Nat)
    (hmin : minLen = nm.length + tr.length + 2) : ∀ (vs : List Bytes) (s : HSt) (ps : List Bytes) (cur : List Bytes),
    InvB max lp s.w ps (openText nm cur) → s.needsName = cur.isEmpty → s.cur = minLen + valSize cur →
    (cur ≠ [] → minLen + valSize cur ≤ max) →
    ∃ s', histLoop minLen nm ty tr s vs = some s'
      ∧ InvB max lp s'.w (ps ++ (chunkLoop max minLen cur vs).1.map (renderMsg nm ty tr))
          (openText nm (chunkLoop max minLen cur vs).2.1)
      ∧ s'.written = s.written + (chunkLoop max minLen cur vs).1.length
      ∧ s'.dropped = s.dropped + (chunkLoop max minLen cur vs).2.2 := by
  intro vs
  induction vs with
  | nil =>
    intro s ps cur hi _ _ _
    exact ⟨s, by simp [histLoop], by simpa [chunkLoop] using hi, by simp [chunkLoop], by simp [chunkLoop]⟩
  | cons v vs ih =>
    intro s ps cur hi hn hcur hb
    have hwmax := hi.hmax
    unfold histLoop chunkLoop
    by_cases h1 : max < minLen + v.length + 1
    · -- the value cannot fit even alone: dropped
      simp only [hwmax, h1, if_true]
      obtain ⟨s', hs, hi', hw, hd⟩ := ih { s with dropped := s.dropped + 1 } ps cur hi hn hcur hb
      have hd' : s'.dropped = s.dropped + 1 + (chunkLoop max minLen cur vs).2.2 := hd
      exact ⟨s', hs, hi', hw, by rw [hd']; omega⟩
    · simp only [hwmax, h1, if_false]
      by_cases h2 : max < minLen + valSize cur + v.length + 1
      · -- close the current chunk first
        have hne : cur ≠ [] := by
          intro e; subst e; simp only [valSize_nil] at h2; omega
        have h2' : max < s.cur + v.length + 1 := by rw [hcur]; omega
        simp only [h2', h2, if_true]
        obtain ⟨w', hf, hi'⟩ := histFlush_spec nm ty tr cur hi hne (by rw [← hmin]; exact hb hne)
        simp only [hf, Option.map_some]
        have hi2 : InvB max lp { w' with buf := (w'.buf ++ nm) ++ 58 :: v } (ps ++ [renderMsg nm ty tr cur]) (openText nm [v]) := by
          have := (hi'.append nm).append (58 :: v)
          simpa [openText] using this
        obtain ⟨s', hs, hi3, hw, hd⟩ := ih
          { w := { w' with buf := (w'.buf ++ nm) ++ 58 :: v }, needsName := false, cur := minLen + v.length + 1,
            written := s.written + 1, dropped := s.dropped }
          (ps ++ [renderMsg nm ty tr cur]) [v] hi2 (by simp)
          (by simp only [valSize_cons, valSize_nil]; omega) (fun _ => by simp only [valSize_cons, valSize_nil]; omega)
        refine ⟨s', by simpa using hs, ?_, ?_, ?_⟩
        · simpa [List.append_assoc] using hi3
        · rw [hw]; simp only [List.length_cons]; omega
        · simpa using hd
      · -- the value joins the current chunk
        have h2' : ¬ max < s.cur + v.length + 1 := by rw [hcur]; omega
        simp only [h2', h2, if_false]
        have hi2 : InvB max lp { s.w with buf := (if s.needsName = true then s.w.buf ++ nm else s.w.buf) ++ 58 :: v } ps
            (openText nm (cur ++ [v])) := by
          cases cur with
          | nil =>
            have : s.needsName = true := by simpa using hn
            simp only [this, if_true]
            have := (hi.append nm).append (58 :: v)
            simpa [openText] using this
          | cons c cs =>
            have : s.needsName = false := by simpa using hn
            simp only [this, Bool.false_eq_true, if_false]
            have := hi.append (58 :: v)
            simpa [openText, List.append_assoc] using this
        obtain ⟨s', hs, hi3, hw, hd⟩ := ih
          { w := { s.w with buf := (if s.needsName = true then s.w.buf ++ nm else s.w.buf) ++ 58 :: v },
            needsName := false, cur := s.cur + v.length + 1, written := s.written, dropped := s.dropped }
          ps (cur ++ [v]) hi2 (by simp) (by simp only [valSize_append, valSize_cons, valSize_nil, hcur]; omega)
          (fun _ => by simp only [valSize_append, valSize_cons, valSize_nil]; omega)
        exact ⟨s', by simpa using hs, hi3, hw, hd⟩

theorem openText_length_zero (nm : Bytes) (cur : List Bytes) : (openText nm cur).length = 0 ↔ cur = [] := by
  cases cur with
  | nil => simp [openText]
  | cons v vs => simp [openText]

/-- **write_histogram / write_distribution** -/
theorem writeHist_spec {max lp w ps} (h : InvB max lp w ps []) (c : Call) (vs : List Bytes) :
    ∃ w', writeHist w c vs = some (w', (histPayloads max c vs).length, (histChunks max c vs).2)
      ∧ InvB max lp w' (ps ++ histPayloads max c vs) [] := by
  have hwmax := h.hmax
  have hfa : w.fx.a = true := by rw [h.hfx]; rfl
  unfold writeHist histPayloads histChunks
  simp only [hfa, if_true, hwmax]
  have hml : (Statsd.fullName c.pfx c.name).length + (trailer c.labels c.globals none c.rate).length + 2 = c.minLen := rfl
  simp only [hml]
  by_cases h0 : max < c.minLen + 2
  · simp only [h0, if_true]
    exact ⟨w, by simp, by simpa using h⟩
  · simp only [h0, if_false]
    have hstart : InvB max lp w ps (openText c.fullName []) := by simpa [openText] using h
    obtain ⟨s', hs, hi, hw, hd⟩ := histLoop_spec (max := max) (lp := lp) c.fullName c.ty c.histTrailer c.minLen rfl vs
      ⟨w, true, c.minLen, 0, 0⟩ ps [] hstart (by simp) (by simp) (by simp)
    have hbd := (chunkLoop_bounded max c.minLen vs [] (by simp)).2
    simp only [Call.fullName, Call.histTrailer] at hs
    simp only [hs]
    rw [hi.currentLen]
    cases hcur : (chunkLoop max c.minLen [] vs).2.1 with
    | nil =>
      simp only [hcur, openText, if_true, List.length_nil, List.append_nil, List.length_map] at hi ⊢
      refine ⟨s'.w, by simp [hw, hd], by simpa using hi⟩
    | cons x xs =>
      have hne : (chunkLoop max c.minLen [] vs).2.1 ≠ [] := by rw [hcur]; simp
      have hpos : (openText c.fullName (x :: xs)).length ≠ 0 := by
        rw [Ne, openText_length_zero]; simp
      obtain ⟨n, hn⟩ := Nat.exists_eq_succ_of_ne_zero hpos
      rw [hcur] at hi
      simp only [hn]
      obtain ⟨w', hf, hi'⟩ := histFlush_spec c.fullName c.ty c.histTrailer (x :: xs) hi (by simp)
        (by have := hbd hne; rw [hcur] at this; exact this)
      simp only [Call.histTrailer] at hf
      simp only [hf, Option.map_some]
      refine ⟨w', by simp [hw, hd], ?_⟩
      simpa [List.append_assoc, Call.histTrailer] using hi'

/-- **payloads()**: one drain hands out the framed payloads in order and leaves a fresh writer -/
theorem payloads_spec {max lp w ps} (h : InvB max lp w ps []) :
    (payloads w).2 = ps.map (frame lp) ∧ InvB max lp (payloads w).1 [] [] := by
  constructor
  · have := drainGo_frames lp ps [] (placeholder lp)
    simp only [payloads, h.buf, h.offs, List.append_nil]
    simpa using this
  · refine ⟨h.hmax, h.hlp, h.hfx, h.max32, ?_, rfl, by simp⟩
    simp [payloads, h.hfx, Fixes.all, h.hlp]

end MetricsVerif.Statsd
