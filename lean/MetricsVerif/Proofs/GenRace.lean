import MetricsVerif.Model.GenRace
import MetricsVerif.Proofs.ListAt
/-
The generation stamp never runs ahead of the value: in every interleaving of any number of updaters and
observers, an observation that recorded generation `g` read a value that already contains the first `g`
updates.  So "generation unchanged since the last observation" implies "value unchanged since then".
-/
namespace MetricsVerif.GenRace

def midN (u : Upd) : Nat := if u.mid then 1 else 0

structure Inv (T : Nat) (s : Sys) : Prop where
  order : s.bumpFirst = false
  acct : s.applied = s.gen + (s.upds.map midN).sum
  left : s.gen + (s.upds.map (·.todo)).sum = T
  midpos : ∀ u ∈ s.upds, u.mid = true → 0 < u.todo
  omid : ∀ o ∈ s.obss, o.mid = true → o.g ≤ s.applied
  seen : ∀ o ∈ s.obss, ∀ p ∈ o.seen, p.1 ≤ p.2 ∧ p.2 ≤ s.applied

theorem lt_of_get {α : Type} {l : List α} {i : Nat} {x : α} (h : l[i]? = some x) : i < l.length := by
  cases Nat.lt_or_ge i l.length with
  | inl hlt => exact hlt
  | inr hge => rw [List.getElem?_eq_none hge] at h; cases h

theorem step_inv (T : Nat) (s : Sys) (tid : Nat) (h : Inv T s) : Inv T (step s tid) := by
  unfold step
  by_cases ht : tid < s.upds.length
  · simp only [ht, if_true]
    cases hg : s.upds[tid]? with
    | none => exact h
    | some u =>
      simp only
      have hu : u ∈ s.upds := List.mem_of_getElem? hg
      have hm := sum_map_setAt midN s.upds tid
      have hl := sum_map_setAt (fun (u : Upd) => u.todo) s.upds tid
      unfold stepUpd
      rw [h.order]
      by_cases hmid : u.mid = true
      · -- G: the generation is bumped, this updater's write had been counted
        simp only [hmid, if_true, Bool.false_eq_true, if_false]
        have hpos := h.midpos u hu hmid
        have hm' := hm { todo := u.todo - 1, mid := false } u hg
        have hl' := hl { todo := u.todo - 1, mid := false } u hg
        have e1 : midN u = 1 := by simp [midN, hmid]
        have e2 : midN { todo := u.todo - 1, mid := false } = 0 := rfl
        refine { order := rfl, acct := ?_, left := ?_, midpos := ?_, omid := h.omid, seen := h.seen }
        · have := h.acct; simp only at hm' ⊢; omega
        · have := h.left; simp only at hl' ⊢; omega
        · intro x hx hxm
          rcases mem_setAt hx with rfl | hx'
          · cases hxm
          · exact h.midpos x hx' hxm
      · by_cases htodo : u.todo > 0
        · -- W: the value is written
          simp only [hmid, if_false, htodo, if_true, Bool.false_eq_true]
          have hm' := hm { u with mid := true } u hg
          have hl' := hl { u with mid := true } u hg
          have e1 : midN u = 0 := by simp [midN, hmid]
          have e2 : midN { u with mid := true } = 1 := rfl
          refine { order := rfl, acct := ?_, left := ?_, midpos := ?_, omid := ?_, seen := ?_ }
          · have := h.acct; simp only at hm' ⊢; omega
          · have := h.left; simp only at hl' ⊢; omega
          · intro x hx hxm
            rcases mem_setAt hx with rfl | hx'
            · exact htodo
            · exact h.midpos x hx' hxm
          · intro o ho hom; have := h.omid o ho hom; simp only; omega
          · intro o ho p hp; have := h.seen o ho p hp; simp only; omega
        · simp only [hmid, if_false, htodo, Bool.false_eq_true]
          rw [setAt_same' _ _ _ hg]
          exact h
  · simp only [ht, if_false]
    cases hg : s.obss[tid - s.upds.length]? with
    | none => exact h
    | some o =>
      simp only
      have ho : o ∈ s.obss := List.mem_of_getElem? hg
      have hga : s.gen ≤ s.applied := by have := h.acct; omega
      refine { order := h.order, acct := h.acct, left := h.left, midpos := h.midpos, omid := ?_, seen := ?_ }
      · intro x hx hxm
        rcases mem_setAt hx with rfl | hx'
        · unfold stepObs at hxm ⊢
          by_cases hmid : o.mid = true
          · simp [hmid] at hxm
          · by_cases htodo : o.todo > 0
            · simp only [hmid, if_false, htodo, if_true]; exact hga
            · simp only [hmid, if_false, htodo] at hxm; exact absurd hxm hmid
        · exact h.omid x hx' hxm
      · intro x hx p hp
        rcases mem_setAt hx with rfl | hx'
        · unfold stepObs at hp
          by_cases hmid : o.mid = true
          · simp only [hmid, if_true, List.mem_append, List.mem_singleton] at hp
            rcases hp with hp | rfl
            · exact h.seen o ho p hp
            · exact ⟨h.omid o ho hmid, Nat.le_refl _⟩
          · by_cases htodo : o.todo > 0
            · simp only [hmid, if_false, htodo, if_true] at hp; exact h.seen o ho p hp
            · simp only [hmid, if_false, htodo] at hp; exact h.seen o ho p hp
        · exact h.seen x hx' p hp

theorem init_inv (updates observations : List Nat) : Inv (total updates) (init false updates observations) := by
  have h1 : ∀ l : List Nat, ((l.map (fun n => ({ todo := n, mid := false } : Upd))).map midN).sum = 0 := by
    intro l; induction l with
    | nil => rfl
    | cons x xs ih => simp only [List.map_cons, List.sum_cons, ih]; rfl
  have h2 : ∀ l : List Nat, ((l.map (fun n => ({ todo := n, mid := false } : Upd))).map (·.todo)).sum = l.sum := by
    intro l; induction l with
    | nil => rfl
    | cons x xs ih => simp only [List.map_cons, List.sum_cons, ih]
  refine { order := rfl, acct := by simp only [init, h1], left := by simp only [init, h2, total, Nat.zero_add],
           midpos := ?_, omid := ?_, seen := ?_ }
  · intro u hu hm; simp only [init, List.mem_map] at hu; obtain ⟨n, _, rfl⟩ := hu; cases hm
  · intro o ho hm; simp only [init, List.mem_map] at ho; obtain ⟨n, _, rfl⟩ := ho; cases hm
  · intro o ho p hp; simp only [init, List.mem_map] at ho; obtain ⟨n, _, rfl⟩ := ho; cases hp

theorem run_inv (T : Nat) (sched : List Nat) : ∀ s, Inv T s → Inv T (run s sched) := by
  induction sched with
  | nil => intro s h; exact h
  | cons t ts ih => intro s h; exact ih _ (step_inv T s t h)

theorem quiescent_sums (s : Sys) (hq : quiescent s = true) :
    (s.upds.map midN).sum = 0 ∧ (s.upds.map (·.todo)).sum = 0 := by
  unfold quiescent at hq
  rw [List.all_eq_true] at hq
  have : ∀ l : List Upd, (∀ u ∈ l, (u.todo == 0 && !u.mid) = true) →
      (l.map midN).sum = 0 ∧ (l.map (·.todo)).sum = 0 := by
    intro l; induction l with
    | nil => intro _; exact ⟨rfl, rfl⟩
    | cons x xs ih =>
      intro hl
      have hx := hl x (by simp)
      obtain ⟨i1, i2⟩ := ih (fun u hu => hl u (by simp [hu]))
      simp only [Bool.and_eq_true, beq_iff_eq, Bool.not_eq_true'] at hx
      simp [midN, hx.1, hx.2, i1, i2]
  exact this _ hq

end MetricsVerif.GenRace
